#!/bin/sh
# Builds the symbolic checker offline from files on disk.
set -e
cd "$(dirname "$0")"
export PATH=/opt/veriftools/go1.26.8/bin:$PATH
export GOFLAGS=-mod=mod GOPROXY=off GOSUMDB=off GOTOOLCHAIN=local
mkdir -p bin out/replay evidence
(cd engine && go build -o ../bin/symgo ./cmd/symgo)
echo "built bin/symgo"
