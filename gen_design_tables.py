#!/usr/bin/env python3
"""Regenerates DESIGN_HARNESSES.md from evidence/*.json."""
import json,glob
out=["# Harness inventory (generated from evidence/*.json by gen_design_tables.py)\n",
"One row per harness of the last run: explored paths by status, bounds (zzParam values), assertions reached.\n"]
for f in sorted(glob.glob('/verif/evidence/C*.json')):
    e=json.load(open(f)); c=e['coverage']
    out.append(f"\n## {e['property_id']} ({e['tier']}; {c['states']} paths, {c['transitions']} SSA instructions, {c['traces_validated_against_impl']} traces validated natively, wall {e['wall_s']} s)\n")
    out.append("| harness | config | what it decides | paths | bounds | #assertion ids |\n|---|---|---|---|---|---|\n")
    for h in c['harnesses']:
        st=", ".join(f"{k}:{v}" for k,v in sorted(h['status'].items()))
        b=", ".join(f"{k}={v}" for k,v in sorted((h.get('bounds') or {}).items()) if not k.startswith('!'))
        doc=(h.get('doc') or '').replace('|','/')[:160]
        out.append(f"| {h['harness']} | {h['config']} | {doc} | {st} | {b} | {len(h.get('assertions_reached') or [])} |\n")
open('/verif/DESIGN_HARNESSES.md','w').write("".join(out))
