//go:build verif

package resolve

import "go.starlark.net/syntax"

func zzResolveMsg(src string) string {
	f, err := syntax.Parse("x.star", src, 0)
	if err != nil {
		return "parse: " + err.Error()
	}
	isPre := func(name string) bool { return false }
	if err := File(f, isPre, isPre); err != nil {
		return err.Error()
	}
	return "ok"
}

// zzH03_maporder_spellcheck: the "did you mean" hint of an undefined-name error is the
// same under every iteration order of the resolver's binding maps (several candidates at
// the same edit distance, in nested blocks).
func zzH03_maporder_spellcheck() {
	suffix := []string{"x", "z", "rt"}[zzChoice("suffix", 3)]
	src := "def f(cat, car):\n    cab = 3\n    can = [cap for cap in [1]]\n    return ca" + suffix + "\n"
	zzMapOrderNondet(false)
	ref := zzResolveMsg(src)
	zzMapOrderNondet(true)
	got := zzResolveMsg(src)
	zzMapOrderNondet(false)
	// natively Go randomises the order itself: repeat
	if !zzSymbolic() {
		for i := 0; i < 200 && got == ref; i++ {
			got = zzResolveMsg(src)
		}
	}
	zzObserve("msg", ref)
	zzAssert(ref != "ok", "C03.maporder.spellcheck.reports_error")
	zzAssert(got == ref, "C03.maporder.spellcheck.same_hint")
	zzReach("end")
}
