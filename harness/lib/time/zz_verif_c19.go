//go:build verif

package time

import (
	"time"

	"go.starlark.net/starlark"
	"go.starlark.net/syntax"
)

const zzWin = int64(1) << 61

// zzSymTime returns a Time built by the real time.Unix from symbolic
// (sec, nsec), 0 <= nsec < 1e9, |instant| < 2^61 ns, and the instant in ns.
func zzSymTime(name string) (Time, int64) {
	sec := zzI64(name + "_sec")
	nsec := zzI64(name + "_nsec")
	zzAssume(zzAnd(nsec >= 0, nsec < 1000000000))
	zzAssume(zzAnd(sec >= -zzWin/1000000000, sec < zzWin/1000000000))
	return Time(time.Unix(sec, nsec)), sec*1000000000 + nsec
}

func zzH19_probe_add() {
	zzRelDiv(true)
	t, tn := zzSymTime("t")
	d := zzI64("d")
	zzAssume(zzAnd(d > -zzWin, d < zzWin))
	r, err := starlark.Binary(syntax.PLUS, t, Duration(d))
	zzAssert(err == nil, "C19.probe.noerr")
	rt, ok := r.(Time)
	zzAssert(ok, "C19.probe.type")
	zzAssert(time.Time(rt).UnixNano() == tn+d, "C19.probe.add")
	zzReach("end")
}

func zzH19_probe_sub() {
	zzRelDiv(true)
	u, un := zzSymTime("u")
	d := zzI64("d")
	zzAssume(zzAnd(d > -zzWin, d < zzWin))
	t := Time(time.Time(u).Add(time.Duration(d)))
	// stepping stone for the solver (proved, then available as a lemma): the
	// second/nanosecond difference that time.Time.Sub forms is d.
	tt, uu := time.Time(t), time.Time(u)
	zzAssert((tt.Unix()-uu.Unix())*1000000000+int64(int32(tt.Nanosecond())-int32(uu.Nanosecond())) == d, "C19.lemma.subdiff")
	r, err := starlark.Binary(syntax.MINUS, t, u)
	zzAssert(err == nil, "C19.probe.noerr")
	rd, ok := r.(Duration)
	zzAssert(ok, "C19.probe.type")
	zzAssert(int64(rd) == d, "C19.probe.sub")
	zzAssert(int64(rd) == time.Time(t).UnixNano()-un, "C19.probe.sub2")
	zzReach("end")
}

func zzH19_probe_alg() {
	zzRelDiv(true)
	t, _ := zzSymTime("t")
	d := zzI64("d")
	zzAssume(zzAnd(d > -zzWin, d < zzWin))
	r1, err := starlark.Binary(syntax.PLUS, t, Duration(d))
	zzAssert(err == nil, "C19.probe.noerr")
	r2, err := starlark.Binary(syntax.MINUS, r1, Duration(d))
	zzAssert(err == nil, "C19.probe.noerr2")
	zzAssert(time.Time(r2.(Time)).Equal(time.Time(t)), "C19.probe.alg")
	zzReach("end")
}
