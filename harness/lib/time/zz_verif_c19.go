//go:build verif

package time

// C19 "Time and duration arithmetic is consistent".
//
// Values: Duration = symbolic int64 (all values). Time = real time.Unix(sec, nsec)
// with symbolic sec/nsec, 0 <= nsec < 1e9, |instant| < 2^61 ns (+-73 years around
// the epoch), no monotonic reading, zone Local/UTC/fixed. The real methods
// time.Time.{Add,Sub,Before,After,Equal,Unix,UnixNano,Nanosecond} are interpreted.
// Reference ("exact nanosecond arithmetic"): an instant is its normalised pair
// (sec, nsec); shifting by a duration is done column-wise by zzRefShift.

import (
	"math"
	"math/bits"
	"time"

	"go.starlark.net/starlark"
	"go.starlark.net/syntax"
)

const (
	zzWin  = int64(1) << 61
	zzNano = int64(1000000000)
)

// zzSymTime returns a Time built by the real time.Unix from symbolic
// (sec, nsec), 0 <= nsec < 1e9, |instant| < 2^61 ns.
func zzSymTime(name string) (t Time, sec, nsec int64) {
	sec = zzI64(name + "_sec")
	nsec = zzI64(name + "_nsec")
	zzAssume(zzAnd(nsec >= 0, nsec < zzNano))
	zzAssume(zzAnd(sec >= -(zzWin / zzNano), sec < zzWin/zzNano))
	return Time(time.Unix(sec, nsec)), sec, nsec
}

// zzPair reads back the normalised (sec, nsec) pair of a time value.
func zzPair(t time.Time) (sec, nsec int64) { return t.Unix(), int64(t.Nanosecond()) }

// zzOffsetIs reports whether instant b = (sb, nb) is exactly d nanoseconds after
// instant a = (sa, na), both normalised (0 <= n < 1e9). No division: the second
// difference is bounded and has the sign of d, hence ds*1e9 + dn is computed
// without wrap-around and equals d as an integer, not merely modulo 2^64.
func zzOffsetIs(sa, na, sb, nb, d int64) bool {
	ds := sb - sa
	norm := zzAnd(zzAnd(na >= 0, na < zzNano), zzAnd(nb >= 0, nb < zzNano))
	near := zzAnd(ds >= -9223372037, ds <= 9223372037)
	sign := zzAnd(zzImplies(d >= 0, ds >= 0), zzImplies(d <= 0, ds <= 0))
	return zzAnd(zzAnd(norm, near), zzAnd(sign, ds*zzNano+(nb-na) == d))
}

// zzRefShift is the reference for "the instant d nanoseconds after (sa, na)"
// (sign = +1) or "before" (sign = -1), in normalised (sec, nsec) form: d is split
// into whole seconds and a sub-second rest (truncated division by the constant
// 1e9; under zzRelDivMode the quotient and remainder are pinned by their
// defining relation, not computed by the code under test), each part is added
// to / subtracted from its column, and one carry or borrow renormalises nsec.
// Exact for every int64 d, including the most negative one for sign = -1.
func zzRefShift(sa, na, d int64, sign int64) (s, n int64) {
	q, r := d/zzNano, d%zzNano
	s, n = sa+sign*q, na+sign*r
	up, down := n >= zzNano, n < 0
	n = zzIteI64(up, n-zzNano, zzIteI64(down, n+zzNano, n))
	s = zzIteI64(up, s+1, zzIteI64(down, s-1, s))
	return s, n
}

func zzAddOvf(x, y int64) bool { // x+y is not representable
	s := x + y
	return zzOr(zzAnd(zzAnd(x >= 0, y >= 0), s < 0), zzAnd(zzAnd(x < 0, y < 0), s >= 0))
}

func zzSubOvf(x, y int64) bool { // x-y is not representable
	s := x - y
	return zzOr(zzAnd(zzAnd(x >= 0, y < 0), s < 0), zzAnd(zzAnd(x < 0, y >= 0), s >= 0))
}

func zzAbsU(x int64) uint64 { return uint64(zzIteI64(x < 0, -x, x)) }

func zzMulOvf(x, y int64) bool { // x*y is not representable (128-bit product of magnitudes)
	hi, lo := bits.Mul64(zzAbsU(x), zzAbsU(y))
	neg := (x < 0) != (y < 0)
	return zzOr(hi != 0, zzOr(lo > 1<<63, zzAnd(lo == 1<<63, zzNot(neg))))
}

// operand kinds
const (
	zzKT = iota // time
	zzKD        // duration
	zzKI        // int
	zzKF        // float
	zzKS        // other (string)
	zzNK
)

var zzKindName = [...]string{"time", "dur", "int", "float", "str"}

type zzOperand struct {
	v         starlark.Value
	sec, nsec int64   // time
	d         int64   // duration
	i         int64   // int, when iok
	iok       bool    // int fits int64
	f         float64 // float
}

func zzMakeOperand(name string, kind int) zzOperand {
	var o zzOperand
	switch kind {
	case zzKT:
		var t Time
		t, o.sec, o.nsec = zzSymTime(name)
		o.v = t
	case zzKD:
		o.d = zzI64(name + "_d")
		o.v = Duration(o.d)
	case zzKI:
		if zzChoice(name+"_ishape", 2) == 0 {
			o.i, o.iok = zzI64(name+"_i"), true
			o.v = starlark.MakeInt64(o.i)
		} else { // beyond int64
			u := zzU64(name + "_u")
			zzAssume(u > math.MaxInt64)
			o.v = starlark.MakeUint64(u)
		}
	case zzKF:
		o.f = zzF64(name + "_f")
		o.v = starlark.Float(o.f)
	default:
		o.v = starlark.String("1h")
	}
	return o
}

var zzOps = [...]syntax.Token{syntax.PLUS, syntax.MINUS, syntax.STAR, syntax.SLASH, syntax.SLASHSLASH, syntax.PERCENT}
var zzOpName = [...]string{"plus", "minus", "star", "slash", "slashslash", "percent"}

func zzWantDur(id string, r starlark.Value, err error, want int64, exact bool) {
	zzAssert(err == nil, id+".ok")
	d, isD := r.(Duration)
	zzAssert(isD, id+".type")
	zzObserve("dur", int64(d))
	// the value is the wrapped 64-bit result; it is the exact result unless the
	// exact one is not representable, which ought to be rejected (region).
	zzAssertExcept(zzAnd(int64(d) == want, exact), id+".exact", zzNot(exact))
}

// H19.1 dispatch: for every ordered pair of operand kinds with at least one
// time/duration and every arithmetic operator, starlark.Binary (hence
// Duration.Binary / Time.Binary on both sides) returns what the documented
// table gives for the operands in the order written, or an error.
// One harness per group of kind pairs (same body).

//verif:unwind 40
func zzH19_dispatch_dur_dur() { zzDispatch(zzKD, zzKD) }

//verif:unwind 40
//verif:timeout 240000
func zzH19_dispatch_time_dur() {
	if zzChoice("order", 2) == 0 {
		zzDispatch(zzKT, zzKD)
	} else {
		zzDispatch(zzKD, zzKT)
	}
}

//verif:unwind 40
//verif:timeout 240000
func zzH19_dispatch_time_time() { zzDispatch(zzKT, zzKT) }

//verif:unwind 40
func zzH19_dispatch_dur_int() {
	if zzChoice("order", 2) == 0 {
		zzDispatch(zzKD, zzKI)
	} else {
		zzDispatch(zzKI, zzKD)
	}
}

//verif:unwind 40
func zzH19_dispatch_dur_float() {
	if zzChoice("order", 2) == 0 {
		zzDispatch(zzKD, zzKF)
	} else {
		zzDispatch(zzKF, zzKD)
	}
}

// time x {int, float, str}, duration x str, both orders
//
//verif:unwind 40
func zzH19_dispatch_other() {
	pairs := [...][2]int{{zzKT, zzKI}, {zzKI, zzKT}, {zzKT, zzKF}, {zzKF, zzKT}, {zzKT, zzKS}, {zzKS, zzKT}, {zzKD, zzKS}, {zzKS, zzKD}}
	p := pairs[zzChoice("pair", len(pairs))]
	zzDispatch(p[0], p[1])
}

func zzDispatch(lk, rk int) {
	if lk == zzKT && rk == zzKT {
		zzRelDivMode(1) // signed relation: suits the multiplication in time.Time.Sub
	} else {
		zzRelDivMode(2) // magnitude relation: d and -d share their quotient
	}
	oi := zzChoice("op", len(zzOps))
	op := zzOps[oi]
	var x, y zzOperand
	var d0 int64
	if lk == zzKT && rk == zzKT && op == syntax.MINUS {
		// two instants: y symbolic, x = y + d0 through the real Add (every pair of
		// instants in the window arises this way: Add is proved exact below).
		y = zzMakeOperand("y", zzKT)
		d0 = zzI64("d0")
		zzAssume(zzAnd(d0 > -zzWin, d0 < zzWin))
		xt := time.Time(y.v.(Time)).Add(time.Duration(d0))
		x.v = Time(xt)
		x.sec, x.nsec = zzPair(xt)
		ws, wn := zzRefShift(y.sec, y.nsec, d0, +1)
		zzAssert(zzAnd(x.sec == ws, x.nsec == wn), "C19.lemma.add_exact")
		// stepping stone (proved, then a lemma): the difference time.Time.Sub forms is d0
		zzAssert((x.sec-y.sec)*zzNano+int64(int32(x.nsec)-int32(y.nsec)) == d0, "C19.lemma.subdiff")
	} else {
		x = zzMakeOperand("x", lk)
		y = zzMakeOperand("y", rk)
	}
	r, err := starlark.Binary(op, x.v, y.v)
	zzObserve("failed", err != nil)
	id := "C19.dispatch." + zzKindName[lk] + "_" + zzOpName[oi] + "_" + zzKindName[rk]
	switch {
	// ---- documented: duration + duration, duration - duration
	case op == syntax.PLUS && lk == zzKD && rk == zzKD:
		zzWantDur(id, r, err, x.d+y.d, zzNot(zzAddOvf(x.d, y.d)))
	case op == syntax.MINUS && lk == zzKD && rk == zzKD:
		zzWantDur(id, r, err, x.d-y.d, zzNot(zzSubOvf(x.d, y.d)))

	// ---- time + duration, duration + time, time - duration
	case op == syntax.PLUS && (lk == zzKT && rk == zzKD || lk == zzKD && rk == zzKT):
		t, d := x, y.d
		if lk == zzKD {
			t, d = y, x.d
		}
		zzAssert(err == nil, id+".ok")
		rt, isT := r.(Time)
		zzAssert(isT, id+".type")
		rs, rn := zzPair(time.Time(rt))
		zzObserve("rs", rs)
		zzObserve("rn", rn)
		ws, wn := zzRefShift(t.sec, t.nsec, d, +1)
		zzAssert(zzAnd(rs == ws, rn == wn), id+".exact")
	case op == syntax.MINUS && lk == zzKT && rk == zzKD:
		zzAssert(err == nil, id+".ok")
		rt, isT := r.(Time)
		zzAssert(isT, id+".type")
		rs, rn := zzPair(time.Time(rt))
		zzObserve("rs", rs)
		zzObserve("rn", rn)
		// (-d is not representable for the minimum duration.)
		ws, wn := zzRefShift(x.sec, x.nsec, y.d, -1)
		zzAssertExcept(zzAnd(rs == ws, rn == wn), id+".exact", y.d == math.MinInt64)

	// ---- time - time
	case op == syntax.MINUS && lk == zzKT && rk == zzKT:
		zzWantDur(id, r, err, d0, true)

	// ---- duration * int, int * duration (commutative)
	case op == syntax.STAR && (lk == zzKD && rk == zzKI || lk == zzKI && rk == zzKD):
		d, n := x, y
		if lk == zzKI {
			d, n = y, x
		}
		if !n.iok {
			zzAssert(err != nil, id+".bigint_rejected")
			break
		}
		zzWantDur(id, r, err, d.d*n.i, zzNot(zzMulOvf(d.d, n.i)))

	// ---- duration / duration = float
	case op == syntax.SLASH && lk == zzKD && rk == zzKD:
		if y.d == 0 {
			zzAssert(err != nil, id+".zero_rejected")
			break
		}
		zzAssert(err == nil, id+".ok")
		f, isF := r.(starlark.Float)
		zzAssert(isF, id+".type")
		zzObserve("f", float64(f))
		// mirror form (decided by term identity; the IEEE quotient itself is trusted)
		zzAssert(zzSameF64(float64(f), float64(x.d)/float64(y.d)), id+".quotient")

	// ---- duration / int = duration (truncated quotient)
	case op == syntax.SLASH && lk == zzKD && rk == zzKI:
		if !y.iok {
			zzAssert(err != nil, id+".bigint_rejected")
			break
		}
		if y.i == 0 {
			zzAssert(err != nil, id+".zero_rejected")
			break
		}
		// MinInt64 / -1 is not representable
		zzWantDur(id, r, err, x.d/y.i, zzNot(zzAnd(x.d == math.MinInt64, y.i == -1)))

	// ---- duration / float = duration
	case op == syntax.SLASH && lk == zzKD && rk == zzKF:
		if y.f == 0 {
			zzAssert(err != nil, id+".zero_rejected")
			break
		}
		// mirror form: truncation of the IEEE quotient of the operands in this order
		// (a NaN quotient: zzH19_durfloat_nan; overflowing quotients are outside the claim)
		zzWantDur(id, r, err, int64(float64(x.d)/y.f), true)

	// ---- duration // duration = int (floored quotient, as // on ints)
	case op == syntax.SLASHSLASH && lk == zzKD && rk == zzKD:
		if y.d == 0 {
			zzAssert(err != nil, id+".zero_rejected")
			break
		}
		if B := zzParam("floordiv_bits", 12, 32); B < 64 { // symbolic/symbolic 64-bit division is slow
			lim := int64(1) << uint(B-1)
			zzAssume(zzAnd(zzAnd(x.d >= -lim, x.d < lim), zzAnd(y.d >= -lim, y.d < lim)))
		}
		zzAssert(err == nil, id+".ok")
		n, isI := r.(starlark.Int)
		zzAssert(isI, id+".type")
		got, fits := n.Int64()
		zzObserve("q", got)
		q, rem := x.d/y.d, x.d%y.d
		adj := zzAnd(rem != 0, (rem < 0) != (y.d < 0))
		minq := zzAnd(x.d == math.MinInt64, y.d == -1) // quotient 2^63
		want := q - zzIteI64(adj, 1, 0)
		zzAssertExcept(zzAnd(zzAnd(fits, got == want), zzNot(minq)), id+".floor", zzOr(adj, minq))

	// ---- everything else is undocumented and must be rejected
	// (duration - time used to evaluate time - duration, and float / duration used to evaluate
	// duration / float: both fixed in /repo, see known_findings.json "fixed")
	default:
		zzAssert(err != nil, id+".rejected")
	}
	zzReach("end")
}

// zzH19_durfloat_nan: duration / float with a quotient that is not a number (NaN
// divisor, any duration) must be rejected, not converted; a divisor of 1 gives
// the duration back.
func zzH19_durfloat_nan() {
	x := zzI64("x_d")
	if zzChoice("f", 2) == 0 {
		r, err := starlark.Binary(syntax.SLASH, Duration(x), starlark.Float(1))
		zzAssert(err == nil, "C19.durfloat.one_ok")
		d, isD := r.(Duration)
		zzAssert(isD, "C19.durfloat.one_type")
		zzObserve("d", int64(d))
		one := 1.0
		zzAssert(int64(d) == int64(float64(x)/one), "C19.durfloat.one_value") // mirror form
	} else {
		_, err := starlark.Binary(syntax.SLASH, Duration(x), starlark.Float(math.NaN()))
		zzObserve("failed", err != nil)
		zzAssertExcept(err != nil, "C19.durfloat.nan_rejected", true)
	}
	zzReach("end")
}

func zzMustTime(v starlark.Value, err error, id string) (sec, nsec int64) {
	zzAssert(err == nil, id+".ok")
	t, isT := v.(Time)
	zzAssert(isT, id+".type")
	return zzPair(time.Time(t))
}

// zzH19_algebra (H19.2): through the real starlark.Binary,
// (t + d) - d == t, (t2 - t1) + t1 == t2, t + d == d + t, and the duration group
// laws d1 + d2 - d2 == d1, d1 - d2 + d2 == d1 (which hold even when the
// intermediate sum wraps). Times as in zzSymTime; |d| < 2^61 ns; t2 = t1 + d0 with |d0| < 2^61 ns.
//
//verif:unwind 40
func zzH19_algebra_add_sub() { zzAlgebra(0) }

//verif:unwind 40
//verif:timeout 180000
func zzH19_algebra_sub_add() { zzAlgebra(1) }

//verif:unwind 40
func zzH19_algebra_commute() { zzAlgebra(2) }

//verif:unwind 40
func zzH19_algebra_dur() { zzAlgebra(3) }

func zzAlgebra(law int) {
	switch law {
	case 0: // (t + d) - d == t
		zzRelDivMode(2)
		t, sec, nsec := zzSymTime("t")
		d := zzI64("d")
		zzAssume(zzAnd(d > -zzWin, d < zzWin))
		r1, err := starlark.Binary(syntax.PLUS, t, Duration(d))
		zzAssert(err == nil, "C19.algebra.add_sub.ok1")
		r2, err := starlark.Binary(syntax.MINUS, r1, Duration(d))
		s2, n2 := zzMustTime(r2, err, "C19.algebra.add_sub")
		zzObserve("s2", s2)
		zzAssert(zzAnd(s2 == sec, n2 == nsec), "C19.algebra.add_sub.identity")
		eq, err := starlark.Equal(r2, t)
		zzAssert(zzAnd(err == nil, eq), "C19.algebra.add_sub.equal")
	case 1: // (t2 - t1) + t1 == t2
		zzRelDivMode(1)
		t1, s1, n1 := zzSymTime("t1")
		d0 := zzI64("d0")
		zzAssume(zzAnd(d0 > -zzWin, d0 < zzWin))
		t2v := time.Time(t1).Add(time.Duration(d0))
		t2 := Time(t2v)
		s2, n2 := zzPair(t2v)
		// stepping stone: the difference time.Time.Sub forms is d0 (proved, then a lemma)
		zzAssert((s2-s1)*zzNano+int64(int32(n2)-int32(n1)) == d0, "C19.lemma.subdiff")
		diff, err := starlark.Binary(syntax.MINUS, t2, t1)
		zzAssert(err == nil, "C19.algebra.sub_add.ok1")
		dd, isD := diff.(Duration)
		zzAssert(isD, "C19.algebra.sub_add.type")
		zzObserve("diff", int64(dd))
		zzAssert(int64(dd) == d0, "C19.algebra.sub_add.difference")
		back, err := starlark.Binary(syntax.PLUS, diff, t1)
		sb, nb := zzMustTime(back, err, "C19.algebra.sub_add")
		zzAssert(zzAnd(sb == s2, nb == n2), "C19.algebra.sub_add.identity")
		eq, err := starlark.Equal(back, t2)
		zzAssert(zzAnd(err == nil, eq), "C19.algebra.sub_add.equal")
	case 2: // t + d == d + t
		zzRelDivMode(2)
		t, _, _ := zzSymTime("t")
		d := zzI64("d")
		a, err := starlark.Binary(syntax.PLUS, t, Duration(d))
		sa, na := zzMustTime(a, err, "C19.algebra.commute_l")
		b, err := starlark.Binary(syntax.PLUS, Duration(d), t)
		sb, nb := zzMustTime(b, err, "C19.algebra.commute_r")
		zzAssert(zzAnd(sa == sb, na == nb), "C19.algebra.commute")
	default: // duration group laws
		d1, d2 := zzI64("d1"), zzI64("d2")
		s, err := starlark.Binary(syntax.PLUS, Duration(d1), Duration(d2))
		zzAssert(err == nil, "C19.algebra.dur.ok1")
		r, err := starlark.Binary(syntax.MINUS, s, Duration(d2))
		zzAssert(err == nil, "C19.algebra.dur.ok2")
		rd, isD := r.(Duration)
		zzAssert(isD, "C19.algebra.dur.type")
		zzObserve("rd", int64(rd))
		zzAssert(int64(rd) == d1, "C19.algebra.dur.add_sub")
		m, err := starlark.Binary(syntax.MINUS, Duration(d1), Duration(d2))
		zzAssert(err == nil, "C19.algebra.dur.ok3")
		r2, err := starlark.Binary(syntax.PLUS, m, Duration(d2))
		zzAssert(err == nil, "C19.algebra.dur.ok4")
		zzAssert(int64(r2.(Duration)) == d1, "C19.algebra.dur.sub_add")
	}
	zzReach("end")
}

var zzCmpOps = [...]syntax.Token{syntax.EQL, syntax.NEQ, syntax.LT, syntax.LE, syntax.GT, syntax.GE}

// zzRefCmp is the view of a three-way result c (<0, 0, >0) under operator i of zzCmpOps.
func zzRefCmp(i int, lt, eq bool) bool {
	switch i {
	case 0:
		return eq
	case 1:
		return zzNot(eq)
	case 2:
		return lt
	case 3:
		return zzOr(lt, eq)
	case 4:
		return zzNot(zzOr(lt, eq))
	}
	return zzNot(lt)
}

func zzInZone(t Time, z int) Time {
	switch z {
	case 1:
		return Time(time.Time(t).UTC())
	case 2:
		return Time(time.Time(t).In(time.FixedZone("east", 5*3600+1800)))
	}
	return t
}

// zzH19_order (H19 Cmp/Hash): through the real starlark.Compare, the six
// comparison operators on durations are the views of the int64 order, on times
// the views of the lexicographic order of the normalised (sec, nsec) pairs,
// whatever zone each operand carries (Local, UTC, a fixed zone); Cmp is
// antisymmetric; equal values have equal hashes; Hash does not depend on the zone.
//
//verif:unwind 40
func zzH19_order() {
	oi := zzChoice("op", len(zzCmpOps))
	if zzChoice("kind", 2) == 0 {
		x, y := zzI64("x"), zzI64("y")
		got, err := starlark.Compare(zzCmpOps[oi], Duration(x), Duration(y))
		zzAssert(err == nil, "C19.order.dur.ok")
		zzObserve("got", got)
		zzAssert(got == zzRefCmp(oi, x < y, x == y), "C19.order.dur.view")
		c1, _ := Duration(x).Cmp(Duration(y), 1)
		c2, _ := Duration(y).Cmp(Duration(x), 1)
		zzAssert(zzAnd(c1 == -c2, zzAnd(c1 >= -1, c1 <= 1)), "C19.order.dur.antisymmetric")
		h1, e1 := Duration(x).Hash()
		h2, e2 := Duration(y).Hash()
		zzAssert(zzAnd(e1 == nil, e2 == nil), "C19.order.dur.hash_ok")
		zzAssert(zzImplies(x == y, h1 == h2), "C19.order.dur.hash_eq")
	} else {
		t1, s1, n1 := zzSymTime("t1")
		t2, s2, n2 := zzSymTime("t2")
		zones := [...][2]int{{0, 0}, {1, 2}, {2, 0}, {0, 1}}
		z := zones[zzChoice("zones", len(zones))]
		a := zzInZone(t1, z[0])
		b := zzInZone(t2, z[1])
		lt := zzOr(s1 < s2, zzAnd(s1 == s2, n1 < n2))
		eq := zzAnd(s1 == s2, n1 == n2)
		got, err := starlark.Compare(zzCmpOps[oi], a, b)
		zzAssert(err == nil, "C19.order.time.ok")
		zzObserve("got", got)
		zzAssert(got == zzRefCmp(oi, lt, eq), "C19.order.time.view")
		c1, _ := a.Cmp(b, 1)
		c2, _ := b.Cmp(a, 1)
		zzAssert(zzAnd(c1 == -c2, zzAnd(c1 >= -1, c1 <= 1)), "C19.order.time.antisymmetric")
		h1, e1 := a.Hash()
		h2, e2 := b.Hash()
		h0, _ := t1.Hash()
		zzAssert(zzAnd(e1 == nil, e2 == nil), "C19.order.time.hash_ok")
		zzAssert(zzImplies(eq, h1 == h2), "C19.order.time.hash_eq")
		zzAssert(h1 == h0, "C19.order.time.hash_zone")
	}
	zzReach("end")
}

// zzH19_attrs (H19.3): unix / unix_nano / nanosecond attributes give back the
// (sec, nsec) a time was built from, from_timestamp(sec, nsec) is the instant
// (sec, nsec) for 0 <= nsec < 1e9, both round trips hold, and the integer duration attributes are the truncated
// quotients by 10^6, 10^3, 1.
//
//verif:unwind 40
func zzH19_attrs_time() { zzAttrs(0) }

//verif:unwind 40
func zzH19_attrs_from_timestamp() { zzAttrs(1) }

//verif:unwind 40
func zzH19_attrs_dur() { zzAttrs(2) }

func zzAttrs(what int) {
	zzRelDivMode(2)
	th := &starlark.Thread{Name: "zz"}
	switch what {
	case 0:
		t, sec, nsec := zzSymTime("t")
		for i, name := range []string{"unix", "nanosecond", "unix_nano"} {
			v, err := t.Attr(name)
			zzAssert(err == nil, "C19.attrs.time.ok")
			n, isI := v.(starlark.Int)
			zzAssert(isI, "C19.attrs.time.type")
			got, fits := n.Int64()
			want := [...]int64{sec, nsec, sec*zzNano + nsec}[i]
			zzObserve(name, got)
			zzAssert(zzAnd(fits, got == want), "C19.attrs.time."+name)
		}
		// round trip through the constructor
		u, _ := t.Attr("unix")
		ns, _ := t.Attr("nanosecond")
		back, err := fromTimestamp(th, nil, starlark.Tuple{u, ns}, nil)
		bs, bn := zzMustTime(back, err, "C19.attrs.roundtrip")
		zzAssert(zzAnd(bs == sec, bn == nsec), "C19.attrs.roundtrip.identity")
	case 1:
		sec, nsec := zzI64("sec"), zzI64("nsec")
		zzAssume(zzAnd(sec >= -(zzWin / zzNano), sec < zzWin/zzNano))
		// bound: normalised nsec only (time.Unix renormalises other values with a
		// multiply-and-truncate sequence the solver does not get through in time)
		zzAssume(zzAnd(nsec >= 0, nsec < zzNano))
		v, err := fromTimestamp(th, nil, starlark.Tuple{starlark.MakeInt64(sec), starlark.MakeInt64(nsec)}, nil)
		rs, rn := zzMustTime(v, err, "C19.attrs.from_timestamp")
		zzObserve("rs", rs)
		zzObserve("rn", rn)
		zzAssert(zzAnd(rs == sec, rn == nsec), "C19.attrs.from_timestamp.exact")
		// one-argument form
		v1, err := fromTimestamp(th, nil, starlark.Tuple{starlark.MakeInt64(sec)}, nil)
		s1, n1 := zzMustTime(v1, err, "C19.attrs.from_timestamp1")
		zzAssert(zzAnd(s1 == sec, n1 == 0), "C19.attrs.from_timestamp1.exact")
	default:
		zzRelDivMode(0) // plain bvsdiv: the reference below is the same quotient term
		d := zzI64("d")
		for i, name := range []string{"milliseconds", "microseconds", "nanoseconds"} {
			v, err := Duration(d).Attr(name)
			zzAssert(err == nil, "C19.attrs.dur.ok")
			n, isI := v.(starlark.Int)
			zzAssert(isI, "C19.attrs.dur.type")
			got, fits := n.Int64()
			want := [...]int64{d / 1000000, d / 1000, d}[i]
			zzObserve(name, got)
			zzAssert(zzAnd(fits, got == want), "C19.attrs.dur."+name)
		}
	}
	zzReach("end")
}

// zzH19_time_time_fixed: time - time for a symbolic instant and a few concrete
// offsets (cheap companion of zzH19_dispatch_time_time: no solver-hard step):
// (t + D) - t == D and t - (t + D) == -D.
func zzH19_time_time_fixed() {
	t, _, _ := zzSymTime("t")
	ds := [...]int64{1, -1, 999999999, -1000000000, 3600*zzNano + 1, -(1 << 60)}
	D := ds[zzChoice("D", len(ds))]
	u := Time(time.Time(t).Add(time.Duration(D)))
	r, err := starlark.Binary(syntax.MINUS, u, t)
	zzAssert(err == nil, "C19.fixed.ok")
	d, isD := r.(Duration)
	zzAssert(isD, "C19.fixed.type")
	zzObserve("d", int64(d))
	zzAssert(int64(d) == D, "C19.fixed.forward")
	r2, err := starlark.Binary(syntax.MINUS, t, u)
	zzAssert(err == nil, "C19.fixed.ok2")
	zzAssert(int64(r2.(Duration)) == -D, "C19.fixed.backward")
	zzReach("end")
}
