//go:build verif

package time

// C19 "Time and duration arithmetic is consistent".
//
// Values: Duration = symbolic int64 (all values). Time = real time.Unix(sec, nsec)
// with symbolic sec/nsec, 0 <= nsec < 1e9, |instant| < 2^61 ns (+-73 years around
// the epoch), no monotonic reading, zone Local/UTC/fixed. The real methods
// time.Time.{Add,Sub,Before,After,Equal,Unix,UnixNano,Nanosecond} are interpreted.
// Reference ("exact nanosecond arithmetic"): an instant is its normalised pair
// (sec, nsec); shifting by a duration is done column-wise by zzRefShift.

import (
	"math"
	"math/bits"
	"time"

	"go.starlark.net/starlark"
	"go.starlark.net/syntax"
)

const (
	zzWin  = int64(1) << 61
	zzNano = int64(1000000000)
)

// zzSymTime returns a Time built by the real time.Unix from symbolic
// (sec, nsec), 0 <= nsec < 1e9, |instant| < 2^61 ns.
func zzSymTime(name string) (t Time, sec, nsec int64) {
	sec = zzI64(name + "_sec")
	nsec = zzI64(name + "_nsec")
	zzAssume(zzAnd(nsec >= 0, nsec < zzNano))
	zzAssume(zzAnd(sec >= -(zzWin / zzNano), sec < zzWin/zzNano))
	return Time(time.Unix(sec, nsec)), sec, nsec
}

// zzPair reads back the normalised (sec, nsec) pair of a time value.
func zzPair(t time.Time) (sec, nsec int64) { return t.Unix(), int64(t.Nanosecond()) }

// zzOffsetIs reports whether instant b = (sb, nb) is exactly d nanoseconds after
// instant a = (sa, na), both normalised (0 <= n < 1e9). No division: the second
// difference is bounded and has the sign of d, hence ds*1e9 + dn is computed
// without wrap-around and equals d as an integer, not merely modulo 2^64.
func zzOffsetIs(sa, na, sb, nb, d int64) bool {
	ds := sb - sa
	norm := zzAnd(zzAnd(na >= 0, na < zzNano), zzAnd(nb >= 0, nb < zzNano))
	near := zzAnd(ds >= -9223372037, ds <= 9223372037)
	sign := zzAnd(zzImplies(d >= 0, ds >= 0), zzImplies(d <= 0, ds <= 0))
	return zzAnd(zzAnd(norm, near), zzAnd(sign, ds*zzNano+(nb-na) == d))
}

// zzRefShift is the reference for "the instant d nanoseconds after (sa, na)"
// (sign = +1) or "before" (sign = -1), in normalised (sec, nsec) form: d is split
// into whole seconds and a sub-second rest (truncated division by the constant
// 1e9; under zzRelDivMode the quotient and remainder are pinned by their
// defining relation, not computed by the code under test), each part is added
// to / subtracted from its column, and one carry or borrow renormalises nsec.
// Exact for every int64 d, including the most negative one for sign = -1.
func zzRefShift(sa, na, d int64, sign int64) (s, n int64) {
	q, r := d/zzNano, d%zzNano
	s, n = sa+sign*q, na+sign*r
	up, down := n >= zzNano, n < 0
	n = zzIteI64(up, n-zzNano, zzIteI64(down, n+zzNano, n))
	s = zzIteI64(up, s+1, zzIteI64(down, s-1, s))
	return s, n
}

func zzAddOvf(x, y int64) bool { // x+y is not representable
	s := x + y
	return zzOr(zzAnd(zzAnd(x >= 0, y >= 0), s < 0), zzAnd(zzAnd(x < 0, y < 0), s >= 0))
}

func zzSubOvf(x, y int64) bool { // x-y is not representable
	s := x - y
	return zzOr(zzAnd(zzAnd(x >= 0, y < 0), s < 0), zzAnd(zzAnd(x < 0, y >= 0), s >= 0))
}

func zzAbsU(x int64) uint64 { return uint64(zzIteI64(x < 0, -x, x)) }

func zzMulOvf(x, y int64) bool { // x*y is not representable (128-bit product of magnitudes)
	hi, lo := bits.Mul64(zzAbsU(x), zzAbsU(y))
	neg := (x < 0) != (y < 0)
	return zzOr(hi != 0, zzOr(lo > 1<<63, zzAnd(lo == 1<<63, zzNot(neg))))
}

// operand kinds
const (
	zzKT = iota // time
	zzKD        // duration
	zzKI        // int
	zzKF        // float
	zzKS        // other (string)
	zzNK
)

var zzKindName = [...]string{"time", "dur", "int", "float", "str"}

type zzOperand struct {
	v         starlark.Value
	sec, nsec int64   // time
	d         int64   // duration
	i         int64   // int, when iok
	iok       bool    // int fits int64
	f         float64 // float
}

func zzMakeOperand(name string, kind int) zzOperand {
	var o zzOperand
	switch kind {
	case zzKT:
		var t Time
		t, o.sec, o.nsec = zzSymTime(name)
		o.v = t
	case zzKD:
		o.d = zzI64(name + "_d")
		o.v = Duration(o.d)
	case zzKI:
		if zzChoice(name+"_ishape", 2) == 0 {
			o.i, o.iok = zzI64(name+"_i"), true
			o.v = starlark.MakeInt64(o.i)
		} else { // beyond int64
			u := zzU64(name + "_u")
			zzAssume(u > math.MaxInt64)
			o.v = starlark.MakeUint64(u)
		}
	case zzKF:
		o.f = zzF64(name + "_f")
		o.v = starlark.Float(o.f)
	default:
		o.v = starlark.String("1h")
	}
	return o
}

var zzOps = [...]syntax.Token{syntax.PLUS, syntax.MINUS, syntax.STAR, syntax.SLASH, syntax.SLASHSLASH, syntax.PERCENT}
var zzOpName = [...]string{"plus", "minus", "star", "slash", "slashslash", "percent"}

func zzWantDur(id string, r starlark.Value, err error, want int64, exact bool) {
	zzAssert(err == nil, id+".ok")
	d, isD := r.(Duration)
	zzAssert(isD, id+".type")
	zzObserve("dur", int64(d))
	// the value is the wrapped 64-bit result; it is the exact result unless the
	// exact one is not representable, which ought to be rejected (region).
	zzAssertExcept(zzAnd(int64(d) == want, exact), id+".exact", zzNot(exact))
}

// H19.1 dispatch: for every ordered pair of operand kinds with at least one
// time/duration and every arithmetic operator, starlark.Binary (hence
// Duration.Binary / Time.Binary on both sides) returns what the documented
// table gives for the operands in the order written, or an error.
// One harness per group of kind pairs (same body).

//verif:unwind 40
func zzH19_dispatch_dur_dur() { zzDispatch(zzKD, zzKD) }

//verif:unwind 40
//verif:timeout 240000
func zzH19_dispatch_time_dur() {
	if zzChoice("order", 2) == 0 {
		zzDispatch(zzKT, zzKD)
	} else {
		zzDispatch(zzKD, zzKT)
	}
}

//verif:unwind 40
//verif:timeout 240000
func zzH19_dispatch_time_time() { zzDispatch(zzKT, zzKT) }

//verif:unwind 40
func zzH19_dispatch_dur_int() {
	if zzChoice("order", 2) == 0 {
		zzDispatch(zzKD, zzKI)
	} else {
		zzDispatch(zzKI, zzKD)
	}
}

//verif:unwind 40
func zzH19_dispatch_dur_float() {
	if zzChoice("order", 2) == 0 {
		zzDispatch(zzKD, zzKF)
	} else {
		zzDispatch(zzKF, zzKD)
	}
}

// time x {int, float, str}, duration x str, both orders
//
//verif:unwind 40
func zzH19_dispatch_other() {
	pairs := [...][2]int{{zzKT, zzKI}, {zzKI, zzKT}, {zzKT, zzKF}, {zzKF, zzKT}, {zzKT, zzKS}, {zzKS, zzKT}, {zzKD, zzKS}, {zzKS, zzKD}}
	p := pairs[zzChoice("pair", len(pairs))]
	zzDispatch(p[0], p[1])
}

func zzDispatch(lk, rk int) {
	if lk == zzKT && rk == zzKT {
		zzRelDivMode(1) // signed relation: suits the multiplication in time.Time.Sub
	} else {
		zzRelDivMode(2) // magnitude relation: d and -d share their quotient
	}
	oi := zzChoice("op", len(zzOps))
	op := zzOps[oi]
	var x, y zzOperand
	var d0 int64
	if lk == zzKT && rk == zzKT && op == syntax.MINUS {
		// two instants: y symbolic, x = y + d0 through the real Add (every pair of
		// instants in the window arises this way: Add is proved exact below).
		y = zzMakeOperand("y", zzKT)
		d0 = zzI64("d0")
		zzAssume(zzAnd(d0 > -zzWin, d0 < zzWin))
		xt := time.Time(y.v.(Time)).Add(time.Duration(d0))
		x.v = Time(xt)
		x.sec, x.nsec = zzPair(xt)
		ws, wn := zzRefShift(y.sec, y.nsec, d0, +1)
		zzAssert(zzAnd(x.sec == ws, x.nsec == wn), "C19.lemma.add_exact")
		// stepping stone (proved, then a lemma): the difference time.Time.Sub forms is d0
		zzAssert((x.sec-y.sec)*zzNano+int64(int32(x.nsec)-int32(y.nsec)) == d0, "C19.lemma.subdiff")
	} else {
		x = zzMakeOperand("x", lk)
		y = zzMakeOperand("y", rk)
	}
	r, err := starlark.Binary(op, x.v, y.v)
	zzObserve("failed", err != nil)
	id := "C19.dispatch." + zzKindName[lk] + "_" + zzOpName[oi] + "_" + zzKindName[rk]
	switch {
	// ---- documented: duration + duration, duration - duration
	case op == syntax.PLUS && lk == zzKD && rk == zzKD:
		zzWantDur(id, r, err, x.d+y.d, zzNot(zzAddOvf(x.d, y.d)))
	case op == syntax.MINUS && lk == zzKD && rk == zzKD:
		zzWantDur(id, r, err, x.d-y.d, zzNot(zzSubOvf(x.d, y.d)))

	// ---- time + duration, duration + time, time - duration
	case op == syntax.PLUS && (lk == zzKT && rk == zzKD || lk == zzKD && rk == zzKT):
		t, d := x, y.d
		if lk == zzKD {
			t, d = y, x.d
		}
		zzAssert(err == nil, id+".ok")
		rt, isT := r.(Time)
		zzAssert(isT, id+".type")
		rs, rn := zzPair(time.Time(rt))
		zzObserve("rs", rs)
		zzObserve("rn", rn)
		ws, wn := zzRefShift(t.sec, t.nsec, d, +1)
		zzAssert(zzAnd(rs == ws, rn == wn), id+".exact")
	case op == syntax.MINUS && lk == zzKT && rk == zzKD:
		zzAssert(err == nil, id+".ok")
		rt, isT := r.(Time)
		zzAssert(isT, id+".type")
		rs, rn := zzPair(time.Time(rt))
		zzObserve("rs", rs)
		zzObserve("rn", rn)
		// (-d is not representable for the minimum duration.)
		ws, wn := zzRefShift(x.sec, x.nsec, y.d, -1)
		zzAssertExcept(zzAnd(rs == ws, rn == wn), id+".exact", y.d == math.MinInt64)

	// ---- time - time
	case op == syntax.MINUS && lk == zzKT && rk == zzKT:
		zzWantDur(id, r, err, d0, true)

	// ---- duration * int, int * duration (commutative)
	case op == syntax.STAR && (lk == zzKD && rk == zzKI || lk == zzKI && rk == zzKD):
		d, n := x, y
		if lk == zzKI {
			d, n = y, x
		}
		if !n.iok {
			zzAssert(err != nil, id+".bigint_rejected")
			break
		}
		zzWantDur(id, r, err, d.d*n.i, zzNot(zzMulOvf(d.d, n.i)))

	// ---- duration / duration = float
	case op == syntax.SLASH && lk == zzKD && rk == zzKD:
		if y.d == 0 {
			zzAssert(err != nil, id+".zero_rejected")
			break
		}
		zzAssert(err == nil, id+".ok")
		f, isF := r.(starlark.Float)
		zzAssert(isF, id+".type")
		zzObserve("f", float64(f))
		// mirror form (decided by term identity; the IEEE quotient itself is trusted)
		zzAssert(zzSameF64(float64(f), float64(x.d)/float64(y.d)), id+".quotient")

	// ---- duration / int = duration (truncated quotient)
	case op == syntax.SLASH && lk == zzKD && rk == zzKI:
		if !y.iok {
			zzAssert(err != nil, id+".bigint_rejected")
			break
		}
		if y.i == 0 {
			zzAssert(err != nil, id+".zero_rejected")
			break
		}
		// MinInt64 / -1 is not representable
		zzWantDur(id, r, err, x.d/y.i, zzNot(zzAnd(x.d == math.MinInt64, y.i == -1)))

	// ---- duration / float = duration
	case op == syntax.SLASH && lk == zzKD && rk == zzKF:
		if y.f == 0 {
			zzAssert(err != nil, id+".zero_rejected")
			break
		}
		// mirror form: truncation of the IEEE quotient of the operands in this order
		// (a NaN quotient: zzH19_durfloat_nan; overflowing quotients are outside the claim)
		zzWantDur(id, r, err, int64(float64(x.d)/y.f), true)

	// ---- duration // duration = int (floored quotient, as // on ints)
	case op == syntax.SLASHSLASH && lk == zzKD && rk == zzKD:
		if y.d == 0 {
			zzAssert(err != nil, id+".zero_rejected")
			break
		}
		if B := zzParam("floordiv_bits", 16, 40); B < 64 { // symbolic/symbolic 64-bit division is slow
			lim := int64(1) << uint(B-1)
			zzAssume(zzAnd(zzAnd(x.d >= -lim, x.d < lim), zzAnd(y.d >= -lim, y.d < lim)))
		}
		zzAssert(err == nil, id+".ok")
		n, isI := r.(starlark.Int)
		zzAssert(isI, id+".type")
		got, fits := n.Int64()
		zzObserve("q", got)
		q, rem := x.d/y.d, x.d%y.d
		adj := zzAnd(rem != 0, (rem < 0) != (y.d < 0))
		minq := zzAnd(x.d == math.MinInt64, y.d == -1) // quotient 2^63
		want := q - zzIteI64(adj, 1, 0)
		zzAssertExcept(zzAnd(zzAnd(fits, got == want), zzNot(minq)), id+".floor", zzOr(adj, minq))

	// ---- everything else is undocumented and must be rejected
	case op == syntax.MINUS && lk == zzKD && rk == zzKT:
		// known: evaluated as time - duration
		zzAssertExcept(err != nil, id+".rejected", true)
	case op == syntax.SLASH && lk == zzKF && rk == zzKD:
		// known: evaluated as duration / float (x.f == 0 is rejected as division by zero)
		zzAssertExcept(err != nil, id+".rejected", x.f != 0)
	default:
		zzAssert(err != nil, id+".rejected")
	}
	zzReach("end")
}

// zzH19_durfloat_nan: duration / float with a quotient that is not a number (NaN
// divisor, any duration) must be rejected, not converted; a divisor of 1 gives
// the duration back.
func zzH19_durfloat_nan() {
	x := zzI64("x_d")
	if zzChoice("f", 2) == 0 {
		r, err := starlark.Binary(syntax.SLASH, Duration(x), starlark.Float(1))
		zzAssert(err == nil, "C19.durfloat.one_ok")
		d, isD := r.(Duration)
		zzAssert(isD, "C19.durfloat.one_type")
		zzObserve("d", int64(d))
		one := 1.0
		zzAssert(int64(d) == int64(float64(x)/one), "C19.durfloat.one_value") // mirror form
	} else {
		_, err := starlark.Binary(syntax.SLASH, Duration(x), starlark.Float(math.NaN()))
		zzObserve("failed", err != nil)
		zzAssertExcept(err != nil, "C19.durfloat.nan_rejected", true)
	}
	zzReach("end")
}
