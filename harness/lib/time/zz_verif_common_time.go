//go:build verif

package time

// zzRelDiv(true): from now on the engine encodes integer `x / c`, `x % c` with a
// constant c relationally (fresh q, r with x == q*c + r, |r| < |c|, sign(r) = sign(x));
// exact, see engine/interp/zz_reldiv.go. Natively a no-op.
func zzRelDiv(on bool) {}

// zzRelDivMode selects the relational encoding: 0 off, 1 signed relation only,
// 2 magnitude relation only, 3 both, linked (what zzRelDiv(true) selects).
func zzRelDivMode(m int) {}

// zzSameF64 reports whether a and b are the same float64 value (equal, or both
// NaN). The engine answers true without a solver query when both are the
// identical symbolic term (mirror-form reference).
func zzSameF64(a, b float64) bool { return a == b || (a != a && b != b) }
