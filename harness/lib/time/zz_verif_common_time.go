//go:build verif

package time

// zzRelDiv(true): from now on the engine encodes integer `x / c`, `x % c` with a
// constant c relationally (fresh q, r with x == q*c + r, |r| < |c|, sign(r) = sign(x));
// exact, see engine/interp/zz_reldiv.go. Natively a no-op.
func zzRelDiv(on bool) {}
