//go:build verif

package json

import (
	"math/bits"

	"go.starlark.net/starlark"
)

// zzH18_decode_longint: integers of 18..20 digits around the int64/uint64 boundaries (a
// concrete 16-digit prefix followed by 2..4 symbolic digits), with and without a minus sign, decode to exactly the denoted value
// ("integers exact at any size").
//
//verif:unwind 100
func zzH18_decode_longint() {
	// a concrete prefix next to the int64 / uint64 / 19-20 digit boundaries, then k symbolic digits
	prefix := []string{"9223372036854775", "1844674407370955", "9999999999999999", "1000000000000000"}[zzChoice("prefix", 4)]
	k := 2 + zzChoice("k", zzParam("symbolic_digits_minus_1", 2, 3)) // 2..3 (quick) / 2..4 symbolic digits
	neg := zzChoice("neg", 2) == 1
	tail := zzString("d", k)
	for i := 0; i < k; i++ {
		zzAssume(zzAnd(tail[i] >= '0', tail[i] <= '9'))
	}
	ds := prefix + tail
	n := len(ds)
	text := ds
	if neg {
		text = "-" + ds
	}
	v, err := zzDecode(text)
	zzAssert(err == nil, "C18.decode.longint.accepted")
	if err != nil {
		return
	}
	iv, ok := v.(starlark.Int)
	zzAssert(ok, "C18.decode.longint.is_int")
	if !ok {
		return
	}
	// reference magnitude in 128 bits: m = m*10 + d
	var hi, lo uint64
	for i := 0; i < n; i++ {
		h1, l1 := bits.Mul64(lo, 10)
		hi = hi*10 + h1
		var c uint64
		lo, c = bits.Add64(l1, uint64(ds[i]-'0'), 0)
		hi += c
	}
	b := iv.BigInt()
	ws := b.Bits()
	var glo, ghi uint64
	if len(ws) > 0 {
		glo = uint64(ws[0])
	}
	if len(ws) > 1 {
		ghi = uint64(ws[1])
	}
	zzObserve("lo", glo)
	zzAssert(len(ws) <= 2, "C18.decode.longint.width")
	zzAssert(zzAnd(glo == lo, ghi == hi), "C18.decode.longint.magnitude_exact")
	zzAssert((b.Sign() < 0) == neg, "C18.decode.longint.sign_exact")
	zzReach("end")
}
