//go:build verif

package json

import (
	"go.starlark.net/starlark"
)

// ---------------------------------------------------------------------------
// C18 H18.1: json.decode against an independent RFC 8259 recogniser.
//
// The recogniser is a deterministic pushdown automaton stepped once per input
// byte in straight-line (non-forking) style. It runs the grammar *with* the two
// leniencies the design expects of the decoder (raw control characters inside
// strings; a decimal point without digits on both sides) and records whether a
// lenient transition was used, so that one pass yields
//   lax    = accepted by the relaxed grammar
//   strict = accepted by RFC 8259 (lax and no lenient transition used)
// ---------------------------------------------------------------------------

const (
	zjERR    = iota
	zjV      // expect a value
	zjVEND   // after '[': value or ']'
	zjKFIRST // after '{': string or '}'
	zjK      // after ',' in an object: string
	zjCOLON  // after an object key
	zjAFTER  // after a complete value
	zjSVAL   // inside a string value
	zjSKEY   // inside an object key
	zjNMINUS // after '-'
	zjNZERO  // after a leading 0
	zjNINT   // in the integer digits
	zjNDOT   // after "digits."           (strict: needs a digit next)
	zjNDOT0  // after "-."  (lenient only; needs a digit next)
	zjNFRAC  // in the fraction digits
	zjNE     // after e/E
	zjNESIGN // after e+ / e-
	zjNEXP   // in the exponent digits
	zjT1     // t
	zjT2     // tr
	zjT3     // tru
	zjF1     // f
	zjF2     // fa
	zjF3     // fal
	zjF4     // fals
	zjN1     // n
	zjN2     // nu
	zjN3     // nul
)

const (
	zjARR = 1
	zjOBJ = 2
)

type zjState struct {
	st      int
	stk     uint64 // 2 bits per open container, innermost in the low bits
	ctl     bool   // a raw control character (< 0x20) was taken inside a string
	dot     bool   // a '.' without digits on both sides was taken
	expDig  int    // number of exponent digits of the current/last number
	bigExp  bool   // some number has >= 3 exponent digits
	isFloat bool   // some number token has a fraction or exponent
}

func zjIs(st int, a int) bool { return st == a }

// zjStep advances the automaton by one byte. Straight-line: no branch depends on b.
func zjStep(z zjState, b byte) zjState {
	ws := zzOr(zzOr(b == ' ', b == '\t'), zzOr(b == '\n', b == '\r'))
	dig := zzAnd(b >= '0', b <= '9')
	eE := zzOr(b == 'e', b == 'E')
	st := z.st

	// 1. an accepting number state followed by a byte that cannot continue the
	//    number ends the number: the byte is then handled in state AFTER.
	contZero := zzOr(b == '.', eE)
	contInt := zzOr(dig, zzOr(b == '.', eE))
	contDot := zzOr(dig, eE) // lenient: "1." is complete, "1.e2" continues
	contFrac := zzOr(dig, eE)
	contExp := dig
	ends := zzOr(
		zzOr(zzAnd(st == zjNZERO, zzNot(contZero)), zzAnd(st == zjNINT, zzNot(contInt))),
		zzOr(zzAnd(st == zjNFRAC, zzNot(contFrac)),
			zzOr(zzAnd(st == zjNEXP, zzNot(contExp)), zzAnd(st == zjNDOT, zzNot(contDot)))))
	dotUsed := zzOr(z.dot, zzAnd(st == zjNDOT, zzNot(dig))) // "1." ended or followed by e/E
	st = zzIteInt(ends, zjAFTER, st)

	top := int(z.stk & 3)
	next := zjERR
	stk := z.stk
	ctl := z.ctl
	isFloat := z.isFloat
	expDig := z.expDig

	// 2. states that expect the start of a value
	wantsValue := zzOr(st == zjV, st == zjVEND)
	startsValue := zjERR
	startsValue = zzIteInt(b == '"', zjSVAL, startsValue)
	startsValue = zzIteInt(b == '-', zjNMINUS, startsValue)
	startsValue = zzIteInt(b == '0', zjNZERO, startsValue)
	startsValue = zzIteInt(zzAnd(b >= '1', b <= '9'), zjNINT, startsValue)
	startsValue = zzIteInt(b == 't', zjT1, startsValue)
	startsValue = zzIteInt(b == 'f', zjF1, startsValue)
	startsValue = zzIteInt(b == 'n', zjN1, startsValue)
	startsValue = zzIteInt(b == '[', zjVEND, startsValue)
	startsValue = zzIteInt(b == '{', zjKFIRST, startsValue)
	startsValue = zzIteInt(ws, st, startsValue) // stay
	next = zzIteInt(wantsValue, startsValue, next)
	push := zzAnd(wantsValue, zzOr(b == '[', b == '{'))
	pushed := z.stk<<2 | zzIteU64(b == '[', zjARR, zjOBJ)
	// "[]": close immediately
	closeEmptyArr := zzAnd(st == zjVEND, b == ']')
	closeEmptyObj := zzAnd(st == zjKFIRST, b == '}')
	next = zzIteInt(closeEmptyArr, zjAFTER, next)

	// 3. object keys
	inK := zzOr(st == zjKFIRST, st == zjK)
	kn := zzIteInt(b == '"', zjSKEY, zzIteInt(ws, st, zjERR))
	kn = zzIteInt(closeEmptyObj, zjAFTER, kn)
	next = zzIteInt(inK, kn, next)
	next = zzIteInt(st == zjCOLON, zzIteInt(b == ':', zjV, zzIteInt(ws, zjCOLON, zjERR)), next)

	// 4. after a value
	an := zzIteInt(ws, zjAFTER, zjERR)
	an = zzIteInt(zzAnd(top == zjARR, b == ','), zjV, an)
	an = zzIteInt(zzAnd(top == zjOBJ, b == ','), zjK, an)
	closeAfter := zzAnd(st == zjAFTER, zzOr(zzAnd(top == zjARR, b == ']'), zzAnd(top == zjOBJ, b == '}')))
	an = zzIteInt(closeAfter, zjAFTER, an)
	next = zzIteInt(st == zjAFTER, an, next)
	pop := zzOr(closeAfter, zzOr(closeEmptyArr, closeEmptyObj))

	// 5. strings (no escapes: '\\' is excluded from the alphabet by the harness)
	inS := zzOr(st == zjSVAL, st == zjSKEY)
	sn := zzIteInt(b == '"', zzIteInt(st == zjSKEY, zjCOLON, zjAFTER), st)
	sn = zzIteInt(b == '\\', zjERR, sn)
	next = zzIteInt(inS, sn, next)
	ctl = zzOr(ctl, zzAnd(inS, b < 0x20))

	// 6. numbers
	next = zzIteInt(st == zjNMINUS,
		zzIteInt(b == '0', zjNZERO, zzIteInt(dig, zjNINT, zzIteInt(b == '.', zjNDOT0, zjERR))), next)
	dotUsed = zzOr(dotUsed, zzAnd(st == zjNMINUS, b == '.'))
	next = zzIteInt(st == zjNZERO, zzIteInt(b == '.', zjNDOT, zzIteInt(eE, zjNE, zjERR)), next)
	next = zzIteInt(st == zjNINT, zzIteInt(dig, zjNINT, zzIteInt(b == '.', zjNDOT, zzIteInt(eE, zjNE, zjERR))), next)
	next = zzIteInt(st == zjNDOT, zzIteInt(dig, zjNFRAC, zzIteInt(eE, zjNE, zjERR)), next)
	next = zzIteInt(st == zjNDOT0, zzIteInt(dig, zjNFRAC, zjERR), next)
	next = zzIteInt(st == zjNFRAC, zzIteInt(dig, zjNFRAC, zzIteInt(eE, zjNE, zjERR)), next)
	next = zzIteInt(st == zjNE, zzIteInt(dig, zjNEXP, zzIteInt(zzOr(b == '+', b == '-'), zjNESIGN, zjERR)), next)
	next = zzIteInt(st == zjNESIGN, zzIteInt(dig, zjNEXP, zjERR), next)
	next = zzIteInt(st == zjNEXP, zzIteInt(dig, zjNEXP, zjERR), next)
	inNum := zzAnd(st >= zjNMINUS, st <= zjNEXP)
	isFloat = zzOr(isFloat, zzAnd(inNum, zzOr(b == '.', eE)))
	expDig = zzIteInt(zzOr(st == zjNE, st == zjNESIGN), zzIteInt(dig, 1, 0),
		zzIteInt(zzAnd(st == zjNEXP, dig), expDig+1, expDig))

	// 7. literals
	lit := func(cur int, c byte, nxt int) {
		next = zzIteInt(st == cur, zzIteInt(b == c, nxt, zjERR), next)
	}
	lit(zjT1, 'r', zjT2)
	lit(zjT2, 'u', zjT3)
	lit(zjT3, 'e', zjAFTER)
	lit(zjF1, 'a', zjF2)
	lit(zjF2, 'l', zjF3)
	lit(zjF3, 's', zjF4)
	lit(zjF4, 'e', zjAFTER)
	lit(zjN1, 'u', zjN2)
	lit(zjN2, 'l', zjN3)
	lit(zjN3, 'l', zjAFTER)

	stk = zzIteU64(push, pushed, zzIteU64(pop, z.stk>>2, z.stk))
	return zjState{st: next, stk: stk, ctl: ctl, dot: dotUsed, expDig: expDig,
		bigExp: zzOr(z.bigExp, expDig >= 3), isFloat: isFloat}
}

type zjVerdict struct {
	lax, strict bool
	ctl, dot    bool // lax only because of that leniency (when lax && !strict)
	bigExp      bool
	isFloat     bool
}

// zjRecognise runs the automaton over s.
func zjRecognise(s string) zjVerdict {
	z := zjState{st: zjV}
	for i := 0; i < len(s); i++ {
		z = zjStep(z, s[i])
	}
	endOK := zzOr(zzOr(z.st == zjAFTER, z.st == zjNZERO),
		zzOr(zzOr(z.st == zjNINT, z.st == zjNFRAC), zzOr(z.st == zjNEXP, z.st == zjNDOT)))
	dot := zzOr(z.dot, z.st == zjNDOT)
	lax := zzAnd(endOK, z.stk == 0)
	return zjVerdict{
		lax:     lax,
		strict:  zzAnd(lax, zzAnd(zzNot(z.ctl), zzNot(dot))),
		ctl:     z.ctl,
		dot:     dot,
		bigExp:  z.bigExp,
		isFloat: z.isFloat,
	}
}

func zzDecodeBuiltin() *starlark.Builtin { return Module.Members["decode"].(*starlark.Builtin) }

// zzAssumeNoUnmarshal restricts the alphabet: a backslash or a byte >= 0x80 may
// appear only where no '"' precedes it, so the decoder never reaches
// encoding/json.Unmarshal (reflection-based; not interpreted by the engine).
func zzAssumeNoUnmarshal(s string) {
	quoteSeen := false
	for i := 0; i < len(s); i++ {
		zzAssume(zzNot(zzAnd(quoteSeen, zzOr(s[i] == '\\', s[i] >= 0x80))))
		quoteSeen = zzOr(quoteSeen, s[i] == '"')
	}
}

// ---- independent reference parser (used on accepted documents only) ----

type zjNode struct {
	kind  byte // 'n' null, 't', 'f', 'i' int, 'd' float, 's' string, 'a' array, 'o' object
	ival  int64
	sval  string
	elems []*zjNode
	keys  []string
}

type zjParser struct {
	s  string
	i  int
	ok bool
}

func (p *zjParser) ws() {
	for p.i < len(p.s) && (p.s[p.i] == ' ' || p.s[p.i] == '\t' || p.s[p.i] == '\n' || p.s[p.i] == '\r') {
		p.i++
	}
}

func (p *zjParser) lit(w string) bool {
	if p.i+len(w) <= len(p.s) && p.s[p.i:p.i+len(w)] == w {
		p.i += len(w)
		return true
	}
	p.ok = false
	return false
}

func (p *zjParser) str() string {
	// at '"'
	j := p.i + 1
	for j < len(p.s) && p.s[j] != '"' {
		if p.s[j] < 0x20 || p.s[j] == '\\' {
			p.ok = false
			return ""
		}
		j++
	}
	if j >= len(p.s) {
		p.ok = false
		return ""
	}
	r := p.s[p.i+1 : j]
	p.i = j + 1
	return r
}

func (p *zjParser) value() *zjNode {
	p.ws()
	if p.i >= len(p.s) {
		p.ok = false
		return nil
	}
	c := p.s[p.i]
	switch {
	case c == 'n':
		p.lit("null")
		return &zjNode{kind: 'n'}
	case c == 't':
		p.lit("true")
		return &zjNode{kind: 't'}
	case c == 'f':
		p.lit("false")
		return &zjNode{kind: 'f'}
	case c == '"':
		return &zjNode{kind: 's', sval: p.str()}
	case c == '[':
		p.i++
		n := &zjNode{kind: 'a'}
		p.ws()
		if p.i < len(p.s) && p.s[p.i] == ']' {
			p.i++
			return n
		}
		for p.ok {
			n.elems = append(n.elems, p.value())
			p.ws()
			if p.i < len(p.s) && p.s[p.i] == ',' {
				p.i++
				continue
			}
			if p.i < len(p.s) && p.s[p.i] == ']' {
				p.i++
				return n
			}
			p.ok = false
		}
		return n
	case c == '{':
		p.i++
		n := &zjNode{kind: 'o'}
		p.ws()
		if p.i < len(p.s) && p.s[p.i] == '}' {
			p.i++
			return n
		}
		for p.ok {
			p.ws()
			if p.i >= len(p.s) || p.s[p.i] != '"' {
				p.ok = false
				break
			}
			n.keys = append(n.keys, p.str())
			p.ws()
			if p.i >= len(p.s) || p.s[p.i] != ':' {
				p.ok = false
				break
			}
			p.i++
			n.elems = append(n.elems, p.value())
			p.ws()
			if p.i < len(p.s) && p.s[p.i] == ',' {
				p.i++
				continue
			}
			if p.i < len(p.s) && p.s[p.i] == '}' {
				p.i++
				return n
			}
			p.ok = false
		}
		return n
	case c == '-' || (c >= '0' && c <= '9'):
		neg := false
		if c == '-' {
			neg = true
			p.i++
		}
		start := p.i
		var v int64
		for p.i < len(p.s) && p.s[p.i] >= '0' && p.s[p.i] <= '9' {
			v = v*10 + int64(p.s[p.i]-'0')
			p.i++
		}
		if p.i == start || (p.s[start] == '0' && p.i-start > 1) {
			p.ok = false
			return nil
		}
		if neg {
			v = -v
		}
		n := &zjNode{kind: 'i', ival: v}
		if p.i < len(p.s) && p.s[p.i] == '.' {
			n.kind = 'd'
			p.i++
			st := p.i
			for p.i < len(p.s) && p.s[p.i] >= '0' && p.s[p.i] <= '9' {
				p.i++
			}
			if p.i == st {
				p.ok = false
			}
		}
		if p.i < len(p.s) && (p.s[p.i] == 'e' || p.s[p.i] == 'E') {
			n.kind = 'd'
			p.i++
			if p.i < len(p.s) && (p.s[p.i] == '+' || p.s[p.i] == '-') {
				p.i++
			}
			st := p.i
			for p.i < len(p.s) && p.s[p.i] >= '0' && p.s[p.i] <= '9' {
				p.i++
			}
			if p.i == st {
				p.ok = false
			}
		}
		return n
	}
	p.ok = false
	return nil
}

// zjMatch compares a decoded Starlark value with the reference tree, asserting
// the scalar payloads (symbolic) and returning false on a structural mismatch.
func zjMatch(v starlark.Value, n *zjNode) bool {
	if n == nil || v == nil {
		return false
	}
	switch n.kind {
	case 'n':
		return v == starlark.None
	case 't':
		return v == starlark.True
	case 'f':
		return v == starlark.False
	case 'i':
		x, ok := v.(starlark.Int)
		if !ok {
			return false
		}
		i64, ok := x.Int64()
		zzAssert(zzAnd(ok, i64 == n.ival), "C18.decode.value.int")
		return true
	case 'd':
		_, ok := v.(starlark.Float)
		return ok
	case 's':
		x, ok := v.(starlark.String)
		if !ok {
			return false
		}
		zzAssert(string(x) == n.sval, "C18.decode.value.string")
		return true
	case 'a':
		x, ok := v.(*starlark.List)
		if !ok || x.Len() != len(n.elems) {
			return false
		}
		for i, e := range n.elems {
			if !zjMatch(x.Index(i), e) {
				return false
			}
		}
		return true
	case 'o':
		x, ok := v.(*starlark.Dict)
		if !ok {
			return false
		}
		if len(n.keys) > 1 {
			return true // duplicate-key policy is outside the claim (cannot occur within the length bound)
		}
		if x.Len() != len(n.keys) {
			return false
		}
		for i, k := range n.keys {
			items := x.Items()
			ks, ok := items[i][0].(starlark.String)
			if !ok {
				return false
			}
			zzAssert(string(ks) == k, "C18.decode.value.key")
			if !zjMatch(items[i][1], n.elems[i]) {
				return false
			}
		}
		return true
	}
	return false
}

// zzDecodeCheck is the body shared by the decode harnesses.
func zzDecodeCheck(s string, withDefault bool) {
	zzAssumeNoUnmarshal(s)
	ref := zjRecognise(s)

	thread := &starlark.Thread{Name: "t"}
	b := zzDecodeBuiltin()
	var v starlark.Value
	var err error
	panicked := zzCatch(func() { v, err = decode(thread, b, starlark.Tuple{starlark.String(s)}, nil) })
	zzAssert(!panicked, "C18.decode.nopanic")
	if panicked {
		return
	}
	accepted := err == nil
	zzObserve("accepted", accepted)
	zzAssert(zzImplies(accepted, v != nil), "C18.decode.result_on_accept")

	// (a) everything accepted is in the relaxed grammar
	zzAssert(zzImplies(accepted, ref.lax), "C18.decode.rejects_invalid")
	// (b) known leniencies: relaxed-only documents are accepted although RFC 8259 rejects them
	zzAssertExcept(zzImplies(accepted, zzOr(ref.strict, zzNot(ref.ctl))), "C18.decode.string_control_chars",
		zzAnd(ref.lax, ref.ctl))
	zzAssertExcept(zzImplies(accepted, zzOr(ref.strict, zzNot(ref.dot))), "C18.decode.number_bare_point",
		zzAnd(ref.lax, ref.dot))
	// (c) every RFC 8259 document is accepted (numbers whose exponent has three or
	// more digits may exceed float64: RFC 8259 section 6 permits a range limit)
	zzAssert(zzImplies(zzAnd(ref.strict, zzNot(ref.bigExp)), accepted), "C18.decode.accepts_valid")

	// (d) default= is returned exactly on the reject side
	if withDefault {
		sentinel := starlark.NewList(nil)
		var v2 starlark.Value
		var err2 error
		kw := []starlark.Tuple{{starlark.String("default"), sentinel}}
		panicked2 := zzCatch(func() { v2, err2 = decode(thread, b, starlark.Tuple{starlark.String(s)}, kw) })
		zzAssert(zzAnd(!panicked2, err2 == nil), "C18.decode.default.noerror")
		zzAssert((v2 == starlark.Value(sentinel)) == !accepted, "C18.decode.default.iff_invalid")
	}

	// (e) denotation of accepted strict documents
	if accepted {
		p := &zjParser{s: s, ok: true}
		n := p.value()
		if p.ok {
			p.ws()
		}
		if p.ok && p.i == len(s) {
			zzAssert(zjMatch(v, n), "C18.decode.value.structure")
		}
	}
	zzReach("end")
}

// zzH18_decode: every byte string of up to maxlen symbolic bytes (any byte values,
// subject to zzAssumeNoUnmarshal).
//
//verif:unwind 64
func zzH18_decode() {
	maxn := zzParam("maxlen", 4, 5)
	n := zzChoice("n", maxn+1)
	s := zzString("s", n)
	zzDecodeCheck(s, false)
}

// zzH18_decode_default: the same with the default= argument (second call).
//
//verif:unwind 64
func zzH18_decode_default() {
	maxn := zzParam("maxlen_default", 3, 4)
	n := zzChoice("n", maxn+1)
	s := zzString("s", n)
	zzDecodeCheck(s, true)
}

// zzH18_decode_array: documents that start with '[' (two-element and nested
// arrays need 5..6 bytes). Quick: 5 bytes, last byte pinned to ']';
// thorough: 5 bytes unpinned and 6 bytes with the last byte pinned.
//
//verif:unwind 64
func zzH18_decode_array() {
	n := 5
	pinLast := true
	if zzParam("amode", 0, 1) == 1 {
		if zzChoice("six", 2) == 1 {
			n = 6
		} else {
			pinLast = false
		}
	}
	s := zzString("s", n)
	zzAssume(s[0] == '[')
	if pinLast {
		zzAssume(s[n-1] == ']')
	}
	zzDecodeCheck(s, false)
}

// zzH18_decode_object: documents that start with `{"` (the shortest non-empty
// object, {"":1}, has 6 bytes). Quick: exactly 6 bytes; thorough: 6 or 7 bytes
// (7: one-byte key or a two-byte value such as [] or 10).
//
//verif:unwind 64
func zzH18_decode_object() {
	n := 6 + zzChoice("seven", zzParam("olens", 1, 2))
	s := zzString("s", n)
	zzAssume(s[0] == '{')
	zzAssume(s[1] == '"')
	zzDecodeCheck(s, false)
}

// zzH18_decode_number: documents over the number alphabet (digits symbolic):
// long number tokens incl. three-digit exponents (range limit of float64).
// Quick: exactly 5 bytes over [0-9.e-]; thorough: 5 bytes over [0-9.eE+-] and
// 6 bytes over [0-9.e-].
//
//verif:unwind 64
func zzH18_decode_number() {
	full := false
	n := 5
	if zzParam("nthorough", 0, 1) == 1 {
		if zzChoice("six", 2) == 1 {
			n = 6
		} else {
			full = true
		}
	}
	s := zzString("s", n)
	for i := 0; i < n; i++ {
		c := s[i]
		ok := zzOr(zzAnd(c >= '0', c <= '9'), zzOr(zzOr(c == '.', c == '-'), c == 'e'))
		if full {
			ok = zzOr(ok, zzOr(c == '+', c == 'E'))
		}
		zzAssume(ok)
	}
	zzDecodeCheck(s, false)
}
