//go:build verif

package json

// C03 H03.1 (json part): json.encode of a value whose attribute listing comes
// from a Go map (struct built from a StringDict, module, application value with
// map-ordered AttrNames) is the same text under every iteration order of the map;
// and the encoding of a dict does not depend on its insertion order.

import (
	"go.starlark.net/starlark"
	"go.starlark.net/starlarkstruct"
)

func zz03Digit(i int) string { return string(rune('0' + i)) }

func zz03Names(n, nb int) []string {
	names := make([]string, n)
	for i := range names {
		s := zzString("k"+zz03Digit(i), nb)
		for j := 0; j < nb; j++ {
			zzAssume(zzAnd(s[j] >= 'a', s[j] <= 'z'))
		}
		for j := 0; j < i; j++ {
			zzAssume(names[j] != s)
		}
		names[i] = s
	}
	return names
}

func zz03UnderAllOrders(f func() string) (ref, got string) {
	zzMapOrderNondet(false)
	ref = f()
	zzMapOrderNondet(true)
	got = f()
	zzMapOrderNondet(false)
	if !zzSymbolic() {
		for i := 0; i < 200 && got == ref; i++ {
			got = f()
		}
	}
	return ref, got
}

// zz03Attrs: application value listing its attributes in Go map order.
type zz03Attrs struct{ m map[string]starlark.Value }

func (a zz03Attrs) String() string        { return "zzAttrs" }
func (a zz03Attrs) Type() string          { return "zzAttrs" }
func (a zz03Attrs) Freeze()               {}
func (a zz03Attrs) Truth() starlark.Bool  { return true }
func (a zz03Attrs) Hash() (uint32, error) { return 0, nil }
func (a zz03Attrs) Attr(name string) (starlark.Value, error) {
	return a.m[name], nil
}
func (a zz03Attrs) AttrNames() []string {
	var r []string
	for k := range a.m {
		r = append(r, k)
	}
	return r
}

func zz03Encode(x starlark.Value) string {
	thread := &starlark.Thread{Name: "c03"}
	v, err := encode(thread, starlark.NewBuiltin("encode", encode), starlark.Tuple{x}, nil)
	if err != nil {
		return "error"
	}
	return string(v.(starlark.String))
}

//verif:unwind 400
func zzH03_maporder_jsonEncode() {
	n := zzParam("names", 3, 3)
	names := zz03Names(n, zzParam("bytes", 1, 2))
	d := starlark.StringDict{}
	a := zz03Attrs{map[string]starlark.Value{}}
	for i, nm := range names {
		d[nm] = starlark.MakeInt(i)
		a.m[nm] = starlark.MakeInt(i)
	}
	which := zzChoice("which", 2)
	ref, got := zz03UnderAllOrders(func() string {
		if which == 0 {
			return zz03Encode(starlarkstruct.FromStringDict(starlarkstruct.Default, d))
		}
		return zz03Encode(a)
	})
	zzAssert(got == ref, "C03.maporder.jsonEncode.same")
	zzObserve("json", ref)
	zzReach("end")
}

// A dict is encoded with sorted keys: the text is a function of the items, not
// of the order in which they were inserted.
//
//verif:unwind 400
func zzH03_jsonEncode_dictOrder() {
	n := zzParam("names", 3, 3)
	names := zz03Names(n, zzParam("bytes", 1, 2))
	fwd, rev := starlark.NewDict(n), starlark.NewDict(n)
	for i := range names {
		fwd.SetKey(starlark.String(names[i]), starlark.MakeInt(i))
		j := n - 1 - i
		rev.SetKey(starlark.String(names[j]), starlark.MakeInt(j))
	}
	a, b := zz03Encode(fwd), zz03Encode(rev)
	zzAssert(a == b, "C03.jsonEncode.dict.insertion-order-free")
	zzObserve("json", a)
	zzReach("end")
}
