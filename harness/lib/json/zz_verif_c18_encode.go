//go:build verif

package json

import (
	"math"
	"math/big"

	"go.starlark.net/starlark"
	"go.starlark.net/starlarkstruct"
)

// ---------------------------------------------------------------------------
// C18 H18.2: json.encode structure and decode(encode(x)) == x for small values.
//
// Strings: printable ASCII (so quoting stays in json.go/strconv and does not
// reach encoding/json.Marshal), bytes symbolic. Integers come from a fixed
// table through zzChoice: their decimal text is produced by fmt/math/big, which
// the engine's fmt model cannot render for symbolic payloads. Bools symbolic.
// ---------------------------------------------------------------------------

func zzEncodeBuiltin() *starlark.Builtin { return Module.Members["encode"].(*starlark.Builtin) }

func zzEncode(x starlark.Value) (string, error) {
	thread := &starlark.Thread{Name: "t"}
	v, err := encode(thread, zzEncodeBuiltin(), starlark.Tuple{x}, nil)
	if err != nil {
		return "", err
	}
	return string(v.(starlark.String)), nil
}

func zzDecode(s string) (starlark.Value, error) {
	thread := &starlark.Thread{Name: "t"}
	return decode(thread, zzDecodeBuiltin(), starlark.Tuple{starlark.String(s)}, nil)
}

// zzPrintable returns a string of n symbolic printable-ASCII bytes.
func zzPrintable(name string, n int) string {
	s := zzString(name, n)
	for i := 0; i < n; i++ {
		zzAssume(zzAnd(s[i] >= 0x20, s[i] < 0x7f))
	}
	return s
}

// zzRefQuote: RFC 8259 string literal for printable ASCII: '"' and '\\' are
// escaped with a backslash, everything else is literal. escaped reports whether
// an escape was emitted.
func zzRefQuote(s string) (out string, escaped bool) {
	b := []byte{'"'}
	for i := 0; i < len(s); i++ {
		c := s[i]
		if c == '"' || c == '\\' {
			b = append(b, '\\')
			escaped = true
		}
		b = append(b, c)
	}
	b = append(b, '"')
	return string(b), escaped
}

var zzIntTexts = []string{"0", "-1", "7", "-2147483649", "4294967296", "9223372036854775808", "-1606938044258990275541962092341162602522202993782792835301376"}

// zzScalar builds one scalar Starlark value and its reference JSON text.
// kind: 0 None, 1 Bool (symbolic), 2 Int (table), 3 String (symbolic bytes).
// small: first three ints of the table only, strings of exactly one byte.
// plain reports that the text contains no escape (so decode needs no Unmarshal).
func zzScalar(name string, kind int, small bool) (v starlark.Value, text string, plain bool) {
	switch kind {
	case 0:
		return starlark.None, "null", true
	case 1:
		if zzBool(name + "_b") {
			return starlark.True, "true", true
		}
		return starlark.False, "false", true
	case 2:
		nt := len(zzIntTexts)
		if small {
			nt = 3
		}
		t := zzIntTexts[zzChoice(name+"_i", nt)]
		b, _ := new(big.Int).SetString(t, 10)
		return starlark.MakeBigInt(b), t, true
	default:
		n := 1
		if !small {
			n = zzChoice(name+"_len", 3)
		}
		s := zzPrintable(name+"_s", n)
		q, esc := zzRefQuote(s)
		return starlark.String(s), q, !esc
	}
}

func zzEqualValues(a, b starlark.Value) bool {
	eq, err := starlark.Equal(a, b)
	return err == nil && eq
}

// zzCheckEncode: encode(x) == want; the text is in the RFC 8259 grammar; and,
// when it has no escapes, decode gives back a value equal to back (x itself, or
// its JSON image: tuples come back as lists, structs as dicts).
func zzCheckEncode(x starlark.Value, want string, plain bool, back starlark.Value) {
	got, err := zzEncode(x)
	zzAssert(err == nil, "C18.encode.noerror")
	if err != nil {
		return
	}
	zzObserve("json", got)
	zzAssert(got == want, "C18.encode.text")
	if plain {
		zzAssert(zjRecognise(got).strict, "C18.encode.valid_json")
		y, err := zzDecode(got)
		zzAssert(err == nil, "C18.roundtrip.decodes")
		if err == nil {
			zzAssert(zzEqualValues(y, back), "C18.roundtrip.equal")
		}
	}
}

// zzH18_encode_scalar: None / symbolic Bool / Int from the table / String of
// 0..2 symbolic printable bytes (incl. '"' and '\\', which must be escaped).
func zzH18_encode_scalar() {
	v, text, plain := zzScalar("x", zzChoice("kind", 4), false)
	zzCheckEncode(v, text, plain, v)
	zzReach("end")
}

// zzH18_encode_seq: list and tuple of two scalars (kinds chosen, payloads
// symbolic), and the empty ones.
func zzH18_encode_seq() {
	n := zzChoice("n", 2) * 2 // 0 or 2 elements
	var elems []starlark.Value
	text := "["
	plain := true
	for i := 0; i < n; i++ {
		v, t, p := zzScalar("e"+string(rune('0'+i)), 1+zzChoice("kind"+string(rune('0'+i)), 3), true)
		elems = append(elems, v)
		if i > 0 {
			text += ","
		}
		text += t
		plain = plain && p
	}
	text += "]"
	asList := starlark.NewList(append([]starlark.Value(nil), elems...))
	if zzChoice("tuple", 2) == 1 {
		zzCheckEncode(starlark.Tuple(elems), text, plain, asList)
	} else {
		zzCheckEncode(asList, text, plain, asList)
	}
	zzReach("end")
}

// zzH18_encode_dict: a dict with two distinct one-byte symbolic keys inserted
// in either order: the object lists the keys in sorted order whatever the
// insertion order; values are a symbolic bool and a nested list.
func zzH18_encode_dict() {
	k1 := zzPrintable("k1", 1)
	k2 := zzPrintable("k2", 1)
	zzAssume(k1[0] != k2[0])
	q1, e1 := zzRefQuote(k1) // keys may be '"' or '\\': they must come out escaped
	q2, e2 := zzRefQuote(k2)
	v1, t1, _ := zzScalar("v1", 1, true)
	v2 := starlark.Value(starlark.NewList([]starlark.Value{starlark.None}))
	t2 := "[null]"
	d := new(starlark.Dict)
	if zzChoice("order", 2) == 0 {
		d.SetKey(starlark.String(k1), v1)
		d.SetKey(starlark.String(k2), v2)
	} else {
		d.SetKey(starlark.String(k2), v2)
		d.SetKey(starlark.String(k1), v1)
	}
	var want string
	if k1[0] < k2[0] {
		want = `{` + q1 + `:` + t1 + `,` + q2 + `:` + t2 + `}`
	} else {
		want = `{` + q2 + `:` + t2 + `,` + q1 + `:` + t1 + `}`
	}
	zzCheckEncode(d, want, !e1 && !e2, d)
	zzReach("end")
}

// zzH18_encode_struct: a struct with two symbolic one-byte field names: encoded
// as an object with sorted keys; decodes to the dict with the same items.
func zzH18_encode_struct() {
	k1 := zzPrintable("k1", 1)
	k2 := zzPrintable("k2", 1)
	zzAssume(k1[0] != k2[0])
	q1, e1 := zzRefQuote(k1) // field names given through **kwargs may contain '"' or '\\'
	q2, e2 := zzRefQuote(k2)
	v1, t1, _ := zzScalar("v1", 1, true)
	v2, t2, _ := zzScalar("v2", 2, true)
	st := starlarkstruct.FromKeywords(starlarkstruct.Default, []starlark.Tuple{
		{starlark.String(k1), v1}, {starlark.String(k2), v2}})
	back := new(starlark.Dict)
	back.SetKey(starlark.String(k1), v1)
	back.SetKey(starlark.String(k2), v2)
	var want string
	if k1[0] < k2[0] {
		want = `{` + q1 + `:` + t1 + `,` + q2 + `:` + t2 + `}`
	} else {
		want = `{` + q2 + `:` + t2 + `,` + q1 + `:` + t1 + `}`
	}
	zzCheckEncode(st, want, !e1 && !e2, back)
	zzReach("end")
}

// zzH18_encode_errors: a cycle (list containing itself, dict containing itself
// through a list), a non-string dict key, and an unencodable value are errors,
// not output and not a crash.
func zzH18_encode_errors() {
	var x starlark.Value
	switch zzChoice("case", 4) {
	case 0:
		l := starlark.NewList(nil)
		l.Append(l)
		x = l
	case 1:
		d := new(starlark.Dict)
		l := starlark.NewList([]starlark.Value{d})
		d.SetKey(starlark.String(zzPrintable("k", 1)), l)
		x = d
	case 2:
		d := new(starlark.Dict)
		d.SetKey(starlark.MakeInt(1), starlark.None)
		x = d
	default:
		x = zzEncodeBuiltin() // a builtin is not encodable
	}
	var err error
	fatal := zzFatal("C18.encode.errors.fatal", func() { _, err = zzEncode(x) })
	zzAssert(!fatal, "C18.encode.errors.terminates")
	zzAssert(err != nil, "C18.encode.errors.reported")
	// a shared (non-cyclic) sub-value is fine
	shared := starlark.NewList([]starlark.Value{starlark.True})
	out, err2 := zzEncode(starlark.Tuple{shared, shared})
	zzAssert(err2 == nil && out == "[[true],[true]]", "C18.encode.shared_not_cycle")
	zzReach("end")
}

// zzH18_encode_float: a float is encodable iff it is finite (all 2^64 bit
// patterns); for a table of concrete floats the text decodes to the same bits.
func zzH18_encode_float() {
	if zzChoice("mode", 2) == 0 {
		bits := zzU64("bits")
		f := math.Float64frombits(bits)
		_, err := zzEncode(starlark.Float(f))
		finite := (bits>>52)&0x7ff != 0x7ff
		zzObserve("ok", err == nil)
		zzAssert((err == nil) == finite, "C18.encode.float.finite_iff_ok")
	} else {
		tab := []float64{0, math.Copysign(0, -1), 1, -0.5, 0.1, 1e100, 5e-324, math.MaxFloat64, 1 << 53, 123456789.125}
		f := tab[zzChoice("f", len(tab))]
		out, err := zzEncode(starlark.Float(f))
		zzAssert(err == nil, "C18.encode.float.noerror")
		zzObserve("json", out)
		zzAssert(zjRecognise(out).strict, "C18.encode.float.valid_json")
		y, err := zzDecode(out)
		zzAssert(err == nil, "C18.roundtrip.float.decodes")
		yf, ok := y.(starlark.Float)
		zzAssert(ok && math.Float64bits(float64(yf)) == math.Float64bits(f), "C18.roundtrip.float.bits")
	}
	zzReach("end")
}
