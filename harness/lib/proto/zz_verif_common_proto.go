//go:build verif

package proto

// zzSameF64 reports whether a and b are the same float64 value (equal, or both
// NaN). The engine answers true without a solver query when both are the
// identical symbolic term (mirror-form reference); see engine/interp/zz_reldiv.go.
func zzSameF64(a, b float64) bool { return a == b || (a != a && b != b) }
