//go:build verif

package proto

// C20 H20.2: enumValueOf and the EnumKind arm of toProto / toStarlark1, over a
// harness enum with the values A=0, B=1, C=5 (descriptor types that embed the
// protoreflect interfaces and answer Values/ByNumber/ByName/Number/Name/Parent).

import (
	"math"

	"go.starlark.net/starlark"
	"google.golang.org/protobuf/reflect/protoreflect"
)

type zzEnumVal struct {
	protoreflect.EnumValueDescriptor
	num    protoreflect.EnumNumber
	name   protoreflect.Name
	parent *zzEnum
}

func (v *zzEnumVal) Number() protoreflect.EnumNumber { return v.num }
func (v *zzEnumVal) Name() protoreflect.Name         { return v.name }
func (v *zzEnumVal) Parent() protoreflect.Descriptor { return v.parent }

type zzEnumVals struct {
	protoreflect.EnumValueDescriptors
	vals []*zzEnumVal
}

func (l *zzEnumVals) Len() int { return len(l.vals) }
func (l *zzEnumVals) ByNumber(n protoreflect.EnumNumber) protoreflect.EnumValueDescriptor {
	for _, v := range l.vals {
		if v.num == n {
			return v
		}
	}
	return nil
}
func (l *zzEnumVals) ByName(s protoreflect.Name) protoreflect.EnumValueDescriptor {
	for _, v := range l.vals {
		if v.name == s {
			return v
		}
	}
	return nil
}

type zzEnum struct {
	protoreflect.EnumDescriptor
	vals *zzEnumVals
}

func (e *zzEnum) Values() protoreflect.EnumValueDescriptors { return e.vals }
func (e *zzEnum) Name() protoreflect.Name                   { return "E" }
func (e *zzEnum) FullName() protoreflect.FullName           { return "zz.E" }

type zzEnumFD struct {
	protoreflect.FieldDescriptor
	enum *zzEnum
}

func (f zzEnumFD) Kind() protoreflect.Kind               { return protoreflect.EnumKind }
func (f zzEnumFD) Enum() protoreflect.EnumDescriptor      { return f.enum }

func zzNewEnum() *zzEnum {
	e := &zzEnum{}
	e.vals = &zzEnumVals{vals: []*zzEnumVal{
		{num: 0, name: "A", parent: e},
		{num: 1, name: "B", parent: e},
		{num: 5, name: "C", parent: e},
	}}
	return e
}

// zzH20_enum: an enum field accepts exactly the ints 0, 1, 5 (any Starlark int,
// incl. beyond int32/int64), the names "A", "B", "C" (symbolic 1- and 2-byte
// strings) and value descriptors of the same enum; what is stored is the number,
// and it reads back as the descriptor of that number.
//
//verif:unwind 40
func zzH20_enum() {
	e := zzNewEnum()
	other := zzNewEnum()
	fd := zzEnumFD{enum: e}
	var v starlark.Value
	var wantNum protoreflect.EnumNumber
	wantOK := false
	switch zzChoice("shape", 6) {
	case 0:
		i := zzI64("i")
		v = starlark.MakeInt64(i)
		wantOK = zzOr(i == 0, zzOr(i == 1, i == 5))
		wantNum = protoreflect.EnumNumber(i)
	case 1:
		u := zzU64("u")
		zzAssume(u > math.MaxInt64)
		v = starlark.MakeUint64(u)
	case 2:
		s := zzString("s", 1+zzChoice("len", 2))
		v = starlark.String(s)
		if len(s) == 1 {
			wantOK = zzOr(s[0] == 'A', zzOr(s[0] == 'B', s[0] == 'C'))
			wantNum = protoreflect.EnumNumber(zzIteI32(s[0] == 'A', 0, zzIteI32(s[0] == 'B', 1, 5)))
		}
	case 3:
		k := zzChoice("which", 3)
		v = EnumValueDescriptor{Desc: e.vals.vals[k]}
		wantOK, wantNum = true, e.vals.vals[k].num
	case 4:
		v = EnumValueDescriptor{Desc: other.vals.vals[zzChoice("which", 3)]} // same shape, different enum
	default:
		v = starlark.Float(math.Float64frombits(zzU64("f")))
	}
	var pv protoreflect.Value
	var err error
	panicked := zzCatch(func() { pv, err = toProto(fd, v) })
	zzAssert(zzNot(panicked), "C20.enum.no_panic")
	zzObserve("failed", err != nil)
	zzAssert((err == nil) == wantOK, "C20.enum.accept_iff_member")
	if err == nil {
		n, isEnum := pv.Interface().(protoreflect.EnumNumber)
		zzAssert(isEnum, "C20.enum.well_typed")
		zzObserve("n", int32(n))
		zzAssert(n == wantNum, "C20.enum.number")
		back := toStarlark1(fd, pv, nil)
		d, isD := back.(EnumValueDescriptor)
		zzAssert(isD, "C20.enum.read_type")
		zzAssert(zzAnd(d.Desc != nil, d.Desc.Number() == wantNum), "C20.enum.roundtrip")
		zzAssert(d.Desc.Parent() == protoreflect.Descriptor(e), "C20.enum.same_enum")
	}
	zzReach("end")
}
