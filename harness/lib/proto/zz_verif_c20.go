//go:build verif

package proto

// C20 H20.1: the scalar conversion kernel toProto / toStarlark1.
//
// For each of the 15 scalar protoreflect.Kinds (concrete loop via zzChoice) and a
// Starlark value of a chosen shape with symbolic content -- Int in the int64
// range, Int in [2^63, 2^64), Int of magnitude 2^64 + w (beyond every field),
// Float of any bit pattern, Bool, String / Bytes of 0..2 symbolic bytes, None --
// toProto succeeds iff the value is of the field's type and within its range,
// the protoreflect.Value it returns has the Go type that the kind requires
// (what the storage layer type-checks), and toStarlark1 reads back exactly the
// value written. protoreflect.Value itself is executed (its seven unsafe
// primitives are modelled in engine/interp/ext_proto.go); the FieldDescriptor is
// a harness type that answers Kind() only.

import (
	"math"
	"math/big"

	"go.starlark.net/starlark"
	"google.golang.org/protobuf/reflect/protoreflect"
)

// zzFD is a field descriptor of which only the kind matters (scalar kinds).
type zzFD struct {
	protoreflect.FieldDescriptor
	kind protoreflect.Kind
}

func (f zzFD) Kind() protoreflect.Kind { return f.kind }

var zzScalarKinds = [...]protoreflect.Kind{
	protoreflect.BoolKind,
	protoreflect.Int32Kind, protoreflect.Sint32Kind, protoreflect.Sfixed32Kind,
	protoreflect.Uint32Kind, protoreflect.Fixed32Kind,
	protoreflect.Int64Kind, protoreflect.Sint64Kind, protoreflect.Sfixed64Kind,
	protoreflect.Uint64Kind, protoreflect.Fixed64Kind,
	protoreflect.FloatKind, protoreflect.DoubleKind,
	protoreflect.StringKind, protoreflect.BytesKind,
}

// class of a kind: which Go type the protoreflect.Value must carry
const (
	zzCBool = iota
	zzCI32
	zzCU32
	zzCI64
	zzCU64
	zzCF32
	zzCF64
	zzCStr
	zzCBytes
)

func zzClass(k protoreflect.Kind) int {
	switch k {
	case protoreflect.BoolKind:
		return zzCBool
	case protoreflect.Int32Kind, protoreflect.Sint32Kind, protoreflect.Sfixed32Kind:
		return zzCI32
	case protoreflect.Uint32Kind, protoreflect.Fixed32Kind:
		return zzCU32
	case protoreflect.Int64Kind, protoreflect.Sint64Kind, protoreflect.Sfixed64Kind:
		return zzCI64
	case protoreflect.Uint64Kind, protoreflect.Fixed64Kind:
		return zzCU64
	case protoreflect.FloatKind:
		return zzCF32
	case protoreflect.DoubleKind:
		return zzCF64
	case protoreflect.StringKind:
		return zzCStr
	}
	return zzCBytes
}

// zzWellTyped: the Go type inside pv is the one the class requires.
func zzWellTyped(pv protoreflect.Value, class int) bool {
	switch pv.Interface().(type) {
	case bool:
		return class == zzCBool
	case int32:
		return class == zzCI32
	case uint32:
		return class == zzCU32
	case int64:
		return class == zzCI64
	case uint64:
		return class == zzCU64
	case float32:
		return class == zzCF32
	case float64:
		return class == zzCF64
	case string:
		return class == zzCStr
	case []byte:
		return class == zzCBytes
	}
	return false
}

// value shapes
const (
	zzSInt64  = iota // Int, any int64
	zzSUint64        // Int in [2^63, 2^64)
	zzSHuge          // Int = +-(2^64 + w)
	zzSFloat         // Float, any bit pattern
	zzSBool
	zzSString // 0..2 symbolic bytes
	zzSBytes
	zzSNone
	zzNShapes
)

// zzH20_scalar: see the file comment.
//
//verif:unwind 40
func zzH20_scalar() {
	kind := zzScalarKinds[zzChoice("kind", len(zzScalarKinds))]
	class := zzClass(kind)
	fd := zzFD{kind: kind}
	shape := zzChoice("shape", zzNShapes)
	var v starlark.Value
	var i int64   // zzSInt64
	var u uint64  // zzSUint64
	var fb uint64 // zzSFloat
	var b bool
	var s string
	wantOK := false
	switch shape {
	case zzSInt64:
		i = zzI64("i")
		v = starlark.MakeInt64(i)
		switch class {
		case zzCI32:
			wantOK = zzAnd(i >= math.MinInt32, i <= math.MaxInt32)
		case zzCU32:
			wantOK = zzAnd(i >= 0, i <= math.MaxUint32)
		case zzCI64, zzCF32, zzCF64:
			wantOK = true
		case zzCU64:
			wantOK = i >= 0
		}
	case zzSUint64:
		u = zzU64("u")
		zzAssume(u > math.MaxInt64)
		v = starlark.MakeUint64(u)
		wantOK = class == zzCU64 || class == zzCF32 || class == zzCF64
	case zzSHuge:
		if class == zzCF32 || class == zzCF64 {
			zzAssume(false) // Int.Float of a 65-bit value goes through big.Float: outside the bound
		}
		w := zzU64("w")
		x := new(big.Int).SetBits([]big.Word{big.Word(w), 1})
		if zzBool("neg") {
			x.Neg(x)
		}
		v = starlark.MakeBigInt(x)
	case zzSFloat:
		fb = zzU64("f")
		v = starlark.Float(math.Float64frombits(fb))
		wantOK = class == zzCF32 || class == zzCF64
	case zzSBool:
		b = zzBool("b")
		v = starlark.Bool(b)
		wantOK = class == zzCBool
	case zzSString:
		s = zzString("s", zzChoice("len", 3))
		v = starlark.String(s)
		wantOK = class == zzCStr // (a string is also accepted by a bytes field: see below)
	case zzSBytes:
		s = zzString("s", zzChoice("len", 3))
		v = starlark.Bytes(s)
		wantOK = class == zzCBytes
	default:
		v = starlark.None
	}

	var pv protoreflect.Value
	var err error
	panicked := zzCatch(func() { pv, err = toProto(fd, v) })
	zzAssert(zzNot(panicked), "C20.scalar.no_panic")
	zzObserve("failed", err != nil)
	cross := (shape == zzSString && class == zzCBytes) || (shape == zzSBytes && class == zzCStr)
	if cross {
		// string <-> bytes: accepted by the current code although not "of the field's
		// type"; what must hold in any case is that the stored value is well-typed.
		if err == nil {
			// (Bytes into a string field used to be stored as []byte and panicked the host on
			// use: fixed in /repo, see known_findings.json "fixed")
			zzAssert(zzWellTyped(pv, class), "C20.scalar.cross_well_typed")
		}
		zzReach("end")
		return
	}
	zzAssert((err == nil) == wantOK, "C20.scalar.accept_iff_in_type_and_range")
	if err != nil {
		zzReach("end")
		return
	}
	zzAssert(zzWellTyped(pv, class), "C20.scalar.well_typed")
	var back starlark.Value
	panicked = zzCatch(func() { back = toStarlark1(fd, pv, nil) })
	if panicked {
		zzObserve("panicmsg", zzPanicMsg())
	}
	zzAssert(zzNot(panicked), "C20.scalar.read_no_panic")
	switch shape {
	case zzSInt64, zzSUint64:
		if class == zzCF32 || class == zzCF64 {
			// an int stored into a float/double field: read back as the float nearest
			// to it (mirror form); exact only if that float equals the int
			f, isF := back.(starlark.Float)
			zzAssert(isF, "C20.scalar.int_in_float.type")
			var conv float64
			if shape == zzSInt64 {
				conv = float64(i)
			} else {
				conv = float64(u)
			}
			if class == zzCF32 {
				conv = float64(float32(conv))
			}
			zzAssert(zzSameF64(float64(f), conv), "C20.scalar.int_in_float.nearest")
			break
		}
		n, isI := back.(starlark.Int)
		zzAssert(isI, "C20.scalar.int.type")
		if shape == zzSInt64 {
			got, fits := n.Int64()
			zzObserve("got", got)
			zzAssert(zzAnd(fits, got == i), "C20.scalar.int.roundtrip")
		} else {
			got, fits := n.Uint64()
			zzObserve("got", got)
			zzAssert(zzAnd(fits, got == u), "C20.scalar.uint.roundtrip")
		}
	case zzSFloat:
		f, isF := back.(starlark.Float)
		zzAssert(isF, "C20.scalar.float.type")
		if class == zzCF64 {
			gb := math.Float64bits(float64(f))
			zzObserve("gb", gb)
			zzAssert(gb == fb, "C20.scalar.double.roundtrip_bits")
		} else {
			// float field: the documented narrowing to float32
			zzAssert(zzSameF64(float64(f), float64(float32(math.Float64frombits(fb)))), "C20.scalar.float.narrowed")
		}
	case zzSBool:
		g, isB := back.(starlark.Bool)
		zzAssert(zzAnd(isB, bool(g) == b), "C20.scalar.bool.roundtrip")
	case zzSString:
		g, isS := back.(starlark.String)
		zzAssert(isS, "C20.scalar.string.type")
		zzObserve("g", string(g))
		zzAssert(string(g) == s, "C20.scalar.string.roundtrip")
	case zzSBytes:
		g, isB := back.(starlark.Bytes)
		zzAssert(isB, "C20.scalar.bytes.type")
		zzAssert(string(g) == s, "C20.scalar.bytes.roundtrip")
	}
	zzReach("end")
}
