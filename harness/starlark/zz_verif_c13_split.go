//go:build verif

package starlark

// C13 / H13.3: split/rsplit (whitespace and separator forms, maxsplit any Int),
// splitlines, partition/rpartition, strip family, removeprefix/removesuffix.
//
// Oracles are reference implementations transcribed from the Python
// definitions (CPython's split_whitespace/split/rsplit/partition/strip), run on
// the same symbolic bytes; white space is Unicode White_Space as doc/spec.md
// says (ASCII part: 9..13 and 32), line terminator is "\n" only (spec).
// All text is ASCII (bytes == code points).

func zzASCII(s string) {
	for i := 0; i < len(s); i++ {
		zzAssume(s[i] < 0x80)
	}
}

func zzWS(c byte) bool { return zzOr(c == ' ', zzAnd(c >= 9, c <= 13)) }

// zzStrEq: equality of two strings with concrete lengths and symbolic bytes, without forking.
func zzStrEq(a, b string) bool {
	if len(a) != len(b) {
		return false
	}
	ok := true
	for i := 0; i < len(a); i++ {
		ok = zzAnd(ok, a[i] == b[i])
	}
	return ok
}

func zzStrsEq(a, b []string) bool {
	if len(a) != len(b) {
		return false
	}
	ok := true
	for i := range a {
		ok = zzAnd(ok, zzStrEq(a[i], b[i]))
	}
	return ok
}

// zzStringsOf converts a Starlark list/tuple of strings.
func zzStringsOf(v Value) ([]string, bool) {
	var elems []Value
	switch v := v.(type) {
	case *List:
		elems = v.elems
	case Tuple:
		elems = v
	default:
		return nil, false
	}
	out := make([]string, len(elems))
	for i, e := range elems {
		s, ok := e.(String)
		if !ok {
			return nil, false
		}
		out[i] = string(s)
	}
	return out, true
}

func zzMore(max, cnt int64) bool { return zzOr(max < 0, cnt < max) }

// zzRefSplitWS: CPython split_whitespace (max < 0: unlimited).
func zzRefSplitWS(s string, max int64) []string {
	out := []string{}
	i, n := 0, len(s)
	cnt := int64(0)
	for zzMore(max, cnt) {
		for i < n && zzWS(s[i]) {
			i++
		}
		if i == n {
			break
		}
		j := i
		i++
		for i < n && !zzWS(s[i]) {
			i++
		}
		out = append(out, s[j:i])
		cnt++
	}
	if i < n {
		for i < n && zzWS(s[i]) {
			i++
		}
		if i != n {
			out = append(out, s[i:])
		}
	}
	return out
}

// zzRefRSplitWS: CPython rsplit_whitespace.
func zzRefRSplitWS(s string, max int64) []string {
	out := []string{}
	i := len(s) - 1
	cnt := int64(0)
	for zzMore(max, cnt) {
		for i >= 0 && zzWS(s[i]) {
			i--
		}
		if i < 0 {
			break
		}
		j := i
		i--
		for i >= 0 && !zzWS(s[i]) {
			i--
		}
		out = append([]string{s[i+1 : j+1]}, out...)
		cnt++
	}
	if i >= 0 {
		for i >= 0 && zzWS(s[i]) {
			i--
		}
		if i >= 0 {
			out = append([]string{s[:i+1]}, out...)
		}
	}
	return out
}

func zzEqAt(s string, j int, sep string) bool {
	ok := true
	for k := 0; k < len(sep); k++ {
		ok = zzAnd(ok, s[j+k] == sep[k])
	}
	return ok
}

// zzRefSplit: Python str.split(sep, max), sep non-empty.
func zzRefSplit(s, sep string, max int64) []string {
	out := []string{}
	i, j := 0, 0
	cnt := int64(0)
	for j+len(sep) <= len(s) && zzMore(max, cnt) {
		if zzEqAt(s, j, sep) {
			out = append(out, s[i:j])
			j += len(sep)
			i = j
			cnt++
		} else {
			j++
		}
	}
	return append(out, s[i:])
}

// zzRefRSplit: Python str.rsplit(sep, max), sep non-empty.
func zzRefRSplit(s, sep string, max int64) []string {
	out := []string{}
	e := len(s)
	j := len(s) - len(sep)
	cnt := int64(0)
	for j >= 0 && zzMore(max, cnt) {
		if zzEqAt(s, j, sep) {
			out = append([]string{s[j+len(sep) : e]}, out...)
			e = j
			j -= len(sep)
			cnt++
		} else {
			j--
		}
	}
	return append([]string{s[:e]}, out...)
}

// zzSplitCore: S.split / S.rsplit. ws: sep is None/omitted; else sep of 0..2 bytes.
func zzSplitCore(method string, ws bool) {
	maxn := zzParam("maxlen", 3, 5)
	if ws {
		maxn = zzParam("maxlen_ws", 2, 4)
	}
	n := zzChoice("n", maxn+1)
	s := zzString("s", n)
	zzASCII(s)
	var sep string
	var args Tuple
	max := int64(-1)
	big := false // maxsplit beyond int64
	hasMax := false
	shape := zzChoice("shape", 3)
	if ws {
		// (), (None), (None, k)
		if shape >= 1 {
			args = Tuple{None}
		}
	} else {
		// (sep), (sep, k)
		if shape == 0 {
			shape = 1
		}
		sep = zzString("sep", zzChoice("m", 3))
		zzASCII(sep)
		args = Tuple{String(sep)}
	}
	if shape == 2 {
		hasMax = true
		k := zzOptFrom("k", 1, 4)
		args = append(args, k.v)
		big = zzNot(zzWFits64(k.w))
		max = int64(k.w.lo)
		// (rsplitspace used to preallocate max+1 entries, which panicked in makeslice for huge
		// counts: fixed in /repo, see known_findings.json "fixed"; every count is covered again)
	}
	_ = hasMax

	var got Value
	var err error
	panicked := zzCatch(func() { got, err = zzCallMethod(String(s), method, args) })
	zzObserve("panicked", panicked)
	zzAssert(zzNot(panicked), "C13.rsplit.huge_maxsplit_no_panic")
	if panicked {
		return
	}
	zzObserve("err", err != nil)
	if !ws && len(sep) == 0 {
		zzAssert(err != nil, "C13.split.empty_separator_fails")
		zzReach("end_emptysep")
		return
	}
	zzAssert((err != nil) == big, "C13.split.error_iff_maxsplit_beyond_int64")
	if err != nil {
		zzReach("end_err")
		return
	}
	r, ok := zzStringsOf(got)
	_, isList := got.(*List)
	zzAssert(zzAnd(ok, isList), "C13.split.result_is_list_of_strings")
	zzObserve("npieces", len(r))

	var want []string
	switch {
	case ws && method == "split":
		want = zzRefSplitWS(s, max)
	case ws:
		want = zzRefRSplitWS(s, max)
	case method == "split":
		want = zzRefSplit(s, sep, max)
	default:
		want = zzRefRSplit(s, sep, max)
	}
	if !ws && method == "rsplit" {
		// Python (and, with maxsplit, the spec: "chooses the rightmost splits")
		// searches from the right; the implementation splits from the left and
		// then joins the surplus, which differs when occurrences of sep overlap.
		overlap := false
		for j := 0; j+len(sep) <= n; j++ {
			for d := 1; d < len(sep) && j+d+len(sep) <= n; d++ {
				overlap = zzOr(overlap, zzAnd(zzEqAt(s, j, sep), zzEqAt(s, j+d, sep)))
			}
		}
		zzAssertExcept(zzStrsEq(r, want), "C13.rsplit.rightmost_splits", overlap)
	} else {
		zzAssert(zzStrsEq(r, want), "C13."+method+".value")
	}
	zzReach("end")
}

//verif:unwind 60
func zzH13_split_ws() { zzSplitCore("split", true) }

//verif:unwind 60
func zzH13_rsplit_ws() { zzSplitCore("rsplit", true) }

//verif:unwind 60
func zzH13_split_sep() { zzSplitCore("split", false) }

//verif:unwind 60
func zzH13_rsplit_sep() { zzSplitCore("rsplit", false) }

// zzH13_splitlines: lines split at "\n" (spec), keepends, "" -> [].
//
//verif:unwind 60
func zzH13_splitlines() {
	n := zzChoice("n", zzParam("maxlen", 3, 5)+1)
	s := zzString("s", n)
	zzASCII(s)
	var args Tuple
	keep := false
	switch zzChoice("shape", 3) {
	case 1:
		args = Tuple{False}
	case 2:
		args = Tuple{True}
		keep = true
	}
	got, err := zzCallMethod(String(s), "splitlines", args)
	zzAssert(err == nil, "C13.splitlines.no_error")
	if err != nil {
		return
	}
	r, ok := zzStringsOf(got)
	zzAssert(ok, "C13.splitlines.result_is_list_of_strings")
	// reference: CPython splitlines restricted to "\n"
	want := []string{}
	i := 0
	for i < n {
		j := i
		for j < n && s[j] != '\n' {
			j++
		}
		eol := j
		if j < n {
			j++
			if keep {
				eol = j
			}
		}
		want = append(want, s[i:eol])
		i = j
	}
	zzObserve("nlines", len(r))
	zzAssert(zzStrsEq(r, want), "C13.splitlines.value")
	zzReach("end")
}

// zzH13_partition: partition / rpartition.
//
//verif:unwind 60
func zzH13_partition() {
	method := []string{"partition", "rpartition"}[zzChoice("method", 2)]
	n := zzChoice("n", zzParam("maxlen", 3, 5)+1)
	s := zzString("s", n)
	sep := zzString("sep", zzChoice("m", 3))
	zzASCII(s)
	zzASCII(sep)
	got, err := zzCallMethod(String(s), method, Tuple{String(sep)})
	zzAssert((err != nil) == (len(sep) == 0), "C13.partition.error_iff_empty_separator")
	if err != nil {
		zzReach("end_err")
		return
	}
	r, ok := zzStringsOf(got)
	_, isTuple := got.(Tuple)
	zzAssert(zzAnd(zzAnd(ok, isTuple), len(r) == 3), "C13.partition.result_is_3tuple")
	pos := -1
	if method == "partition" {
		for j := 0; j+len(sep) <= n; j++ {
			if zzEqAt(s, j, sep) {
				pos = j
				break
			}
		}
	} else {
		for j := n - len(sep); j >= 0; j-- {
			if zzEqAt(s, j, sep) {
				pos = j
				break
			}
		}
	}
	var want []string
	switch {
	case pos >= 0:
		want = []string{s[:pos], sep, s[pos+len(sep):]}
	case method == "partition":
		want = []string{s, "", ""}
	default:
		want = []string{"", "", s}
	}
	zzObserve("pos", pos)
	zzAssert(zzStrsEq(r, want), "C13."+method+".value")
	zzReach("end")
}

// zzInSet: c occurs in cutset (no fork).
func zzInSet(c byte, cutset string) bool {
	in := false
	for k := 0; k < len(cutset); k++ {
		in = zzOr(in, cutset[k] == c)
	}
	return in
}

// zzH13_strip: strip / lstrip / rstrip with omitted or given cutset.
//
//verif:unwind 60
func zzH13_strip() {
	method := []string{"strip", "lstrip", "rstrip"}[zzChoice("method", 3)]
	n := zzChoice("n", zzParam("maxlen", 2, 4)+1)
	s := zzString("s", n)
	zzASCII(s)
	var args Tuple
	var cut string
	given := false
	if m := zzChoice("cut", 4); m > 0 {
		given = true
		cut = zzString("cutset", m-1)
		zzASCII(cut)
		args = Tuple{String(cut)}
	}
	got, err := zzCallMethod(String(s), method, args)
	zzAssert(err == nil, "C13.strip.no_error")
	if err != nil {
		return
	}
	r, ok := got.(String)
	zzAssert(ok, "C13.strip.result_is_string")
	drop := func(c byte) bool {
		if given {
			return zzInSet(c, cut)
		}
		return zzWS(c)
	}
	i, j := 0, n
	if method != "rstrip" {
		for i < j && drop(s[i]) {
			i++
		}
	}
	if method != "lstrip" {
		for j > i && drop(s[j-1]) {
			j--
		}
	}
	zzObserve("res", string(r))
	// spec and Python: an explicit empty cutset removes nothing; the
	// implementation treats "" like an omitted argument (strips white space).
	if given && len(cut) == 0 {
		zzAssertExcept(zzStrEq(string(r), s), "C13.strip.empty_cutset_removes_nothing", true)
	} else {
		zzAssert(zzStrEq(string(r), s[i:j]), "C13."+method+".value")
	}
	zzReach("end")
}

// zzH13_removefix: removeprefix / removesuffix.
//
//verif:unwind 60
func zzH13_removefix() {
	method := []string{"removeprefix", "removesuffix"}[zzChoice("method", 2)]
	n := zzChoice("n", zzParam("maxlen", 3, 5)+1)
	m := zzChoice("m", zzParam("maxfix", 3, 3)+1)
	s := zzString("s", n)
	fix := zzString("fix", m)
	got, err := zzCallMethod(String(s), method, Tuple{String(fix)})
	zzAssert(err == nil, "C13.removefix.no_error")
	if err != nil {
		return
	}
	r, ok := got.(String)
	zzAssert(ok, "C13.removefix.result_is_string")
	want := s
	if m <= n {
		if method == "removeprefix" {
			if zzEqAt(s, 0, fix) {
				want = s[m:]
			}
		} else {
			if zzEqAt(s, n-m, fix) {
				want = s[:n-m]
			}
		}
	}
	zzObserve("res", string(r))
	zzAssert(zzStrEq(string(r), want), "C13."+method+".value")
	zzReach("end")
}
