//go:build verif

package starlark

// H10.1: Add/Sub/Cmp/Sign/Not/Unary minus are exact for |x|,|y| < 2^B, through
// the real constructors (both representations), result canonical.
//
//verif:unwind 40
//verif:config generic posix64 posix64-nommap
//verif:configq generic posix64
func zzH10_addsub() {
	B := zzParam("bits", 40, 70)
	x, xv := zzSymInt("x", B)
	y, yv := zzSymInt("y", B)
	sum, sc, ok1 := zzIntValue(x.Add(y))
	zzAssert(ok1, "C10.add.width")
	zzAssert(zzWEq(sum, zzWAdd(xv, yv)), "C10.add.exact")
	zzAssert(sc, "C10.add.canonical")
	dif, dc, ok2 := zzIntValue(x.Sub(y))
	zzAssert(ok2, "C10.sub.width")
	zzAssert(zzWEq(dif, zzWSub(xv, yv)), "C10.sub.exact")
	zzAssert(dc, "C10.sub.canonical")
	zzReach("end")
}

//verif:unwind 40
//verif:config generic posix64 posix64-nommap
//verif:configq generic
func zzH10_cmpsign() {
	B := zzParam("bits", 40, 70)
	x, xv := zzSymInt("x", B)
	y, yv := zzSymInt("y", B)
	c, err := x.Cmp(y, 0)
	zzAssert(err == nil, "C10.cmp.noerr")
	want := zzIteInt(zzWLess(xv, yv), -1, zzIteInt(zzWEq(xv, yv), 0, 1))
	zzObserve("cmp", c)
	zzAssert(c == want, "C10.cmp.exact")
	s := x.Sign()
	zero := zzW{}
	zzAssert(s == zzIteInt(zzWLess(xv, zero), -1, zzIteInt(zzWEq(xv, zero), 0, 1)), "C10.sign.exact")
	n, nc, ok := zzIntValue(x.Not())
	zzAssert(zzAnd(ok, nc), "C10.not.canonical")
	zzAssert(zzWEq(n, zzWSub(zzWNeg(xv), zzW{0, 1})), "C10.not.exact")
	zzReach("end")
}

// ---- range kernel (H10.6) ----

// zzRangeLenRef is the exact length of range(start, stop, step) provided the span
// |stop-start| of a non-empty range is at most MaxInt64 and step != MinInt64 (callers
// state that as the region of the recorded defect). The span is computed in uint64
// (always exact); the division is written in signed form so that, where the
// implementation does not wrap, both sides share the solver's bvsdiv term ("mirror form":
// symbolic/symbolic 64-bit division equivalences are otherwise out of z3's reach).
func zzRangeLenRef(start, stop, step int64) uint64 {
	up := step > 0
	spanUp := uint64(stop) - uint64(start)
	spanDn := uint64(start) - uint64(stop)
	nonEmpty := zzIteBool(up, stop > start, start > stop)
	span := zzIteU64(up, spanUp, spanDn)
	astep := zzIteI64(up, step, -step)
	n := uint64(int64(span-1)/astep + 1)
	return zzIteU64(nonEmpty, n, 0)
}

// zzH10_rangeLen: rangeLen equals the exact length for all int64 start/stop/step,
// except where the span stop-start is not representable (recorded finding).
func zzH10_rangeLen() {
	start, stop, step := zzI64("start"), zzI64("stop"), zzI64("step")
	zzAssume(step != 0)
	n := rangeLen(int(start), int(stop), int(step))
	zzObserve("n", n)
	want := zzRangeLenRef(start, stop, step)
	up := step > 0
	span := zzIteU64(up, uint64(stop)-uint64(start), uint64(start)-uint64(stop))
	nonEmpty := zzIteBool(up, stop > start, start > stop)
	// Region of the known defect: non-empty range whose span exceeds MaxInt64 (stop-1-start wraps),
	// or step == MinInt64 (negation wraps).
	region := zzOr(zzAnd(nonEmpty, span > 1<<63-1), step == -1<<63)
	zzAssertExcept(zzAnd(n >= 0, uint64(n) == want), "C10.rangeLen.exact", region)
	zzReach("end")
}

// zzRangeSteps: structural choices for range steps and slice strides.
var zzRangeSteps = []int64{1, 2, 3, -1, -3, 7, 1 << 31, -(1 << 31), 1 << 62, -(1 << 62)}

// zzH10_rangeIndex: for symbolic start/stop (|v| < 2^B), a step from zzRangeSteps and every
// index inside the range: the i-th element is start + i*step, lies inside the range, the
// length is maximal, and membership agrees.
func zzH10_rangeIndex() {
	B := uint(zzParam("magnitude_bits", 20, 40))
	start, stop, i := zzI64("start"), zzI64("stop"), zzI64("i")
	step := zzRangeSteps[zzChoice("step", zzParam("steps", 6, len(zzRangeSteps)))]
	lim := int64(1) << B
	zzAssume(zzAnd(start > -lim, start < lim))
	zzAssume(zzAnd(stop > -lim, stop < lim))
	n := rangeLen(int(start), int(stop), int(step))
	r := rangeValue{start: int(start), stop: int(stop), step: int(step), len: n}
	zzAssume(zzAnd(i >= 0, i < int64(n)))
	v, ok := r.Index(int(i)).(Int).Int64()
	zzObserve("v", v)
	zzAssert(zzAnd(ok, v == start+i*step), "C10.range.index_value")
	inside := zzIteBool(step > 0, zzAnd(v >= start, v < stop), zzAnd(v <= start, v > stop))
	zzAssert(inside, "C10.range.index_inside")
	// the element after the last one is outside: the length is maximal
	last := start + int64(n-1)*step
	next := last + step
	zzAssert(zzIteBool(step > 0, next >= stop, next <= stop), "C10.range.len_maximal")
	// membership agrees (contains() handles only int32-range candidates: recorded separately)
	if v >= -1<<31 && v <= 1<<31-1 {
		zzAssert(r.contains(MakeInt64(v)), "C10.range.contains_member")
	}
	zzReach("end")
}

// zzH10_rangeSlice: slicing a range yields the subsequence: new start/stop/step are
// computed without wrap-around whenever the result is non-empty, and the new length is exact.
func zzH10_rangeSlice() {
	start, stop := zzI64("start"), zzI64("stop")
	// steps and strides are powers of two (divisions by them are shifts the solver can decide;
	// other constants leave the length identity undecided within the time limit)
	step := []int64{1, -1, 2, -4, 1 << 31, -(1 << 31), 1 << 62, -1 << 63}[zzChoice("step", zzParam("steps", 6, 8))]
	ln := zzRangeLenRef(start, stop, step)
	zzAssume(ln <= 1<<31-1) // slice() passes int32-range indices already clamped to the length
	r := rangeValue{start: int(start), stop: int(stop), step: int(step), len: int(ln)}
	// slice indices as produced by eval.slice: 0 <= s <= e <= len for positive stride
	s, e := zzI64("s"), zzI64("e")
	st := []int64{1, 2, 4, 8, 1 << 30}[zzChoice("stride", 5)]
	zzAssume(zzAnd(s >= 0, zzAnd(s <= e, uint64(e) <= ln)))
	region := zzRangeSliceWraps(start, step, s, e, st)
	var res rangeValue
	zzOverflowWatch(true)
	panicked := zzCatch(func() { res = r.Slice(int(s), int(e), int(st)).(rangeValue) })
	zzOverflowWatch(false)
	zzAssertExcept(zzNot(panicked), "C10.range.slice_nopanic", region)
	if panicked {
		return
	}
	// exact length of the subsequence: ceil((e-s)/st)
	wantLen := zzIteU64(e > s, (uint64(e-s)-1)/uint64(st)+1, 0)
	zzObserve("len", res.len)
	var ok bool
	if zzSymbolic() {
		ok = zzAnd(zzNot(zzOverflowed()), uint64(res.len) == wantLen)
	} else {
		ok = uint64(res.len) == wantLen
		if ok && wantLen > 0 {
			ok = zzBigEq(res.Index(0).(Int), zzBigLin(start, s, step))
		}
	}
	// known defect region: the computed bounds start+step*e or step*st leave int64
	zzAssertExcept(ok, "C10.range.slice_exact", region)
	zzReach("end")
}
