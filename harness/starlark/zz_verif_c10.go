//go:build verif

package starlark

// zzH10_smoke: Int.Add on small operands equals 64-bit addition.
func zzH10_smoke() {
	x, y := zzI32("x"), zzI32("y")
	r := MakeInt64(int64(x)).Add(MakeInt64(int64(y)))
	v, ok := r.Int64()
	zzObserve("v", v)
	zzAssert(zzAnd(ok, v == int64(x)+int64(y)), "C10.smoke.add")
	zzReach("end")
}

// zzH10_rangeLen: rangeLen never returns a negative count for a non-empty ascending range.
func zzH10_rangeLen() {
	start, stop, step := zzI64("start"), zzI64("stop"), zzI64("step")
	zzAssume(step > 0)
	zzAssume(start < stop)
	n := rangeLen(int(start), int(stop), int(step))
	zzObserve("n", n)
	zzAssertExcept(n > 0, "C10.rangeLen.positive", uint64(stop)-uint64(start) > uint64(1<<63-1))
	zzReach("end")
}
