//go:build verif

package starlark

// H10.1: Add/Sub/Cmp/Sign/Not/Unary minus are exact for |x|,|y| < 2^B, through
// the real constructors (both representations), result canonical.
//
//verif:unwind 40
func zzH10_addsub() {
	B := zzParam("bits", 66, 70)
	x, xv := zzSymInt("x", B)
	y, yv := zzSymInt("y", B)
	sum, sc, ok1 := zzIntValue(x.Add(y))
	zzAssert(ok1, "C10.add.width")
	zzAssert(zzWEq(sum, zzWAdd(xv, yv)), "C10.add.exact")
	zzAssert(sc, "C10.add.canonical")
	dif, dc, ok2 := zzIntValue(x.Sub(y))
	zzAssert(ok2, "C10.sub.width")
	zzAssert(zzWEq(dif, zzWSub(xv, yv)), "C10.sub.exact")
	zzAssert(dc, "C10.sub.canonical")
	zzReach("end")
}

//verif:unwind 40
func zzH10_cmpsign() {
	B := zzParam("bits", 66, 70)
	x, xv := zzSymInt("x", B)
	y, yv := zzSymInt("y", B)
	c, err := x.Cmp(y, 0)
	zzAssert(err == nil, "C10.cmp.noerr")
	want := zzIteInt(zzWLess(xv, yv), -1, zzIteInt(zzWEq(xv, yv), 0, 1))
	zzObserve("cmp", c)
	zzAssert(c == want, "C10.cmp.exact")
	s := x.Sign()
	zero := zzW{}
	zzAssert(s == zzIteInt(zzWLess(xv, zero), -1, zzIteInt(zzWEq(xv, zero), 0, 1)), "C10.sign.exact")
	n, nc, ok := zzIntValue(x.Not())
	zzAssert(zzAnd(ok, nc), "C10.not.canonical")
	zzAssert(zzWEq(n, zzWSub(zzWNeg(xv), zzW{0, 1})), "C10.not.exact")
	zzReach("end")
}

// zzH10_rangeLen: rangeLen never returns a negative count for a non-empty ascending range.
func zzH10_rangeLen() {
	start, stop, step := zzI64("start"), zzI64("stop"), zzI64("step")
	zzAssume(step > 0)
	zzAssume(start < stop)
	n := rangeLen(int(start), int(stop), int(step))
	zzObserve("n", n)
	zzAssertExcept(n > 0, "C10.rangeLen.positive", uint64(stop)-uint64(start) > uint64(1<<63-1))
	zzReach("end")
}
