//go:build verif

package starlark

import (
	"math/big"
	"sort"

	"go.starlark.net/syntax"
)

// ---- argument pool ----

const zzPoolSize = 16

var zzPoolNames = [zzPoolSize]string{"None", "True", "smallint", "bigint", "negbig", "float", "str2", "emptystr",
	"bytes2", "list2", "emptylist", "tuple2", "dict1", "set2", "cycliclist", "range3"}

// zzPoolValue builds the k-th pool value; scalars inside are symbolic.
func zzPoolValue(k int, tag string) Value {
	switch k {
	case 0:
		return None
	case 1:
		return True
	case 2:
		return MakeInt64(int64(zzI32(tag + "_i")))
	case 3: // positive beyond int32, up to 2^62 (huge counts)
		v := zzU64(tag + "_b")
		zzAssume(zzAnd(v >= 1<<31, v <= 1<<62))
		return MakeUint64(v)
	case 4: // negative, magnitude up to 2^70
		hi := zzU8(tag + "_nh")
		lo := zzU64(tag + "_nl")
		b := new(big.Int).SetBits([]big.Word{big.Word(lo), big.Word(hi)})
		zzAssume(zzOr(hi != 0, lo >= 1<<31))
		return MakeBigInt(b.Neg(b))
	case 5:
		return Float(zzF64(tag + "_f"))
	case 6:
		return String(zzString(tag+"_s", 2))
	case 7:
		return String("")
	case 8:
		return Bytes(zzString(tag+"_y", 2))
	case 9:
		return NewList([]Value{MakeInt64(int64(zzI8(tag + "_l0"))), String("x")})
	case 10:
		return NewList(nil)
	case 11:
		return Tuple{MakeInt(1), String(zzString(tag+"_t", 1))}
	case 12:
		d := NewDict(1)
		d.SetKey(String("k"), MakeInt64(int64(zzI8(tag+"_d"))))
		return d
	case 13:
		s := NewSet(2)
		s.Insert(MakeInt(1))
		s.Insert(String("a"))
		return s
	case 14:
		l := NewList([]Value{MakeInt(1)})
		l.Append(l)
		return l
	default:
		return rangeValue{start: 0, stop: 3, step: 1, len: 3}
	}
}

type zzCallable struct {
	name string
	fn   Value
}

// zzCallables lists every universe built-in and every method of string, bytes,
// list, dict and set (bound to a small receiver), in a deterministic order.
func zzCallables() []zzCallable {
	var cs []zzCallable
	for _, name := range Universe.Keys() {
		if b, ok := Universe[name].(*Builtin); ok {
			cs = append(cs, zzCallable{name, b})
		}
	}
	recv := func(kind string) Value {
		switch kind {
		case "string":
			return String("a,b c\n")
		case "bytes":
			return Bytes("ab")
		case "list":
			return NewList([]Value{MakeInt(3), MakeInt(1), MakeInt(2)})
		case "dict":
			d := NewDict(2)
			d.SetKey(String("a"), MakeInt(1))
			d.SetKey(MakeInt(2), String("b"))
			return d
		default:
			s := NewSet(2)
			s.Insert(MakeInt(1))
			s.Insert(MakeInt(2))
			return s
		}
	}
	add := func(kind string, methods map[string]*Builtin) {
		var names []string
		for n := range methods {
			names = append(names, n)
		}
		sort.Strings(names)
		for _, n := range names {
			r := recv(kind)
			v, _ := r.(HasAttrs).Attr(n)
			if v != nil {
				cs = append(cs, zzCallable{kind + "." + n, v})
			}
		}
	}
	add("string", stringMethods)
	add("bytes", bytesMethods)
	add("list", listMethods)
	add("dict", dictMethods)
	add("set", setMethods)
	return cs
}

// zzC02Known is the region predicate of recorded crash findings keyed by (callable, argument
// kinds). It is empty now: the zero-argument set methods (nil interface call) and
// rsplit(None, huge) (makeslice panic) were repaired in /repo (known_findings.json "fixed").
func zzC02Known(name string, kinds []int) bool {
	return false
}

func zzC02Call(c zzCallable, kinds []int, kw int) {
	args := make(Tuple, len(kinds))
	for i, k := range kinds {
		args[i] = zzPoolValue(k, "a"+string(rune('0'+i)))
	}
	var kwargs []Tuple
	if kw >= 0 {
		kwargs = []Tuple{{String("key"), zzPoolValue(kw, "kw")}}
	}
	thread := &Thread{Name: "t"}
	thread.SetMaxExecutionSteps(10000)
	var err error
	var res Value
	panicked := false
	fatal := zzFatal("C02.call.fatal", func() {
		panicked = zzCatch(func() { res, err = Call(thread, c.fn, args, kwargs) })
	})
	known := zzC02Known(c.name, kinds)
	zzAssertExcept(zzNot(fatal), "C02.call.nofatal", known)
	zzAssertExcept(zzNot(panicked), "C02.call.nopanic", known)
	if !panicked && !fatal {
		// a value or an error (sorted() may return both a partial result and the error)
		zzAssert(res != nil || err != nil, "C02.call.value_or_error")
		zzAssert(thread.CallStackDepth() == 0, "C02.call.stack_restored")
	}
}

// zzH02_call1: every callable × {0 or 1 positional argument from the whole pool} × optional keyword.
//
//verif:unwind 80
//verif:timeout 3000
func zzH02_call1() {
	cs := zzCallables()
	ci := zzChoice("callable", len(cs))
	c := cs[ci]
	n := zzChoice("nargs", 2)
	var kinds []int
	full := zzParam("full_pool", 0, 1) == 1
	if n == 1 {
		var k0 int
		if full {
			k0 = zzChoice("k0", zzPoolSize)
			if k0 == 5 {
				zzAssume(false) // symbolic floats: zzH02_callfloat
			}
		} else {
			// quick tier: 8 of the 16 kinds (symbolic floats make every comparison a
			// floating-point query; the remaining kinds are in the thorough tier)
			k0 = []int{0, 2, 3, 4, 6, 9, 12, 14}[zzChoice("k0", 8)]
		}
		kinds = []int{k0}
	}
	kw := -1
	if full && zzChoice("haskw", 2) == 1 {
		kw = zzChoice("kwkind", 3) * 2 // None, smallint, negbig
	}
	zzC02Call(c, kinds, kw)
	zzReach("end")
}

// zzH02_call2: every callable × two positional arguments (quick: reduced pool).
//
//verif:unwind 80
//verif:timeout 3000
//verif:thorough
func zzH02_call2() {
	cs := zzCallables()
	c := cs[zzChoice("callable", len(cs))]
	reduced := []int{0, 2, 3, 6, 9}
	var k0, k1 int
	if zzParam("fullpool2", 0, 1) == 1 {
		// every kind except the symbolic float (each float comparison is a floating-point
		// query of seconds; floats are covered with one argument in zzH02_call1)
		nf := []int{0, 2, 3, 4, 6, 8, 9, 12, 13, 14} // 10 of the 16 kinds (100 pairs per callable)
		k0, k1 = nf[zzChoice("k0", len(nf))], nf[zzChoice("k1", len(nf))]
	} else {
		k0, k1 = reduced[zzChoice("k0", len(reduced))], reduced[zzChoice("k1", len(reduced))]
	}
	zzC02Call(c, []int{k0, k1}, -1)
	zzReach("end")
}

// zzH02_call3: three arguments from {None, smallint, bigint} (index/count style parameters).
//
//verif:unwind 80
//verif:timeout 3000
//verif:thorough
func zzH02_call3() {
	cs := zzCallables()
	c := cs[zzChoice("callable", len(cs))]
	pool := []int{0, 2, 3}
	kinds := []int{pool[zzChoice("k0", 3)], pool[zzChoice("k1", 3)], pool[zzChoice("k2", 3)]}
	zzC02Call(c, kinds, -1)
	zzReach("end")
}

// zzH02_source: any source text of n symbolic bytes goes through parse, resolve,
// compile and execution with a step budget and returns a value or an error.
//
//verif:unwind 40
func zzH02_source() {
	n := zzParam("source_bytes", 2, 3)
	src := zzString("src", n)
	opts := &syntax.FileOptions{Set: zzBool("oSet"), While: zzBool("oWhile"), TopLevelControl: zzBool("oTop"),
		GlobalReassign: zzBool("oReassign"), Recursion: zzBool("oRec"), LoadBindsGlobally: zzBool("oLoad")}
	thread := &Thread{Name: "t"}
	thread.SetMaxExecutionSteps(1000)
	var err error
	var g StringDict
	panicked := false
	fatal := zzFatal("C02.source.fatal", func() {
		panicked = zzCatch(func() { g, err = ExecFileOptions(opts, thread, "s.star", src, nil) })
	})
	zzAssert(zzNot(fatal), "C02.source.nofatal")
	zzAssert(zzNot(panicked), "C02.source.nopanic")
	_, _ = g, err
	if !panicked && !fatal {
		zzAssert(thread.CallStackDepth() == 0, "C02.source.stack_restored")
	}
	zzReach("end")
}

// ---- H02.2: reference cycles ----

// zzH02_cycles: str/repr, Freeze, ==, <, hash, `in`, sorted on graphs with arbitrary
// (also cyclic) edges never exhaust the stack or panic; each returns a value or an error.
//
//verif:unwind 200
//verif:depth 1500
func zzH02_cycles() {
	root, nodes := zzC02Graph()
	other, _ := zzC02GraphCopy(root, nodes)
	op := zzChoice("op", 7)
	thread := &Thread{Name: "t"}
	thread.SetMaxExecutionSteps(10000)
	panicked := false
	fatal := zzFatal("C02.cycles.fatal", func() {
		panicked = zzCatch(func() {
			switch op {
			case 0:
				_ = root.String()
			case 1:
				root.Freeze()
			case 2:
				_, _ = Compare(syntax.EQL, root, other)
			case 3:
				_, _ = Compare(syntax.LT, root, other)
			case 4:
				_, _ = root.Hash()
			case 5:
				_, _ = Call(thread, Universe["sorted"], Tuple{NewList([]Value{root, other})}, nil)
			case 6:
				_, _ = Binary(syntax.IN, root, NewList([]Value{other}))
			}
		})
	})
	zzAssert(zzNot(fatal), "C02.cycles.nofatal")
	zzAssert(zzNot(panicked), "C02.cycles.nopanic")
	zzReach("end")
}

// zzH02_closureCycle: freezing / printing a function whose closure cell refers back to itself.
//
//verif:depth 1500
func zzH02_closureCycle() {
	const src = `
def outer():
    def inner():
        return inner
    return inner
f = outer()
`
	thread := &Thread{Name: "t"}
	opts := &syntax.FileOptions{Recursion: true}
	var g StringDict
	var err error
	// ExecFile freezes the globals on return: the cycle f -> cell -> f is reached there
	fatal := zzFatal("C02.closure.fatal", func() {
		g, err = ExecFileOptions(opts, thread, "c.star", src, nil)
	})
	// recorded defect: Function.Freeze recurses forever through the self-referential cell
	zzAssertExcept(zzNot(fatal), "C02.closure_cycle.freeze_terminates", true)
	if !fatal {
		zzAssert(err == nil, "C02.closure_cycle.runs")
		_ = g["f"].String()
	}
	zzReach("end")
}

// zzH02_manyargs: calls with 254..257 positional or named arguments (around the documented
// 255 limit) are executed or rejected with an error — never a host panic.
func zzH02_manyargs() {
	n := 254 + zzChoice("n", 4)
	named := zzChoice("named", 2) == 1
	src := "def f(*a, **k):\n    return len(a) + len(k)\nr = f("
	for i := 0; i < n; i++ {
		if i > 0 {
			src += ", "
		}
		if named {
			src += "k" + zzItoa(i) + "=1"
		} else {
			src += "1"
		}
	}
	src += ")\n"
	thread := &Thread{Name: "t"}
	thread.SetMaxExecutionSteps(100000)
	var err error
	panicked := false
	fatal := zzFatal("C02.manyargs.fatal", func() {
		panicked = zzCatch(func() { _, err = ExecFileOptions(&syntax.FileOptions{}, thread, "m.star", src, nil) })
	})
	zzAssert(zzNot(fatal), "C02.manyargs.nofatal")
	zzAssert(zzNot(panicked), "C02.manyargs.nopanic")
	if !panicked && !fatal {
		zzAssert((err != nil) == (n > 255), "C02.manyargs.limit_255")
	}
	zzReach("end")
}

func zzItoa(i int) string {
	if i == 0 {
		return "0"
	}
	s := ""
	for i > 0 {
		s = string(rune('0'+i%10)) + s
		i /= 10
	}
	return s
}

// zzH02_callfloat: universe built-ins with one symbolic float argument (every comparison
// on a symbolic float is a floating-point query of seconds, so this runs apart with a path cap).
//
//verif:unwind 80
//verif:timeout 3000
//verif:maxpaths 1500
//verif:thorough
func zzH02_callfloat() {
	cs := zzCallables()
	nb := 0
	for _, c := range cs {
		if _, ok := c.fn.(*Builtin); ok && c.fn.(*Builtin).Receiver() == nil {
			nb++
		}
	}
	c := cs[zzChoice("callable", nb)]
	zzC02Call(c, []int{5}, -1)
	zzReach("end")
}
