//go:build verif

package starlark

import "math/big"

// Native-side exact references (used only when !zzSymbolic()).

// zzBigLin returns a + b*c exactly.
func zzBigLin(a, b, c int64) *big.Int {
	r := new(big.Int).Mul(big.NewInt(b), big.NewInt(c))
	return r.Add(r, big.NewInt(a))
}

func zzBigEq(i Int, want *big.Int) bool { return i.BigInt().Cmp(want) == 0 }

// zzMulFits reports whether a*b fits in int64 (128-bit product check, symbolic-friendly: no branches).
func zzMulWraps(a, b int64) bool {
	if zzSymbolic() {
		zzOverflowWatch(true)
		_ = zzProbeMul(a, b)
		zzOverflowWatch(false)
		return zzOverflowed()
	}
	p := new(big.Int).Mul(big.NewInt(a), big.NewInt(b))
	return !p.IsInt64()
}

// zzRangeSliceWraps: region predicate of the recorded defect in rangeValue.Slice —
// one of start+step*s, start+step*e, step*st is not representable in int64.
func zzRangeSliceWraps(start, step, s, e, st int64) bool {
	if zzSymbolic() {
		zzOverflowWatch(true)
		_ = zzProbeSlice(start, step, s, e, st)
		zzOverflowWatch(false)
		return zzOverflowed()
	}
	fits := func(x *big.Int) bool { return x.IsInt64() }
	a := zzBigLin(start, step, s)
	b := zzBigLin(start, step, e)
	c := new(big.Int).Mul(big.NewInt(step), big.NewInt(st))
	m1 := new(big.Int).Mul(big.NewInt(step), big.NewInt(s))
	m2 := new(big.Int).Mul(big.NewInt(step), big.NewInt(e))
	return !(fits(a) && fits(b) && fits(c) && fits(m1) && fits(m2))
}

// Probes: the mathematical formulas evaluated in int64 under the engine's overflow watch
// (functions named zzProbe* are watched; other zz* functions are not).
func zzProbeMul(a, b int64) int64 { return a * b }

func zzProbeSlice(start, step, s, e, st int64) int64 {
	a := start + step*s
	b := start + step*e
	c := step * st
	return a ^ b ^ c
}
