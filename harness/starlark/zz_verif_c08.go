//go:build verif

package starlark

import (
	"strconv"

	"go.starlark.net/syntax"
)

// ---------------------------------------------------------------------------
// Signature model shared by the C08 harnesses.
//
//	def f(a, b=102, c=103, *r, k, l=105, **w)
//
// positional parameters are named a, b, c (the first nreq are required, the
// others have defaults 101, 102, 103); star is 0 (none), 1 (bare *) or 2 (*r);
// keyword-only parameters are named k, l (default 104, 105 unless required);
// the ** parameter is named w.
// ---------------------------------------------------------------------------

type zzSig struct {
	npos, nreq int
	star       int
	nkw        int
	kwReq      [2]bool
	kwargs     bool
}

const (
	zzPosNames = "abc"
	zzKwNames  = "kl"
)

func zzSigDefault(i int) int { return 101 + i } // i: index among named params a,b,c,k,l (k=3,l=4)

// zzSigSource renders the signature as Starlark source. body is the def body.
func zzSigSource(s zzSig, body string) string {
	src := "def f("
	sep := ""
	for i := 0; i < s.npos; i++ {
		src += sep + zzPosNames[i:i+1]
		if i >= s.nreq {
			src += "=" + strconv.Itoa(zzSigDefault(i))
		}
		sep = ", "
	}
	switch s.star {
	case 1:
		src += sep + "*"
		sep = ", "
	case 2:
		src += sep + "*r"
		sep = ", "
	}
	for j := 0; j < s.nkw; j++ {
		src += sep + zzKwNames[j:j+1]
		if !s.kwReq[j] {
			src += "=" + strconv.Itoa(zzSigDefault(3+j))
		}
		sep = ", "
	}
	if s.kwargs {
		src += sep + "**w"
	}
	return src + "):\n    " + body + "\n"
}

// zzSigChoose picks a well-formed signature within the bounds.
func zzSigChoose(maxPos, maxKw int) zzSig {
	var s zzSig
	s.npos = zzChoice("sig_npos", maxPos+1)
	s.nreq = zzChoice("sig_nreq", s.npos+1)
	s.star = zzChoice("sig_star", 3)
	switch s.star {
	case 0:
		s.nkw = 0
	case 1:
		s.nkw = 1 + zzChoice("sig_nkw", maxKw) // bare * needs >= 1 kw-only
	case 2:
		s.nkw = zzChoice("sig_nkw", maxKw+1)
	}
	for j := 0; j < s.nkw; j++ {
		s.kwReq[j] = zzChoice("sig_kwreq"+strconv.Itoa(j), 2) == 1
	}
	s.kwargs = zzChoice("sig_kwargs", 2) == 1
	return s
}

// zzSigCompile obtains the real *Function for the signature via parser,
// resolver, compiler and the toplevel MAKEFUNC.
func zzSigCompile(s zzSig, body string) *Function {
	thread := &Thread{Name: "sig"}
	g, err := ExecFileOptions(&syntax.FileOptions{}, thread, "sig.star", zzSigSource(s, body), nil)
	if err != nil {
		zzObserve("compile_err", err.Error())
	}
	zzAssert(err == nil, "C08.sig.compiles")
	fn, _ := g["f"].(*Function)
	zzAssert(fn != nil, "C08.sig.isfunction")
	return fn
}

// ---------------------------------------------------------------------------
// Reference binder: Python 3 semantics, written from the language reference
// (section "Calls"): positional arguments fill the positional parameters from
// the left; surplus go to *args or are an error; each keyword argument goes to
// the parameter of that name (positional or keyword-only) and it is an error if
// that parameter already has a value; otherwise it goes to **kwargs (error if
// absent, or if that keyword was already given); unfilled parameters take their
// default or the call fails.
//
// Values are identified by small ints (positional i -> 1+i, keyword j -> 11+j,
// default of named parameter t -> 101+t, 0 = unset). The binder is written in
// ite style over the symbolic keyword names: it never branches on them, so the
// expected binding is one formula per (signature, call shape) and the solver
// decides the comparison for all names at once.
// ---------------------------------------------------------------------------

type zzBound struct {
	ok       bool   // call accepted
	named    [5]int // value ids of a, b, c, k, l
	nvarargs int    // surplus positional (ids 1+npos ...)
	inKw     []bool // keyword j went to **kwargs
}

func zzRefBind(s zzSig, npos int, kwNames []string) zzBound {
	var b zzBound
	b.ok = true
	declared := [5]bool{}
	required := [5]bool{}
	for i := 0; i < s.npos; i++ {
		declared[i] = true
		required[i] = i < s.nreq
	}
	for i := 0; i < s.nkw; i++ {
		declared[3+i] = true
		required[3+i] = s.kwReq[i]
	}
	pnames := zzPosNames + zzKwNames
	// positional
	for i := 0; i < npos; i++ {
		if i < s.npos {
			b.named[i] = 1 + i
		} else if s.star == 2 {
			b.nvarargs++
		} else {
			b.ok = false // too many positional arguments
		}
	}
	// keywords, in call order
	for j, name := range kwNames {
		miss := true
		for t := 0; t < 5; t++ {
			if !declared[t] {
				continue
			}
			hit := name == pnames[t:t+1]
			miss = zzAnd(miss, zzNot(hit))
			b.ok = zzAnd(b.ok, zzNot(zzAnd(hit, b.named[t] != 0))) // multiple values
			b.named[t] = zzIteInt(zzAnd(hit, b.named[t] == 0), 11+j, b.named[t])
		}
		if !s.kwargs {
			b.ok = zzAnd(b.ok, zzNot(miss)) // unexpected keyword
			b.inKw = append(b.inKw, false)
			continue
		}
		for p := 0; p < j; p++ {
			b.ok = zzAnd(b.ok, zzNot(zzAnd(miss, zzAnd(b.inKw[p], kwNames[p] == name)))) // repeated keyword
		}
		b.inKw = append(b.inKw, miss)
	}
	// defaults
	for t := 0; t < 5; t++ {
		if !declared[t] {
			continue
		}
		unset := b.named[t] == 0
		if required[t] {
			b.ok = zzAnd(b.ok, zzNot(unset))
		} else {
			b.named[t] = zzIteInt(unset, zzSigDefault(t), b.named[t])
		}
	}
	return b
}

// zzCheckKwargsDict compares a **kwargs dict with the reference: the keywords
// with inKw set, in call order, with values 11+j.
func zzCheckKwargsDict(d *Dict, ref zzBound, kwNames []string, prefix string) {
	want := 0
	for j := range kwNames {
		want += zzIteInt(ref.inKw[j], 1, 0)
	}
	zzAssert(d.Len() == want, prefix+".kwargs_len")
	items := d.Items()
	pos := 0 // symbolic: number of earlier keywords that went to the dict
	all := true
	for j := range kwNames {
		for i, it := range items {
			k, isStr := it[0].(String)
			if !isStr {
				zzAssert(false, prefix+".kwargs_key_string")
				continue
			}
			here := zzAnd(ref.inKw[j], pos == i)
			all = zzAnd(all, zzImplies(here, zzAnd(string(k) == kwNames[j], zzValueID(it[1]) == 11+j)))
		}
		pos += zzIteInt(ref.inKw[j], 1, 0)
	}
	zzAssert(all, prefix+".kwargs_entries_in_call_order")
}

// zzCallShape builds the symbolic call: np positional values 1..np and nk
// keyword pairs whose names are symbolic one-byte strings, values 11..
func zzCallShape(maxPos, minKw, maxKw int) (args Tuple, kwargs []Tuple, kwNames []string) {
	np := zzChoice("call_npos", maxPos+1)
	nk := minKw + zzChoice("call_nkw", maxKw-minKw+1)
	for i := 0; i < np; i++ {
		args = append(args, MakeInt(1+i))
	}
	for j := 0; j < nk; j++ {
		name := zzString("kwname"+strconv.Itoa(j), 1)
		v := MakeInt(11 + j)
		kwNames = append(kwNames, name)
		kwargs = append(kwargs, Tuple{String(name), v})
	}
	return
}

// zzSetArgsCore: setArgs binds exactly like the reference, or both fail.
func zzSetArgsCore(s zzSig, maxCallPos, minCallKw, maxCallKw int) {
	args, kwargs, kwNames := zzCallShape(maxCallPos, minCallKw, maxCallKw)
	fn := zzSigCompile(s, "x = 0")
	if fn == nil {
		return
	}
	nlocals := len(fn.funcode.Locals)
	// layout promised by Funcode: parameters first (positional, kw-only, *args, **kwargs), then x
	nparams := s.npos + s.nkw
	if s.star == 2 {
		nparams++
	}
	if s.kwargs {
		nparams++
	}
	zzAssert(nlocals == nparams+1, "C08.setargs.nlocals")
	zzAssert(fn.NumParams() == nparams, "C08.setargs.numparams")

	locals := make([]Value, nlocals)
	err := setArgs(locals, fn, args, kwargs)

	ref := zzRefBind(s, len(args), kwNames)
	zzObserve("accepted", err == nil)
	zzAssert((err == nil) == ref.ok, "C08.setargs.accept_iff_reference")
	// the caller's positional tuple is never modified
	for i := range args {
		zzAssert(zzValueID(args[i]) == 1+i, "C08.setargs.args_unmodified")
	}
	if err == nil {
		idx := 0
		good := true
		for i := 0; i < s.npos; i++ {
			good = zzAnd(good, zzValueID(locals[idx]) == ref.named[i])
			idx++
		}
		zzAssert(good, "C08.setargs.positional_params")
		good = true
		for i := 0; i < s.nkw; i++ {
			good = zzAnd(good, zzValueID(locals[idx]) == ref.named[3+i])
			idx++
		}
		zzAssert(good, "C08.setargs.kwonly_params")
		if s.star == 2 {
			t, ok := locals[idx].(Tuple)
			zzAssert(ok, "C08.setargs.varargs_is_tuple")
			zzAssert(len(t) == ref.nvarargs, "C08.setargs.varargs_len")
			for i := range t {
				zzAssert(zzValueID(t[i]) == 1+s.npos+i, "C08.setargs.varargs_elem")
			}
			zzObserve("nvarargs", len(t))
			idx++
		}
		if s.kwargs {
			d, ok := locals[idx].(*Dict)
			zzAssert(ok, "C08.setargs.kwargs_is_dict")
			if ok {
				zzCheckKwargsDict(d, ref, kwNames, "C08.setargs")
				zzObserve("nkwargs", d.Len())
			}
			idx++
		}
		// the non-parameter local is untouched
		zzAssert(locals[idx] == nil, "C08.setargs.nonparam_untouched")
	}
	zzReach("end")
}

// H08.1: all signatures in the bound x all call shapes with up to 2 keywords.
//
//verif:unwind 40
func zzH08_setargs() {
	s := zzSigChoose(zzParam("sig_maxpos", 2, 3), zzParam("sig_maxkwonly", 1, 2))
	zzSetArgsCore(s, zzParam("call_maxpos", 3, 4), 0, 2)
}

// H08.1 (three keywords): the signatures with two positional and two
// keyword-only parameters (every required/optional split, * or *args, with and
// without **kwargs) x calls with exactly 3 symbolic keywords.
//
//verif:thorough
//verif:unwind 40
func zzH08_setargs_kw3() {
	var s zzSig
	s.npos = 2
	s.nreq = zzChoice("sig_nreq", 3)
	s.star = 1 + zzChoice("sig_star", 2)
	s.nkw = 2
	s.kwReq[0] = zzChoice("sig_kwreq0", 2) == 1
	s.kwReq[1] = zzChoice("sig_kwreq1", 2) == 1
	s.kwargs = zzChoice("sig_kwargs", 2) == 1
	zzSetArgsCore(s, 3, 3, 3)
}
