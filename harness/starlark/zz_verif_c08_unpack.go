//go:build verif

package starlark

import (
	"math"
	"strconv"
)

// ---------------------------------------------------------------------------
// H08.4: UnpackArgs / UnpackPositionalArgs / UnpackArg.
//
// Reference (from the doc comment of UnpackArgs): parameter i is named by
// pairs[2i]; a trailing "?" makes it optional, a trailing "??" makes it optional
// and additionally treats a None argument as absent; once a parameter is
// optional all following ones are. Positional argument i binds parameter i,
// keyword name binds the parameter of that name; too many positionals, an
// unknown keyword, two arguments for one parameter, a missing required
// parameter, or an argument whose type does not fit the variable are errors.
// A variable is only ever assigned a well-typed argument bound to its own
// parameter ("on failure, don't clobber *ptr").
// ---------------------------------------------------------------------------

// argument kinds
const (
	zzKNone = iota
	zzKInt
	zzKString
	zzKBool
	zzKList
)

// target (variable) types
const (
	zzTValue = iota
	zzTString
	zzTInt8
	zzTBool
	zzTList
)

type zzArg struct {
	kind int
	v    Value
	i    int64  // zzKInt (symbolic 16-bit)
	s    string // zzKString (symbolic byte)
	b    bool   // zzKBool (symbolic)
}

func zzMakeArg(name string, kinds int) zzArg {
	a := zzArg{kind: zzChoice(name+"_kind", kinds)}
	switch a.kind {
	case zzKNone:
		a.v = None
	case zzKInt:
		a.i = int64(zzI16(name + "_int"))
		a.v = MakeInt64(a.i)
	case zzKString:
		a.s = zzString(name+"_str", 1)
		a.v = String(a.s)
	case zzKBool:
		a.b = zzBool(name + "_bool")
		a.v = Bool(a.b)
	case zzKList:
		a.v = NewList(nil)
	}
	return a
}

// zzTarget is one variable passed to the unpack functions, with its sentinel.
type zzTarget struct {
	typ int
	val Value
	str string
	i8  int8
	b   bool
	lst *List

	sentB   bool
	sentLst *List
}

const (
	zzSentStr = "\x00sentinel"
	zzSentI8  = int8(0x55)
)

func zzNewTarget(name string, typ int) *zzTarget {
	t := &zzTarget{typ: typ}
	t.str = zzSentStr
	t.i8 = zzSentI8
	t.sentB = zzBool(name + "_sentinel_bool")
	t.b = t.sentB
	t.sentLst = NewList(nil)
	t.lst = t.sentLst
	return t
}

func (t *zzTarget) ptr() any {
	switch t.typ {
	case zzTValue:
		return &t.val
	case zzTString:
		return &t.str
	case zzTInt8:
		return &t.i8
	case zzTBool:
		return &t.b
	}
	return &t.lst
}

// untouched: the variable still holds its sentinel.
func (t *zzTarget) untouched() bool {
	switch t.typ {
	case zzTValue:
		return t.val == nil
	case zzTString:
		return t.str == zzSentStr
	case zzTInt8:
		return t.i8 == zzSentI8
	case zzTBool:
		return t.b == t.sentB
	}
	return t.lst == t.sentLst
}

// fits: the argument is acceptable for a variable of type typ.
func zzArgFits(typ int, a zzArg) bool {
	switch typ {
	case zzTValue:
		return true
	case zzTString:
		return a.kind == zzKString
	case zzTInt8:
		if a.kind != zzKInt {
			return false
		}
		return zzAnd(a.i >= -128, a.i <= 127)
	case zzTBool:
		return a.kind == zzKBool
	}
	return a.kind == zzKList
}

// holds: the variable holds exactly the (converted) argument. Only meaningful if it fits.
func (t *zzTarget) holds(a zzArg) bool {
	switch t.typ {
	case zzTValue:
		if t.val == nil {
			return false
		}
		switch a.kind {
		case zzKNone:
			return t.val == None
		case zzKInt:
			x, ok := t.val.(Int)
			if !ok {
				return false
			}
			x64, ok := x.Int64()
			return zzAnd(ok, x64 == a.i)
		case zzKString:
			x, ok := t.val.(String)
			return ok && string(x) == a.s
		case zzKBool:
			x, ok := t.val.(Bool)
			return ok && bool(x) == a.b
		}
		return t.val == a.v
	case zzTString:
		return a.kind == zzKString && t.str == a.s
	case zzTInt8:
		return a.kind == zzKInt && int64(t.i8) == a.i
	case zzTBool:
		return a.kind == zzKBool && t.b == a.b
	}
	return a.kind == zzKList && Value(t.lst) == a.v
}

// zzParamSpec: a symbolic 3-byte parameter name; the marker is whatever the
// bytes spell: "x??" -> base "x", optional, skip None; "xy?" -> base "xy",
// optional; otherwise base is all three bytes and the parameter is required
// (unless an earlier one is optional).
type zzParamSpec struct {
	name     string
	optional bool // symbolic
	skipNone bool // symbolic
}

func zzMakeParamSpec(name string) zzParamSpec {
	p := zzParamSpec{name: zzString(name, 3)}
	zzAssume(p.name[0] != '?')
	q1, q2 := p.name[1] == '?', p.name[2] == '?'
	p.skipNone = zzAnd(q1, q2)
	p.optional = q2
	return p
}

// matches: kw (concrete length 1..3) equals the base name.
func (p zzParamSpec) matches(kw string) bool {
	q1, q2 := p.name[1] == '?', p.name[2] == '?'
	switch len(kw) {
	case 1:
		return zzAnd(zzAnd(q1, q2), kw == p.name[:1])
	case 2:
		return zzAnd(zzAnd(q2, zzNot(q1)), kw == p.name[:2])
	case 3:
		return zzAnd(zzNot(q2), kw == p.name)
	}
	return false
}

func zzBaseDistinct(p, q zzParamSpec) bool {
	// base names equal iff same marker length and same prefix
	p1, p2 := p.name[1] == '?', p.name[2] == '?'
	q1, q2 := q.name[1] == '?', q.name[2] == '?'
	l1 := zzAnd(zzAnd(p1, p2), zzAnd(q1, q2))
	l2 := zzAnd(zzAnd(zzNot(p1), p2), zzAnd(zzNot(q1), q2))
	l3 := zzAnd(zzNot(p2), zzNot(q2))
	same := zzOr(zzAnd(l1, p.name[:1] == q.name[:1]), zzOr(zzAnd(l2, p.name[:2] == q.name[:2]), zzAnd(l3, p.name == q.name)))
	return zzNot(same)
}

// zzUnpackArgsCore runs UnpackArgs on n parameters with the given variable
// types and compares with the declarative reference.
func zzUnpackArgsCore(n int, ttypes []int, argKinds, maxPos, maxKw, maxTotal int) {
	var params []zzParamSpec
	var targets []*zzTarget
	var pairs []any
	for i := 0; i < n; i++ {
		p := zzMakeParamSpec("pname" + strconv.Itoa(i))
		for _, q := range params {
			zzAssume(zzBaseDistinct(p, q)) // distinct parameter names (precondition)
		}
		t := zzNewTarget("t"+strconv.Itoa(i), ttypes[i])
		params = append(params, p)
		targets = append(targets, t)
		pairs = append(pairs, p.name, t.ptr())
	}
	np := zzChoice("call_npos", maxPos+1)
	if maxTotal-np < maxKw {
		maxKw = maxTotal - np
	}
	if maxKw < 0 {
		maxKw = 0
	}
	nk := zzChoice("call_nkw", maxKw+1)
	var pos []zzArg
	var args Tuple
	for i := 0; i < np; i++ {
		a := zzMakeArg("arg"+strconv.Itoa(i), argKinds)
		pos = append(pos, a)
		args = append(args, a.v)
	}
	var kws []zzArg
	var kwNames []string
	var kwargs []Tuple
	for j := 0; j < nk; j++ {
		name := zzString("kwname"+strconv.Itoa(j), 1+zzChoice("kwlen"+strconv.Itoa(j), 3))
		a := zzMakeArg("kwarg"+strconv.Itoa(j), argKinds)
		kws = append(kws, a)
		kwNames = append(kwNames, name)
		kwargs = append(kwargs, Tuple{String(name), a.v})
	}

	err := UnpackArgs("f", args, kwargs, pairs...)

	// ---- reference ----
	ok := np <= n
	match := make([][]bool, n) // match[i][j]: keyword j names parameter i
	for i := range match {
		match[i] = make([]bool, nk)
		for j := 0; j < nk; j++ {
			match[i][j] = params[i].matches(kwNames[j])
		}
	}
	for j := 0; j < nk; j++ {
		known := false
		for i := 0; i < n; i++ {
			known = zzOr(known, match[i][j])
			// second value for a parameter
			dup := i < np
			for j2 := 0; j2 < j; j2++ {
				dup = zzOr(dup, match[i][j2])
			}
			ok = zzAnd(ok, zzNot(zzAnd(match[i][j], dup)))
			// type of the keyword argument
			skipped := zzAnd(params[i].skipNone, kws[j].kind == zzKNone)
			ok = zzAnd(ok, zzImplies(match[i][j], zzOr(skipped, zzArgFits(ttypes[i], kws[j]))))
		}
		ok = zzAnd(ok, known) // unknown keyword
	}
	optSeen := false
	for i := 0; i < n; i++ {
		optSeen = zzOr(optSeen, params[i].optional)
		given := i < np
		for j := 0; j < nk; j++ {
			given = zzOr(given, match[i][j])
		}
		ok = zzAnd(ok, zzOr(optSeen, given)) // missing required
		if i < np {
			skipped := zzAnd(params[i].skipNone, pos[i].kind == zzKNone)
			ok = zzAnd(ok, zzOr(skipped, zzArgFits(ttypes[i], pos[i])))
		}
	}
	zzObserve("accepted", err == nil)
	zzAssert((err == nil) == ok, "C08.unpackargs.accept_iff_reference")

	for i := 0; i < n; i++ {
		t := targets[i]
		// Always: the variable is untouched or holds a well-typed argument bound to its parameter.
		legit := t.untouched()
		if i < np {
			legit = zzOr(legit, zzAnd(zzArgFits(ttypes[i], pos[i]), t.holds(pos[i])))
		}
		for j := 0; j < nk; j++ {
			legit = zzOr(legit, zzAnd(match[i][j], zzAnd(zzArgFits(ttypes[i], kws[j]), t.holds(kws[j]))))
		}
		zzAssert(legit, "C08.unpackargs.no_clobber")
		if err != nil {
			continue
		}
		// On success: exactly the bound argument, or the sentinel if absent / skipped None.
		if i < np {
			skipped := zzAnd(params[i].skipNone, pos[i].kind == zzKNone)
			zzAssert(zzIteBool(skipped, t.untouched(), t.holds(pos[i])), "C08.unpackargs.positional_value")
			continue
		}
		none := true
		good := true
		for j := 0; j < nk; j++ {
			none = zzAnd(none, zzNot(match[i][j]))
			skipped := zzAnd(params[i].skipNone, kws[j].kind == zzKNone)
			good = zzAnd(good, zzImplies(match[i][j], zzIteBool(skipped, t.untouched(), t.holds(kws[j]))))
		}
		zzAssert(good, "C08.unpackargs.keyword_value")
		zzAssert(zzImplies(none, t.untouched()), "C08.unpackargs.absent_untouched")
	}
	zzReach("end")
}

// H08.4 (binding): all variables of type Value (no type errors); arguments None or int.
//
//verif:unwind 40
func zzH08_unpackargs_bind() {
	n := zzChoice("nparams", zzParam("maxparams", 2, 3)+1)
	tt := []int{zzTValue, zzTValue, zzTValue, zzTValue}
	zzUnpackArgsCore(n, tt, 2, n+1, 2, zzParam("maxargs", 3, 5))
}

// H08.4 (types): two parameters with variable types (r, r+1 mod 5) of
// Value/string/int8/bool/*List, arguments of all five kinds.
//
//verif:unwind 40
func zzH08_unpackargs_types() {
	r := zzChoice("rot", zzParam("vartype_pairs", 3, 5))
	tt := []int{r, (r + 1) % 5}
	zzUnpackArgsCore(2, tt, zzParam("argkinds", 3, 5), 2, 2, 2)
}

// H08.4: UnpackPositionalArgs(min, vars...) accepts iff no keywords, min <= len(args) <= len(vars)
// and every argument fits; variables as above.
//
//verif:unwind 40
func zzH08_unpackpositional() {
	n := zzChoice("nvars", zzParam("maxvars", 2, 3)+1)
	r := zzChoice("rot", 5)
	var targets []*zzTarget
	var vars []any
	for i := 0; i < n; i++ {
		t := zzNewTarget("t"+strconv.Itoa(i), (r+i)%5)
		targets = append(targets, t)
		vars = append(vars, t.ptr())
	}
	min := zzInt("min")
	zzAssume(zzAnd(min >= 0, min <= n))
	np := zzChoice("call_npos", n+2)
	nk := zzChoice("call_nkw", 2)
	kinds := zzParam("argkinds", 3, 5)
	var pos []zzArg
	var args Tuple
	for i := 0; i < np; i++ {
		a := zzMakeArg("arg"+strconv.Itoa(i), kinds)
		pos = append(pos, a)
		args = append(args, a.v)
	}
	var kwargs []Tuple
	if nk == 1 {
		kwargs = append(kwargs, Tuple{String(zzString("kwname", 1)), None})
	}
	noescape := zzChoice("noescape", 2) == 1
	var err error
	if noescape {
		err = unpackPositionalArgsNoEscape("f", args, kwargs, min, vars...)
	} else {
		err = UnpackPositionalArgs("f", args, kwargs, min, vars...)
	}
	ok := zzAnd(nk == 0, zzAnd(min <= np, np <= n))
	for i := 0; i < np && i < n; i++ {
		ok = zzAnd(ok, zzArgFits(targets[i].typ, pos[i]))
	}
	zzObserve("accepted", err == nil)
	zzAssert((err == nil) == ok, "C08.unpackpositional.accept_iff_reference")
	for i, t := range targets {
		legit := t.untouched()
		if i < np {
			legit = zzOr(legit, zzAnd(zzArgFits(t.typ, pos[i]), t.holds(pos[i])))
		}
		zzAssert(legit, "C08.unpackpositional.no_clobber")
		if err == nil {
			if i < np {
				zzAssert(t.holds(pos[i]), "C08.unpackpositional.value")
			} else {
				zzAssert(t.untouched(), "C08.unpackpositional.absent_untouched")
			}
		}
	}
	zzReach("end")
}

// zzSameIface: x is the very value y (NaN-safe, tuple-safe identity).
func zzSameIface(x, y Value) bool {
	if x == nil || y == nil {
		return false
	}
	switch y := y.(type) {
	case Float:
		xf, ok := x.(Float)
		return ok && math.Float64bits(float64(xf)) == math.Float64bits(float64(y))
	case Tuple:
		xt, ok := x.(Tuple)
		return ok && len(xt) == len(y) && (len(y) == 0 || &xt[0] == &y[0])
	}
	if _, ok := x.(Tuple); ok {
		return false
	}
	return x == y
}

// H08.4: UnpackArg on one value: every supported variable type x every value
// kind with symbolic payload (ints up to 66 bits). Accept iff the value has the
// variable's type (ints: exactly representable); on success the variable holds
// the value, on failure it keeps its sentinel.
//
//verif:unwind 40
func zzH08_unpackarg() {
	var v Value
	var iv zzW
	var bv bool
	var fv float64
	var sv string
	vk := zzChoice("vkind", 9)
	switch vk {
	case 0:
		v = None
	case 1:
		bv = zzBool("b")
		v = Bool(bv)
	case 2:
		var x Int
		x, iv = zzSymInt("i", zzParam("intbits", 66, 70))
		v = x
	case 3:
		fv = zzF64("f")
		v = Float(fv)
	case 4:
		sv = zzString("s", 2)
		v = String(sv)
	case 5:
		v = NewList(nil)
	case 6:
		v = NewDict(0)
	case 7:
		v = Tuple{None}
	case 8:
		v = NewBuiltin("bi", nil)
	}
	isInt := vk == 2
	fitsS := func(bits uint) bool {
		lo := -(int64(1) << (bits - 1))
		hi := int64(1)<<(bits-1) - 1
		return zzAnd(zzWFits64(iv), zzAnd(int64(iv.lo) >= lo, int64(iv.lo) <= hi))
	}
	fitsU := func(bits uint) bool {
		if bits == 64 {
			return iv.hi == 0
		}
		return zzAnd(iv.hi == 0, iv.lo < uint64(1)<<bits)
	}
	unpack := UnpackArg
	if zzChoice("noescape", 2) == 1 {
		unpack = unpackArgNoEscape
	}
	tk := zzChoice("tkind", 18)
	zzObserve("vkind", vk)
	zzObserve("tkind", tk)
	var err error
	var want, kept, got bool // want: must be accepted; kept: sentinel intact; got: holds the value
	switch tk {
	case 0:
		var t Value
		err = unpack(v, &t)
		want, kept, got = true, t == nil, zzSameIface(t, v)
	case 1:
		t := zzSentStr
		err = unpack(v, &t)
		want, kept, got = vk == 4, t == zzSentStr, t == sv
	case 2:
		s0 := zzBool("sent_b")
		t := s0
		err = unpack(v, &t)
		want, kept, got = vk == 1, t == s0, t == bv
	case 3:
		s0 := zzI64("sent_i")
		t := int(s0)
		err = unpack(v, &t)
		want, kept, got = isInt && fitsS(64), t == int(s0), int64(t) == int64(iv.lo)
	case 4:
		s0 := zzI8("sent_i")
		t := s0
		err = unpack(v, &t)
		want, kept, got = isInt && fitsS(8), t == s0, int64(t) == int64(iv.lo)
	case 5:
		s0 := zzI16("sent_i")
		t := s0
		err = unpack(v, &t)
		want, kept, got = isInt && fitsS(16), t == s0, int64(t) == int64(iv.lo)
	case 6:
		s0 := zzI32("sent_i")
		t := s0
		err = unpack(v, &t)
		want, kept, got = isInt && fitsS(32), t == s0, int64(t) == int64(iv.lo)
	case 7:
		s0 := zzI64("sent_i")
		t := s0
		err = unpack(v, &t)
		want, kept, got = isInt && fitsS(64), t == s0, t == int64(iv.lo)
	case 8:
		s0 := zzU64("sent_u")
		t := uint(s0)
		err = unpack(v, &t)
		want, kept, got = isInt && fitsU(64), t == uint(s0), uint64(t) == iv.lo
	case 9:
		s0 := zzU8("sent_u")
		t := s0
		err = unpack(v, &t)
		want, kept, got = isInt && fitsU(8), t == s0, uint64(t) == iv.lo
	case 10:
		s0 := zzU16("sent_u")
		t := s0
		err = unpack(v, &t)
		want, kept, got = isInt && fitsU(16), t == s0, uint64(t) == iv.lo
	case 11:
		s0 := zzU32("sent_u")
		t := s0
		err = unpack(v, &t)
		want, kept, got = isInt && fitsU(32), t == s0, uint64(t) == iv.lo
	case 12:
		s0 := zzU64("sent_u")
		t := s0
		err = unpack(v, &t)
		want, kept, got = isInt && fitsU(64), t == s0, t == iv.lo
	case 13:
		s0 := zzF64("sent_f")
		t := s0
		err = unpack(v, &t)
		want, kept, got = vk == 3, math.Float64bits(t) == math.Float64bits(s0), math.Float64bits(t) == math.Float64bits(fv)
	case 14:
		s0 := NewList(nil)
		t := s0
		err = unpack(v, &t)
		want, kept, got = vk == 5, t == s0, Value(t) == v
	case 15:
		s0 := NewDict(0)
		t := s0
		err = unpack(v, &t)
		want, kept, got = vk == 6, t == s0, Value(t) == v
	case 16:
		var t Iterable
		err = unpack(v, &t)
		want, kept, got = vk >= 5 && vk <= 7, t == nil, t != nil && zzSameIface(t, v)
	case 17:
		var t Callable
		err = unpack(v, &t)
		want, kept, got = vk == 8, t == nil, t != nil && Value(t) == v
	}
	zzObserve("accepted", err == nil)
	zzAssert((err == nil) == want, "C08.unpackarg.accept_iff_type_fits")
	if err == nil {
		zzAssert(got, "C08.unpackarg.value")
	} else {
		zzAssert(kept, "C08.unpackarg.failure_keeps_variable")
	}
	zzReach("end")
}
