//go:build verif

package starlark

// C05 H05.1/H05.3: write-set non-interference. A value is frozen (with a
// symbolic iterator-count residue, as if frozen while being iterated), then one
// read-only or rejected-mutation operation runs with the engine's write log on:
// no non-atomic store (outside sync.Once.Do) may hit any memory cell reachable
// from the frozen value (for functions: including the shared Funcode, module,
// globals, constants). If no operation writes shared memory, every interleaving
// of any number of threads is race-free and each thread sees its solo results.
//
// Native replay: the same operation is run solo and then on two goroutines
// concurrently over the same frozen value, in a binary built with the race
// detector (the line below asks the driver for that): a data race kills the
// replay, which is how a write-set counterexample reproduces natively; the
// per-goroutine results are compared with the solo run.
//
//verif:race

import (
	"sync"

	"go.starlark.net/syntax"
)

var zzC05Mod StringDict

func init() {
	zzC05Mod = zzMExec("c05.star", `
def mk(L, D):
    def inner(i):
        t = 0
        for x in L:
            t += x
        return t + L[i] + len(D)
    return inner
def mkmut(L):
    def inner(v):
        L.append(v)
    return inner
def loop(K):
    t = 0
    for x in K:
        t += 1
    return t + len([y for y in K])
def setindex(x, i, v):
    x[i] = v
def iadd(x, y):
    x += y
    return x
def ipipe(x, y):
    x |= y
    return x
def unpack(K):
    a, b = K
    return a
def star(f, K):
    return f(*K)
`)
}

var zzC05Prog *Program

const zzC05ProgSrc = `
def f(a):
    t = [a]
    for i in [1, 2]:
        t.append(i // d)
    return t
x = f(3)
y = {"k": x, "f": f}
z = [e for e in x if e] + sorted(x)
`

func init() {
	opts := &syntax.FileOptions{Set: true, GlobalReassign: true}
	_, prog, err := SourceProgramOptions(opts, "p.star", zzC05ProgSrc, func(name string) bool { return name == "d" })
	if err != nil {
		panic("zzC05Prog: " + err.Error())
	}
	zzC05Prog = prog
}

// zzH05_programInit: one compiled *Program initialised (and thereby run) by several
// threads, including a failing execution that builds a backtrace and so decodes the
// shared position tables: nothing reachable from the Program is written outside sync.Once.
//
//verif:unwind 100
func zzH05_programInit() {
	d := 1
	if zzBool("divide_by_zero") {
		d = 0
	}
	second := zzBool("second_use") // the program was already initialised (and failed) once before
	if second {
		th := &Thread{Name: "first"}
		zzC05Prog.Init(th, StringDict{"d": MakeInt(d)})
	}
	run := func(fp *zzFP) {
		th := &Thread{Name: "w"}
		g, err := zzC05Prog.Init(th, StringDict{"d": MakeInt(d)})
		fp.err(err)
		if ee, ok := err.(*EvalError); ok {
			fp.str(ee.Backtrace())
			fp.add(int64(len(ee.CallStack)))
		}
		g.Freeze()
		for _, name := range g.Keys() {
			fp.str(name)
			fp.val(g[name])
		}
		fp.add(int64(zzC05Prog.NumLoads()))
		fp.str(zzC05Prog.Filename())
	}
	writes, agree := zzC05Run(run, zzC05Prog, Universe, listMethods, dictMethods, setMethods)
	zzObserve("writes", writes)
	zzAssert(writes == 0, "C05.program.no_shared_write")
	zzAssert(agree, "C05.program.same_results_as_solo")
	zzReach("end")
}

// zzFP is a result fingerprint: a sequence of numbers (symbolic values allowed).
type zzFP struct{ v []int64 }

func (f *zzFP) add(x int64) { f.v = append(f.v, x) }
func (f *zzFP) err(e error) {
	if e != nil {
		f.add(-1)
	} else {
		f.add(-2)
	}
}
func (f *zzFP) val(v Value) {
	if v == nil {
		f.add(-3)
		return
	}
	if x, ok := zzMIntOf(v); ok {
		f.add(x)
		return
	}
	switch v := v.(type) {
	case Bool:
		if v {
			f.add(1)
		} else {
			f.add(0)
		}
	case String:
		f.str(string(v))
	case NoneType:
		f.add(-4)
	case Tuple:
		f.add(int64(len(v)))
		for _, e := range v {
			f.val(e)
		}
	case *List:
		f.add(int64(len(v.elems)))
		for _, e := range v.elems {
			f.val(e)
		}
	case *Dict:
		f.add(int64(v.Len()))
	case *Set:
		f.add(int64(v.Len()))
	default:
		f.add(-5)
	}
}
func (f *zzFP) str(s string) {
	if zzSymbolic() {
		return // text is compared natively only (printing symbolic numbers forks per digit)
	}
	var h int64
	for i := 0; i < len(s); i++ {
		h = h*131 + int64(s[i])
	}
	f.add(h)
}

func zzFPEq(a, b *zzFP) bool {
	if len(a.v) != len(b.v) {
		return false
	}
	for i := range a.v {
		if a.v[i] != b.v[i] {
			return false
		}
	}
	return true
}

// zzC05Run runs op under the write log (engine) or solo + twice concurrently (native).
// It returns the number of logged writes into roots and whether all runs agreed.
func zzC05Run(op func(fp *zzFP), roots ...any) (writes int, agree bool) {
	var r [2]*zzFP
	if !zzSymbolic() {
		// native: the concurrent pair goes first, so that a lazily initialised cache
		// (first use writes, later uses only read) is caught as well
		var wg sync.WaitGroup
		for i := 0; i < 2; i++ {
			wg.Add(1)
			go func(i int) {
				defer wg.Done()
				r[i] = &zzFP{}
				op(r[i])
			}(i)
		}
		wg.Wait()
	}
	solo := &zzFP{}
	zzWriteLogStart()
	op(solo)
	zzWriteLogStop()
	writes = zzWritesInto(roots...)
	agree = true
	if !zzSymbolic() {
		agree = zzFPEq(solo, r[0]) && zzFPEq(solo, r[1])
	}
	return
}

func zzC05Drain(it Iterator, fp *zzFP) {
	var x Value
	n := 0
	for it.Next(&x) {
		fp.val(x)
		n++
	}
	fp.add(int64(n))
}

// common operations on any frozen value
func zzC05Common(op int, v, twin Value, fp *zzFP) bool {
	switch op {
	case 0:
		v.Freeze() // re-freeze (what storing it into another module's global does)
	case 1:
		fp.str(v.String())
	case 2:
		fp.str(v.Type())
		fp.val(v.Truth())
	case 3:
		h, err := v.Hash()
		fp.err(err)
		if err == nil {
			fp.add(int64(h))
		}
	case 4:
		eq, err := Equal(v, twin)
		fp.err(err)
		fp.val(Bool(eq))
	case 5:
		eq, err := Equal(v, v)
		fp.err(err)
		fp.val(Bool(eq))
	case 6:
		lt, err := Compare(syntax.LT, v, twin)
		fp.err(err)
		fp.val(Bool(lt))
	case 7:
		if it := Iterate(v); it != nil {
			zzC05Drain(it, fp)
			it.Done()
		}
	case 8:
		if it := Iterate(v); it != nil { // abandoned after one element (break)
			var x Value
			it.Next(&x)
			it.Done()
		}
	case 9:
		if a, ok := v.(HasAttrs); ok {
			names := a.AttrNames()
			fp.add(int64(len(names)))
			if len(names) > 0 {
				m, err := a.Attr(names[0])
				fp.err(err)
				fp.add(int64(b2i(m != nil)))
			}
		}
	case 10:
		fp.add(int64(Len(v)))
	case 11: // VM for loop + comprehension over v
		if _, ok := v.(Iterable); ok {
			r, err := Call(&Thread{Name: "w"}, zzC05Mod["loop"], Tuple{v}, nil)
			fp.err(err)
			fp.val(r)
		}
	case 12: // built-ins that iterate
		if _, ok := v.(Iterable); ok {
			th := &Thread{Name: "w"}
			for _, name := range []string{"list", "tuple", "enumerate", "reversed", "all", "any", "len", "bool", "type", "repr", "str"} {
				if zzSymbolic() && (name == "repr" || name == "str") {
					continue
				}
				r, err := Call(th, Universe[name], Tuple{v}, nil)
				fp.err(err)
				fp.val(r)
			}
		}
	case 13: // failing unpack / *args expansion over v
		if _, ok := v.(Iterable); ok {
			th := &Thread{Name: "w"}
			r, err := Call(th, zzC05Mod["unpack"], Tuple{v}, nil)
			fp.err(err)
			fp.val(r)
			r, err = Call(th, zzC05Mod["star"], Tuple{Universe["max"], v}, nil)
			fp.err(err)
			fp.val(r)
		}
	default:
		return false
	}
	return true
}

const zzC05NCommon = 14

//verif:unwind 100
func zzH05_frozenList() {
	N := zzParam("maxlen", 2, 3)
	n := zzChoice("n", N+1)
	ev := zzMSyms("e", n)
	l := zzMListOf(ev)
	twin := zzMListOf(zzMSyms("t", n))
	l.itercount = zzU32("residue") // frozen while iterators were active
	op := zzChoice("op", zzC05NCommon+14)
	if op == 1 {
		for _, e := range ev {
			zzAssume(e < 3)
		}
	}
	l.Freeze()
	twin.Freeze() // shared between the goroutines of the native replay: must be frozen too
	x, i := zzMInt(zzU8("x")), int(zzI8("i"))
	run := func(fp *zzFP) {
		if zzC05Common(op, l, twin, fp) {
			return
		}
		th := &Thread{Name: "w"}
		switch op - zzC05NCommon {
		case 0:
			for e := range l.Elements() {
				fp.val(e)
			}
		case 1:
			if n > 0 {
				fp.val(l.Index(n - 1))
				fp.val(l.Slice(0, n, 1))
				fp.val(l.Slice(n-1, -1, -1))
			}
			ok, err := l.Has(x)
			fp.err(err)
			fp.val(Bool(ok))
		case 2:
			fp.err(l.Append(x))
		case 3:
			if n > 0 {
				fp.err(l.SetIndex(0, x))
			}
		case 4:
			fp.err(l.Clear())
		case 5:
			for _, m := range []string{"append", "remove", "index", "count"} {
				if m == "count" {
					continue
				}
				_, err := zzMCallMethod(th, l, m, Tuple{x}, nil)
				fp.err(err)
			}
		case 6:
			_, err := zzMCallMethod(th, l, "insert", Tuple{MakeInt(i), x}, nil)
			fp.err(err)
		case 7:
			_, err := zzMCallMethod(th, l, "pop", Tuple{MakeInt(i)}, nil)
			fp.err(err)
			_, err = zzMCallMethod(th, l, "pop", nil, nil)
			fp.err(err)
		case 8:
			_, err := zzMCallMethod(th, l, "extend", Tuple{Tuple{x}}, nil)
			fp.err(err)
			_, err = zzMCallMethod(th, l, "clear", nil, nil)
			fp.err(err)
		case 9:
			_, err := Call(th, zzC05Mod["setindex"], Tuple{l, MakeInt(i), x}, nil)
			fp.err(err)
		case 10:
			_, err := Call(th, zzC05Mod["iadd"], Tuple{l, Tuple{x}}, nil)
			fp.err(err)
		case 11:
			r, err := Binary(syntax.PLUS, l, l)
			fp.err(err)
			fp.val(r)
			r, err = Binary(syntax.STAR, l, MakeInt(2))
			fp.err(err)
			fp.val(r)
			r, err = Binary(syntax.IN, x, l)
			fp.err(err)
			fp.val(r)
		case 12:
			r, err := Call(th, Universe["sorted"], Tuple{l}, nil)
			fp.err(err)
			fp.val(r)
			r, err = Call(th, Universe["max"], Tuple{l}, nil)
			fp.err(err)
			fp.val(r)
			r, err = Call(th, Universe["zip"], Tuple{l, l}, nil)
			fp.err(err)
			fp.val(r)
		case 13:
			r, err := zzMCallMethod(th, NewList(nil), "extend", Tuple{l}, nil)
			fp.err(err)
			fp.val(r)
			r, err = zzMCallMethod(th, new(Set), "union", Tuple{l}, nil)
			fp.err(err)
			fp.val(r)
		}
	}
	writes, agree := zzC05Run(run, l, twin)
	zzObserve("writes", writes)
	zzAssert(writes == 0, "C05.list.no_shared_write")
	zzAssert(agree, "C05.list.same_results_as_solo")
	zzReach("end")
}

//verif:unwind 100
func zzH05_frozenDict() {
	N := zzParam("maxlen", 2, 3)
	n := zzChoice("n", N+1)
	kv, vv := zzMSyms("k", n), zzMSyms("v", n)
	zzMDistinct(kv)
	d := zzMDictOf(kv, vv)
	twin := zzMDictOf(kv, zzMSyms("t", n))
	d.ht.itercount = zzU32("residue")
	op := zzChoice("op", zzC05NCommon+11)
	if op == 1 {
		for j := range kv {
			zzAssume(zzAnd(kv[j] < 3, vv[j] < 3))
		}
	}
	d.Freeze()
	twin.Freeze()
	x, y := zzMInt(zzU8("x")), zzMInt(zzU8("y"))
	run := func(fp *zzFP) {
		if zzC05Common(op, d, twin, fp) {
			return
		}
		th := &Thread{Name: "w"}
		switch op - zzC05NCommon {
		case 0:
			for k, v := range d.Entries() {
				fp.val(k)
				fp.val(v)
			}
			for k, v := range Entries(d) {
				fp.val(k)
				fp.val(v)
			}
			for k := range Elements(d) {
				fp.val(k)
			}
		case 1:
			v, found, err := d.Get(x)
			fp.err(err)
			fp.val(Bool(found))
			fp.val(v)
			for _, it := range d.Items() {
				fp.val(it)
			}
			for _, k := range d.Keys() {
				fp.val(k)
			}
		case 2:
			fp.err(d.SetKey(x, y))
		case 3:
			_, _, err := d.Delete(x)
			fp.err(err)
		case 4:
			fp.err(d.Clear())
		case 5:
			for _, m := range []string{"pop", "setdefault", "get"} {
				r, err := zzMCallMethod(th, d, m, Tuple{x, y}, nil)
				fp.err(err)
				fp.val(r)
			}
		case 6:
			for _, m := range []string{"popitem", "clear", "items", "keys", "values"} {
				r, err := zzMCallMethod(th, d, m, nil, nil)
				fp.err(err)
				fp.val(r)
			}
		case 7:
			_, err := zzMCallMethod(th, d, "update", Tuple{NewList([]Value{Tuple{x, y}})}, nil)
			fp.err(err)
			_, err = zzMCallMethod(th, d, "update", nil, []Tuple{{String("kw"), y}})
			fp.err(err)
		case 8:
			_, err := Call(th, zzC05Mod["setindex"], Tuple{d, x, y}, nil)
			fp.err(err)
			_, err = Call(th, zzC05Mod["ipipe"], Tuple{d, d}, nil)
			fp.err(err)
		case 9:
			r, err := Binary(syntax.PIPE, d, d)
			fp.err(err)
			fp.val(r)
			r, err = Binary(syntax.IN, x, d)
			fp.err(err)
			fp.val(r)
		case 10:
			r, err := Call(th, Universe["dict"], Tuple{d}, nil)
			fp.err(err)
			fp.val(r)
			r, err = Call(th, Universe["sorted"], Tuple{d}, nil)
			fp.err(err)
			fp.val(r)
			r, err = zzMCallMethod(th, new(Dict), "update", Tuple{d}, nil)
			fp.err(err)
			fp.val(r)
		}
	}
	writes, agree := zzC05Run(run, d, twin)
	zzObserve("writes", writes)
	zzAssert(writes == 0, "C05.dict.no_shared_write")
	zzAssert(agree, "C05.dict.same_results_as_solo")
	zzReach("end")
}

//verif:unwind 100
func zzH05_frozenSet() {
	N := zzParam("maxlen", 2, 3)
	n := zzChoice("n", N+1)
	kv := zzMSyms("k", n)
	zzMDistinct(kv)
	s := zzMSetOf(kv)
	tv := zzMSyms("t", n)
	zzMDistinct(tv)
	twin := zzMSetOf(tv)
	s.ht.itercount = zzU32("residue")
	op := zzChoice("op", zzC05NCommon+10)
	if op == 1 {
		for j := range kv {
			zzAssume(kv[j] < 3)
		}
	}
	s.Freeze()
	twin.Freeze()
	x := zzMInt(zzU8("x"))
	run := func(fp *zzFP) {
		if zzC05Common(op, s, twin, fp) {
			return
		}
		th := &Thread{Name: "w"}
		switch op - zzC05NCommon {
		case 0:
			for k := range s.Elements() {
				fp.val(k)
			}
			for k := range Elements(s) {
				fp.val(k)
			}
		case 1:
			found, err := s.Has(x)
			fp.err(err)
			fp.val(Bool(found))
		case 2:
			fp.err(s.Insert(x))
		case 3:
			_, err := s.Delete(x)
			fp.err(err)
		case 4:
			fp.err(s.Clear())
		case 5:
			for _, m := range []string{"add", "discard", "remove"} {
				_, err := zzMCallMethod(th, s, m, Tuple{x}, nil)
				fp.err(err)
			}
		case 6:
			for _, m := range []string{"pop", "clear"} {
				_, err := zzMCallMethod(th, s, m, nil, nil)
				fp.err(err)
			}
			_, err := zzMCallMethod(th, s, "update", Tuple{Tuple{x}}, nil)
			fp.err(err)
		case 7:
			for _, m := range []string{"union", "difference", "intersection", "issubset", "issuperset", "symmetric_difference"} {
				r, err := zzMCallMethod(th, s, m, Tuple{twin}, nil)
				fp.err(err)
				fp.val(r)
				r, err = zzMCallMethod(th, twin.clone(), m, Tuple{s}, nil)
				fp.err(err)
				fp.val(r)
			}
		case 8:
			for _, tok := range []syntax.Token{syntax.PIPE, syntax.AMP, syntax.MINUS, syntax.CIRCUMFLEX} {
				r, err := Binary(tok, s, twin)
				fp.err(err)
				fp.val(r)
				r, err = Binary(tok, twin, s)
				fp.err(err)
				fp.val(r)
			}
		case 9:
			for _, tok := range []syntax.Token{syntax.LE, syntax.LT, syntax.GE, syntax.GT} {
				b, err := Compare(tok, s, twin)
				fp.err(err)
				fp.val(Bool(b))
				b, err = Compare(tok, twin, s)
				fp.err(err)
				fp.val(Bool(b))
			}
		}
	}
	writes, agree := zzC05Run(run, s, twin)
	zzObserve("writes", writes)
	zzAssert(writes == 0, "C05.set.no_shared_write")
	zzAssert(agree, "C05.set.same_results_as_solo")
	zzReach("end")
}

// zzH05_frozenGraph: tuple / closure / bound method over frozen containers, and
// H05.3: activations of one frozen *Function (succeeding, failing with position
// decoding, attempting a mutation) on separate threads.
//
//verif:unwind 100
func zzH05_frozenGraph() {
	n := zzParam("len", 2, 2)
	ev := zzMSyms("e", n)
	l := zzMListOf(ev)
	kv := zzMSyms("k", n)
	zzMDistinct(kv)
	d := zzMDictOf(kv, zzMSyms("v", n))
	l.itercount = zzU32("residueL")
	d.ht.itercount = zzU32("residueD")
	init := &Thread{Name: "init"}
	closure, err := Call(init, zzC05Mod["mk"], Tuple{l, d}, nil)
	if err != nil {
		panic(err)
	}
	mutator, err := Call(init, zzC05Mod["mkmut"], Tuple{l}, nil)
	if err != nil {
		panic(err)
	}
	bound, _ := l.Attr("append")
	kind := zzChoice("kind", 4)
	var v Value
	switch kind {
	case 0:
		v = Tuple{l, d, MakeInt(1)}
	case 1:
		v = closure
	case 2:
		v = mutator
	case 3:
		v = bound
	}
	g := StringDict{"v": v}
	g.Freeze()
	zzAssert(zzAnd(l.frozen, kind == 2 || kind == 3 || d.ht.frozen), "C05.graph.frozen")
	nops := zzC05NCommon + 3
	op := zzChoice("op", nops)
	zzAssume(op != 1) // printing symbolic contents: covered per container
	i := zzI8("i")
	run := func(fp *zzFP) {
		if zzC05Common(op, v, v, fp) {
			return
		}
		th := &Thread{Name: "w"}
		switch op - zzC05NCommon {
		case 0: // call (closure: may fail with index out of range => backtrace, position table decoded)
			if c, ok := v.(Callable); ok {
				r, err := Call(th, c, Tuple{MakeInt(int(i))}, nil)
				fp.err(err)
				fp.val(r)
				if ee, ok := err.(*EvalError); ok {
					fp.str(ee.Backtrace())
				}
			}
		case 1: // call twice on the same thread, then on another
			if c, ok := v.(Callable); ok {
				for k := 0; k < 2; k++ {
					r, err := Call(th, c, Tuple{MakeInt(0)}, nil)
					fp.err(err)
					fp.val(r)
				}
				r, err := Call(&Thread{Name: "w2"}, c, Tuple{MakeInt(0)}, nil)
				fp.err(err)
				fp.val(r)
			}
		case 2: // introspection
			if f, ok := v.(*Function); ok {
				fp.str(f.Name())
				fp.add(int64(f.NumParams()))
				fp.add(int64(f.NumFreeVars()))
				_, fv := f.FreeVar(0)
				fp.val(fv)
				fp.add(int64(f.Position().Line))
				fp.add(int64(f.funcode.Position(0).Line))
			}
			if b, ok := v.(*Builtin); ok {
				fp.val(b.Receiver())
				fp.str(b.Name())
			}
			if t, ok := v.(Tuple); ok {
				fp.val(t.Index(0))
				fp.val(t.Slice(0, 2, 1))
			}
		}
	}
	// roots: the value plus the process-wide tables every thread shares
	writes, agree := zzC05Run(run, v, l, d, Universe, listMethods, dictMethods, setMethods, zzC05Mod)
	zzObserve("writes", writes)
	zzAssert(writes == 0, "C05.graph.no_shared_write")
	zzAssert(agree, "C05.graph.same_results_as_solo")
	zzReach("end")
}
