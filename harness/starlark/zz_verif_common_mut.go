//go:build verif

package starlark

// Shared helpers for the mutability / iteration-lock / write-set harnesses
// (C04, C05, C06). Only functions and types: nothing here runs at init time.

import (
	"go.starlark.net/syntax"
)

// zzMInt makes a small Starlark int from a symbolic byte (no forks: always the small arm).
func zzMInt(v uint8) Value { return makeSmallInt(int64(v)) }

// zzMIntOf extracts the numeric value of a small Int; ok=false for anything else.
func zzMIntOf(v Value) (int64, bool) {
	i, ok := v.(Int)
	if !ok {
		return 0, false
	}
	s, b := i.get()
	if b != nil {
		return 0, false
	}
	return s, true
}

// zzMValEq: numeric equality for small ints, identity otherwise (no Tuple operands).
func zzMValEq(a, b Value) bool {
	x, okx := zzMIntOf(a)
	y, oky := zzMIntOf(b)
	if okx != oky {
		return false
	}
	if okx {
		return x == y
	}
	if ta, ok := a.(Tuple); ok {
		tb, ok2 := b.(Tuple)
		if !ok2 || len(ta) != len(tb) {
			return false
		}
		r := true
		for i := range ta {
			r = zzAnd(r, zzMValEq(ta[i], tb[i]))
		}
		return r
	}
	if _, ok := b.(Tuple); ok {
		return false
	}
	return a == b
}

// zzMSyms returns n symbolic bytes name0..name{n-1}.
func zzMSyms(name string, n int) []uint8 {
	r := make([]uint8, n)
	for i := range r {
		r[i] = zzU8(name + string(rune('0'+i)))
	}
	return r
}

// zzMDistinct assumes all values pairwise distinct.
func zzMDistinct(v []uint8) {
	for i := range v {
		for j := 0; j < i; j++ {
			zzAssume(v[i] != v[j])
		}
	}
}

func zzMListOf(v []uint8) *List {
	elems := make([]Value, len(v))
	for i := range v {
		elems[i] = zzMInt(v[i])
	}
	return NewList(elems)
}

func zzMTupleOf(v []uint8) Tuple {
	elems := make(Tuple, len(v))
	for i := range v {
		elems[i] = zzMInt(v[i])
	}
	return elems
}

// zzMDictOf builds a dict through the real insert path; keys must be distinct.
func zzMDictOf(k, v []uint8) *Dict {
	d := new(Dict)
	for i := range k {
		if err := d.SetKey(zzMInt(k[i]), zzMInt(v[i])); err != nil {
			panic("zzMDictOf: " + err.Error())
		}
	}
	return d
}

func zzMSetOf(k []uint8) *Set {
	s := new(Set)
	for i := range k {
		if err := s.Insert(zzMInt(k[i])); err != nil {
			panic("zzMSetOf: " + err.Error())
		}
	}
	return s
}

// ---- raw snapshots -------------------------------------------------------

type zzMListSnap struct {
	elems     []Value // copy of the contents
	hdr       []Value // the slice header itself (same backing array expected)
	frozen    bool
	itercount uint32
}

func zzMSnapList(l *List) zzMListSnap {
	return zzMListSnap{append([]Value(nil), l.elems...), l.elems, l.frozen, l.itercount}
}

// zzMListSame: every field of l equals the snapshot (contents, header, flag, counter).
func zzMListSame(l *List, s zzMListSnap) bool {
	if len(l.elems) != len(s.elems) || cap(l.elems) != cap(s.hdr) {
		return false
	}
	if len(l.elems) > 0 && &l.elems[0] != &s.hdr[0] {
		return false
	}
	r := zzAnd(l.frozen == s.frozen, l.itercount == s.itercount)
	for i := range s.elems {
		r = zzAnd(r, zzMValEq(l.elems[i], s.elems[i]))
	}
	return r
}

// zzMListContent: l holds exactly the small ints want (in order).
func zzMListContent(l *List, want []int64) bool {
	if len(l.elems) != len(want) {
		return false
	}
	r := true
	for i := range want {
		x, ok := zzMIntOf(l.elems[i])
		r = zzAnd(r, zzAnd(ok, x == want[i]))
	}
	return r
}

type zzMSlot struct {
	hash       uint32
	key, value Value
	next       *entry
	prevLink   **entry
}

type zzMHtSnap struct {
	keys, vals []Value // insertion order (linked list walk)
	n          uint32
	frozen     bool
	itercount  uint32
	table      []bucket
	head       *entry
	tailLink   **entry
	slots      []zzMSlot // every slot of every bucket chain
	chain      []*bucket // bucket chain pointers in walk order
}

func zzMSnapHt(ht *hashtable) zzMHtSnap {
	s := zzMHtSnap{n: ht.len, frozen: ht.frozen, itercount: ht.itercount, table: ht.table, head: ht.head, tailLink: ht.tailLink}
	for e := ht.head; e != nil; e = e.next {
		s.keys = append(s.keys, e.key)
		s.vals = append(s.vals, e.value)
	}
	for i := range ht.table {
		for p := &ht.table[i]; p != nil; p = p.next {
			s.chain = append(s.chain, p)
			for j := range p.entries {
				e := &p.entries[j]
				s.slots = append(s.slots, zzMSlot{e.hash, e.key, e.value, e.next, e.prevLink})
			}
		}
	}
	return s
}

func zzMNilOrEq(a, b Value) bool {
	if a == nil || b == nil {
		return a == nil && b == nil
	}
	return zzMValEq(a, b)
}

// zzMHtSame: the hash table is bit-for-bit what it was (order list, buckets, flag, counters).
func zzMHtSame(ht *hashtable, s zzMHtSnap) bool {
	if ht.head != s.head || ht.tailLink != s.tailLink || len(ht.table) != len(s.table) {
		return false
	}
	if len(ht.table) > 0 && &ht.table[0] != &s.table[0] {
		return false
	}
	r := zzAnd(ht.len == s.n, zzAnd(ht.frozen == s.frozen, ht.itercount == s.itercount))
	i := 0
	for e := ht.head; e != nil; e = e.next {
		if i >= len(s.keys) {
			return false
		}
		r = zzAnd(r, zzAnd(zzMValEq(e.key, s.keys[i]), zzMNilOrEq(e.value, s.vals[i])))
		i++
	}
	if i != len(s.keys) {
		return false
	}
	c, k := 0, 0
	for bi := range ht.table {
		for p := &ht.table[bi]; p != nil; p = p.next {
			if c >= len(s.chain) || s.chain[c] != p {
				return false
			}
			c++
			for j := range p.entries {
				e := &p.entries[j]
				w := s.slots[k]
				k++
				if e.next != w.next || e.prevLink != w.prevLink {
					return false
				}
				r = zzAnd(r, zzAnd(e.hash == w.hash, zzAnd(zzMNilOrEq(e.key, w.key), zzMNilOrEq(e.value, w.value))))
			}
		}
	}
	return zzAnd(r, c == len(s.chain))
}

// zzMHtContent: the table holds exactly the (key,value) small-int pairs, in this
// insertion order, and every key is found by lookup with its value. vals==nil: set (values None).
func zzMHtContent(ht *hashtable, keys, vals []int64) bool {
	if int(ht.len) != len(keys) {
		return false
	}
	r := true
	i := 0
	for e := ht.head; e != nil; e = e.next {
		if i >= len(keys) {
			return false
		}
		k, ok := zzMIntOf(e.key)
		r = zzAnd(r, zzAnd(ok, k == keys[i]))
		if vals != nil {
			v, okv := zzMIntOf(e.value)
			r = zzAnd(r, zzAnd(okv, v == vals[i]))
		} else {
			r = zzAnd(r, e.value == None)
		}
		i++
	}
	if i != len(keys) {
		return false
	}
	for j := range keys {
		v, found, err := ht.lookup(makeSmallInt(keys[j]))
		if err != nil || !found {
			return false
		}
		if vals != nil {
			x, ok := zzMIntOf(v)
			r = zzAnd(r, zzAnd(ok, x == vals[j]))
		}
	}
	return r
}

// zzMExec compiles and runs a module with the real pipeline (used from init functions only).
func zzMExec(name, src string) StringDict {
	opts := &syntax.FileOptions{Set: true, While: true, TopLevelControl: true, GlobalReassign: true, Recursion: true}
	g, err := ExecFileOptions(opts, &Thread{Name: "init"}, name, src, nil)
	if err != nil {
		panic("zzMExec " + name + ": " + err.Error())
	}
	return g
}

// zzMCallMethod looks the method up with Attr and calls it through Call.
func zzMCallMethod(thread *Thread, recv HasAttrs, name string, args Tuple, kwargs []Tuple) (Value, error) {
	m, err := recv.Attr(name)
	if err != nil {
		return nil, err
	}
	if m == nil {
		panic("zzMCallMethod: no method " + name)
	}
	return Call(thread, m, args, kwargs)
}
