//go:build verif

package starlark

// Helpers shared by the C08 and C09 harnesses.

func zzNoPredeclared(string) bool { return false }

// zzValueID maps the small ints used as argument values back to their id (-1 if not one).
func zzValueID(x Value) int {
	xi, ok := x.(Int)
	if !ok {
		return -1
	}
	a, ok := xi.Int64()
	if !ok {
		return -1
	}
	return int(a)
}
