//go:build verif

package starlark

// C11 H11.2: strings, bytes, tuples and lists.
//
// Reference order: lexicographic on the byte (resp. element) sequences, a proper
// prefix being smaller; computed here by a straight-line fold from the last
// position to the first, independent of strings.Compare / sliceCompare.

import (
	"math"

	"go.starlark.net/syntax"
)

func zzFloatOfBits(b uint64) float64 { return math.Float64frombits(b) }
func zzBitsOfFloat(f float64) uint64 { return math.Float64bits(f) }

// zzLexBytes: reference lexicographic comparison of two byte strings.
func zzLexBytes(a, b string) (lt, eq bool) {
	// tail comparison: beyond the common length the shorter one is smaller
	lt, eq = len(a) < len(b), len(a) == len(b)
	n := len(a)
	if len(b) < n {
		n = len(b)
	}
	for i := n - 1; i >= 0; i-- {
		lt = zzOr(a[i] < b[i], zzAnd(a[i] == b[i], lt))
		eq = zzAnd(a[i] == b[i], eq)
	}
	return lt, eq
}

// zzRefSoftHash: 32-bit FNV-1a (the documented algorithm of softHashString).
func zzRefFNV1a(s string) uint32 {
	h := uint32(2166136261)
	for i := 0; i < len(s); i++ {
		h = (h ^ uint32(s[i])) * 16777619
	}
	return h
}

// zzH11_str_bytes: String and Bytes of 0..maxlen symbolic bytes each (lengths by
// zzChoice): the six operators are the views of the lexicographic byte order,
// Equal's fast path agrees, equal strings have equal hashes (FNV arm), a string
// never equals the bytes with the same content, and hashString is FNV-1a below
// 12 bytes.
//
//verif:unwind 40
func zzH11_str_bytes() {
	maxLen := zzParam("maxlen", 3, 4)
	la, lb := zzChoice("la", maxLen+1), zzChoice("lb", maxLen+1)
	a, b := zzString("a", la), zzString("b", lb)
	lt, eq := zzLexBytes(a, b)
	asBytes := zzChoice("bytes", 2) == 1
	var x, y Value = String(a), String(b)
	if asBytes {
		x, y = Bytes(a), Bytes(b)
	}
	for i, op := range zzC11Ops {
		got, err := CompareDepth(op, x, y, CompareLimit)
		zzAssert(err == nil, "C11.str.ok")
		if i == 2 {
			zzObserve("lt", got)
		}
		zzAssert(got == zzC11View(i, lt, eq), "C11.str.view")
	}
	e, err := Equal(x, y)
	zzAssert(zzAnd(err == nil, e == eq), "C11.str.equal_fast_path")
	hx, e1 := x.Hash()
	hy, e2 := y.Hash()
	zzAssert(zzAnd(e1 == nil, e2 == nil), "C11.str.hash_ok")
	zzObserve("hx", hx)
	zzAssert(zzImplies(eq, hx == hy), "C11.str.equal_values_equal_hash")
	zzAssert(hx == zzRefFNV1a(a), "C11.str.hash_is_fnv1a")
	// string vs bytes with the same content: different types, never equal, unordered
	ne, err := CompareDepth(syntax.EQL, String(a), Bytes(a), CompareLimit)
	zzAssert(zzAnd(err == nil, zzNot(ne)), "C11.str.string_never_equals_bytes")
	_, err = CompareDepth(syntax.LT, String(a), Bytes(b), CompareLimit)
	zzAssert(err != nil, "C11.str.string_unordered_with_bytes")
	zzReach("end")
}

// zzH11_str_long: strings of 12 and 13 bytes (the maphash arm of hashString,
// maphash being an uninterpreted function of seed and content): equal strings
// have equal hashes, and comparison is lexicographic there too.
//
//verif:unwind 40
func zzH11_str_long() {
	la, lb := 12+zzChoice("la", 2), 12+zzChoice("lb", 2)
	a, b := zzString("a", la), zzString("b", lb)
	lt, eq := zzLexBytes(a, b)
	for i, op := range zzC11Ops {
		got, err := CompareDepth(op, String(a), String(b), CompareLimit)
		zzAssert(err == nil, "C11.strlong.ok")
		zzAssert(got == zzC11View(i, lt, eq), "C11.strlong.view")
	}
	hx, _ := String(a).Hash()
	hy, _ := String(b).Hash()
	zzAssert(zzImplies(eq, hx == hy), "C11.strlong.equal_values_equal_hash")
	hb, _ := Bytes(a).Hash()
	zzAssert(hb == hx, "C11.strlong.bytes_hash_same_function")
	zzReach("end")
}

// zzSymElem: a tuple element of a kind chosen by zzChoice: int (symbolic, int32
// range), float (one of a concrete list: the int x float comparison goes through
// big.Rat, which is only tractable with a concrete exponent; symbolic floats are
// the subject of H11.1), 1-byte symbolic string, or symbolic bool.
type zzElemRef struct {
	kind int
	i    int64 // int value
	cf   int   // index into zzConcFloats
	s    byte  // string byte
	b    bool
}

type zzConcFloat struct {
	f        float64
	floor    int64 // largest integer <= f (finite f)
	integral bool
	nan      bool
}

var zzNaN = zzFloatOfBits(0x7ff8000000000001)

var zzConcFloats = [...]zzConcFloat{
	{f: 1.0, floor: 1, integral: true},
	{f: zzFloatOfBits(1 << 63), floor: 0, integral: true}, // -0.0
	{f: zzNaN, nan: true},
	{f: 0.0, floor: 0, integral: true},
	{f: 2.5, floor: 2},
	{f: -7.0, floor: -7, integral: true},
}

func zzSymElem(name string, kinds int) (Value, zzElemRef) {
	k := zzChoice(name+"_kind", kinds)
	switch k {
	case 0:
		i := int64(zzI32(name + "_i"))
		return MakeInt64(i), zzElemRef{kind: 0, i: i}
	case 1:
		c := zzChoice(name+"_f", zzParam("floats", 3, 4))
		return Float(zzConcFloats[c].f), zzElemRef{kind: 1, cf: c}
	case 2:
		s := zzString(name+"_s", 1)
		return String(s), zzElemRef{kind: 2, s: s[0]}
	}
	b := zzBool(name + "_b")
	return Bool(b), zzElemRef{kind: 3, b: b}
}

// zzRefElemCmp: reference comparison of two elements: ordered (ok) only for
// int/float together, string with string, bool with bool; eq is always defined
// (values of unrelated kinds are unequal).
func zzRefElemCmp(a, b zzElemRef) (lt, eq, ok bool) {
	switch {
	case a.kind == 0 && b.kind == 0:
		return a.i < b.i, a.i == b.i, true
	case a.kind == 1 && b.kind == 1:
		lt, eq = zzRefFloatCmp(zzBitsOfFloat(zzConcFloats[a.cf].f), zzBitsOfFloat(zzConcFloats[b.cf].f))
		return lt, eq, true
	case a.kind == 0 && b.kind == 1: // int against float
		c := zzConcFloats[b.cf]
		if c.nan {
			return true, false, true
		}
		return zzOr(a.i < c.floor, zzAnd(a.i == c.floor, !c.integral)), zzAnd(a.i == c.floor, c.integral), true
	case a.kind == 1 && b.kind == 0: // float against int
		c := zzConcFloats[a.cf]
		if c.nan {
			return false, false, true
		}
		return c.floor < b.i, zzAnd(b.i == c.floor, c.integral), true
	case a.kind == 2 && b.kind == 2:
		return a.s < b.s, a.s == b.s, true
	case a.kind == 3 && b.kind == 3:
		return zzAnd(zzNot(a.b), b.b), a.b == b.b, true
	}
	return false, false, false
}

// zzH11_tuple: tuples and lists of 0..2 elements (kinds: int32-range int, float
// from a concrete list, 1-byte string, bool): ==/!= always answer, elementwise with
// the length fast path; <,<=,>,>= are the views of the lexicographic order and
// fail exactly when the first unequal pair of elements is unordered; equal tuples
// have equal hashes (incl. (1,) vs (1.0,) and (0.0,) vs (-0.0,)); a tuple never
// equals a list.
//
//verif:unwind 40
//verif:concretize 8
func zzH11_tuple() {
	maxLen := zzParam("maxlen", 2, 2)
	kinds := zzParam("elemkinds", 3, 4)
	la, lb := zzChoice("la", maxLen+1), zzChoice("lb", maxLen+1)
	var xs, ys []Value
	var xr, yr []zzElemRef
	for i := 0; i < la; i++ {
		v, r := zzSymElem("a"+string(rune('0'+i)), kinds)
		xs, xr = append(xs, v), append(xr, r)
	}
	for i := 0; i < lb; i++ {
		v, r := zzSymElem("b"+string(rune('0'+i)), kinds)
		ys, yr = append(ys, v), append(yr, r)
	}
	// reference fold from the back: lt/eq of the suffixes, ok = "ordered comparison defined"
	lt, eq, ok := la < lb, la == lb, true
	n := la
	if lb < n {
		n = lb
	}
	for i := n - 1; i >= 0; i-- {
		elt, eeq, eok := zzRefElemCmp(xr[i], yr[i])
		// if the heads are equal the answer is that of the tails, else that of the heads
		lt = zzOr(zzAnd(eeq, lt), zzAnd(zzNot(eeq), elt))
		ok = zzOr(zzAnd(eeq, ok), zzAnd(zzNot(eeq), eok))
		eq = zzAnd(eeq, eq)
	}
	for pass := 0; pass < 2; pass++ { // as tuples, then as lists (same path: no new forks)
		var x, y Value = Tuple(xs), Tuple(ys)
		if pass == 1 {
			x, y = NewList(xs), NewList(ys)
		}
		for i, op := range zzC11Ops {
			got, err := CompareDepth(op, x, y, CompareLimit)
			if i < 2 {
				zzAssert(err == nil, "C11.tuple.eq_ok")
				zzAssert(got == zzC11View(i, lt, eq), "C11.tuple.eq_view")
				continue
			}
			zzAssert((err == nil) == ok, "C11.tuple.ordered_iff_defined")
			if err == nil {
				if i == 2 {
					zzObserve("lt", got)
				}
				zzAssert(got == zzC11View(i, lt, eq), "C11.tuple.view")
			}
		}
		if pass == 0 {
			hx, e1 := x.Hash()
			hy, e2 := y.Hash()
			zzAssert(zzAnd(e1 == nil, e2 == nil), "C11.tuple.hash_ok")
			zzObserve("hx", hx)
			zzAssert(zzImplies(eq, hx == hy), "C11.tuple.equal_values_equal_hash")
		}
	}
	te, err := CompareDepth(syntax.EQL, Tuple(xs), NewList(xs), CompareLimit)
	zzAssert(zzAnd(err == nil, zzNot(te)), "C11.tuple.never_equals_list")
	zzReach("end")
}

// zzH11_dictkey (H11.5): values that compare equal are interchangeable as dict
// keys and set members: after d[x] = 1, `y in d` / d.Get(y) succeeds iff x == y
// in the reference order (int vs float of equal value, 0.0 vs -0.0, NaN vs NaN,
// equal strings), through the real hashtable insert/lookup.
//
//verif:unwind 80
//verif:concretize 8
func zzH11_dictkey() {
	var x, y Value
	var eq bool
	switch zzChoice("pair", 4) {
	case 0: // int, float (+-)k*2^j with full significand
		xi, xv := zzSymInt("x", 66)
		j := []int{0, 11}[zzChoice("j", 2)]
		f, k, neg := zzSymFloatKJ("y", 53, j)
		kv, kn := zzW{0, k}, zzWNeg(zzW{0, k})
		kv = zzW{zzIteI64(neg, kn.hi, kv.hi), zzIteU64(neg, kn.lo, kv.lo)}
		x, y, eq = xi, Float(f), zzWEq(xv, zzWShl(kv, uint(j)))
	case 1: // float, float (|.| < 2^63 or non-finite: Float.Hash bound of zzH11_float_hash)
		bx, by := zzU64("x"), zzU64("y")
		fx, fy := zzFloatOfBits(bx), zzFloatOfBits(by)
		small := func(f float64) bool {
			return zzOr(zzAnd(f > -9223372036854775808.0, f < 9223372036854775808.0), zzNot(math.Abs(f) <= math.MaxFloat64))
		}
		zzAssume(zzAnd(small(fx), small(fy)))
		_, eq = zzRefFloatCmp(bx, by)
		x, y = Float(fx), Float(fy)
	case 2: // int, concrete float 1.0 and the converse
		i := zzI64("x")
		x, y, eq = MakeInt64(i), Float(1.0), i == 1
	default: // strings of 2 symbolic bytes
		a, b := zzString("x", 2), zzString("y", 2)
		x, y, eq = String(a), String(b), a == b
	}
	d := new(Dict)
	zzAssert(d.SetKey(x, MakeInt(1)) == nil, "C11.dictkey.insert_ok")
	_, found, err := d.Get(y)
	zzAssert(err == nil, "C11.dictkey.lookup_ok")
	zzObserve("found", found)
	zzAssert(found == eq, "C11.dictkey.found_iff_equal")
	// inserting y after x: one entry if equal, two otherwise
	zzAssert(d.SetKey(y, MakeInt(2)) == nil, "C11.dictkey.insert2_ok")
	zzAssert(d.Len() == zzIteInt(eq, 1, 2), "C11.dictkey.len")
	s := new(Set)
	zzAssert(s.Insert(x) == nil, "C11.dictkey.set_insert_ok")
	has, err := s.Has(y)
	zzAssert(zzAnd(err == nil, has == eq), "C11.dictkey.set_member_iff_equal")
	zzReach("end")
}
