//go:build verif

package starlark

// H01.3: differential harness. A program (one of a family of concrete source skeletons,
// selected by zzChoice) is run through the production pipeline (parse, resolve, compile,
// VM: ExecFileOptions) and through the reference tree-walking evaluator of
// zz_verif_c01_ref.go, with the same predeclared environment:
//
//	v0, v1  Int built from a symbolic int8     v2  Int built from a symbolic int32
//	v3, p, q  symbolic Bool
//	emit(x)  host built-in: appends x to the log of the current run, returns x
//	obj()    host built-in: a fresh object with settable fields
//
// so that branch directions, truth values, loop exits and comparison outcomes are solver
// choices. Asserted equal: the emit/print log, the final globals, the outcome, and for
// failures the position of the failing operation in every frame of the backtrace.

import (
	"fmt"

	"go.starlark.net/syntax"
)

// ---- host values ----

var zzC01Log *[]Value

func zzC01Emit(thread *Thread, b *Builtin, args Tuple, kwargs []Tuple) (Value, error) {
	if len(args) != 1 || len(kwargs) != 0 {
		return nil, fmt.Errorf("emit: want exactly one positional argument")
	}
	*zzC01Log = append(*zzC01Log, args[0])
	return args[0], nil
}

type zzC01Obj struct {
	names  []string
	vals   []Value
	frozen bool
}

func (o *zzC01Obj) String() string        { return "obj" }
func (o *zzC01Obj) Type() string          { return "obj" }
func (o *zzC01Obj) Truth() Bool           { return True }
func (o *zzC01Obj) Hash() (uint32, error) { return 0, fmt.Errorf("unhashable: obj") }
func (o *zzC01Obj) Freeze() {
	if !o.frozen {
		o.frozen = true
		for _, v := range o.vals {
			v.Freeze()
		}
	}
}
func (o *zzC01Obj) Attr(name string) (Value, error) {
	for i, n := range o.names {
		if n == name {
			return o.vals[i], nil
		}
	}
	return nil, nil
}
func (o *zzC01Obj) AttrNames() []string { return o.names }
func (o *zzC01Obj) SetField(name string, v Value) error {
	if o.frozen {
		return fmt.Errorf("cannot set field of frozen obj")
	}
	for i, n := range o.names {
		if n == name {
			o.vals[i] = v
			return nil
		}
	}
	o.names = append(o.names, name)
	o.vals = append(o.vals, v)
	return nil
}

func zzC01NewObj(thread *Thread, b *Builtin, args Tuple, kwargs []Tuple) (Value, error) {
	return &zzC01Obj{}, nil
}

func zzC01Load(thread *Thread, module string) (StringDict, error) {
	if module == "lib.star" {
		return StringDict{"a": MakeInt(7), "B": String("bee"), "len": MakeInt(99)}, nil
	}
	return nil, fmt.Errorf("no such module")
}

func zzC01Print(thread *Thread, msg string) {
	*zzC01Log = append(*zzC01Log, String("print:"+msg))
}

func zzC01Predeclared() StringDict {
	return StringDict{
		"v0":   MakeInt(int(zzI8("v0"))),
		"v1":   MakeInt(int(zzI8("v1"))),
		"v2":   MakeInt(int(zzI32("v2"))),
		"v3":   Bool(zzBool("v3")),
		"p":    Bool(zzBool("p")),
		"q":    Bool(zzBool("q")),
		"emit": NewBuiltin("emit", zzC01Emit),
		"obj":  NewBuiltin("obj", zzC01NewObj),
	}
}

// zzC01Same: equality of observable values of the two runs. Functions are compared by
// name (the two runs have different representations of Starlark functions); containers
// element-wise and in order (dict insertion order is observable); the rest with Equal.
func zzC01Same(x, y Value, depth int) bool {
	if depth > 8 {
		return false
	}
	switch x := x.(type) {
	case *Function:
		yf, ok := y.(*zzRFunc)
		return ok && yf.name == x.Name()
	case *zzC01Obj:
		yo, ok := y.(*zzC01Obj)
		if !ok || len(yo.names) != len(x.names) {
			return false
		}
		for i := range x.names {
			if x.names[i] != yo.names[i] || !zzC01Same(x.vals[i], yo.vals[i], depth+1) {
				return false
			}
		}
		return true
	case *List:
		yl, ok := y.(*List)
		if !ok || yl.Len() != x.Len() {
			return false
		}
		for i := 0; i < x.Len(); i++ {
			if !zzC01Same(x.Index(i), yl.Index(i), depth+1) {
				return false
			}
		}
		return true
	case Tuple:
		yt, ok := y.(Tuple)
		if !ok || len(yt) != len(x) {
			return false
		}
		for i := range x {
			if !zzC01Same(x[i], yt[i], depth+1) {
				return false
			}
		}
		return true
	case *Dict:
		yd, ok := y.(*Dict)
		if !ok || yd.Len() != x.Len() {
			return false
		}
		xi, yi := x.Items(), yd.Items()
		for i := range xi {
			if !zzC01Same(xi[i][0], yi[i][0], depth+1) || !zzC01Same(xi[i][1], yi[i][1], depth+1) {
				return false
			}
		}
		return true
	}
	if _, ok := y.(*zzRFunc); ok {
		return false
	}
	eq, err := Equal(x, y)
	return err == nil && eq
}

// zzC01RealStack: positions of the Starlark frames of the backtrace, outermost first.
func zzC01RealStack(err error) ([]zzRPos, bool) {
	ee, ok := err.(*EvalError)
	if !ok {
		return nil, false
	}
	var st []zzRPos
	for _, fr := range ee.CallStack {
		if fr.Pos.Filename() == builtinFilename {
			continue
		}
		st = append(st, zzRPos{line: fr.Pos.Line, col: fr.Pos.Col})
	}
	return st, true
}

// zzC01Opts: dialect options of a skeleton. need = options without which the program is
// statically invalid; variant 0 = exactly those, variant 1 = all options on.
type zzC01Need struct {
	set, while, toplevel, reassign, recursion bool
}

type zzC01Skel struct {
	name string
	need zzC01Need
	src  string
}

func zzC01Options(need zzC01Need, variant int) syntax.FileOptions {
	if variant == 1 {
		return syntax.FileOptions{Set: true, While: true, TopLevelControl: true, GlobalReassign: true, Recursion: true}
	}
	return syntax.FileOptions{Set: need.set, While: need.while, TopLevelControl: need.toplevel,
		GlobalReassign: need.reassign, Recursion: need.recursion}
}

// zzC01Diff runs src both ways and asserts agreement. knownOutcome: the program is one for
// which a difference of outcome is a recorded defect of the implementation.
func zzC01Diff(src string, opts syntax.FileOptions, knownOutcome bool) {
	zzC01DiffK(src, opts, knownOutcome, false)
}

// zzC01DiffK: as zzC01Diff; knownPosition: the program is one for which a wrong failure
// position is a recorded defect.
func zzC01DiffK(src string, opts syntax.FileOptions, knownOutcome, knownPosition bool) {
	pre := zzC01Predeclared()

	// production pipeline
	var logA []Value
	zzC01Log = &logA
	optsA := opts
	threadA := &Thread{Name: "real", Load: zzC01Load, Print: zzC01Print}
	gA, errA := ExecFileOptions(&optsA, threadA, "p.star", src, pre)
	var stackA []zzRPos
	if errA != nil {
		var dynamic bool
		stackA, dynamic = zzC01RealStack(errA)
		if !dynamic {
			zzObserve("static_error", errA.Error())
		}
		zzAssert(dynamic, "C01.diff.statically_valid")
	}

	// reference evaluator
	var logB []Value
	zzC01Log = &logB
	optsB := opts
	file, perr := optsB.Parse("p.star", src, 0)
	zzAssert(perr == nil, "C01.diff.ref_parse")
	threadB := &Thread{Name: "ref", Load: zzC01Load, Print: zzC01Print}
	ref := zzRNew(&optsB, pre, threadB)
	errB := ref.execFile(file)
	gB := ref.globals()

	zzObserve("failed", errA != nil)
	zzObserve("nlog", len(logA))
	zzObserve("nglobals", len(gA))
	if errB != nil {
		zzObserve("ref_fail_kind", errB.kind)
		zzObserve("ref_fail_line", errB.stack[len(errB.stack)-1].line)
	}

	// outcome
	sameOutcome := (errA != nil) == (errB != nil)
	zzAssertExcept(sameOutcome, "C01.diff.outcome", knownOutcome)
	if !sameOutcome {
		return
	}
	if errA != nil && errB != nil {
		zzAssert(len(stackA) == len(errB.stack), "C01.diff.fail_depth")
		if len(stackA) == len(errB.stack) {
			for i := range stackA {
				if errB.stack[i].wild {
					continue
				}
				zzAssertExcept(zzAnd(stackA[i].line == errB.stack[i].line, stackA[i].col == errB.stack[i].col), "C01.diff.fail_position", knownPosition)
			}
		}
	}

	// side effects
	zzAssert(len(logA) == len(logB), "C01.diff.log_len")
	for i := 0; i < len(logA) && i < len(logB); i++ {
		zzAssert(zzC01Same(logA[i], logB[i], 0), "C01.diff.log_value")
	}

	// globals (also compared after a failure: the partial module)
	zzAssert(len(gA) == len(gB), "C01.diff.globals_count")
	for name, va := range gA {
		vb, ok := gB[name]
		zzAssert(ok, "C01.diff.globals_name")
		if ok {
			zzAssert(zzC01Same(va, vb, 0), "C01.diff.globals_value")
		}
	}
}

func zzC01Run(group string, skels []zzC01Skel, quick int) {
	n := zzParam("skeletons_"+group, quick, len(skels))
	if n > len(skels) {
		n = len(skels)
	}
	i := zzChoice("skeleton", n)
	sk := skels[i]
	variant := 0
	if zzParam("option_variants", 1, 2) == 2 {
		all := zzC01Need{true, true, true, true, true}
		if sk.need != all {
			variant = zzChoice("options", 2)
		}
	}
	zzObserve("skeleton", sk.name)
	zzC01Diff(sk.src, zzC01Options(sk.need, variant), false)
	zzReach("end")
}
