//go:build verif

package starlark

import (
	"math/big"
	"math/bits"
)

// ---- 128-bit two's complement reference integers (hi:lo) ----

type zzW struct {
	hi int64
	lo uint64
}

func zzWOf64(x int64) zzW { return zzW{x >> 63, uint64(x)} }

func zzWAdd(a, b zzW) zzW {
	lo, c := bits.Add64(a.lo, b.lo, 0)
	hi, _ := bits.Add64(uint64(a.hi), uint64(b.hi), c)
	return zzW{int64(hi), lo}
}

func zzWNeg(a zzW) zzW {
	lo, c := bits.Add64(^a.lo, 1, 0)
	hi, _ := bits.Add64(^uint64(a.hi), 0, c)
	return zzW{int64(hi), lo}
}

func zzWSub(a, b zzW) zzW { return zzWAdd(a, zzWNeg(b)) }

func zzWEq(a, b zzW) bool { return zzAnd(a.hi == b.hi, a.lo == b.lo) }

func zzWLess(a, b zzW) bool { return zzOr(a.hi < b.hi, zzAnd(a.hi == b.hi, a.lo < b.lo)) }

// zzWFits64 reports whether a is representable as int64.
func zzWFits64(a zzW) bool { return a.hi == int64(a.lo)>>63 }

// zzWFits32 reports whether a is representable as int32.
func zzWFits32(a zzW) bool {
	return zzAnd(zzWFits64(a), zzAnd(int64(a.lo) >= -1<<31, int64(a.lo) <= 1<<31-1))
}

// zzSymIntParts builds a Starlark Int through the real constructors from a symbolic
// integer with |v| < 2^bitsN (bitsN <= 126). Returns the Int, its sign and magnitude
// limbs (the raw solver variables) and its exact 128-bit value.
func zzSymIntParts(name string, bitsN int) (i Int, neg bool, lo, hi uint64, w zzW) {
	neg = zzBool(name + "_neg")
	lo = zzU64(name + "_lo")
	if bitsN > 64 {
		hi = zzU64(name + "_hi")
		zzAssume(hi < 1<<uint(bitsN-64))
	} else if bitsN < 64 {
		zzAssume(lo < 1<<uint(bitsN))
	}
	mag := zzW{int64(hi), lo}
	b := new(big.Int).SetBits([]big.Word{big.Word(lo), big.Word(hi)})
	w = mag
	if neg {
		b.Neg(b)
		w = zzWNeg(mag)
	}
	return MakeBigInt(b), neg, lo, hi, w
}

// zzSymInt is zzSymIntParts without the parts.
func zzSymInt(name string, bitsN int) (Int, zzW) {
	i, _, _, _, w := zzSymIntParts(name, bitsN)
	return i, w
}

// zzIntValue extracts the exact value of a Starlark Int of magnitude < 2^127,
// and whether the representation is canonical (big arm only if not int32).
func zzIntValue(i Int) (w zzW, canonical bool, ok bool) {
	small, bigp := i.get()
	if bigp == nil {
		return zzWOf64(small), zzAnd(small >= -1<<31, small <= 1<<31-1), true
	}
	ws := bigp.Bits()
	if len(ws) > 2 {
		return zzW{}, false, false
	}
	var mag zzW
	if len(ws) > 0 {
		mag.lo = uint64(ws[0])
	}
	if len(ws) > 1 {
		mag.hi = int64(ws[1])
		if mag.hi < 0 {
			return zzW{}, false, false
		}
	}
	w = mag
	if bigp.Sign() < 0 {
		w = zzWNeg(mag)
	}
	return w, zzNot(zzWFits32(w)), true
}
