//go:build verif

package starlark

// H01.3, wide operands: a generated program whose function has more than 128 locals,
// more than 128 distinct constants, a call with 130 positional arguments (CALL operand
// 130<<8: three 7-bit groups), and loops/conditionals whose jump targets lie beyond
// address 128 (and, in the thorough tier, beyond 16384): the multi-byte operand encodings
// (addUint32/argLen, the padded jump operands and the VM's decoder) on real compiled code.

func zzC01Itoa(n int) string {
	if n == 0 {
		return "0"
	}
	s := ""
	for n > 0 {
		s = string(rune('0'+n%10)) + s
		n /= 10
	}
	return s
}

func zzC01BigSource(nlocals int) string {
	src := "def g(*args):\n    return args\n"
	src += "def f(n):\n"
	for i := 0; i < nlocals; i++ {
		src += "    a" + zzC01Itoa(i) + " = " + zzC01Itoa(1000+i) + "\n"
	}
	last := "a" + zzC01Itoa(nlocals-1)
	src += "    t = n\n" +
		"    for i in [v0, 1, 2]:\n" +
		"        if i == 1:\n" +
		"            continue\n" +
		"        if i == 2 and p:\n" +
		"            break\n" +
		"        t += " + last + " - a0 + emit(i)\n" +
		"    def h():\n" +
		"        return " + last + " + a1\n" +
		"    return (t, a127, " + last + ", h())\n" +
		"r = f(v1)\n" +
		"s = g("
	for i := 0; i < 130; i++ {
		src += zzC01Itoa(i) + ", "
	}
	src += "v0)\n"
	return src
}

//verif:unwind 400
func zzH01_diff_big() {
	n := zzParam("locals", 131, 2800)
	zzC01Diff(zzC01BigSource(n), zzC01Options(zzNeedNone, 0), false)
	zzReach("end")
}
