//go:build verif

package starlark

// Shared helpers for the hashtable harnesses (C12, C03): a key type whose hash
// is an arbitrary (symbolic) uint32, a value type carrying a symbolic payload,
// the association-list reference model, and the structural invariant of
// starlark.hashtable.

import (
	"errors"

	"go.starlark.net/syntax"
)

func zzDigit(i int) string { return string(rune('0' + i)) }

// zzKey: a hashable Starlark value; equality is by id only, the hash is
// whatever the harness put into h (usually a symbolic uint32).
// bad == 1: Hash fails (unhashable). bad == 2: every comparison fails.
type zzKey struct {
	id  int
	h   uint32
	bad int
}

var (
	zzErrHash = errors.New("zzKey: unhashable")
	zzErrCmp  = errors.New("zzKey: incomparable")
)

func (k zzKey) String() string { return "zzKey" + zzDigit(k.id%10) }
func (k zzKey) Type() string   { return "zzKey" }
func (k zzKey) Freeze()        {}
func (k zzKey) Truth() Bool    { return True }
func (k zzKey) Hash() (uint32, error) {
	if k.bad == 1 {
		return 0, zzErrHash
	}
	return k.h, nil
}
func (k zzKey) CompareSameType(op syntax.Token, y_ Value, depth int) (bool, error) {
	y := y_.(zzKey)
	if k.bad == 2 || y.bad == 2 {
		return false, zzErrCmp
	}
	switch op {
	case syntax.EQL:
		return k.id == y.id, nil
	case syntax.NEQ:
		return k.id != y.id, nil
	}
	return false, zzErrCmp
}

var _ Comparable = zzKey{}

// zzVal: a dict value with a (possibly symbolic) payload.
type zzVal struct{ n int64 }

func (v zzVal) String() string        { return "zzVal" }
func (v zzVal) Type() string          { return "zzVal" }
func (v zzVal) Freeze()               {}
func (v zzVal) Truth() Bool           { return True }
func (v zzVal) Hash() (uint32, error) { return 0, zzErrHash }

// Values compare by payload (which may be symbolic).
func (v zzVal) CompareSameType(op syntax.Token, y Value, depth int) (bool, error) {
	switch op {
	case syntax.EQL:
		return v.n == y.(zzVal).n, nil
	case syntax.NEQ:
		return v.n != y.(zzVal).n, nil
	}
	return false, zzErrCmp
}

// zzValN extracts the payload of a value stored by a harness (-1 for None, -2 otherwise).
func zzValN(v Value) int64 {
	switch v := v.(type) {
	case zzVal:
		return v.n
	case NoneType:
		return -1
	}
	return -2
}

// zzKeyID returns the identity of a key stored by a harness: zzKey.id, or for a
// String key its index in names (the strings are compared byte-wise; they may be symbolic
// but are pairwise distinct by construction), or -1.
func zzKeyID(v Value) int {
	if k, ok := v.(zzKey); ok {
		return k.id
	}
	return -1
}

// ---- association-list reference model (knows nothing about hashes) ----

type zzAL struct {
	ids  []int
	vals []int64
}

func (m *zzAL) find(id int) int {
	for i, x := range m.ids {
		if x == id {
			return i
		}
	}
	return -1
}

// set: new keys go last, updating a key keeps its place.
func (m *zzAL) set(id int, v int64) {
	if i := m.find(id); i >= 0 {
		m.vals[i] = v
		return
	}
	m.ids = append(m.ids, id)
	m.vals = append(m.vals, v)
}

// setdefault-style insertion used by sets (value never changes).
func (m *zzAL) add(id int) {
	if m.find(id) < 0 {
		m.set(id, -1)
	}
}

func (m *zzAL) del(id int) (int64, bool) {
	i := m.find(id)
	if i < 0 {
		return 0, false
	}
	v := m.vals[i]
	m.ids = append(m.ids[:i:i], m.ids[i+1:]...)
	m.vals = append(m.vals[:i:i], m.vals[i+1:]...)
	return v, true
}

func (m *zzAL) clear() { m.ids, m.vals = nil, nil }

func (m *zzAL) clone() *zzAL {
	return &zzAL{append([]int(nil), m.ids...), append([]int64(nil), m.vals...)}
}

// ---- structural invariant of the real hashtable ----

// zzHtInvariant asserts: the order list is a well-formed doubly linked list whose
// length is ht.len and whose final link is *tailLink; the live slots of the bucket
// chains are exactly the list members; every live slot has a non-zero hash equal to
// the (remapped) hash of its key and sits in the chain selected by that hash; free
// slots are fully zeroed; no key occurs twice. keyID gives the identity of a stored key.
func zzHtInvariant(pfx string, ht *hashtable, keyID func(Value) int) {
	if ht.table == nil {
		// never initialised (zero Dict/Set): tailLink may still be nil
		zzAssert(ht.head == nil && ht.len == 0 && (ht.tailLink == nil || ht.tailLink == &ht.head), pfx+".inv.table.nil-empty")
		return
	}
	n := 0
	link := &ht.head
	wf := true
	for e := ht.head; e != nil; e = e.next {
		if e.prevLink != link {
			wf = false
		}
		link = &e.next
		n++
		if n > 200 {
			wf = false
			break
		}
	}
	zzAssert(wf, pfx+".inv.list.prevLinks")
	zzAssert(ht.tailLink == link, pfx+".inv.list.tailLink")
	zzAssert(n == int(ht.len), pfx+".inv.list.len")

	nb := len(ht.table)
	zzAssert(nb&(nb-1) == 0, pfx+".inv.table.pow2")
	live := 0
	hashOK, placeOK, linkOK, freeOK, uniq := true, true, true, true, true
	var seen []int
	for i := range ht.table {
		for p := &ht.table[i]; p != nil; p = p.next {
			for j := range p.entries {
				e := &p.entries[j]
				if e.key == nil {
					freeOK = zzAnd(freeOK, e.hash == 0)
					if e.value != nil || e.next != nil || e.prevLink != nil {
						freeOK = false
					}
					continue
				}
				live++
				kh, _ := e.key.Hash()
				kh = zzIteU32(kh == 0, 1, kh)
				hashOK = zzAnd(hashOK, zzAnd(e.hash != 0, e.hash == kh))
				placeOK = zzAnd(placeOK, e.hash&uint32(nb-1) == uint32(i))
				if e.prevLink == nil || *e.prevLink != e {
					linkOK = false
				}
				id := keyID(e.key)
				for _, s := range seen {
					if s == id {
						uniq = false
					}
				}
				seen = append(seen, id)
			}
		}
	}
	zzAssert(live == n, pfx+".inv.slots.count")
	zzAssert(hashOK, pfx+".inv.slots.hash")
	zzAssert(placeOK, pfx+".inv.slots.chain")
	zzAssert(linkOK, pfx+".inv.slots.onlist")
	zzAssert(freeOK, pfx+".inv.slots.free-zeroed")
	zzAssert(uniq, pfx+".inv.slots.unique")
}

// zzHtAgree asserts that every observation of ht equals the model: len, keys(),
// items(), iterate(), first(), entries(), and lookup of every key of the universe.
func zzHtAgree(pfx string, ht *hashtable, m *zzAL, uni []Value, keyID func(Value) int) {
	zzAssert(int(ht.len) == len(m.ids), pfx+".obs.len")

	keys := ht.keys()
	ok := len(keys) == len(m.ids)
	if ok {
		for i, k := range keys {
			if keyID(k) != m.ids[i] {
				ok = false
			}
		}
	}
	zzAssert(ok, pfx+".obs.keys.order")

	items := ht.items()
	ok = len(items) == len(m.ids)
	vok := true
	if ok {
		for i, it := range items {
			if len(it) != 2 || keyID(it[0]) != m.ids[i] {
				ok = false
				continue
			}
			vok = zzAnd(vok, zzValN(it[1]) == m.vals[i])
		}
	}
	zzAssert(ok, pfx+".obs.items.order")
	zzAssert(vok, pfx+".obs.items.values")

	it := ht.iterate()
	var k Value
	i := 0
	ok = true
	for it.Next(&k) {
		if i >= len(m.ids) || keyID(k) != m.ids[i] {
			ok = false
			break
		}
		i++
	}
	it.Done()
	zzAssert(zzAnd(ok, i == len(m.ids)), pfx+".obs.iterate.order")
	zzAssert(ht.itercount == 0, pfx+".obs.iterate.count-restored")

	i = 0
	ok = true
	ht.entries(func(k, v Value) bool {
		if i >= len(m.ids) || keyID(k) != m.ids[i] {
			ok = false
			return false
		}
		ok = zzAnd(ok, zzValN(v) == m.vals[i])
		i++
		return true
	})
	zzAssert(zzAnd(ok, i == len(m.ids)), pfx+".obs.entries.order")

	f, has := ht.first()
	if len(m.ids) == 0 {
		zzAssert(!has, pfx+".obs.first")
	} else {
		zzAssert(has && keyID(f) == m.ids[0], pfx+".obs.first")
	}

	for _, u := range uni {
		v, found, err := ht.lookup(u)
		j := m.find(keyID(u))
		zzAssert(err == nil, pfx+".obs.lookup.noerr")
		zzAssert(found == (j >= 0), pfx+".obs.lookup.found")
		if found && j >= 0 {
			zzAssert(zzValN(v) == m.vals[j], pfx+".obs.lookup.value")
		} else if !found {
			zzAssert(v == None, pfx+".obs.lookup.none")
		}
	}
}
