//go:build verif

package starlark

// C17 H17.3: a program read back from its serialized form behaves like the
// original. Concrete source programs (constants of every kind incl. big ints,
// floats and bytes; nested functions with cells and free
// variables; keyword-only parameters; docstrings; a load statement; a runtime
// error inside nested calls; print output) are compiled, written, read back
// with CompiledProgram and both forms are executed. Compared: error text and
// backtrace (positions), print log, every global's repr, docstrings, parameter
// metadata, free variables, list of loads, and the bytes of a second Write.
// The step limit of the thread is symbolic: for every limit both executions
// stop at the same point with the same partial state.

import (
	"bytes"
	"sort"

	"go.starlark.net/internal/compile"
	"go.starlark.net/syntax"
)

var zzC17Progs = []string{
	// 0: constants of each kind, closures with cells/free vars, kwonly params, docstrings
	`"""module doc"""
big = 1 << 70
neg = -(1 << 65) - 1
fl = 1.5e300
by = b"\x00\xff"
def outer(a, b=2, *args, k, kk=5, **kw):
    "outer doc"
    c = a + b
    def inner(x):
        """inner doc"""
        return x + c + k
    c += 1
    return inner
f = outer(1, k=3)
r = f(10)
t = (big + 1, neg - 1, fl * 2, by, len(by), r)
l = lambda q, *, z=1: q * z
m = l(4, z=big)
`,
	// 1: load statement and print output
	`load("mod.star", "x", y="why")
print("x is", x)
def g(n):
    print("g", n)
    return [i * y for i in range(n) if i != 1]
out = g(4)
print(out)
`,
	// 2: runtime error inside nested calls on distinct lines and columns
	`def a(v):
    return b(v) + 1
def b(v):
    w = [1, 2, 3]
    return (  w[v]
            + c(v))
def c(v):
    return 1 // (v - 2)
ok = a(1)
bad = a(2)
`,
	// 3: a loop with a few dozen steps (used with the symbolic step limit)
	`acc = []
def step(i):
    return i * i
for i in range(6):
    acc.append(step(i))
    if i == 4:
        acc.append("four")
total = len(acc)
`,
}

type zzC17Run struct {
	err     string
	trace   string
	prints  string
	globals string
	meta    string
	steps   uint64
}

func zzC17Describe(v Value) string {
	fn, ok := v.(*Function)
	if !ok {
		return v.String()
	}
	s := "function " + fn.Name() + " doc=" + syntax.Quote(fn.Doc(), false) + " pos=" + fn.Position().String()
	s += " params=["
	for i := 0; i < fn.NumParams(); i++ {
		name, pos := fn.Param(i)
		s += name + "@" + pos.String() + " "
	}
	s += "]"
	if fn.NumKwonlyParams() > 0 {
		s += " kwonly=" + string(rune('0'+fn.NumKwonlyParams()))
	}
	if fn.HasVarargs() {
		s += " varargs"
	}
	if fn.HasKwargs() {
		s += " kwargs"
	}
	for i := 0; i < fn.NumFreeVars(); i++ {
		b, val := fn.FreeVar(i)
		s += " free:" + b.Name + "@" + b.Pos.String() + "=" + val.String()
	}
	return s
}

func zzC17Exec(prog *Program, maxSteps uint64) zzC17Run {
	var r zzC17Run
	thread := &Thread{Name: "t"}
	thread.Print = func(_ *Thread, msg string) { r.prints += msg + "\n" }
	thread.Load = func(_ *Thread, module string) (StringDict, error) {
		return StringDict{"x": String("ex from " + module), "why": MakeInt(3)}, nil
	}
	if maxSteps != 0 {
		thread.SetMaxExecutionSteps(maxSteps)
	}
	g, err := prog.Init(thread, nil)
	if err != nil {
		r.err = err.Error()
		if ee, ok := err.(*EvalError); ok {
			r.trace = ee.Backtrace()
		}
	}
	names := make([]string, 0, len(g))
	for name := range g {
		names = append(names, name)
	}
	sort.Strings(names)
	for _, name := range names {
		r.globals += name + "=" + zzC17Describe(g[name]) + ";"
	}
	r.meta = prog.Filename()
	for i := 0; i < prog.NumLoads(); i++ {
		name, pos := prog.Load(i)
		r.meta += " load:" + name + "@" + pos.String()
	}
	r.steps = thread.Steps
	return r
}

// zzH17_vm_equiv: see the file comment.
//
//verif:unwind 400
//verif:maxpaths 2000
func zzH17_vm_equiv() {
	which := zzChoice("prog", len(zzC17Progs))
	src := zzC17Progs[which]
	opts := &syntax.FileOptions{Set: true, While: true, TopLevelControl: true, GlobalReassign: true, Recursion: true}
	_, prog, err := SourceProgramOptions(opts, "m.star", src, func(string) bool { return false })
	zzAssert(err == nil, "C17.vm.compiles")
	if err != nil {
		return
	}
	var buf bytes.Buffer
	zzAssert(prog.Write(&buf) == nil, "C17.vm.writes")
	data := append([]byte(nil), buf.Bytes()...)
	// CompiledProgram(r) is io.ReadAll + DecodeProgram + wrap; io.ReadAll is skipped
	// (package io is not initialised in the engine, so io.EOF is nil there).
	compiled2, err := compile.DecodeProgram(data)
	zzAssert(err == nil, "C17.vm.reads")
	if err != nil {
		return
	}
	prog2 := &Program{compiled2}
	var buf2 bytes.Buffer
	prog2.Write(&buf2)
	zzAssert(bytes.Equal(buf2.Bytes(), data), "C17.vm.rewrite_same_bytes")

	var limit uint64
	if which == 3 {
		// symbolic step limit: 0 means unlimited
		limit = zzU64("maxsteps")
		zzAssume(limit <= uint64(zzParam("maxsteps", 40, 200)))
	}
	r1 := zzC17Exec(prog, limit)
	r2 := zzC17Exec(prog2, limit)
	zzObserve("err", r1.err)
	zzObserve("globals", r1.globals)
	zzObserve("steps", r1.steps)
	zzAssert(r1.err == r2.err, "C17.vm.same_error")
	zzAssert(r1.trace == r2.trace, "C17.vm.same_backtrace")
	zzAssert(r1.prints == r2.prints, "C17.vm.same_prints")
	zzAssert(r1.globals == r2.globals, "C17.vm.same_globals")
	zzAssert(r1.meta == r2.meta, "C17.vm.same_meta")
	zzAssert(r1.steps == r2.steps, "C17.vm.same_steps")
	// sanity of the scenarios themselves (guards against a vacuous comparison)
	switch which {
	case 0:
		zzAssert(r1.err == "", "C17.vm.prog0_ok")
	case 1:
		zzAssert(r1.err == "" && r1.prints != "", "C17.vm.prog1_prints")
	case 2:
		zzAssert(r1.err != "" && r1.trace != "", "C17.vm.prog2_fails")
	}
	zzReach("end")
}
