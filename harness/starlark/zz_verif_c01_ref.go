//go:build verif

package starlark

// Reference tree-walking evaluator for property C01 (H01.3).
//
// It interprets the syntax tree produced by the parser directly, following doc/spec.md:
//   - lexical blocks (predeclared > module > file > function / comprehension), with the
//     rule that a name bound anywhere in a block is local to the whole block;
//   - variables are boxes shared by reference between a function and its closures;
//   - strict left-to-right evaluation, short-circuit and/or, conditional expressions;
//   - statements, loops with break/continue/return, compound and augmented assignment;
//   - parameter passing (positional, named, defaults, *args, **kwargs, keyword-only).
//
// It does NOT use the resolver's bindings, the compiler or the VM.  Leaf operations on
// values (Binary, Unary, Compare, getIndex, setIndex, getAttr, setField, slice, Truth,
// Iterate, Call of built-ins, dict SetKey) are the same exported/internal functions the VM
// calls, so a difference between the two executions isolates scoping, control flow,
// stack/jump/cell indexing, argument passing and evaluation order.

import (
	"fmt"
	"math/big"

	"go.starlark.net/syntax"
)

// zzRPos identifies the failing operation of one frame by its source position.
// wild: position not defined by the language (failure while binding the arguments
// of a callee: the callee's frame exists but has not executed any operation).
type zzRPos struct {
	line, col int32
	wild      bool
}

type zzRErr struct {
	kind  string
	stack []zzRPos // outermost frame first, like EvalError.CallStack
}

func zzRFail(kind string, pos syntax.Position) *zzRErr {
	return &zzRErr{kind: kind, stack: []zzRPos{{line: pos.Line, col: pos.Col}}}
}

// zzRVar is a variable: a box shared by reference. v == nil means "not yet bound".
type zzRVar struct {
	v Value
}

// zzRAct is an activation (a function call, or the module). The variables of a
// comprehension block live as long as the enclosing activation ("a sequence of for and
// if clauses acts like a nested sequence of for and if statements").
type zzRAct struct {
	comps map[*syntax.Comprehension]*zzRBlock
}

// zzRBlock is an instance of a lexical block.
type zzRBlock struct {
	vars   map[string]*zzRVar
	parent *zzRBlock
	act    *zzRAct
}

func zzRNewBlock(parent *zzRBlock, act *zzRAct, names []string) *zzRBlock {
	b := &zzRBlock{vars: make(map[string]*zzRVar), parent: parent, act: act}
	for _, n := range names {
		if _, ok := b.vars[n]; !ok {
			b.vars[n] = &zzRVar{}
		}
	}
	return b
}

// ---- static helpers: names bound by a statement list (not descending into
// nested functions, lambdas or comprehensions, which are blocks of their own) ----

func zzRTargetNames(lhs syntax.Expr, out []string) []string {
	switch lhs := lhs.(type) {
	case *syntax.Ident:
		out = append(out, lhs.Name)
	case *syntax.ParenExpr:
		out = zzRTargetNames(lhs.X, out)
	case *syntax.TupleExpr:
		for _, e := range lhs.List {
			out = zzRTargetNames(e, out)
		}
	case *syntax.ListExpr:
		for _, e := range lhs.List {
			out = zzRTargetNames(e, out)
		}
	}
	return out
}

func zzRBound(stmts []syntax.Stmt, out []string) []string {
	for _, s := range stmts {
		switch s := s.(type) {
		case *syntax.AssignStmt:
			out = zzRTargetNames(s.LHS, out)
		case *syntax.DefStmt:
			out = append(out, s.Name.Name)
		case *syntax.ForStmt:
			out = zzRTargetNames(s.Vars, out)
			out = zzRBound(s.Body, out)
		case *syntax.WhileStmt:
			out = zzRBound(s.Body, out)
		case *syntax.IfStmt:
			out = zzRBound(s.True, out)
			out = zzRBound(s.False, out)
		}
	}
	return out
}

func zzRLoadNames(stmts []syntax.Stmt) []string {
	var out []string
	for _, s := range stmts {
		if l, ok := s.(*syntax.LoadStmt); ok {
			for _, id := range l.To {
				out = append(out, id.Name)
			}
		}
	}
	return out
}

// ---- function values of the reference evaluator ----

type zzRFunc struct {
	ref      *zzRef
	name     string
	decl     syntax.Node // *syntax.DefStmt or *syntax.LambdaExpr: identity of the declaration
	params   []syntax.Expr
	body     []syntax.Stmt
	defaults map[string]Value
	env      *zzRBlock
	locals   []string
}

func (f *zzRFunc) String() string        { return "<function " + f.name + ">" }
func (f *zzRFunc) Type() string          { return "function" }
func (f *zzRFunc) Freeze()               {}
func (f *zzRFunc) Truth() Bool           { return True }
func (f *zzRFunc) Hash() (uint32, error) { return 7, nil }
func (f *zzRFunc) Name() string          { return f.name }
func (f *zzRFunc) CallInternal(thread *Thread, args Tuple, kwargs []Tuple) (Value, error) {
	v, err := f.ref.callFunc(f, args, kwargs)
	if err != nil {
		return nil, fmt.Errorf("reference evaluator: %s", err.kind)
	}
	return v, nil
}

// ---- the evaluator ----

type zzRef struct {
	opts        *syntax.FileOptions
	predeclared StringDict
	thread      *Thread // used only to call built-ins
	module      *zzRBlock
	file        *zzRBlock
	globalNames []string
	active      []syntax.Node           // declarations of the functions being executed
	legacyPre   map[*syntax.Ident]bool // GlobalReassign dialect: top-level uses that precede every binding
}

const (
	zzRNormal = iota
	zzRBreak
	zzRContinue
	zzRReturn
)

func zzRNew(opts *syntax.FileOptions, predeclared StringDict, thread *Thread) *zzRef {
	return &zzRef{opts: opts, predeclared: predeclared, thread: thread, legacyPre: make(map[*syntax.Ident]bool)}
}

// execFile executes the module. The module block holds the globals; the file block,
// nested beneath it, the load bindings; top-level code runs in the file block.
func (r *zzRef) execFile(f *syntax.File) *zzRErr {
	act := &zzRAct{comps: make(map[*syntax.Comprehension]*zzRBlock)}
	r.globalNames = zzRBound(f.Stmts, nil)
	r.module = zzRNewBlock(nil, act, r.globalNames)
	r.file = zzRNewBlock(r.module, act, zzRLoadNames(f.Stmts))
	if r.opts.GlobalReassign {
		seen := make(map[string]bool)
		r.legacyStmts(f.Stmts, seen)
	}
	_, _, err := r.stmts(r.file, f.Stmts)
	return err
}

// globals returns the bound globals.
func (r *zzRef) globals() map[string]Value {
	out := make(map[string]Value)
	for name, v := range r.module.vars {
		if v.v != nil {
			out[name] = v.v
		}
	}
	return out
}

// ---- GlobalReassign ("legacy", Python-like) dialect: a use that appears directly in the
// file block before any binding of the name at top level refers to the predeclared name.
// (Uses inside functions and inside comprehension blocks always refer to the global.) ----

func (r *zzRef) legacyStmts(stmts []syntax.Stmt, seen map[string]bool) {
	for _, s := range stmts {
		switch s := s.(type) {
		case *syntax.ExprStmt:
			r.legacyExpr(s.X, seen)
		case *syntax.AssignStmt:
			r.legacyExpr(s.RHS, seen)
			r.legacyTarget(s.LHS, seen)
		case *syntax.DefStmt:
			seen[s.Name.Name] = true
			r.legacyParams(s.Params, seen)
		case *syntax.IfStmt:
			r.legacyExpr(s.Cond, seen)
			r.legacyStmts(s.True, seen)
			r.legacyStmts(s.False, seen)
		case *syntax.ForStmt:
			r.legacyExpr(s.X, seen)
			r.legacyTarget(s.Vars, seen)
			r.legacyStmts(s.Body, seen)
		case *syntax.WhileStmt:
			r.legacyExpr(s.Cond, seen)
			r.legacyStmts(s.Body, seen)
		}
	}
}

func (r *zzRef) legacyParams(params []syntax.Expr, seen map[string]bool) {
	for _, p := range params {
		if b, ok := p.(*syntax.BinaryExpr); ok {
			r.legacyExpr(b.Y, seen)
		}
	}
}

func (r *zzRef) legacyTarget(lhs syntax.Expr, seen map[string]bool) {
	switch lhs := lhs.(type) {
	case *syntax.Ident:
		seen[lhs.Name] = true
	case *syntax.ParenExpr:
		r.legacyTarget(lhs.X, seen)
	case *syntax.TupleExpr:
		for _, e := range lhs.List {
			r.legacyTarget(e, seen)
		}
	case *syntax.ListExpr:
		for _, e := range lhs.List {
			r.legacyTarget(e, seen)
		}
	case *syntax.IndexExpr:
		r.legacyExpr(lhs.X, seen)
		r.legacyExpr(lhs.Y, seen)
	case *syntax.DotExpr:
		r.legacyExpr(lhs.X, seen)
	}
}

func (r *zzRef) legacyExpr(e syntax.Expr, seen map[string]bool) {
	switch e := e.(type) {
	case nil:
	case *syntax.Ident:
		if !seen[e.Name] {
			if _, isLoad := r.file.vars[e.Name]; !isLoad {
				r.legacyPre[e] = true
			}
		}
	case *syntax.ParenExpr:
		r.legacyExpr(e.X, seen)
	case *syntax.ListExpr:
		for _, x := range e.List {
			r.legacyExpr(x, seen)
		}
	case *syntax.TupleExpr:
		for _, x := range e.List {
			r.legacyExpr(x, seen)
		}
	case *syntax.DictExpr:
		for _, x := range e.List {
			en := x.(*syntax.DictEntry)
			r.legacyExpr(en.Key, seen)
			r.legacyExpr(en.Value, seen)
		}
	case *syntax.CondExpr:
		r.legacyExpr(e.Cond, seen)
		r.legacyExpr(e.True, seen)
		r.legacyExpr(e.False, seen)
	case *syntax.IndexExpr:
		r.legacyExpr(e.X, seen)
		r.legacyExpr(e.Y, seen)
	case *syntax.SliceExpr:
		r.legacyExpr(e.X, seen)
		if e.Lo != nil {
			r.legacyExpr(e.Lo, seen)
		}
		if e.Hi != nil {
			r.legacyExpr(e.Hi, seen)
		}
		if e.Step != nil {
			r.legacyExpr(e.Step, seen)
		}
	case *syntax.UnaryExpr:
		if e.X != nil {
			r.legacyExpr(e.X, seen)
		}
	case *syntax.BinaryExpr:
		if e.Op == syntax.EQ { // named argument k=v
			r.legacyExpr(e.Y, seen)
			return
		}
		r.legacyExpr(e.X, seen)
		r.legacyExpr(e.Y, seen)
	case *syntax.DotExpr:
		r.legacyExpr(e.X, seen)
	case *syntax.CallExpr:
		r.legacyExpr(e.Fn, seen)
		for _, a := range e.Args {
			r.legacyExpr(a, seen)
		}
	case *syntax.Comprehension:
		// only the operand of the first clause belongs to the file block
		r.legacyExpr(e.Clauses[0].(*syntax.ForClause).X, seen)
	case *syntax.LambdaExpr:
		r.legacyParams(e.Params, seen)
	}
}

// ---- variables ----

func (r *zzRef) find(b *zzRBlock, name string) *zzRVar {
	for blk := b; blk != nil; blk = blk.parent {
		if v, ok := blk.vars[name]; ok {
			return v
		}
	}
	return nil
}

func (r *zzRef) lookup(b *zzRBlock, id *syntax.Ident) (Value, *zzRErr) {
	if !r.legacyPre[id] {
		if v := r.find(b, id.Name); v != nil {
			if v.v == nil {
				return nil, zzRFail("unbound", id.NamePos)
			}
			return v.v, nil
		}
	}
	if v, ok := r.predeclared[id.Name]; ok {
		return v, nil
	}
	if v, ok := Universe[id.Name]; ok {
		return v, nil
	}
	panic("reference evaluator: undefined name " + id.Name)
}

func (r *zzRef) set(b *zzRBlock, id *syntax.Ident, v Value) {
	vr := r.find(b, id.Name)
	if vr == nil {
		panic("reference evaluator: no binding for " + id.Name)
	}
	vr.v = v
}

// ---- statements ----

func (r *zzRef) stmts(b *zzRBlock, list []syntax.Stmt) (int, Value, *zzRErr) {
	for _, s := range list {
		ctl, v, err := r.stmt(b, s)
		if err != nil || ctl != zzRNormal {
			return ctl, v, err
		}
	}
	return zzRNormal, nil, nil
}

func (r *zzRef) stmt(b *zzRBlock, s syntax.Stmt) (int, Value, *zzRErr) {
	switch s := s.(type) {
	case *syntax.ExprStmt:
		_, err := r.eval(b, s.X)
		return zzRNormal, nil, err

	case *syntax.BranchStmt:
		switch s.Token {
		case syntax.BREAK:
			return zzRBreak, nil, nil
		case syntax.CONTINUE:
			return zzRContinue, nil, nil
		}
		return zzRNormal, nil, nil

	case *syntax.IfStmt:
		c, err := r.eval(b, s.Cond)
		if err != nil {
			return zzRNormal, nil, err
		}
		if c.Truth() {
			return r.stmts(b, s.True)
		}
		return r.stmts(b, s.False)

	case *syntax.AssignStmt:
		if s.Op == syntax.EQ {
			v, err := r.eval(b, s.RHS)
			if err != nil {
				return zzRNormal, nil, err
			}
			return zzRNormal, nil, r.assign(b, s.OpPos, s.LHS, v)
		}
		return zzRNormal, nil, r.augmented(b, s)

	case *syntax.DefStmt:
		f, err := r.makeFunc(b, s.Name.Name, s, s.Params, s.Body)
		if err != nil {
			return zzRNormal, nil, err
		}
		r.set(b, s.Name, f)
		return zzRNormal, nil, nil

	case *syntax.ForStmt:
		x, err := r.eval(b, s.X)
		if err != nil {
			return zzRNormal, nil, err
		}
		iter := Iterate(x)
		if iter == nil {
			return zzRNormal, nil, zzRFail("iterate", s.For)
		}
		var elem Value
		for iter.Next(&elem) {
			if err := r.assign(b, s.For, s.Vars, elem); err != nil {
				iter.Done()
				return zzRNormal, nil, err
			}
			ctl, v, err := r.stmts(b, s.Body)
			if err != nil || ctl == zzRReturn {
				iter.Done()
				return ctl, v, err
			}
			if ctl == zzRBreak {
				break
			}
		}
		iter.Done()
		return zzRNormal, nil, nil

	case *syntax.WhileStmt:
		for {
			c, err := r.eval(b, s.Cond)
			if err != nil {
				return zzRNormal, nil, err
			}
			if !c.Truth() {
				break
			}
			ctl, v, err := r.stmts(b, s.Body)
			if err != nil || ctl == zzRReturn {
				return ctl, v, err
			}
			if ctl == zzRBreak {
				break
			}
		}
		return zzRNormal, nil, nil

	case *syntax.ReturnStmt:
		if s.Result == nil {
			return zzRReturn, None, nil
		}
		v, err := r.eval(b, s.Result)
		if err != nil {
			return zzRNormal, nil, err
		}
		return zzRReturn, v, nil

	case *syntax.LoadStmt:
		if r.thread.Load == nil {
			return zzRNormal, nil, zzRFail("load", s.Load)
		}
		dict, lerr := r.thread.Load(r.thread, s.ModuleName())
		if lerr != nil {
			return zzRNormal, nil, zzRFail("load", s.Load)
		}
		vals := make([]Value, len(s.From))
		for i, from := range s.From {
			v, ok := dict[from.Name]
			if !ok {
				return zzRNormal, nil, zzRFail("load", s.Load)
			}
			vals[i] = v
		}
		for i, to := range s.To {
			r.set(b, to, vals[i])
		}
		return zzRNormal, nil, nil
	}
	panic(fmt.Sprintf("reference evaluator: unexpected statement %T", s))
}

// assign binds value v to the target lhs. pos identifies the operation for failures of
// sequence unpacking (the '=' or the 'for').
func (r *zzRef) assign(b *zzRBlock, pos syntax.Position, lhs syntax.Expr, v Value) *zzRErr {
	switch lhs := lhs.(type) {
	case *syntax.ParenExpr:
		return r.assign(b, pos, lhs.X, v)
	case *syntax.Ident:
		r.set(b, lhs, v)
		return nil
	case *syntax.TupleExpr:
		return r.unpack(b, pos, lhs.List, v)
	case *syntax.ListExpr:
		return r.unpack(b, pos, lhs.List, v)
	case *syntax.IndexExpr:
		x, err := r.eval(b, lhs.X)
		if err != nil {
			return err
		}
		y, err := r.eval(b, lhs.Y)
		if err != nil {
			return err
		}
		if e := setIndex(x, y, v); e != nil {
			return zzRFail("setindex", lhs.Lbrack)
		}
		return nil
	case *syntax.DotExpr:
		x, err := r.eval(b, lhs.X)
		if err != nil {
			return err
		}
		if e := setField(x, lhs.Name.Name, v); e != nil {
			return zzRFail("setfield", lhs.Dot)
		}
		return nil
	}
	panic(fmt.Sprintf("reference evaluator: unexpected target %T", lhs))
}

// unpack checks that v is an iterable of exactly len(targets) elements and then assigns
// them left to right.
func (r *zzRef) unpack(b *zzRBlock, pos syntax.Position, targets []syntax.Expr, v Value) *zzRErr {
	iter := Iterate(v)
	if iter == nil {
		return zzRFail("unpack", pos)
	}
	var vals []Value
	var elem Value
	for len(vals) <= len(targets) && iter.Next(&elem) {
		vals = append(vals, elem)
	}
	iter.Done()
	if len(vals) != len(targets) {
		return zzRFail("unpack", pos)
	}
	for i, t := range targets {
		if err := r.assign(b, pos, t, vals[i]); err != nil {
			return err
		}
	}
	return nil
}

func zzRUnparen(e syntax.Expr) syntax.Expr {
	for {
		p, ok := e.(*syntax.ParenExpr)
		if !ok {
			return e
		}
		e = p.X
	}
}

// augmented implements lhs op= rhs: the subexpressions of the target are evaluated
// once, before rhs; x += y on a list and x |= y on dicts update x in place.
func (r *zzRef) augmented(b *zzRBlock, s *syntax.AssignStmt) *zzRErr {
	op := s.Op - syntax.PLUS_EQ + syntax.PLUS
	switch lhs := zzRUnparen(s.LHS).(type) {
	case *syntax.Ident:
		old, err := r.lookup(b, lhs)
		if err != nil {
			return err
		}
		y, err := r.eval(b, s.RHS)
		if err != nil {
			return err
		}
		z, err := r.inplace(op, s.OpPos, old, y)
		if err != nil {
			return err
		}
		r.set(b, lhs, z)
		return nil

	case *syntax.IndexExpr:
		x, err := r.eval(b, lhs.X)
		if err != nil {
			return err
		}
		i, err := r.eval(b, lhs.Y)
		if err != nil {
			return err
		}
		old, e := getIndex(x, i)
		if e != nil {
			return zzRFail("index", lhs.Lbrack)
		}
		y, err := r.eval(b, s.RHS)
		if err != nil {
			return err
		}
		z, err := r.inplace(op, s.OpPos, old, y)
		if err != nil {
			return err
		}
		if e := setIndex(x, i, z); e != nil {
			return zzRFail("setindex", lhs.Lbrack)
		}
		return nil

	case *syntax.DotExpr:
		x, err := r.eval(b, lhs.X)
		if err != nil {
			return err
		}
		old, e := getAttr(x, lhs.Name.Name)
		if e != nil {
			return zzRFail("attr", lhs.Dot)
		}
		y, err := r.eval(b, s.RHS)
		if err != nil {
			return err
		}
		z, err := r.inplace(op, s.OpPos, old, y)
		if err != nil {
			return err
		}
		if e := setField(x, lhs.Name.Name, z); e != nil {
			return zzRFail("setfield", lhs.Dot)
		}
		return nil
	}
	panic("reference evaluator: bad augmented assignment target")
}

func (r *zzRef) inplace(op syntax.Token, pos syntax.Position, x, y Value) (Value, *zzRErr) {
	if op == syntax.PLUS {
		if xl, ok := x.(*List); ok {
			if yi, ok := y.(Iterable); ok {
				if e := xl.checkMutable("apply += to"); e != nil {
					return nil, zzRFail("inplace", pos)
				}
				listExtend(xl, yi)
				return xl, nil
			}
		}
	}
	if op == syntax.PIPE {
		if xd, ok := x.(*Dict); ok {
			if yd, ok := y.(*Dict); ok {
				if e := xd.ht.checkMutable("apply |= to"); e != nil {
					return nil, zzRFail("inplace", pos)
				}
				xd.ht.addAll(&yd.ht)
				return xd, nil
			}
		}
	}
	z, e := Binary(op, x, y)
	if e != nil {
		return nil, zzRFail("binary", pos)
	}
	return z, nil
}

// ---- expressions ----

func (r *zzRef) eval(b *zzRBlock, e syntax.Expr) (Value, *zzRErr) {
	switch e := e.(type) {
	case *syntax.ParenExpr:
		return r.eval(b, e.X)

	case *syntax.Ident:
		return r.lookup(b, e)

	case *syntax.Literal:
		switch v := e.Value.(type) {
		case int64:
			return MakeInt64(v), nil
		case *big.Int:
			return MakeBigInt(v), nil
		case float64:
			return Float(v), nil
		case string:
			if e.Token == syntax.BYTES {
				return Bytes(v), nil
			}
			return String(v), nil
		}
		panic("reference evaluator: bad literal")

	case *syntax.ListExpr:
		elems := make([]Value, 0, len(e.List))
		for _, x := range e.List {
			v, err := r.eval(b, x)
			if err != nil {
				return nil, err
			}
			elems = append(elems, v)
		}
		return NewList(elems), nil

	case *syntax.TupleExpr:
		elems := make(Tuple, 0, len(e.List))
		for _, x := range e.List {
			v, err := r.eval(b, x)
			if err != nil {
				return nil, err
			}
			elems = append(elems, v)
		}
		return elems, nil

	case *syntax.DictExpr:
		d := new(Dict)
		for _, x := range e.List {
			en := x.(*syntax.DictEntry)
			k, err := r.eval(b, en.Key)
			if err != nil {
				return nil, err
			}
			v, err := r.eval(b, en.Value)
			if err != nil {
				return nil, err
			}
			n := d.Len()
			if e := d.SetKey(k, v); e != nil {
				return nil, zzRFail("dictentry", en.Colon)
			}
			if d.Len() == n { // duplicate key in a dict expression
				return nil, zzRFail("dictentry", en.Colon)
			}
		}
		return d, nil

	case *syntax.CondExpr:
		c, err := r.eval(b, e.Cond)
		if err != nil {
			return nil, err
		}
		if c.Truth() {
			return r.eval(b, e.True)
		}
		return r.eval(b, e.False)

	case *syntax.IndexExpr:
		x, err := r.eval(b, e.X)
		if err != nil {
			return nil, err
		}
		y, err := r.eval(b, e.Y)
		if err != nil {
			return nil, err
		}
		z, er := getIndex(x, y)
		if er != nil {
			return nil, zzRFail("index", e.Lbrack)
		}
		return z, nil

	case *syntax.SliceExpr:
		x, err := r.eval(b, e.X)
		if err != nil {
			return nil, err
		}
		var lo, hi, step Value = None, None, None
		if e.Lo != nil {
			if lo, err = r.eval(b, e.Lo); err != nil {
				return nil, err
			}
		}
		if e.Hi != nil {
			if hi, err = r.eval(b, e.Hi); err != nil {
				return nil, err
			}
		}
		if e.Step != nil {
			if step, err = r.eval(b, e.Step); err != nil {
				return nil, err
			}
		}
		z, er := slice(x, lo, hi, step)
		if er != nil {
			return nil, zzRFail("slice", e.Lbrack)
		}
		return z, nil

	case *syntax.Comprehension:
		return r.comprehension(b, e)

	case *syntax.UnaryExpr:
		x, err := r.eval(b, e.X)
		if err != nil {
			return nil, err
		}
		if e.Op == syntax.NOT {
			return !x.Truth(), nil
		}
		y, er := Unary(e.Op, x)
		if er != nil {
			return nil, zzRFail("unary", e.OpPos)
		}
		return y, nil

	case *syntax.BinaryExpr:
		x, err := r.eval(b, e.X)
		if err != nil {
			return nil, err
		}
		switch e.Op {
		case syntax.OR:
			if x.Truth() {
				return x, nil
			}
			return r.eval(b, e.Y)
		case syntax.AND:
			if !x.Truth() {
				return x, nil
			}
			return r.eval(b, e.Y)
		}
		y, err := r.eval(b, e.Y)
		if err != nil {
			return nil, err
		}
		switch e.Op {
		case syntax.EQL, syntax.NEQ, syntax.LT, syntax.LE, syntax.GT, syntax.GE:
			ok, er := Compare(e.Op, x, y)
			if er != nil {
				return nil, zzRFail("compare", e.OpPos)
			}
			return Bool(ok), nil
		case syntax.NOT_IN:
			z, er := Binary(syntax.IN, x, y)
			if er != nil {
				return nil, zzRFail("binary", e.OpPos)
			}
			return !z.Truth(), nil
		}
		z, er := Binary(e.Op, x, y)
		if er != nil {
			return nil, zzRFail("binary", e.OpPos)
		}
		return z, nil

	case *syntax.DotExpr:
		x, err := r.eval(b, e.X)
		if err != nil {
			return nil, err
		}
		y, er := getAttr(x, e.Name.Name)
		if er != nil {
			return nil, zzRFail("attr", e.Dot)
		}
		return y, nil

	case *syntax.CallExpr:
		return r.call(b, e)

	case *syntax.LambdaExpr:
		body := []syntax.Stmt{&syntax.ReturnStmt{Result: e.Body}}
		f, err := r.makeFunc(b, "lambda", e, e.Params, body)
		if err != nil {
			return nil, err
		}
		return f, nil
	}
	panic(fmt.Sprintf("reference evaluator: unexpected expression %T", e))
}

// comprehension: the operand of the first for clause is evaluated in the enclosing
// block; everything else in the comprehension's own block.
func (r *zzRef) comprehension(b *zzRBlock, e *syntax.Comprehension) (Value, *zzRErr) {
	first := e.Clauses[0].(*syntax.ForClause)
	x0, err := r.eval(b, first.X)
	if err != nil {
		return nil, err
	}
	cb := b.act.comps[e]
	if cb == nil {
		var names []string
		for _, c := range e.Clauses {
			if fc, ok := c.(*syntax.ForClause); ok {
				names = zzRTargetNames(fc.Vars, names)
			}
		}
		cb = zzRNewBlock(b, b.act, names)
		b.act.comps[e] = cb
	}
	var acc Value
	if e.Curly {
		acc = new(Dict)
	} else {
		acc = NewList(nil)
	}
	if err := r.clauses(cb, e, 0, x0, acc); err != nil {
		return nil, err
	}
	return acc, nil
}

func (r *zzRef) clauses(cb *zzRBlock, e *syntax.Comprehension, i int, x0 Value, acc Value) *zzRErr {
	if i == len(e.Clauses) {
		if e.Curly {
			en := e.Body.(*syntax.DictEntry)
			k, err := r.eval(cb, en.Key)
			if err != nil {
				return err
			}
			v, err := r.eval(cb, en.Value)
			if err != nil {
				return err
			}
			if er := acc.(*Dict).SetKey(k, v); er != nil {
				return zzRFail("dictentry", en.Colon)
			}
			return nil
		}
		v, err := r.eval(cb, e.Body)
		if err != nil {
			return err
		}
		acc.(*List).Append(v)
		return nil
	}
	switch c := e.Clauses[i].(type) {
	case *syntax.IfClause:
		cond, err := r.eval(cb, c.Cond)
		if err != nil {
			return err
		}
		if cond.Truth() {
			return r.clauses(cb, e, i+1, nil, acc)
		}
		return nil
	case *syntax.ForClause:
		x := x0
		if i > 0 {
			var err *zzRErr
			x, err = r.eval(cb, c.X)
			if err != nil {
				return err
			}
		}
		iter := Iterate(x)
		if iter == nil {
			return zzRFail("iterate", c.For)
		}
		var elem Value
		for iter.Next(&elem) {
			if err := r.assign(cb, c.For, c.Vars, elem); err != nil {
				iter.Done()
				return err
			}
			if err := r.clauses(cb, e, i+1, nil, acc); err != nil {
				iter.Done()
				return err
			}
		}
		iter.Done()
		return nil
	}
	panic("reference evaluator: bad comprehension clause")
}

// makeFunc evaluates the parameter defaults, in order, in the enclosing block and
// returns the function value, which holds a reference to its defining block.
func (r *zzRef) makeFunc(b *zzRBlock, name string, decl syntax.Node, params []syntax.Expr, body []syntax.Stmt) (*zzRFunc, *zzRErr) {
	f := &zzRFunc{ref: r, name: name, decl: decl, params: params, body: body, env: b, defaults: make(map[string]Value)}
	for _, p := range params {
		switch p := p.(type) {
		case *syntax.Ident:
			f.locals = append(f.locals, p.Name)
		case *syntax.BinaryExpr:
			id := p.X.(*syntax.Ident)
			f.locals = append(f.locals, id.Name)
			v, err := r.eval(b, p.Y)
			if err != nil {
				return nil, err
			}
			f.defaults[id.Name] = v
		case *syntax.UnaryExpr:
			if p.X != nil {
				f.locals = append(f.locals, p.X.(*syntax.Ident).Name)
			}
		}
	}
	f.locals = zzRBound(body, f.locals)
	return f, nil
}

// call evaluates f(args): the function, then positional and named arguments in
// order of appearance, then *args, then **kwargs.
func (r *zzRef) call(b *zzRBlock, e *syntax.CallExpr) (Value, *zzRErr) {
	fn, err := r.eval(b, e.Fn)
	if err != nil {
		return nil, err
	}
	var positional Tuple
	var named []Tuple
	var star, starstar syntax.Expr
	for _, a := range e.Args {
		if u, ok := a.(*syntax.UnaryExpr); ok && u.Op == syntax.STAR {
			star = u.X
			continue
		}
		if u, ok := a.(*syntax.UnaryExpr); ok && u.Op == syntax.STARSTAR {
			starstar = u.X
			continue
		}
		if bin, ok := a.(*syntax.BinaryExpr); ok && bin.Op == syntax.EQ {
			v, err := r.eval(b, bin.Y)
			if err != nil {
				return nil, err
			}
			named = append(named, Tuple{String(bin.X.(*syntax.Ident).Name), v})
			continue
		}
		v, err := r.eval(b, a)
		if err != nil {
			return nil, err
		}
		positional = append(positional, v)
	}
	var starv, starstarv Value
	if star != nil {
		if starv, err = r.eval(b, star); err != nil {
			return nil, err
		}
	}
	if starstar != nil {
		if starstarv, err = r.eval(b, starstar); err != nil {
			return nil, err
		}
	}
	if starstarv != nil {
		m, ok := starstarv.(IterableMapping)
		if !ok {
			return nil, zzRFail("call", e.Lparen)
		}
		for _, item := range m.Items() {
			if _, ok := item[0].(String); !ok {
				return nil, zzRFail("call", e.Lparen)
			}
			named = append(named, item)
		}
	}
	if starv != nil {
		iter := Iterate(starv)
		if iter == nil {
			return nil, zzRFail("call", e.Lparen)
		}
		var elem Value
		for iter.Next(&elem) {
			positional = append(positional, elem)
		}
		iter.Done()
	}

	if f, ok := fn.(*zzRFunc); ok {
		v, err := r.callFunc(f, positional, named)
		if err != nil {
			// the failing operation of this frame is the call
			st := append([]zzRPos{{line: e.Lparen.Line, col: e.Lparen.Col}}, err.stack...)
			return nil, &zzRErr{kind: err.kind, stack: st}
		}
		return v, nil
	}
	// built-in (or not callable at all)
	v, er := Call(r.thread, fn, positional, named)
	if er != nil {
		return nil, zzRFail("call", e.Lparen)
	}
	return v, nil
}

func zzRWild(kind string) *zzRErr {
	return &zzRErr{kind: kind, stack: []zzRPos{{wild: true}}}
}

// callFunc: recursion check (dialect without recursion: a function may not be called
// while a function with the same declaration is active), parameter binding, body.
func (r *zzRef) callFunc(f *zzRFunc, args Tuple, kwargs []Tuple) (Value, *zzRErr) {
	if !r.opts.Recursion {
		for _, d := range r.active {
			if d == f.decl {
				return nil, zzRWild("recursion")
			}
		}
	}
	act := &zzRAct{comps: make(map[*syntax.Comprehension]*zzRBlock)}
	blk := zzRNewBlock(f.env, act, f.locals)
	if !r.bindArgs(f, blk, args, kwargs) {
		return nil, zzRWild("args")
	}
	r.active = append(r.active, f.decl)
	ctl, v, err := r.stmts(blk, f.body)
	r.active = r.active[:len(r.active)-1]
	if err != nil {
		return nil, err
	}
	if ctl == zzRReturn {
		return v, nil
	}
	return None, nil
}

// bindArgs implements parameter passing as described in doc/spec.md (Functions).
func (r *zzRef) bindArgs(f *zzRFunc, blk *zzRBlock, args Tuple, kwargs []Tuple) bool {
	var pos, kwonly []string
	var varargs, kwname string
	seenStar := false
	for _, p := range f.params {
		switch p := p.(type) {
		case *syntax.Ident:
			if seenStar {
				kwonly = append(kwonly, p.Name)
			} else {
				pos = append(pos, p.Name)
			}
		case *syntax.BinaryExpr:
			name := p.X.(*syntax.Ident).Name
			if seenStar {
				kwonly = append(kwonly, name)
			} else {
				pos = append(pos, name)
			}
		case *syntax.UnaryExpr:
			if p.Op == syntax.STAR {
				seenStar = true
				if p.X != nil {
					varargs = p.X.(*syntax.Ident).Name
				}
			} else {
				kwname = p.X.(*syntax.Ident).Name
			}
		}
	}
	// positional arguments
	n := len(args)
	if n > len(pos) {
		if varargs == "" {
			return false
		}
		n = len(pos)
	}
	for i := 0; i < n; i++ {
		blk.vars[pos[i]].v = args[i]
	}
	if varargs != "" {
		rest := make(Tuple, 0, len(args)-n)
		for i := n; i < len(args); i++ {
			rest = append(rest, args[i])
		}
		blk.vars[varargs].v = rest
	}
	// named arguments
	var kwdict *Dict
	if kwname != "" {
		kwdict = new(Dict)
		blk.vars[kwname].v = kwdict
	}
	named := append(append([]string{}, pos...), kwonly...)
	for _, kv := range kwargs {
		k := string(kv[0].(String))
		isParam := false
		for _, p := range named {
			if p == k {
				isParam = true
			}
		}
		if isParam {
			if blk.vars[k].v != nil {
				return false // multiple values for parameter
			}
			blk.vars[k].v = kv[1]
			continue
		}
		if kwdict == nil {
			return false // unexpected keyword argument
		}
		if _, found, _ := kwdict.Get(kv[0]); found {
			return false // multiple values for keyword
		}
		kwdict.SetKey(kv[0], kv[1])
	}
	// defaults
	for _, p := range named {
		if blk.vars[p].v == nil {
			d, ok := f.defaults[p]
			if !ok {
				return false // missing argument
			}
			blk.vars[p].v = d
		}
	}
	return true
}
