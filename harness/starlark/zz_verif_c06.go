//go:build verif

package starlark

// C06 H06.1: iterating VM constructs over K in {list, dict, set} of symbolic
// contents, with host built-ins f/g/h whose behaviour follows a fault schedule
// (error, panic, Cancel at a chosen invocation; symbolic truth values drive
// break/continue/return/filters) or with a symbolic step limit. At every
// built-in invocation the iterator count of K is exactly c0 + nesting depth
// (c0 symbolic: K may already be under iteration by outer loops) and every
// mutator fails leaving K unchanged; when the outermost Call returns by any
// path the count is back to c0, the Go API mutators succeed again (c0 = 0),
// and the thread's call stack is empty and reusable.

var zzC06Mod StringDict

const zzC06Src = `
def for1(K, f, g, h):
    for x in K:
        f(x)
    return 0
def nested(K, f, g, h):
    for x in K:
        g(x)
        for y in K:
            f(y)
    return 0
def listcomp(K, f, g, h):
    return [g(x) for x in K if f(x)]
def dictcomp(K, f, g, h):
    return {x: g(x) for x in K}
def comp2(K, f, g, h):
    return [f(y) for x in K for y in K]
def unpack1(K, f, g, h):
    (a,) = K
    h(a)
    return 0
def unpack2(K, f, g, h):
    a, b = K
    h(a)
    return 0
def star(K, f, g, h):
    h(*K)
    return 0
def brk(K, f, g, h):
    for x in K:
        if f(x):
            break
        g(x)
    h(0)
    return 0
def cont(K, f, g, h):
    for x in K:
        if f(x):
            continue
        g(x)
    return 0
def ret(K, f, g, h):
    for x in K:
        if f(x):
            return x
        g(x)
    return 0
def retnested(K, f, g, h):
    for x in K:
        for y in K:
            if f(y):
                return y
    return 0
def brknested(K, f, g, h):
    for x in K:
        for y in K:
            if f(y):
                break
        g(x)
    return 0
def callee(K, f, g, h):
    def inner(x):
        for y in K:
            f(y)
    for x in K:
        inner(x)
    return 0
def forunpack(K, f, g, h):
    for a, b in [K, K]:
        h(a)
    return 0
def compthen(K, f, g, h):
    r = [g(x) for x in K]
    h(0)
    return {x: h(x) for x in r}
def iadd(x, y):
    x += y
    return x
def ipipe(x, y):
    x |= y
    return x
`

func init() { zzC06Mod = zzMExec("c06.star", zzC06Src) }

// construct table: name, lock depth of K while f / g / h run, and the
// number of targets if the construct unpacks K (0: none).
type zzC06Construct struct {
	name       string
	df, dg, dh uint32
	targets    int
}

var zzC06Constructs = []zzC06Construct{
	{"for1", 1, 0, 0, 0},
	{"nested", 2, 1, 0, 0},
	{"listcomp", 1, 1, 0, 0},
	{"dictcomp", 0, 1, 0, 0},
	{"comp2", 2, 0, 0, 0},
	{"unpack1", 0, 0, 0, 1},
	{"unpack2", 0, 0, 0, 2},
	{"star", 0, 0, 0, 0},
	{"brk", 1, 1, 0, 0},
	{"cont", 1, 1, 0, 0},
	{"ret", 1, 1, 0, 0},
	{"retnested", 2, 0, 0, 0},
	{"brknested", 2, 1, 0, 0},
	{"callee", 2, 0, 0, 0},
	{"forunpack", 0, 0, 0, 2},
	{"compthen", 0, 1, 0, 0},
}

// zzC06K is the collection under test with its raw accessors.
type zzC06K struct {
	kind int // 0 list, 1 dict, 2 set
	l    *List
	d    *Dict
	s    *Set
	n    int
}

func zzC06MakeK(kind, n int) *zzC06K {
	k := &zzC06K{kind: kind, n: n}
	ev := zzMSyms("e", n)
	switch kind {
	case 0:
		k.l = zzMListOf(ev)
	case 1:
		zzMDistinct(ev)
		k.d = zzMDictOf(ev, zzMSyms("v", n))
	case 2:
		zzMDistinct(ev)
		k.s = zzMSetOf(ev)
	}
	return k
}

func (k *zzC06K) value() Value {
	switch k.kind {
	case 0:
		return k.l
	case 1:
		return k.d
	}
	return k.s
}

func (k *zzC06K) counter() *uint32 {
	switch k.kind {
	case 0:
		return &k.l.itercount
	case 1:
		return &k.d.ht.itercount
	}
	return &k.s.ht.itercount
}

// tryMutators attempts every Go-API mutator and a few methods; returns
// (all failed, K bit-for-bit unchanged).
func (k *zzC06K) tryMutators(thread *Thread) (allFailed, unchanged bool) {
	x := MakeInt(1000)
	allFailed = true
	fail := func(err error) { allFailed = allFailed && err != nil }
	switch k.kind {
	case 0:
		snap := zzMSnapList(k.l)
		fail(k.l.Append(x))
		if k.n > 0 {
			fail(k.l.SetIndex(0, x))
		}
		fail(k.l.Clear())
		_, err := zzMCallMethod(thread, k.l, "pop", nil, nil)
		fail(err)
		_, err = zzMCallMethod(thread, k.l, "insert", Tuple{MakeInt(0), x}, nil)
		fail(err)
		_, err = zzMCallMethod(thread, k.l, "extend", Tuple{Tuple{x}}, nil)
		fail(err)
		_, err = Call(thread, zzC06iadd(), Tuple{k.l, Tuple{x}}, nil)
		fail(err)
		unchanged = zzMListSame(k.l, snap)
	case 1:
		snap := zzMSnapHt(&k.d.ht)
		fail(k.d.SetKey(x, x))
		_, _, err := k.d.Delete(x)
		fail(err)
		fail(k.d.Clear())
		_, err = zzMCallMethod(thread, k.d, "popitem", nil, nil)
		fail(err)
		_, err = zzMCallMethod(thread, k.d, "update", Tuple{NewList([]Value{Tuple{x, x}})}, nil)
		fail(err)
		_, err = zzMCallMethod(thread, k.d, "setdefault", Tuple{x}, nil)
		fail(err)
		unchanged = zzMHtSame(&k.d.ht, snap)
	case 2:
		snap := zzMSnapHt(&k.s.ht)
		fail(k.s.Insert(x))
		_, err := k.s.Delete(x)
		fail(err)
		if k.n > 0 {
			fail(k.s.Clear())
		}
		_, err = zzMCallMethod(thread, k.s, "pop", nil, nil)
		fail(err)
		_, err = zzMCallMethod(thread, k.s, "add", Tuple{x}, nil)
		fail(err)
		_, err = zzMCallMethod(thread, k.s, "update", Tuple{Tuple{x}}, nil)
		fail(err)
		unchanged = zzMHtSame(&k.s.ht, snap)
	}
	return
}

// mutateOK: the Go API mutator succeeds (K mutable again).
func (k *zzC06K) mutateOK() bool {
	x := MakeInt(2000)
	switch k.kind {
	case 0:
		return k.l.Append(x) == nil
	case 1:
		return k.d.SetKey(x, x) == nil
	}
	return k.s.Insert(x) == nil
}

func zzC06iadd() Value { return zzC06Mod["iadd"] }

const (
	zzFaultNone = iota
	zzFaultError
	zzFaultPanic
	zzFaultCancel
	zzFaultKinds
)

// zzC06Env wires the three built-ins to one invocation counter and fault schedule.
type zzC06Env struct {
	tag      string
	k        *zzC06K
	c0       uint32
	con      zzC06Construct
	calls    int
	at       int // invocation index of the fault (>= calls made: none)
	fault    int
	lockOK   bool // every invocation saw itercount == c0 + depth
	rejOK    bool // every mutator attempted under a lock failed
	sameOK   bool // ... and left K unchanged
	attempts int  // remaining invocations at which the mutator battery is tried
}

func (e *zzC06Env) builtin(name string, depth uint32) *Builtin {
	return NewBuiltin(name, func(thread *Thread, b *Builtin, args Tuple, kwargs []Tuple) (Value, error) {
		i := e.calls
		e.calls++
		e.lockOK = zzAnd(e.lockOK, *e.k.counter() == e.c0+depth)
		if depth > 0 && e.attempts > 0 {
			// (every invocation checks the exact lock count; the mutator battery runs at the
			// first `attempts` locked invocations: by H04.1 itercount > 0 alone decides rejection)
			e.attempts--
			rej, same := e.k.tryMutators(thread)
			e.rejOK = e.rejOK && rej
			e.sameOK = zzAnd(e.sameOK, same)
		}
		if i == e.at {
			switch e.fault {
			case zzFaultError:
				return nil, nameErr(b, "scheduled failure")
			case zzFaultPanic:
				panic("scheduled host panic")
			case zzFaultCancel:
				thread.Cancel("scheduled cancel")
			}
		}
		// symbolic truth value: drives break / continue / return / comprehension filters
		return Bool(zzBool(e.tag + string(rune('0'+i%10)) + string(rune('a'+i/10)))), nil
	})
}

func zzC06Setup(nkinds int) (*zzC06K, zzC06Construct, *zzC06Env) {
	N := zzParam("maxlen", 2, 3)
	con := zzC06Constructs[zzChoice("construct", len(zzC06Constructs))]
	kind := zzChoice("K", nkinds)
	n := zzChoice("n", N+1)
	k := zzC06MakeK(kind, n)
	c0 := zzU32("c0")
	zzAssume(c0 < 1<<31) // far from counter wrap-around
	*k.counter() = c0
	env := &zzC06Env{tag: "r", attempts: zzParam("mutator_attempts", 1, 3), k: k, c0: c0, con: con, at: -1, lockOK: true, rejOK: true, sameOK: true}
	return k, con, env
}

// zzC06Post: postconditions after the outermost Call returned by any path.
func zzC06Post(k *zzC06K, con zzC06Construct, env *zzC06Env, thread *Thread) {
	zzAssert(env.lockOK, "C06.vm.locked_during_iteration")
	zzAssert(env.rejOK, "C06.vm.mutators_rejected")
	zzAssert(env.sameOK, "C06.vm.unchanged_by_rejected_mutators")
	zzAssert(thread.CallStackDepth() == 0, "C06.vm.stack_restored")
	// (UNPACK with too many values used to leave its iterator un-Done: fixed in /repo, see
	// known_findings.json "fixed"; the assertion is unconditional again)
	zzAssert(*k.counter() == env.c0, "C06.vm.unlocked")
}

//verif:unwind 200
func zzH06_vmFaults() {
	k, con, env := zzC06Setup(3)
	maxAt := zzParam("maxat", 3, 7)
	env.at = zzChoice("at", maxAt+1) // == maxAt: beyond every run that short; larger runs simply see no fault
	env.fault = zzFaultNone
	if env.at < maxAt {
		env.fault = 1 + zzChoice("fault", zzFaultKinds-1)
	}
	thread := &Thread{Name: "t"}
	fn := zzC06Mod[con.name]
	args := Tuple{k.value(), env.builtin("f", con.df), env.builtin("g", con.dg), env.builtin("h", con.dh)}
	var err error
	panicked := zzCatch(func() { _, err = Call(thread, fn, args, nil) })
	faulted := env.calls > env.at && env.at >= 0 && env.fault != zzFaultNone
	zzObserve("calls", env.calls)
	zzObserve("failed", err != nil)
	zzObserve("panicked", panicked)
	zzAssert(panicked == (faulted && env.fault == zzFaultPanic), "C06.vm.panic_iff_scheduled")
	if faulted && env.fault != zzFaultPanic {
		zzAssert(err != nil, "C06.vm.fault_reported")
	}
	zzC06Post(k, con, env, thread)

	// (c) the thread and K are reusable: a fault-free second run on the same thread
	thread.Uncancel()
	env2 := &zzC06Env{tag: "s", k: k, c0: env.c0, con: con, at: -1, lockOK: true, rejOK: true, sameOK: true}
	args2 := Tuple{k.value(), env2.builtin("f", con.df), env2.builtin("g", con.dg), env2.builtin("h", con.dh)}
	var err2 error
	panicked2 := zzCatch(func() { _, err2 = Call(thread, fn, args2, nil) })
	zzAssert(!panicked2, "C06.vm.rerun_no_panic")
	if con.targets == 0 {
		zzAssert(err2 == nil, "C06.vm.rerun_succeeds")
	} else {
		zzAssert((err2 == nil) == (k.n == con.targets), "C06.vm.rerun_succeeds")
	}
	zzC06Post(k, con, env2, thread)
	// with no outer iteration, K is mutable again through the Go API
	zzAssume(env.c0 == 0)
	zzAssert(k.mutateOK(), "C06.vm.mutable_again")
	zzReach("end")
}

// zzH06_vmSteps: cancellation by step limit at every instruction boundary.
//
//verif:unwind 400
func zzH06_vmSteps() {
	// quick tier: list and dict (set iteration is the same hashtable code as dict)
	k, con, env := zzC06Setup(zzParam("kinds", 2, 3))
	thread := &Thread{Name: "t"}
	lim := zzU64("steps")
	zzAssume(zzAnd(lim >= 1, lim <= uint64(zzParam("maxsteps", 120, 400))))
	thread.SetMaxExecutionSteps(lim)
	fn := zzC06Mod[con.name]
	args := Tuple{k.value(), env.builtin("f", con.df), env.builtin("g", con.dg), env.builtin("h", con.dh)}
	var err error
	panicked := zzCatch(func() { _, err = Call(thread, fn, args, nil) })
	zzObserve("calls", env.calls)
	zzObserve("failed", err != nil)
	zzObserve("steps", thread.Steps)
	zzAssert(!panicked, "C06.steps.no_panic")
	zzAssert(zzImplies(thread.Steps >= lim, err != nil), "C06.steps.cancelled")
	zzC06Post(k, con, env, thread)
	zzAssume(env.c0 == 0)
	zzAssert(k.mutateOK(), "C06.steps.mutable_again")
	zzReach("end")
}

func zzC06ipipe() Value { return zzC06Mod["ipipe"] }
