//go:build verif

package starlark

import (
	"strconv"

	"go.starlark.net/resolve"
	"go.starlark.net/syntax"
)

// ---------------------------------------------------------------------------
// H08.2: the producer side of the signature: parameter lists.
//
// A parameter list of up to n entries, each of kind
//
//	R  x        required
//	O  x=d      optional (default 101+i)
//	S  *        bare star
//	V  *x       varargs
//	K  **x      kwargs
//
// with symbolic one-byte names (so a duplicate name is a solver choice) is put
// into `def f(<list>): pass`, built as a syntax tree, and run through
// resolver, compiler and the toplevel MAKEFUNC.
//
// Reference (doc/spec.md "Function definitions" = Python 3): the list is
// well-formed iff it has the shape  R* O* [S|V] (R|O)* [K],  a bare * is
// followed by at least one named parameter, and all names are distinct.
// For a well-formed list the compiled signature must be exactly what setArgs
// (H08.1) relies on:
//   - NumParams counts every entry but the bare *; NumKwonlyParams counts the
//     named entries after the star; HasVarargs/HasKwargs;
//   - Locals[:NumParams] = the named parameters in order, then *x, then **x;
//   - defaults covers the named parameters from the first one that is optional
//     or keyword-only to the last, holding the default of each optional one and
//     the mandatory marker of each required keyword-only one (and never a
//     marker in a positional slot).
// ---------------------------------------------------------------------------

const (
	zzPR = iota
	zzPO
	zzPS
	zzPV
	zzPK
)

type zzParamEntry struct {
	kind int
	name string // symbolic (unused for S)
	pos  syntax.Position
}

func zzParamListCore(n int, symbolicNames bool) {
	file := "params.star"
	line := int32(1)
	newPos := func() syntax.Position { line++; return syntax.MakePosition(&file, line, 1) }

	var entries []zzParamEntry
	var params []syntax.Expr
	for i := 0; i < n; i++ {
		e := zzParamEntry{kind: zzChoice("kind"+strconv.Itoa(i), 5), pos: newPos()}
		if symbolicNames {
			e.name = zzString("name"+strconv.Itoa(i), 1)
		} else {
			e.name = "abcde"[i : i+1]
		}
		id := &syntax.Ident{NamePos: e.pos, Name: e.name}
		switch e.kind {
		case zzPR:
			params = append(params, id)
		case zzPO:
			dflt := &syntax.Literal{Token: syntax.INT, TokenPos: newPos(), Raw: strconv.Itoa(101 + i), Value: int64(101 + i)}
			params = append(params, &syntax.BinaryExpr{X: id, OpPos: e.pos, Op: syntax.EQ, Y: dflt})
		case zzPS:
			params = append(params, &syntax.UnaryExpr{OpPos: e.pos, Op: syntax.STAR})
		case zzPV:
			params = append(params, &syntax.UnaryExpr{OpPos: e.pos, Op: syntax.STAR, X: id})
		case zzPK:
			params = append(params, &syntax.UnaryExpr{OpPos: e.pos, Op: syntax.STARSTAR, X: id})
		}
		entries = append(entries, e)
	}
	def := &syntax.DefStmt{Def: newPos(), Name: &syntax.Ident{NamePos: newPos(), Name: "f"}, Lparen: newPos(), Params: params, Rparen: newPos(),
		Body: []syntax.Stmt{&syntax.BranchStmt{Token: syntax.PASS, TokenPos: newPos()}}}
	f := &syntax.File{Path: file, Stmts: []syntax.Stmt{def}, Options: &syntax.FileOptions{}}

	prog, err := FileProgram(f, zzNoPredeclared)

	// ---- reference: shape ----
	shapeOK := true
	stage := 0 // 0: required, 1: optional, 2: after star (keyword-only), 3: after **
	nstar, nkwonly := 0, 0
	bareStar := false
	for _, e := range entries {
		switch e.kind {
		case zzPR:
			if stage == 1 || stage == 3 {
				shapeOK = false
			}
			if stage == 2 {
				nkwonly++
			}
		case zzPO:
			if stage == 3 {
				shapeOK = false
			}
			if stage == 0 {
				stage = 1
			}
			if stage == 2 {
				nkwonly++
			}
		case zzPS, zzPV:
			if stage >= 2 {
				shapeOK = false
			}
			if stage < 2 {
				stage = 2
			}
			nstar++
			if e.kind == zzPS {
				bareStar = true
			}
		case zzPK:
			if stage == 3 {
				shapeOK = false
			}
			stage = 3
		}
	}
	if bareStar && nkwonly == 0 {
		shapeOK = false
	}
	// ---- reference: distinct names (symbolic) ----
	distinct := true
	for i := range entries {
		if entries[i].kind == zzPS {
			continue
		}
		for j := 0; j < i; j++ {
			if entries[j].kind == zzPS {
				continue
			}
			distinct = zzAnd(distinct, entries[i].name != entries[j].name)
		}
	}
	zzObserve("rejected", err != nil)
	zzAssert((err == nil) == zzAnd(shapeOK, distinct), "C08.params.accepted_iff_wellformed")
	zzAssert((prog == nil) == (err != nil), "C08.params.program_iff_no_error")
	if err != nil {
		errs, ok := err.(resolve.ErrorList)
		zzAssert(ok && len(errs) > 0, "C08.params.error_type")
		if ok && len(errs) > 0 {
			// the first error is positioned at one of the parameters
			at := false
			for _, e := range entries {
				at = zzOr(at, zzAnd(errs[0].Pos.Line == e.pos.Line, errs[0].Pos.Col == e.pos.Col))
			}
			zzAssert(at, "C08.params.error_at_a_parameter")
		}
		zzReach("end")
		return
	}

	// ---- well-formed: inspect the compiled signature ----
	th := &Thread{Name: "t"}
	g, err := prog.Init(th, nil)
	zzAssert(err == nil, "C08.params.def_executes")
	fn, _ := g["f"].(*Function)
	zzAssert(fn != nil, "C08.params.function_value")
	if fn == nil {
		return
	}
	var named []zzParamEntry // named parameters in declaration order
	var kwonly []bool
	var varargs, kwargs *zzParamEntry
	seenStar := false
	for i := range entries {
		e := entries[i]
		switch e.kind {
		case zzPR, zzPO:
			named = append(named, e)
			kwonly = append(kwonly, seenStar)
		case zzPS:
			seenStar = true
		case zzPV:
			seenStar = true
			varargs = &entries[i]
		case zzPK:
			kwargs = &entries[i]
		}
	}
	wantN := len(named)
	if varargs != nil {
		wantN++
	}
	if kwargs != nil {
		wantN++
	}
	fc := fn.funcode
	zzObserve("numparams", fc.NumParams)
	zzAssert(fc.NumParams == wantN, "C08.params.NumParams")
	zzAssert(fc.NumKwonlyParams == nkwonly, "C08.params.NumKwonlyParams")
	zzAssert(fc.HasVarargs == (varargs != nil), "C08.params.HasVarargs")
	zzAssert(fc.HasKwargs == (kwargs != nil), "C08.params.HasKwargs")
	zzAssert(len(fc.Locals) >= wantN, "C08.params.locals_len")
	if len(fc.Locals) < wantN || fc.NumParams != wantN {
		return
	}
	order := true
	for i, e := range named {
		order = zzAnd(order, fc.Locals[i].Name == e.name)
	}
	idx := len(named)
	if varargs != nil {
		order = zzAnd(order, fc.Locals[idx].Name == varargs.name)
		idx++
	}
	if kwargs != nil {
		order = zzAnd(order, fc.Locals[idx].Name == kwargs.name)
	}
	zzAssert(order, "C08.params.locals_order")

	// defaults layout
	first := len(named) // index of the first named parameter that has a defaults entry
	for i, e := range named {
		if e.kind == zzPO || kwonly[i] {
			first = i
			break
		}
	}
	zzAssert(len(fn.defaults) == len(named)-first, "C08.params.defaults_len")
	if len(fn.defaults) == len(named)-first {
		for i := first; i < len(named); i++ {
			d := fn.defaults[i-first]
			_, isMand := d.(mandatory)
			if named[i].kind == zzPO {
				v, isInt := d.(Int)
				zzAssert(isInt && !isMand, "C08.params.default_is_value")
				if isInt {
					// the default literal of entry k is 101+k: recover k from the position of the entry
					x, _ := v.Int64()
					zzAssert(x >= 101 && x <= 105 && entries[x-101].pos == named[i].pos, "C08.params.default_belongs_to_param")
				}
			} else {
				zzAssert(isMand, "C08.params.required_kwonly_is_mandatory")
				zzAssert(kwonly[i], "C08.params.mandatory_only_in_kwonly_slot")
			}
		}
	}
	zzReach("end")
}

// H08.2 with symbolic names (duplicates are solver choices).
//
//verif:unwind 40
func zzH08_paramlist() {
	n := zzChoice("nentries", zzParam("maxentries", 3, 4)+1)
	zzParamListCore(n, true)
}

// H08.2 with five entries and distinct concrete names (shape rules only).
//
//verif:thorough
//verif:unwind 40
func zzH08_paramlist5() {
	zzParamListCore(5, false)
}
