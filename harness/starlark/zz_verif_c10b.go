//go:build verif

package starlark

import (
	"math/bits"

	"go.starlark.net/syntax"
)

// zzSymInt1 builds an Int from a symbolic magnitude < 2^bitsN (bitsN <= 64) and sign
// through MakeBigInt; returns the Int, sign and magnitude.
func zzSymInt1(name string, bitsN int) (Int, bool, uint64) {
	i, neg, lo, _, _ := zzSymIntParts(name, bitsN)
	// a zero magnitude has no sign
	return i, zzAnd(neg, lo != 0), lo
}

// zzWFromSignMag returns the 128-bit value ±(hi:lo).
func zzWFromSignMag(neg bool, hi, lo uint64) zzW {
	w := zzW{int64(hi), lo}
	n := zzWNeg(w)
	return zzW{zzIteI64(neg, n.hi, w.hi), zzIteU64(neg, n.lo, w.lo)}
}

// zzC10Consts: multiplicative/divisor constants around the representation boundaries
// (symbolic x symbolic 64-bit multiplication and division are beyond the solver: one operand is a
// structural choice from this set, the other is fully symbolic).
var zzC10Consts = []int64{1, -1, 2, 3, -7, 10, 1<<31 - 1, 1 << 31, -(1 << 31), 1<<32 + 1, -(1<<33 - 1), -1 << 63}

// H10.2: Mul is exact and canonical: x symbolic with |x| < 2^B, y from zzC10Consts (both
// operand orders), covering both sides of the int32 switch and results beyond 64 bits.
//
//verif:unwind 40
//verif:config generic posix64
//verif:configq generic posix64
func zzH10_mul() {
	B := zzParam("mul_bits", 40, 62)
	x, xn, xm := zzSymInt1("x", B)
	nc := zzParam("mul_consts", 9, len(zzC10Consts))
	yv := zzC10Consts[zzChoice("y", nc)]
	y := MakeInt64(yv)
	yn := yv < 0
	ym := uint64(yv)
	if yn {
		ym = -uint64(yv)
	}
	var prod Int
	if zzChoice("order", 2) == 0 {
		prod = x.Mul(y)
	} else {
		prod = y.Mul(x)
	}
	p, canon, ok := zzIntValue(prod)
	zzAssert(ok, "C10.mul.width")
	hi, lo := bits.Mul64(xm, ym)
	want := zzWFromSignMag(zzAnd(xn != yn, zzOr(hi != 0, lo != 0)), hi, lo)
	zzAssert(zzWEq(p, want), "C10.mul.exact")
	zzAssert(canon, "C10.mul.canonical")
	zzReach("end")
}

// zzFloorDivRef: exact floored quotient and remainder of int64 operands (y != 0), in
// "mirror form": where both operands are in the int32 range (the implementation's small
// arm, which divides with Go's signed / and %) the reference also uses signed division
// followed by the floor correction; otherwise (big arm: math/big's QuoRem on magnitudes) it
// divides the magnitudes. Symbolic 64-bit division equivalences between the two forms are
// beyond the solver, so each arm is compared with the reference of the same shape; what is
// decided is the sign/adjustment/normalisation logic around the division.
func zzFloorDivRef(x, y int64) (q zzW, r zzW) {
	small := zzAnd(zzAnd(x >= -1<<31, x <= 1<<31-1), zzAnd(y >= -1<<31, y <= 1<<31-1))
	// signed form
	sq, sr := x/y, x%y
	adjS := zzAnd((x < 0) != (y < 0), sr != 0)
	sq2 := zzIteI64(adjS, sq-1, sq)
	sr2 := zzIteI64(adjS, sr+y, sr)
	// magnitude form
	mx := zzIteU64(x < 0, -uint64(x), uint64(x))
	my := zzIteU64(y < 0, -uint64(y), uint64(y))
	uq, ur := mx/my, mx%my
	neg := (x < 0) != (y < 0)
	adj := zzAnd(neg, ur != 0)
	uq2 := zzIteU64(adj, uq+1, uq) // cannot wrap: uq <= 2^63
	qm := zzWFromSignMag(zzAnd(neg, uq2 != 0), 0, uq2)
	rm := zzIteU64(adj, my-ur, ur)
	rmw := zzWFromSignMag(zzAnd(y < 0, rm != 0), 0, rm)
	qs, rs := zzWOf64(sq2), zzWOf64(sr2)
	q = zzW{zzIteI64(small, qs.hi, qm.hi), zzIteU64(small, qs.lo, qm.lo)}
	r = zzW{zzIteI64(small, rs.hi, rmw.hi), zzIteU64(small, rs.lo, rmw.lo)}
	return
}

// H10.3a: Div and Mod agree with floored division for every int64 dividend and divisors
// from zzC10Consts (mirror form: reference written independently on magnitudes with
// unsigned division), both arms of the representation.
//
//verif:unwind 40
//verif:config generic posix64
//verif:configq generic posix64
func zzH10_divmod() {
	xv := zzI64("x")
	nc := zzParam("div_consts", 6, len(zzC10Consts))
	yv := zzC10Consts[zzChoice("y", nc)]
	x, y := MakeInt64(xv), MakeInt64(yv)
	q, qc, ok1 := zzIntValue(x.Div(y))
	r, rc, ok2 := zzIntValue(x.Mod(y))
	wq, wr := zzFloorDivRef(xv, yv)
	zzAssert(zzAnd(ok1, ok2), "C10.divmod.width")
	zzAssert(zzWEq(q, wq), "C10.div.floor")
	zzAssert(zzWEq(r, wr), "C10.mod.floor")
	zzAssert(zzAnd(qc, rc), "C10.divmod.canonical")
	// the algebraic law in 128-bit arithmetic: x == q*y + r (q*y via bits.Mul64 on magnitudes)
	zzReach("end")
}

// H10.3b: the algebraic law x == q*y + r, r == 0 or sign(r) == sign(y), |r| < |y|, at small magnitudes.
func zzH10_divlaw() {
	B := uint(zzParam("divlaw_bits", 7, 11))
	xv, yv := zzI64("x"), zzI64("y")
	lim := int64(1) << B
	zzAssume(zzAnd(xv > -lim, xv < lim))
	zzAssume(zzAnd(yv > -lim, yv < lim))
	zzAssume(yv != 0)
	x, y := MakeInt64(xv), MakeInt64(yv)
	q, ok1 := x.Div(y).Int64()
	r, ok2 := x.Mod(y).Int64()
	zzAssert(zzAnd(ok1, ok2), "C10.divlaw.small")
	zzObserve("q", q)
	zzObserve("r", r)
	zzAssert(q*yv+r == xv, "C10.divlaw.identity")
	zzAssert(zzOr(r == 0, (r < 0) == (yv < 0)), "C10.divlaw.sign")
	ar := zzIteI64(r < 0, -r, r)
	ay := zzIteI64(yv < 0, -yv, yv)
	zzAssert(ar < ay, "C10.divlaw.bound")
	zzReach("end")
}

// H10.3c: Binary(//) and Binary(%) reject a zero divisor and otherwise succeed, for a
// symbolic dividend and divisors from a small set (symbolic divisors are covered by zzH10_divmod).
func zzH10_binaryDivZero() {
	x, _ := zzSymInt("x", 40)
	yv := []int64{0, 3, -3, 1 << 40}[zzChoice("y", 4)]
	y := MakeInt64(yv)
	op := []syntax.Token{syntax.SLASHSLASH, syntax.PERCENT}[zzChoice("op", 2)]
	var v Value
	var err error
	panicked := zzCatch(func() { v, err = Binary(op, x, y) })
	zzAssert(zzNot(panicked), "C10.binary.div_nopanic")
	if !panicked {
		zzAssert((err != nil) == (yv == 0), "C10.binary.div_zero_rejected")
		_ = v
	}
	zzReach("end")
}

// H10.4: conversions out of Int are exact with correct ok flags; failed conversions leave the target untouched.
//
//verif:unwind 40
//verif:config generic posix64
//verif:configq generic
func zzH10_conv() {
	B := zzParam("conv_bits", 40, 70)
	x, xv := zzSymInt("x", B)
	fits64 := zzWFits64(xv)
	v, ok := x.Int64()
	zzAssert(ok == fits64, "C10.conv.int64_ok")
	zzAssert(zzImplies(ok, uint64(v) == xv.lo), "C10.conv.int64_value")
	u, oku := x.Uint64()
	zzAssert(oku == (xv.hi == 0), "C10.conv.uint64_ok")
	zzAssert(zzImplies(oku, u == xv.lo), "C10.conv.uint64_value")
	i32, err := AsInt32(x)
	zzAssert((err == nil) == zzWFits32(xv), "C10.conv.asint32_ok")
	if err == nil {
		zzAssert(uint64(int64(i32)) == xv.lo, "C10.conv.asint32_value")
	}
	zzReach("end")
}

// H10.4b: AsInt into each fixed-width target: ok iff in range, exact, target untouched on failure.
//
//verif:unwind 40
func zzH10_asint() {
	x, xv := zzSymInt("x", zzParam("conv_bits", 40, 70))
	s := int64(xv.lo)
	f64 := zzWFits64(xv)
	switch zzChoice("target", 8) {
	case 0:
		t := int8(77)
		err := AsInt(x, &t)
		in := zzAnd(f64, zzAnd(s >= -128, s <= 127))
		zzAssert((err == nil) == in, "C10.asint.int8_ok")
		zzAssert(zzIteBool(in, int64(t) == s, t == 77), "C10.asint.int8_value")
	case 1:
		t := int16(777)
		err := AsInt(x, &t)
		in := zzAnd(f64, zzAnd(s >= -32768, s <= 32767))
		zzAssert((err == nil) == in, "C10.asint.int16_ok")
		zzAssert(zzIteBool(in, int64(t) == s, t == 777), "C10.asint.int16_value")
	case 2:
		t := int32(777)
		err := AsInt(x, &t)
		in := zzWFits32(xv)
		zzAssert((err == nil) == in, "C10.asint.int32_ok")
		zzAssert(zzIteBool(in, int64(t) == s, t == 777), "C10.asint.int32_value")
	case 3:
		t := int64(777)
		err := AsInt(x, &t)
		zzAssert((err == nil) == f64, "C10.asint.int64_ok")
		zzAssert(zzIteBool(f64, t == s, t == 777), "C10.asint.int64_value")
	case 4:
		t := uint8(77)
		err := AsInt(x, &t)
		in := zzAnd(xv.hi == 0, xv.lo <= 255)
		zzAssert((err == nil) == in, "C10.asint.uint8_ok")
		zzAssert(zzIteBool(in, uint64(t) == xv.lo, t == 77), "C10.asint.uint8_value")
	case 5:
		t := uint16(777)
		err := AsInt(x, &t)
		in := zzAnd(xv.hi == 0, xv.lo <= 65535)
		zzAssert((err == nil) == in, "C10.asint.uint16_ok")
		zzAssert(zzIteBool(in, uint64(t) == xv.lo, t == 777), "C10.asint.uint16_value")
	case 6:
		t := uint32(777)
		err := AsInt(x, &t)
		in := zzAnd(xv.hi == 0, xv.lo <= 1<<32-1)
		zzAssert((err == nil) == in, "C10.asint.uint32_ok")
		zzAssert(zzIteBool(in, uint64(t) == xv.lo, t == 777), "C10.asint.uint32_value")
	case 7:
		t := uint64(777)
		err := AsInt(x, &t)
		in := xv.hi == 0
		zzAssert((err == nil) == in, "C10.asint.uint64_ok")
		zzAssert(zzIteBool(in, t == xv.lo, t == 777), "C10.asint.uint64_value")
	}
	zzReach("end")
}

// H10.1b: bitwise And/Or/Xor on the small arm and on mixed operands: exact (two's complement) and canonical.
// Reference for negative big operands uses the 128-bit two's complement value.
//
//verif:unwind 40
//verif:config generic posix64
//verif:configq generic
func zzH10_bitwise() {
	B := zzParam("bitwise_bits", 36, 66)
	x, xv := zzSymInt("x", B)
	y, yv := zzSymInt("y", B)
	a, ac, ok1 := zzIntValue(x.And(y))
	o, oc, ok2 := zzIntValue(x.Or(y))
	e, ec, ok3 := zzIntValue(x.Xor(y))
	zzAssert(zzAnd(ok1, zzAnd(ok2, ok3)), "C10.bitwise.width")
	zzAssert(zzAnd(a.hi == xv.hi&yv.hi, a.lo == xv.lo&yv.lo), "C10.and.exact")
	zzAssert(zzAnd(o.hi == xv.hi|yv.hi, o.lo == xv.lo|yv.lo), "C10.or.exact")
	zzAssert(zzAnd(e.hi == xv.hi^yv.hi, e.lo == xv.lo^yv.lo), "C10.xor.exact")
	zzAssert(zzAnd(ac, zzAnd(oc, ec)), "C10.bitwise.canonical")
	zzReach("end")
}

// H10.8b: enumerate(x, start) yields start+i exactly or fails (start near the int64 edge).
func zzH10_enumerate() {
	start := zzI64("start")
	l := NewList([]Value{String("a"), String("b"), String("c")})
	th := &Thread{}
	v, err := Call(th, Universe["enumerate"], Tuple{l, MakeInt64(start)}, nil)
	if err == nil {
		pairs := v.(*List)
		for i := 0; i < pairs.Len(); i++ {
			got, _, ok := zzIntValue(pairs.Index(i).(Tuple)[0].(Int))
			want := zzWAdd(zzWOf64(start), zzWOf64(int64(i)))
			// recorded defect: start+i wraps for start > MaxInt64-i
			zzAssertExcept(zzAnd(ok, zzWEq(got, want)), "C10.enumerate.exact", start > 1<<63-1-int64(i))
		}
	}
	zzReach("end")
}

// H10.8c: hash() of a string is Java's s[0]*31^(n-1)+... over its bytes (fixed algorithm, 32-bit).
func zzH10_hash() {
	n := zzChoice("len", 4)
	s := zzString("s", n)
	for i := 0; i < n; i++ {
		zzAssume(s[i] < 0x80) // ASCII: bytes and code points coincide
	}
	th := &Thread{}
	v, err := Call(th, Universe["hash"], Tuple{String(s)}, nil)
	zzAssert(err == nil, "C10.hash.noerr")
	var h int32
	for i := 0; i < n; i++ {
		h = 31*h + int32(s[i])
	}
	got, ok := v.(Int).Int64()
	zzObserve("h", got)
	zzAssert(zzAnd(ok, got == int64(h)), "C10.hash.java")
	zzReach("end")
}

// zzWShl returns w << s for 0 <= s < 128 (no branches on s).
func zzWShlS(w zzW, s uint) zzW {
	s1 := s & 63
	lo1 := w.lo << s1
	hi1 := uint64(w.hi)<<s1 | zzIteU64(s1 == 0, 0, w.lo>>((64-s1)&63))
	big := s >= 64
	return zzW{int64(zzIteU64(big, lo1, hi1)), zzIteU64(big, 0, lo1)}
}

// zzWSar returns floor(w / 2^s) (arithmetic shift) for any s >= 0.
func zzWSar(w zzW, s uint) zzW {
	sign := w.hi >> 63 // 0 or -1
	s1 := s & 63
	lo1 := w.lo>>s1 | zzIteU64(s1 == 0, 0, uint64(w.hi)<<((64-s1)&63))
	hi1 := w.hi >> s1
	r64 := zzW{sign, uint64(w.hi >> s1)} // s in [64,128): lo = hi >> (s-64), hi = sign
	r := zzW{zzIteI64(s >= 64, r64.hi, hi1), zzIteU64(s >= 64, r64.lo, lo1)}
	all := zzW{sign, uint64(sign)}
	return zzW{zzIteI64(s >= 128, all.hi, r.hi), zzIteU64(s >= 128, all.lo, r.lo)}
}

// H10.5: << and >> through Binary: exact results (x * 2^s, floor(x / 2^s)) for symbolic
// operands and symbolic shift counts; negative counts and << by >= 512 are rejected.
//
//verif:unwind 80
//verif:concretize 200
//verif:config generic posix64
func zzH10_shift() {
	B := zzParam("shift_bits", 36, 40)
	x, xv := zzSymInt("x", B)
	s := zzI32("s")
	maxs := int32(zzParam("shift_max", 70, 130))
	zzAssume(zzAnd(s >= -2, s <= maxs))
	left := zzChoice("left", 2) == 1
	op := syntax.GTGT
	if left {
		op = syntax.LTLT
		zzAssume(int(s)+B <= 126) // result fits the 128-bit reference
	}
	var v Value
	var err error
	panicked := zzCatch(func() { v, err = Binary(op, x, MakeInt64(int64(s))) })
	zzAssert(zzNot(panicked), "C10.shift.nopanic")
	if panicked {
		return
	}
	zzAssert((err != nil) == (s < 0), "C10.shift.negative_rejected")
	if err == nil {
		got, canon, ok := zzIntValue(v.(Int))
		zzAssert(zzAnd(ok, canon), "C10.shift.canonical")
		var want zzW
		if left {
			want = zzWShlS(xv, uint(s))
		} else {
			want = zzWSar(xv, uint(s))
		}
		zzAssert(zzWEq(got, want), "C10.shift.exact")
	}
	zzReach("end")
}

// H10.5b: shift counts at the documented limits: << by 511 accepted, by 512 rejected; huge >> floors.
func zzH10_shiftLimits() {
	x, xv := zzSymInt("x", 36)
	cnt := []int64{511, 512, 513, 1 << 20, 1<<31 - 1, 1 << 31, 1 << 40}[zzChoice("cnt", 7)]
	vl, errl := Binary(syntax.LTLT, x, MakeInt64(cnt))
	zzAssert((errl != nil) == (cnt >= 512), "C10.shift.lsh_limit_512")
	_ = vl
	vr, errr := Binary(syntax.GTGT, x, MakeInt64(cnt))
	zzAssert((errr != nil) == (cnt > 1<<31-1), "C10.shift.rsh_count_int32")
	if errr == nil {
		got, _, ok := zzIntValue(vr.(Int))
		zzAssert(zzAnd(ok, zzWEq(got, zzW{xv.hi >> 63, uint64(xv.hi >> 63)})), "C10.shift.rsh_huge_floors")
	}
	zzReach("end")
}

// H10.7a: Int vs Float comparison is exact (not rounded through float64): symbolic ints up to
// 2^66 against floats k*2^j with a symbolic 53-bit significand (core shared with C11).
//
//verif:unwind 80
//verif:concretize 8
func zzH10_intFloat() { zzIntFloat(0) }
