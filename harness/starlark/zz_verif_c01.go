//go:build verif

package starlark

import "go.starlark.net/syntax"

const zzSmokeSrc = `
def f(a, b=2, *args, k=5, **kw):
    return a + b + k + len(args) + len(kw)
x = [i*i for i in range(5) if i % 2 == 0]
d = {"a": 1, "b": [1,2,3]}
d["c"] = f(1, 2, 3, k=4, z=5)
s = "hello %s %d" % ("w", 3) + str(x) + repr(d) + "{}-{x}".format(1, x=2)
t = (1, 2.5, "s", b"by", None, True)
def g():
    total = 0
    for k in d:
        if k == "b":
            continue
        total += 1
    return total
y = g()
z = sorted([3,1,2], reverse=True) + list(reversed([1,2])) + [len(s)]
q = 10 // 3 + 10 % 3 + (1 << 40) - 8 if True else 0
w = "a,b,c".split(",") + ["x".upper(), "Y".lower(), " z ".strip()]
u = set([1,2,3]) | set([3,4])
v = 7 in u and "a" in d and not (1 > 2)
l = lambda p: p * 2
r = l(21)
`

// zzH01_smoke runs a concrete program through parser, resolver, compiler and VM
// inside the symbolic engine (no symbolic inputs): exercises the environment model.
//
//verif:config generic posix64 posix64-nommap
func zzH01_smoke() {
	thread := &Thread{Name: "t"}
	opts := &syntax.FileOptions{Set: true, While: true, TopLevelControl: true, GlobalReassign: true, Recursion: true}
	g, err := ExecFileOptions(opts, thread, "smoke.star", zzSmokeSrc, nil)
	if err != nil {
		zzObserve("err", err.Error())
	}
	zzAssert(err == nil, "C01.smoke.noerr")
	zzObserve("s", string(g["s"].(String)))
	zzObserve("r", g["r"].String())
	zzObserve("z", g["z"].String())
	zzObserve("q", g["q"].String())
	zzObserve("u", g["u"].String())
	zzObserve("w", g["w"].String())
	zzObserve("v", g["v"].String())
	zzObserve("y", g["y"].String())
	zzObserve("t", g["t"].String())
	zzReach("end")
}
