//go:build verif

package starlark

import (
	"strconv"
	"strings"

	"go.starlark.net/syntax"
)

// ---------------------------------------------------------------------------
// H09.3: dynamic recursion check.
//
// Reference (doc/spec.md "Functions": recursion is a dynamic error; options.go:
// Recursion disables the check for functions *in this file*): a call of a
// Starlark function fails iff its file was compiled with Recursion off and an
// activation of the same function definition (the same def/lambda, whichever
// closure value it was reached through) is already on the call stack.
// ---------------------------------------------------------------------------

const zzRecSrc1 = `
def mk():
    def inner():
        return 1
    return inner
a = mk()
b = mk()
def c():
    return 2
l = lambda: 3
`

const zzRecSrc2 = `
def e():
    return 4
`

// zzH09_recursion_stack: the call stack holds up to `depth` activations chosen
// among two closures a, b of one def, another def c, a lambda l, a def e of a
// second file and a built-in; then one of a, b, c, l, e is called.
//
//verif:unwind 40
func zzH09_recursion_stack() {
	rec1, rec2 := zzBool("opt_Recursion_file1"), zzBool("opt_Recursion_file2")
	th := &Thread{Name: "t"}
	g1, err1 := ExecFileOptions(&syntax.FileOptions{Recursion: rec1}, th, "one.star", zzRecSrc1, nil)
	g2, err2 := ExecFileOptions(&syntax.FileOptions{Recursion: rec2}, th, "two.star", zzRecSrc2, nil)
	zzAssert(err1 == nil && err2 == nil, "C09.recursion.setup")
	if err1 != nil || err2 != nil {
		return
	}
	// candidates: value, definition class (-1: built-in), file
	cands := []Callable{g1["a"].(*Function), g1["b"].(*Function), g1["c"].(*Function), g1["l"].(*Function), g2["e"].(*Function), Universe["len"].(*Builtin)}
	class := []int{0, 0, 1, 2, 3, -1}
	file := []int{1, 1, 1, 1, 2, 0}
	want := []int{1, 1, 2, 3, 4}

	thread := &Thread{Name: "t2"}
	thread.maxSteps-- // what Call does on first use of a thread with an empty stack
	depth := zzChoice("depth", zzParam("maxdepth", 2, 3)+1)
	var active []int
	for k := 0; k < depth; k++ {
		ci := zzChoice("frame"+strconv.Itoa(k), len(cands))
		active = append(active, ci)
		thread.stack = append(thread.stack, &frame{callable: cands[ci]})
	}
	ti := zzChoice("callee", 5)
	res, err := Call(thread, cands[ti], nil, nil)

	reentered := false
	for _, ci := range active {
		if class[ci] == class[ti] {
			reentered = true
		}
	}
	recOn := rec1
	if file[ti] == 2 {
		recOn = rec2
	}
	zzObserve("failed", err != nil)
	zzAssert((err != nil) == zzAnd(reentered, zzNot(recOn)), "C09.recursion.fails_iff_reentered_and_check_on")
	if err != nil {
		_, isEval := err.(*EvalError)
		zzAssert(isEval, "C09.recursion.evalerror")
		zzAssert(strings.Contains(err.Error(), "called recursively"), "C09.recursion.message")
		zzAssert(res == nil, "C09.recursion.no_result")
	} else {
		zzAssert(zzValueID(res) == want[ti], "C09.recursion.result")
	}
	// the frame pushed for the call is popped again
	zzAssert(len(thread.stack) == depth, "C09.recursion.stack_restored")
	for k, ci := range active {
		zzAssert(thread.stack[k].callable == cands[ci], "C09.recursion.outer_frames_intact")
	}
	zzReach("end")
}

// Call-graph templates. main(n) re-enters an active definition iff n > 0 (the
// recursive templates) or never (the controls). Every successful run returns 7.
var zzRecGraphs = []struct {
	name      string
	recursive bool
	src       string
}{
	{"direct", true, `
def main(n):
    if n > 0:
        return main(n - 1)
    return 7
`},
	{"mutual2", true, `
def main(n):
    if n > 0:
        return g(n)
    return 7
def g(n):
    return main(n - 1)
`},
	{"mutual3", true, `
def main(n):
    if n > 0:
        return g(n)
    return 7
def g(n):
    return h(n)
def h(n):
    return main(n - 1)
`},
	{"via_lambda", true, `
def main(n):
    if n > 0:
        return (lambda k: main(k))(n - 1)
    return 7
`},
	{"lambda_self", true, `
fact = lambda f, k: f(f, k - 1) if k > 0 else 7
def main(n):
    return fact(fact, n)
`},
	{"closure_twice", true, `
def mk():
    def inner(k, other):
        if k > 0:
            return other(k - 1, other)
        return 7
    return inner
a = mk()
b = mk()
def main(n):
    return a(n, b)
`},
	{"sorted_key", true, `
def main(n):
    if n > 0:
        sorted([n - 1], key=main)
    return 7
`},
	{"min_key", true, `
def main(n):
    if n > 0:
        min([n - 1, n - 1], key=main)
    return 7
`},
	{"max_key", true, `
def main(n):
    if n > 0:
        max([n - 1, n - 1], key=main)
    return 7
`},
	{"control_sequential", false, `
def g(n):
    return n
def main(n):
    g(n)
    g(n)
    if n > 0:
        g(g(n))
    return 7
`},
	{"control_distinct_defs", false, `
def mk1():
    def inner(k):
        return 7
    return inner
def mk2():
    def inner(k):
        return mk1()(k)
    return inner
def main(n):
    if n > 0:
        return mk2()(n)
    return 7
`},
}

// zzH09_recursion_exec: whole programs; the argument n and the Recursion option
// are symbolic. With the check on, the call fails iff n > 0 in the recursive
// graphs; otherwise it returns 7.
//
//verif:unwind 64
func zzH09_recursion_exec() {
	gi := zzChoice("graph", len(zzRecGraphs))
	gr := zzRecGraphs[gi]
	rec := zzBool("opt_Recursion")
	n := zzI8("n")
	maxn := zzParam("maxn", 1, 2)
	zzAssume(zzAnd(n >= -1, int(n) <= maxn))
	th := &Thread{Name: "t"}
	g, err := ExecFileOptions(&syntax.FileOptions{Recursion: rec}, th, gr.name+".star", gr.src, nil)
	zzAssert(err == nil, "C09.recursion.setup")
	if err != nil {
		return
	}
	res, err := Call(th, g["main"], Tuple{MakeInt(int(n))}, nil)
	mustFail := zzAnd(zzNot(rec), zzAnd(gr.recursive, n > 0))
	zzObserve("failed", err != nil)
	zzAssert((err != nil) == mustFail, "C09.recursion.exec.fails_iff_reentered_and_check_on")
	if err != nil {
		_, isEval := err.(*EvalError)
		zzAssert(isEval, "C09.recursion.exec.evalerror")
		zzAssert(strings.Contains(err.Error(), "called recursively"), "C09.recursion.exec.message")
	} else {
		zzAssert(zzValueID(res) == 7, "C09.recursion.exec.result")
	}
	zzAssert(len(th.stack) == 0, "C09.recursion.exec.stack_empty")
	zzReach("end")
}
