//go:build verif

package starlark

// C11 "Equality, hashing and ordering are mutually coherent" -- H11.1 numbers.
//
// Reference order on numbers: the order of the exact mathematical values, with
// -0 == +0, every NaN equal to every NaN and greater than everything else
// (doc/spec.md: floats are totally ordered, NaN sorts last). For floats the
// reference is computed on the IEEE bit patterns (no floating-point theory), for
// ints on 128-bit two's complement values (zzW), for int x float on the exact
// value k*2^j of the float held as a 128-bit integer. Each harness shows that the
// real CompareDepth agrees, operator by operator, with the corresponding view of
// that one order; reflexivity, symmetry, transitivity and trichotomy then hold
// because they hold for the reference (zzH11_num_triples checks them directly on
// the real code as well).

import (
	"math"

	"go.starlark.net/syntax"
)




func zzBitsNaN(b uint64) bool  { return zzAnd(b&zzExpMask == zzExpMask, b&zzFracMask != 0) }
func zzBitsZero(b uint64) bool { return b&^zzSignBit == 0 }

// zzBitsKey maps the bit pattern of a non-NaN double to a uint64 whose unsigned
// order is the numeric order (negative numbers: all bits flipped; others: sign
// bit set); the two zeros get the same key.
func zzBitsKey(b uint64) uint64 {
	b = zzIteU64(zzBitsZero(b), 0, b)
	return zzIteU64(b&zzSignBit != 0, ^b, b|zzSignBit)
}

// zzRefFloatCmp: reference order on doubles given by bit pattern.
func zzRefFloatCmp(bx, by uint64) (lt, eq bool) {
	nx, ny := zzBitsNaN(bx), zzBitsNaN(by)
	kx, ky := zzBitsKey(bx), zzBitsKey(by)
	eq = zzOr(zzAnd(nx, ny), zzAnd(zzNot(zzOr(nx, ny)), kx == ky))
	lt = zzOr(zzAnd(zzNot(nx), ny), zzAnd(zzNot(zzOr(nx, ny)), kx < ky))
	return lt, eq
}

// zzH11_float_float: the six operators on two floats (all 2^64 x 2^64 bit
// patterns) are the views of the reference order; reflexive for every pattern.
func zzH11_float_float() {
	bx, by := zzU64("x"), zzU64("y")
	x, y := Float(math.Float64frombits(bx)), Float(math.Float64frombits(by))
	lt, eq := zzRefFloatCmp(bx, by)
	for i, op := range zzC11Ops {
		got, err := CompareDepth(op, x, y, CompareLimit)
		zzAssert(err == nil, "C11.float.ok")
		if i == 2 {
			zzObserve("lt", got)
		}
		zzAssert(got == zzC11View(i, lt, eq), "C11.float.view")
	}
	refl, err := CompareDepth(syntax.EQL, x, x, CompareLimit)
	zzAssert(zzAnd(err == nil, refl), "C11.float.reflexive")
	c := floatCmp(x, y)
	zzObserve("cmp", c)
	zzAssert(c == zzIteInt(lt, -1, zzIteInt(eq, 0, 1)), "C11.float.floatCmp")
	zzAssert(floatCmp(y, x) == -c, "C11.float.antisymmetric")
	zzReach("end")
}

// zzH11_float_hash: floats that compare equal (0.0 and -0.0, any two NaNs) have
// equal hashes. Bound: |x|, |y| < 2^63 or non-finite (the larger finite ones
// are integers and are covered, with their exponent chosen concretely, by
// zzH11_int_float).
func zzH11_float_hash() {
	bx, by := zzU64("x"), zzU64("y")
	fx, fy := math.Float64frombits(bx), math.Float64frombits(by)
	small := func(f float64) bool {
		return zzOr(zzAnd(f > -9223372036854775808.0, f < 9223372036854775808.0), zzNot(math.Abs(f) <= math.MaxFloat64))
	}
	zzAssume(zzAnd(small(fx), small(fy)))
	_, eq := zzRefFloatCmp(bx, by)
	hx, e1 := Float(fx).Hash()
	hy, e2 := Float(fy).Hash()
	zzAssert(zzAnd(e1 == nil, e2 == nil), "C11.floathash.ok")
	zzObserve("hx", hx)
	zzAssert(zzImplies(eq, hx == hy), "C11.floathash.equal_values_equal_hash")
	zzReach("end")
}

// zzH11_int_int: the six operators on two ints |v| < 2^bits (small and big
// representations through the real constructors) are the views of the integer
// order; equal ints have equal hashes.
//
//verif:unwind 40
func zzH11_int_int() { zzIntInt() }

// zzH11_int_int_repr: the same over the two other Int representations
// (int_posix64.go with and without the address-space reservation).
//
//verif:unwind 40
//verif:thorough
//verif:config posix64 posix64-nommap
func zzH11_int_int_repr() { zzIntInt() }

func zzIntInt() {
	B := zzParam("bits", 66, 70)
	x, xv := zzSymInt("x", B)
	y, yv := zzSymInt("y", B)
	lt, eq := zzWLess(xv, yv), zzWEq(xv, yv)
	for i, op := range zzC11Ops {
		got, err := CompareDepth(op, x, y, CompareLimit)
		zzAssert(err == nil, "C11.int.ok")
		if i == 2 {
			zzObserve("lt", got)
		}
		zzAssert(got == zzC11View(i, lt, eq), "C11.int.view")
	}
	hx, e1 := x.Hash()
	hy, e2 := y.Hash()
	zzAssert(zzAnd(e1 == nil, e2 == nil), "C11.int.hash_ok")
	zzObserve("hx", hx)
	zzAssert(zzImplies(eq, hx == hy), "C11.int.equal_values_equal_hash")
	zzReach("end")
}



// zzH11_int_float: an int |v| < 2^bits against a float in both operand orders:
// the six operators are the views of the order of the exact values (CompareDepth
// takes the big.Rat route; real math/big is interpreted), and equal values have
// equal hashes (Float.Hash -> finiteFloatToInt). Float regimes (zzChoice):
//   - (+-)k*2^j with a fully symbolic 53-bit significand k and j from a list
//     (quick: 1 and 11: the even integers 2^53..2^54 and the multiples of 2^11 in
//     2^63..2^64; thorough: 0, 1, 10, 11), which covers the 2^53 and 2^63/2^64
//     representation boundaries;
//   - thorough only: short significands k < 4 with j in -1..1 (symbolic small
//     floats 0.5 .. 6: every trailing zero of the significand costs solver queries,
//     and a fractional part sends big.Rat through a GCD loop);
//   - concrete floats 1.0, -2.5, 2^53+2, 2^64, +-1e300, +-0, +-Inf and NaN with a
//     symbolic payload, against the symbolic int.
//
//verif:unwind 80
//verif:concretize 8
func zzH11_int_float_sym() { zzIntFloat(0) }

//verif:unwind 80
//verif:concretize 8
func zzH11_int_float_conc() { zzIntFloat(1) }

//verif:unwind 80
//verif:concretize 8
//verif:thorough
func zzH11_int_float_small() { zzIntFloat(2) }


// zzH11_threeway: threeway(op, c) for every int c is the view of sign(c).
func zzH11_threeway() {
	c := zzInt("c")
	for i, op := range zzC11Ops {
		zzAssert(threeway(op, c) == zzC11View(i, c < 0, c == 0), "C11.threeway.view")
	}
	zzObserve("lt", threeway(syntax.LT, c))
	zzReach("end")
}

// zzH11_bool: False < True on Bool x Bool; a Bool never equals an Int and is not
// ordered against one; equal bools have equal hashes.
func zzH11_bool() {
	a, b := zzBool("a"), zzBool("b")
	lt, eq := zzAnd(zzNot(a), b), a == b
	for i, op := range zzC11Ops {
		got, err := CompareDepth(op, Bool(a), Bool(b), CompareLimit)
		zzAssert(err == nil, "C11.bool.ok")
		zzAssert(got == zzC11View(i, lt, eq), "C11.bool.view")
	}
	ha, _ := Bool(a).Hash()
	hb, _ := Bool(b).Hash()
	zzObserve("ha", ha)
	zzAssert(zzImplies(eq, ha == hb), "C11.bool.equal_values_equal_hash")
	n := MakeInt64(int64(zzI32("n")))
	e, err := CompareDepth(syntax.EQL, Bool(a), n, CompareLimit)
	zzAssert(zzAnd(err == nil, zzNot(e)), "C11.bool.never_equals_int")
	ne, err := CompareDepth(syntax.NEQ, n, Bool(a), CompareLimit)
	zzAssert(zzAnd(err == nil, ne), "C11.bool.neq_int")
	_, err = CompareDepth(syntax.LT, Bool(a), n, CompareLimit)
	zzAssert(err != nil, "C11.bool.unordered_with_int")
	zzReach("end")
}

// H11.1 triples: directly on the real code (no reference), over triples of
// numbers: == is reflexive, symmetric and transitive, != is its negation, exactly
// one of <, ==, > holds, <= is < or ==, < is transitive and respects ==, and
// equal values have equal hashes.
//   zzH11_triples_float: three floats, all bit patterns (hash part: see zzTriples)
//   zzH11_triples_int:   three ints of the int64 range (both representations)
//   zzH11_triples_mixed: (thorough) each element an int |v| < 2^64, a float
//                        (+-)k*2^0 with a symbolic 53-bit significand, or NaN.

func zzH11_triples_float() { zzTriples(0) }

//verif:unwind 80
func zzH11_triples_int() { zzTriples(1) }

//verif:unwind 80
//verif:concretize 8
//verif:thorough
func zzH11_triples_mixed() { zzTriples(2) }

func zzTriples(mode int) {
	var v [3]Value
	hashable := true
	for i := range v {
		name := string(rune('a' + i))
		switch mode {
		case 0:
			f := zzF64(name + "_f")
			v[i] = Float(f)
			hashable = false // Float.Hash of huge finite floats needs a concrete exponent: zzH11_float_hash
		case 1:
			v[i] = MakeInt64(zzI64(name + "_i"))
		default:
			switch zzChoice(name+"_kind", 3) {
			case 0:
				v[i], _ = zzSymInt(name, 64)
			case 1:
				f, _, _ := zzSymFloatKJ(name, 53, 0)
				v[i] = Float(f)
			default:
				v[i] = Float(math.NaN())
			}
		}
	}
	cmp := func(op syntax.Token, a, b Value) bool {
		r, err := CompareDepth(op, a, b, CompareLimit)
		zzAssert(err == nil, "C11.triples.ok")
		return r
	}
	a, b, c := v[0], v[1], v[2]
	zzAssert(cmp(syntax.EQL, a, a), "C11.triples.reflexive")
	eab, eba, ebc, eac := cmp(syntax.EQL, a, b), cmp(syntax.EQL, b, a), cmp(syntax.EQL, b, c), cmp(syntax.EQL, a, c)
	zzObserve("eab", eab)
	zzAssert(eab == eba, "C11.triples.symmetric")
	zzAssert(zzImplies(zzAnd(eab, ebc), eac), "C11.triples.transitive_eq")
	zzAssert(cmp(syntax.NEQ, a, b) == zzNot(eab), "C11.triples.neq_is_not_eq")
	lab, gab := cmp(syntax.LT, a, b), cmp(syntax.GT, a, b)
	one := zzOr(zzAnd(lab, zzNot(zzOr(eab, gab))), zzOr(zzAnd(eab, zzNot(zzOr(lab, gab))), zzAnd(gab, zzNot(zzOr(lab, eab)))))
	zzAssert(one, "C11.triples.trichotomy")
	zzAssert(cmp(syntax.LE, a, b) == zzOr(lab, eab), "C11.triples.le")
	zzAssert(cmp(syntax.GE, a, b) == zzOr(gab, eab), "C11.triples.ge")
	zzAssert(gab == cmp(syntax.LT, b, a), "C11.triples.gt_is_flipped_lt")
	lbc, lac := cmp(syntax.LT, b, c), cmp(syntax.LT, a, c)
	zzAssert(zzImplies(zzAnd(lab, lbc), lac), "C11.triples.transitive_lt")
	zzAssert(zzImplies(zzAnd(lab, ebc), lac), "C11.triples.lt_respects_eq")
	if hashable {
		ha, _ := a.Hash()
		hb, _ := b.Hash()
		zzAssert(zzImplies(eab, ha == hb), "C11.triples.equal_values_equal_hash")
	}
	zzReach("end")
}
