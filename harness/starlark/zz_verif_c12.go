//go:build verif

package starlark

// C12: dict and set behave as insertion-ordered maps under every operation history.
//
// H12.1 (zzH12_history*): the real hashtable against an association list, for
// every hash function. Keys are zzKey values whose Hash() is a symbolic uint32,
// so one explored path stands for a whole class of hash functions (a collision
// pattern / bucket placement); the solver decides which classes exist.

// zzHtResidentHashes: adversarial concrete hashes of the pre-inserted keys.
//
//	preset 0: nothing, the table is the zero hashtable (lazy init).
//	preset 1: 8 keys, all in one chain (odd after the 0->1 remap), three equal
//	          hashes (0,1,1): bucket full, the next new key makes the table grow 1->2, and
//	          every resident lands in chain 1 again, so an odd new key overflows the chain.
//	preset 2: 7 keys: one free slot in the only bucket.
//	preset 3: 12 keys = 1 mod 4: two buckets, chain 1 is 8+4 long, 13th key is
//	          the last before growth 2->4.
//	preset 4: 8 keys spread over both parities with one deleted-and-reinserted.
//	preset 5: like 3 with only two distinct hashes (fewer collision classes to explore).
//	preset 6: three keys with one (remapped) hash.
//	preset 7: 13 odd keys in two buckets (chain 1 is 8+5 long, free slots in its overflow
//	          bucket): 8 are = 1 mod 4 and 5 are = 3 mod 4, so the next new key makes the
//	          table grow 2->4 and chain 01 of the new table is exactly full.
var zzHtResidentHashes = [][]uint32{
	{},
	{0, 1, 1, 3, 3, 3, 3, 3},
	{0, 1, 1, 3, 5, 7, 9},
	{0, 1, 1, 5, 9, 13, 17, 21, 25, 29, 33, 37},
	{0, 2, 2, 4, 1, 3, 6, 8},
	{0, 1, 1, 1, 1, 5, 5, 5, 5, 5, 5, 5},
	{0, 1, 1},
	{1, 5, 9, 13, 17, 21, 25, 29, 3, 7, 11, 15, 19},
}

// zzHtPreset inserts the residents through the real insert and mirrors them in m.
func zzHtPreset(ht *hashtable, m *zzAL, preset int) []Value {
	var res []Value
	for i, h := range zzHtResidentHashes[preset] {
		k := zzKey{id: 100 + i, h: h}
		if err := ht.insert(k, zzVal{int64(1000 + i)}); err != nil {
			zzAssert(false, "C12.preset.insert")
		}
		m.set(k.id, int64(1000+i))
		res = append(res, k)
	}
	if preset == 4 {
		// vacate a slot in the middle and refill it: order list and slot order now differ
		ht.delete(res[3])
		m.del(103)
		ht.insert(res[3], zzVal{2003})
		m.set(103, 2003)
	}
	return res
}

// zzHtHistory runs L symbolic operations from the given preset.
//
// Universe: F fresh keys with symbolic hashes plus R of the residents. Two
// reductions keep the path count down without losing histories: (1) fresh keys
// are interchangeable (they differ only in id and in an unconstrained hash), so
// fresh key i+1 may be used only after fresh key i has been used; (2) a fresh key
// is looked up after each step only once it has been used (before that its hash
// cannot have influenced the table, and "operate on an absent key" is itself one
// of the operations).
func zzHtHistory(preset, F, R, L int, withBad bool) {
	ht := new(hashtable)
	m := new(zzAL)
	res := zzHtPreset(ht, m, preset)

	var fresh []Value
	for i := 0; i < F; i++ {
		fresh = append(fresh, zzKey{id: i, h: zzU32("h" + zzDigit(i))})
	}
	// selectable residents: the middle one of the three equal hashes, then the tail, then the head
	var uni []Value
	pick := []int{1, len(res) - 1, 0}
	for i := 0; i < R && i < len(pick) && len(res) > 0; i++ {
		uni = append(uni, res[pick[i]])
	}
	used := 0 // fresh[0:used] have been used and belong to uni

	zzHtInvariant("C12", ht, zzKeyID)
	zzHtAgree("C12", ht, m, uni, zzKeyID)

	const (
		opInsert = iota
		opDelete
		opClear
		opPopFirst
		opUnhashable
		opIncomparable
	)
	type zzOp struct {
		kind int
		key  Value
	}
	for step := 0; step < L; step++ {
		var opts []zzOp
		for _, k := range uni {
			opts = append(opts, zzOp{opInsert, k}, zzOp{opDelete, k})
		}
		if used < F {
			opts = append(opts, zzOp{opInsert, fresh[used]}, zzOp{opDelete, fresh[used]})
		}
		opts = append(opts, zzOp{opClear, nil}, zzOp{opPopFirst, nil})
		if withBad {
			opts = append(opts, zzOp{opUnhashable, nil}, zzOp{opIncomparable, nil})
		}
		op := opts[zzChoice("op"+zzDigit(step), len(opts))]
		if op.key != nil && used < F && zzKeyID(op.key) == used {
			uni = append(uni, fresh[used])
			used++
		}
		switch op.kind {
		case opInsert: // insert or update
			v := zzI64("v" + zzDigit(step))
			err := ht.insert(op.key, zzVal{v})
			zzAssert(err == nil, "C12.op.insert.noerr")
			m.set(zzKeyID(op.key), v)
		case opDelete:
			v, found, err := ht.delete(op.key)
			mv, mfound := m.del(zzKeyID(op.key))
			zzAssert(err == nil, "C12.op.delete.noerr")
			zzAssert(found == mfound, "C12.op.delete.found")
			if found && mfound {
				zzAssert(zzValN(v) == mv, "C12.op.delete.value")
			} else if !found {
				zzAssert(v == None, "C12.op.delete.none")
			}
		case opClear:
			zzAssert(ht.clear() == nil, "C12.op.clear.noerr")
			m.clear()
		case opPopFirst: // pop the first key (dict.popitem / set.pop)
			k, ok := ht.first()
			zzAssert(ok == (len(m.ids) > 0), "C12.op.popfirst.ok")
			if ok && len(m.ids) > 0 {
				zzAssert(zzKeyID(k) == m.ids[0], "C12.op.popfirst.key")
				v, found, err := ht.delete(k)
				mv, _ := m.del(m.ids[0])
				zzAssert(err == nil && found, "C12.op.popfirst.deleted")
				zzAssert(zzValN(v) == mv, "C12.op.popfirst.value")
			}
		case opUnhashable: // unhashable key: every operation fails and changes nothing
			bad := zzKey{id: 50, bad: 1}
			e1 := ht.insert(bad, None)
			_, f2, e2 := ht.lookup(bad)
			_, f3, e3 := ht.delete(bad)
			zzAssert(e1 != nil && e2 != nil && e3 != nil && !f2 && !f3, "C12.op.unhashable.err")
		case opIncomparable: // key whose comparison fails: lookup/delete fail iff some stored key has the same hash
			bad := zzKey{id: 51, bad: 2, h: zzU32("hbad" + zzDigit(step))}
			hb := zzIteU32(bad.h == 0, 1, bad.h)
			collide := false
			for _, id := range m.ids {
				collide = zzOr(collide, zzHtHashOf(id, fresh, res) == hb)
			}
			_, f2, e2 := ht.lookup(bad)
			_, f3, e3 := ht.delete(bad)
			zzAssert((e2 != nil) == collide, "C12.op.incomparable.lookup")
			zzAssert((e3 != nil) == collide, "C12.op.incomparable.delete")
			zzAssert(!f2 && !f3, "C12.op.incomparable.notfound")
		}
		zzHtInvariant("C12", ht, zzKeyID)
		zzHtAgree("C12", ht, m, uni, zzKeyID)
	}
	zzObserve("len", int(ht.len))
	zzObserve("buckets", len(ht.table))
	first := -1
	if k, ok := ht.first(); ok {
		first = zzKeyID(k)
	}
	zzObserve("first", first)
	zzReach("end")
}

// zzHtHashOf: the remapped hash of the key with the given id (reference side).
func zzHtHashOf(id int, uni, res []Value) uint32 {
	for _, set := range [][]Value{uni, res} {
		for _, v := range set {
			if k := v.(zzKey); k.id == id {
				return zzIteU32(k.h == 0, 1, k.h)
			}
		}
	}
	return 0
}

// zzH12_history_empty: histories from the zero hashtable (lazy init, first bucket).
//
//verif:unwind 200
func zzH12_history_empty() {
	zzHtHistory(0, zzParam("fresh", 2, 3), 0, zzParam("ops", 3, 4), false)
}

// zzH12_history_full: histories from a full single bucket with a triple collision
// (growth 1->2, chain overflow, delete in a full chain, reuse of vacated slots).
//
//verif:unwind 200
func zzH12_history_full() {
	zzHtHistory(1, zzParam("fresh", 2, 2), zzParam("residents", 1, 1), zzParam("ops", 3, 4), false)
}

// zzH12_history_badkeys: histories that also use an unhashable key and a key whose
// comparison fails (error returned, table unchanged), from a small colliding table.
//
//verif:unwind 200
func zzH12_history_badkeys() {
	zzHtHistory(6, 1, 1, zzParam("ops", 3, 3), true)
}

// zzH12_history_growfull: preset 7 — growth 2->4 into an exactly full chain while the old
// chain had free slots (a slot noted before the table grows must not be used afterwards).
//
//verif:unwind 200
func zzH12_history_growfull() {
	zzHtHistory(7, zzParam("fresh", 1, 2), 1, zzParam("ops", 2, 3), false)
}

// zzH12_history_free1: 7 residents with five distinct hashes, one free slot.
//
//verif:thorough
//verif:unwind 200
func zzH12_history_free1() {
	zzHtHistory(2, 2, 1, zzParam("ops", 3, 3), false)
}

// zzH12_history_chain: 12 residents in one chain of two buckets; the second new
// key makes the table grow 2->4.
//
//verif:thorough
//verif:unwind 200
func zzH12_history_chain() {
	zzHtHistory(5, 2, 2, zzParam("ops", 3, 3), false)
}

// zzH12_history_mixed: 8 residents over both chains-to-be, slot order different from
// list order.
//
//verif:thorough
//verif:unwind 200
func zzH12_history_mixed() {
	zzHtHistory(4, 2, 1, zzParam("ops", 3, 3), false)
}
