//go:build verif

package starlark

// C04 H04.1: every mutator of list/dict/set, with the receiver's frozen flag and
// iterator count symbolic, either is rejected leaving the receiver bit-for-bit
// unchanged (frozen or being iterated) or has exactly the documented effect.

var zzC04Mod StringDict

func init() {
	zzC04Mod = zzMExec("c04.star", `
def setindex(x, i, v):
    x[i] = v
def iadd(x, y):
    x += y
    return x
def ipipe(x, y):
    x |= y
    return x
def callappend(x, v):
    x.append(v)
`)
}

// ---- reference model of list operations (doc/spec.md) on []int64 ----

func zzRefInsert(old []int64, i int64, x int64) []int64 {
	n := int64(len(old))
	i = zzIteI64(i < 0, i+n, i)
	i = zzIteI64(i < 0, 0, i)
	i = zzIteI64(i > n, n, i)
	// r[j] = old[j] (j<i) | x (j==i) | old[j-1] (j>i), without concretising i
	r := make([]int64, len(old)+1)
	for j := range r {
		var lo, hi int64
		if j < len(old) {
			lo = old[j]
		}
		if j > 0 {
			hi = old[j-1]
		}
		r[j] = zzIteI64(int64(j) < i, lo, zzIteI64(int64(j) == i, x, hi))
	}
	return r
}

func zzRefDel(old []int64, i int) []int64 {
	r := make([]int64, 0, len(old))
	r = append(r, old[:i]...)
	r = append(r, old[i+1:]...)
	return r
}

func zzWiden(v []uint8) []int64 {
	r := make([]int64, len(v))
	for i := range v {
		r[i] = int64(v[i])
	}
	return r
}

// zzH04_listMut decides H04.1 for *List.
//
//verif:unwind 24
func zzH04_listMut() {
	N := zzParam("maxlen", 2, 3)
	n := zzChoice("n", N+1)
	ev := zzMSyms("e", n)
	l := zzMListOf(ev)
	old := zzWiden(ev)
	frozen, ic := zzBool("frozen"), zzU32("itercount")
	l.frozen, l.itercount = frozen, ic
	locked := zzOr(frozen, ic > 0)
	snap := zzMSnapList(l)
	x := zzU8("x")
	xv := zzMInt(x)
	idx := zzI8("i")
	thread := &Thread{Name: "t"}

	var err error
	var res Value
	var want []int64  // reference new contents if the list is mutable
	wantErr := false  // reference: the operation fails even on a mutable list
	var wantRes Value // reference result (nil: not checked)
	var wantResInt int64
	checkRes := false

	op := zzChoice("op", 12)
	switch op {
	case 0: // Go API Append
		err = l.Append(xv)
		want = append(append([]int64(nil), old...), int64(x))
	case 1: // Go API SetIndex (precondition 0 <= i < n)
		zzAssume(zzAnd(idx >= 0, int(idx) < n))
		err = l.SetIndex(int(idx), xv)
		want = append([]int64(nil), old...)
		for j := range want {
			want[j] = zzIteI64(int64(idx) == int64(j), int64(x), want[j])
		}
	case 2: // Go API Clear
		err = l.Clear()
		want = []int64{}
	case 3: // list.append
		res, err = zzMCallMethod(thread, l, "append", Tuple{xv}, nil)
		want = append(append([]int64(nil), old...), int64(x))
		wantRes = None
	case 4: // list.clear
		res, err = zzMCallMethod(thread, l, "clear", nil, nil)
		want = []int64{}
		wantRes = None
	case 5, 10: // list.extend(iterable) / x += iterable   (operand: list or tuple of m <= 2)
		m := zzChoice("m", 3)
		yv := zzMSyms("y", m)
		var operand Value = zzMListOf(yv)
		if zzChoice("operand", 2) == 1 {
			operand = zzMTupleOf(yv)
		}
		if op == 5 {
			res, err = zzMCallMethod(thread, l, "extend", Tuple{operand}, nil)
			wantRes = None
		} else {
			res, err = Call(thread, zzC04Mod["iadd"], Tuple{l, operand}, nil)
			wantRes = l
		}
		want = append(append([]int64(nil), old...), zzWiden(yv)...)
	case 6: // list.insert(i, x)
		res, err = zzMCallMethod(thread, l, "insert", Tuple{MakeInt(int(idx)), xv}, nil)
		wantRes = None
	case 7: // list.pop(i)
		res, err = zzMCallMethod(thread, l, "pop", Tuple{MakeInt(int(idx))}, nil)
	case 8: // list.pop()
		res, err = zzMCallMethod(thread, l, "pop", nil, nil)
	case 9: // list.remove(x)
		res, err = zzMCallMethod(thread, l, "remove", Tuple{xv}, nil)
		wantRes = None
	case 11: // VM SETINDEX: x[i] = v
		res, err = Call(thread, zzC04Mod["setindex"], Tuple{l, MakeInt(int(idx)), xv}, nil)
		wantRes = None
	}

	// reference for the index/search dependent operations, after the
	// implementation ran (conditions mostly decided by the path condition)
	switch op {
	case 6:
		want = zzRefInsert(old, int64(idx), int64(x))
	case 7, 8:
		i := int64(idx)
		if op == 8 {
			i = int64(n) - 1
		}
		if i < 0 {
			i += int64(n)
		}
		if i < 0 || i >= int64(n) {
			wantErr, want = true, old
		} else {
			want = zzRefDel(old, int(i))
			wantResInt, checkRes = old[i], true
		}
	case 9:
		pos := -1
		for j := n - 1; j >= 0; j-- {
			if old[j] == int64(x) {
				pos = j
			}
		}
		if pos < 0 {
			wantErr, want = true, old
		} else {
			want = zzRefDel(old, pos)
		}
	case 11:
		i := int64(idx)
		if i < 0 {
			i += int64(n)
		}
		if i < 0 || i >= int64(n) {
			wantErr, want = true, old
		} else {
			want = append([]int64(nil), old...)
			want[i] = int64(x)
		}
	}

	// would the operation change the list if it were mutable?
	wouldChange := len(want) != len(old)
	if !wouldChange {
		var same bool = true
		for j := range want {
			same = zzAnd(same, want[j] == old[j])
		}
		// storing an equal element is still a store: x[i]=v counts as a change attempt
		wouldChange = zzOr(zzNot(same), zzAnd(zzNot(wantErr), zzOr(op == 1, op == 11)))
	}

	failed := err != nil
	zzObserve("failed", failed)
	zzObserve("len", l.Len())
	unchanged := zzMListSame(l, snap)
	// frozen or iterated: rejected, receiver untouched
	zzAssert(zzImplies(locked, unchanged), "C04.list.locked_unchanged")
	zzAssert(zzImplies(zzAnd(locked, wouldChange), failed), "C04.list.locked_error")
	// mutable: documented effect
	mutable := zzNot(locked)
	zzAssert(zzImplies(mutable, failed == wantErr), "C04.list.mutable_error")
	zzAssert(zzImplies(mutable, zzMListContent(l, want)), "C04.list.mutable_effect")
	zzAssert(zzImplies(mutable, zzAnd(l.frozen == frozen, l.itercount == ic)), "C04.list.mutable_flags")
	if !failed {
		if wantRes != nil {
			zzAssert(res == wantRes, "C04.list.result")
		}
		if checkRes {
			r, ok := zzMIntOf(res)
			zzAssert(zzAnd(ok, r == wantResInt), "C04.list.result")
		}
	}
	zzAssert(thread.CallStackDepth() == 0, "C04.list.stack")
	zzReach("end")
}

// ---- reference model of an insertion-ordered map on ([]int64 keys, []int64 vals) ----

func zzRefFind(keys []int64, k int64) int {
	pos := -1
	for j := len(keys) - 1; j >= 0; j-- {
		if keys[j] == k {
			pos = j
		}
	}
	return pos
}

// zzRefPut: existing key keeps its position and gets the new value; a new key goes last.
func zzRefPut(keys, vals []int64, k, v int64) ([]int64, []int64) {
	keys = append([]int64(nil), keys...)
	vals = append([]int64(nil), vals...)
	if p := zzRefFind(keys, k); p >= 0 {
		vals[p] = v
		return keys, vals
	}
	return append(keys, k), append(vals, v)
}

func zzPairsValue(ks, vs []uint8) Value {
	elems := make([]Value, len(ks))
	for i := range ks {
		elems[i] = Tuple{zzMInt(ks[i]), zzMInt(vs[i])}
	}
	return NewList(elems)
}

// zzH04_dictMut decides H04.1 for *Dict (hashtable insert/delete/clear/addAll behind it).
//
//verif:unwind 24
func zzH04_dictMut() {
	N := zzParam("maxlen", 2, 3)
	n := zzChoice("n", N+1)
	kv, vv := zzMSyms("k", n), zzMSyms("v", n)
	zzMDistinct(kv)
	d := zzMDictOf(kv, vv)
	oldK, oldV := zzWiden(kv), zzWiden(vv)
	frozen, ic := zzBool("frozen"), zzU32("itercount")
	d.ht.frozen, d.ht.itercount = frozen, ic
	locked := zzOr(frozen, ic > 0)
	snap := zzMSnapHt(&d.ht)
	x, y := zzU8("x"), zzU8("y")
	xv, yv := zzMInt(x), zzMInt(y)
	thread := &Thread{Name: "t"}

	var err error
	var res Value
	found := false // Go API Delete result
	wantK, wantV := oldK, oldV
	wantErr := false
	var wouldChange bool
	var wantRes Value
	var wantResInt int64
	checkResInt := false
	var wantPair [2]int64
	checkPair := false

	op := zzChoice("op", 12)
	m := 0
	var uk, uv []uint8
	if op >= 8 && op <= 10 {
		m = zzChoice("m", 3)
		uk, uv = zzMSyms("uk", m), zzMSyms("uv", m)
	}
	switch op {
	case 0:
		err = d.SetKey(xv, yv)
	case 1:
		res, found, err = d.Delete(xv)
	case 2:
		err = d.Clear()
	case 3:
		res, err = zzMCallMethod(thread, d, "clear", nil, nil)
		wantRes = None
	case 4:
		res, err = zzMCallMethod(thread, d, "pop", Tuple{xv}, nil)
	case 5:
		res, err = zzMCallMethod(thread, d, "pop", Tuple{xv, yv}, nil)
	case 6:
		res, err = zzMCallMethod(thread, d, "popitem", nil, nil)
	case 7:
		res, err = zzMCallMethod(thread, d, "setdefault", Tuple{xv, yv}, nil)
	case 8: // update(list of pairs)
		res, err = zzMCallMethod(thread, d, "update", Tuple{zzPairsValue(uk, uv)}, nil)
		wantRes = None
	case 9: // update(dict)
		zzMDistinct(uk)
		res, err = zzMCallMethod(thread, d, "update", Tuple{zzMDictOf(uk, uv)}, nil)
		wantRes = None
	case 10: // VM INPLACE_PIPE: d |= e
		zzMDistinct(uk)
		res, err = Call(thread, zzC04Mod["ipipe"], Tuple{d, zzMDictOf(uk, uv)}, nil)
		wantRes = d
	case 11: // VM SETINDEX: d[x] = y
		res, err = Call(thread, zzC04Mod["setindex"], Tuple{d, xv, yv}, nil)
		wantRes = None
	}

	// reference
	p := zzRefFind(oldK, int64(x))
	switch op {
	case 0, 11:
		wantK, wantV = zzRefPut(oldK, oldV, int64(x), int64(y))
		wouldChange = true
	case 1, 4, 5:
		wouldChange = p >= 0
		if p >= 0 {
			wantK, wantV = zzRefDel(oldK, p), zzRefDel(oldV, p)
			wantResInt, checkResInt = oldV[p], true
		} else if op == 4 {
			wantErr = true
		} else if op == 5 {
			wantResInt, checkResInt = int64(y), true
		} else {
			wantRes = None
		}
	case 2, 3:
		wantK, wantV = nil, nil
		wouldChange = n > 0
	case 6:
		wouldChange = n > 0
		if n == 0 {
			wantErr = true
		} else {
			wantK, wantV = oldK[1:], oldV[1:]
			wantPair, checkPair = [2]int64{oldK[0], oldV[0]}, true
		}
	case 7:
		wouldChange = p < 0
		if p >= 0 {
			wantResInt, checkResInt = oldV[p], true
		} else {
			wantK, wantV = zzRefPut(oldK, oldV, int64(x), int64(y))
			wantResInt, checkResInt = int64(y), true
		}
	case 8, 9, 10:
		wouldChange = m > 0
		for j := 0; j < m; j++ {
			wantK, wantV = zzRefPut(wantK, wantV, int64(uk[j]), int64(uv[j]))
		}
	}

	failed := err != nil
	zzObserve("failed", failed)
	zzObserve("len", d.Len())
	unchanged := zzMHtSame(&d.ht, snap)
	zzAssert(zzImplies(locked, unchanged), "C04.dict.locked_unchanged")
	zzAssert(zzImplies(zzAnd(locked, wouldChange), failed), "C04.dict.locked_error")
	mutable := zzNot(locked)
	zzAssert(zzImplies(mutable, failed == wantErr), "C04.dict.mutable_error")
	zzAssert(zzImplies(mutable, zzMHtContent(&d.ht, wantK, wantV)), "C04.dict.mutable_effect")
	zzAssert(zzImplies(mutable, zzAnd(d.ht.frozen == frozen, d.ht.itercount == ic)), "C04.dict.mutable_flags")
	if !failed {
		if op == 1 {
			zzAssert(found == (p >= 0), "C04.dict.result")
		}
		if wantRes != nil {
			zzAssert(res == wantRes, "C04.dict.result")
		}
		if checkResInt {
			r, ok := zzMIntOf(res)
			zzAssert(zzAnd(ok, r == wantResInt), "C04.dict.result")
		}
		if checkPair {
			t, ok := res.(Tuple)
			zzAssert(ok && len(t) == 2, "C04.dict.result")
			a, oka := zzMIntOf(t[0])
			b, okb := zzMIntOf(t[1])
			zzAssert(zzAnd(zzAnd(oka, okb), zzAnd(a == wantPair[0], b == wantPair[1])), "C04.dict.result")
		}
	}
	zzAssert(thread.CallStackDepth() == 0, "C04.dict.stack")
	zzReach("end")
}

// zzH04_setMut decides H04.1 for *Set.
//
//verif:unwind 24
func zzH04_setMut() {
	N := zzParam("maxlen", 2, 3)
	n := zzChoice("n", N+1)
	kv := zzMSyms("k", n)
	zzMDistinct(kv)
	s := zzMSetOf(kv)
	oldK := zzWiden(kv)
	frozen, ic := zzBool("frozen"), zzU32("itercount")
	s.ht.frozen, s.ht.itercount = frozen, ic
	locked := zzOr(frozen, ic > 0)
	snap := zzMSnapHt(&s.ht)
	x := zzU8("x")
	xv := zzMInt(x)
	thread := &Thread{Name: "t"}

	var err error
	var res Value
	found := false
	wantK := oldK
	wantErr := false
	var wouldChange bool
	var wantRes Value
	var wantResInt int64
	checkResInt := false

	op := zzChoice("op", 10)
	m := 0
	var uk []uint8
	if op >= 8 {
		m = zzChoice("m", 3)
		uk = zzMSyms("uk", m)
	}
	switch op {
	case 0:
		err = s.Insert(xv)
	case 1:
		found, err = s.Delete(xv)
	case 2:
		err = s.Clear()
	case 3:
		res, err = zzMCallMethod(thread, s, "add", Tuple{xv}, nil)
		wantRes = None
	case 4:
		res, err = zzMCallMethod(thread, s, "clear", nil, nil)
		wantRes = None
	case 5:
		res, err = zzMCallMethod(thread, s, "discard", Tuple{xv}, nil)
		wantRes = None
	case 6:
		res, err = zzMCallMethod(thread, s, "pop", nil, nil)
	case 7:
		res, err = zzMCallMethod(thread, s, "remove", Tuple{xv}, nil)
		wantRes = None
	case 8: // update(list)
		res, err = zzMCallMethod(thread, s, "update", Tuple{zzMListOf(uk)}, nil)
		wantRes = None
	case 9: // update(tuple, list): two iterables
		var a, b []uint8
		if m > 0 {
			a, b = uk[:1], uk[1:]
		}
		res, err = zzMCallMethod(thread, s, "update", Tuple{zzMTupleOf(a), zzMListOf(b)}, nil)
		wantRes = None
	}

	p := zzRefFind(oldK, int64(x))
	switch op {
	case 0, 3:
		wouldChange = p < 0
		if p < 0 {
			wantK = append(append([]int64(nil), oldK...), int64(x))
		}
	case 1, 5, 7:
		wouldChange = p >= 0
		if p >= 0 {
			wantK = zzRefDel(oldK, p)
		} else if op == 7 {
			wantErr = true
		}
	case 2, 4:
		wantK = nil
		wouldChange = n > 0
	case 6:
		wouldChange = n > 0
		if n == 0 {
			wantErr = true
		} else {
			wantK = oldK[1:]
			wantResInt, checkResInt = oldK[0], true
		}
	case 8, 9:
		for j := 0; j < m; j++ {
			if zzRefFind(wantK, int64(uk[j])) < 0 {
				wantK = append(append([]int64(nil), wantK...), int64(uk[j]))
				wouldChange = true
			}
		}
	}

	failed := err != nil
	zzObserve("failed", failed)
	zzObserve("len", s.Len())
	unchanged := zzMHtSame(&s.ht, snap)
	zzAssert(zzImplies(locked, unchanged), "C04.set.locked_unchanged")
	zzAssert(zzImplies(zzAnd(locked, wouldChange), failed), "C04.set.locked_error")
	mutable := zzNot(locked)
	zzAssert(zzImplies(mutable, failed == wantErr), "C04.set.mutable_error")
	zzAssert(zzImplies(mutable, zzMHtContent(&s.ht, wantK, nil)), "C04.set.mutable_effect")
	zzAssert(zzImplies(mutable, zzAnd(s.ht.frozen == frozen, s.ht.itercount == ic)), "C04.set.mutable_flags")
	if !failed {
		if op == 1 {
			zzAssert(found == (p >= 0), "C04.set.result")
		}
		if wantRes != nil {
			zzAssert(res == wantRes, "C04.set.result")
		}
		if checkResInt {
			r, ok := zzMIntOf(res)
			zzAssert(zzAnd(ok, r == wantResInt), "C04.set.result")
		}
	}
	zzAssert(thread.CallStackDepth() == 0, "C04.set.stack")
	zzReach("end")
}
