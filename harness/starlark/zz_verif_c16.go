//go:build verif

package starlark

import (
	"strings"

	"go.starlark.net/syntax"
)

// A failing program: `body` is the text of a function body line that fails at the
// operator/identifier `at` (first occurrence in the line); kind names the failing operation.
type zzFailCase struct {
	kind  string
	setup string // top-level statements before the def
	line  string // the failing line (inside def f, indented by 4)
	at    string // substring whose first byte is the reported position
}

var zzFailCases = []zzFailCase{
	{"call", "", "return len(1, 2)", "("},
	{"binary", "", "return 1 + \"a\"", "+"},
	{"binary_floordiv", "", "return x // 0 + x", "//"},
	{"unary", "", "return -\"a\"", "-"},
	{"index", "", "return [1][5]", "[5]"},
	{"index_after_gap", "", "return big[0] + big[100]", "[100]"},
	{"attr", "", "return \"s\".nope", ".nope"},
	{"unpack", "", "a, b = [1, 2, 3]", "="},
	{"undefined_local", "", "return yy + 1\n    yy = 2", "yy"},
	{"fail", "", "return fail(\"boom\")", "("},
	{"setindex", "", "(1, 2)[0] = 3", "["},
	{"augassign", "", "x += \"a\"", "+="},
	{"slice", "", "return \"abc\"[::0]", "[::0]"},
	{"dict_dup", "", "return {[]: 1}", ":"},
	{"for_noniterable", "", "for q in 1: pass", "for"},
	{"call_kwargs", "", "return dict(**1)", "("},
	{"in_op", "", "return 1 in 2", "in"},
	{"cond_truth_call", "", "return (1 if len() else 2)", "()"},
}

// zzH16_failpos: for each failing-operation kind and each layout (blank lines before the
// def, a long position-less literal before the failing line, nesting in a closure), the
// innermost frame of the error reports exactly the line and column of the failing operator,
// and the frames are listed outermost first with the right names.
//
//verif:unwind 100
func zzH16_failpos() {
	ci := zzChoice("case", len(zzFailCases))
	c := zzFailCases[ci]
	blank := []int{0, 3, 40}[zzChoice("blank_lines", 3)]
	gap := []int{0, 7, 40}[zzChoice("literal_gap", 3)]
	var sb strings.Builder
	for i := 0; i < blank; i++ {
		sb.WriteString("\n")
	}
	sb.WriteString("big = list(range(100))\n")
	sb.WriteString("def f(x):\n")
	line := blank + 3
	if gap > 0 {
		// a statement generating many bytes of code without source positions
		sb.WriteString("    pad = [")
		for i := 0; i < gap; i++ {
			sb.WriteString("0, ")
		}
		sb.WriteString("0]\n")
		line++
	}
	sb.WriteString("    " + c.line + "\n")
	sb.WriteString("def g(x):\n    return f(x)\n")
	sb.WriteString("g(1)\n")
	src := sb.String()
	col := 4 + strings.Index(c.line, c.at) + 1
	callLine := line + strings.Count(c.line, "\n") + 3
	thread := &Thread{Name: "t"}
	_, err := ExecFileOptions(&syntax.FileOptions{GlobalReassign: true, TopLevelControl: true}, thread, "p.star", src, nil)
	zzAssert(err != nil, "C16.failpos.fails")
	if err == nil {
		return
	}
	ee, ok := err.(*EvalError)
	zzAssert(ok, "C16.failpos.evalerror")
	if !ok {
		return
	}
	st := ee.CallStack
	// drop a trailing built-in frame (e.g. len, fail)
	if n := len(st); n > 0 && st[n-1].Pos.Filename() == builtinFilename {
		st = st[:n-1]
	}
	zzAssert(len(st) == 3, "C16.failpos.depth")
	if len(st) != 3 {
		return
	}
	zzObserve("line", st[2].Pos.Line)
	zzObserve("col", st[2].Pos.Col)
	zzAssert(st[0].Name == "<toplevel>" && st[1].Name == "g" && st[2].Name == "f", "C16.failpos.frames_outermost_first")
	zzAssert(int(st[2].Pos.Line) == line && int(st[2].Pos.Col) == col, "C16.failpos.innermost_exact")
	zzAssert(int(st[0].Pos.Line) == callLine && int(st[0].Pos.Col) == 2, "C16.failpos.toplevel_call_site")
	zzAssert(int(st[1].Pos.Line) == callLine-1 && int(st[1].Pos.Col) == 13, "C16.failpos.caller_call_site")
	zzReach("end")
}

// zzH16_freevarpos: a free variable read before assignment (FREECELL) is reported at the identifier.
func zzH16_freevarpos() {
	variant := zzChoice("variant", 3)
	var src string
	var line, col int
	switch variant {
	case 0:
		src = "def outer():\n    def inner():\n        return 1 + vv\n    r = inner()\n    vv = 1\n    return r\nouter()\n"
		line, col = 3, 20
	case 1:
		src = "def outer():\n    fn = lambda: (0,\n                  vv)\n    r = fn()\n    vv = 1\n    return r\nouter()\n"
		line, col = 3, 19
	default:
		src = "def outer():\n    r = sorted([2, 1], key=lambda e: e + vv)\n    vv = 1\n    return r\nouter()\n"
		line, col = 2, 42
	}
	thread := &Thread{Name: "t"}
	_, err := ExecFileOptions(&syntax.FileOptions{}, thread, "p.star", src, nil)
	ee, ok := err.(*EvalError)
	zzAssert(ok, "C16.freevar.fails")
	if !ok {
		return
	}
	st := ee.CallStack
	top := st[len(st)-1]
	zzObserve("line", top.Pos.Line)
	zzObserve("col", top.Pos.Col)
	zzAssert(int(top.Pos.Line) == line && int(top.Pos.Col) == col, "C16.freevar.position_exact")
	zzReach("end")
}
