//go:build verif

package starlark

import "go.starlark.net/syntax"

// zzH04_derivedIndependent: values derived from a frozen collection by read-only
// operations (slices with symbolic bounds, list()/tuple()/sorted()/reversed(), +, *,
// dict views and copies, set operations) are fresh: mutating the derived value in every
// way never changes the frozen source ("no operation whatsoever changes its observable state").
//
//verif:unwind 200
func zzH04_derivedIndependent() {
	n := 2 + zzChoice("n", zzParam("max_len_minus_1", 2, 3)) // source length 2..3 (quick) / 2..4
	vals := zzMSyms("e", n)
	zzMDistinct(vals)
	thread := &Thread{Name: "t"}
	kind := zzChoice("source", 3)
	var src Value
	var lsnap zzMListSnap
	var hsnap zzMHtSnap
	var l *List
	var ht *hashtable
	switch kind {
	case 0:
		l = zzMListOf(vals)
		src = l
	case 1:
		d := zzMDictOf(vals, vals)
		ht = &d.ht
		src = d
	default:
		s := zzMSetOf(vals)
		ht = &s.ht
		src = s
	}
	src.Freeze()
	if l != nil {
		lsnap = zzMSnapList(l)
	} else {
		hsnap = zzMSnapHt(ht)
	}

	// derive
	var derived Value
	var err error
	op := zzChoice("derive", 8)
	switch op {
	case 0: // slice with symbolic bounds and step through the real slice()
		if l == nil {
			zzAssume(false)
		}
		lo, hi := zzI8("lo"), zzI8("hi")
		step := []int{1, 2, -1}[zzChoice("step", 3)]
		derived, err = slice(src, MakeInt(int(lo)), MakeInt(int(hi)), MakeInt(step))
	case 1:
		derived, err = Call(thread, Universe["list"], Tuple{src}, nil)
	case 2:
		derived, err = Call(thread, Universe["sorted"], Tuple{src}, nil)
	case 3:
		if l == nil {
			zzAssume(false)
		}
		derived, err = Binary(syntax.PLUS, src, NewList(nil))
	case 4:
		if l == nil {
			zzAssume(false)
		}
		derived, err = Binary(syntax.STAR, src, MakeInt(1))
	case 5: // dict(d) / set(s) / list(l) copies
		name := []string{"list", "dict", "set"}[kind]
		derived, err = Call(thread, Universe[name], Tuple{src}, nil)
	case 6: // union with empty
		if l != nil {
			derived, err = Call(thread, Universe["reversed"], Tuple{src}, nil)
		} else if kind == 1 {
			derived, err = Binary(syntax.PIPE, src, NewDict(0))
		} else {
			derived, err = Binary(syntax.PIPE, src, NewSet(0))
		}
	default: // views
		if kind == 1 {
			m := []string{"keys", "values", "items"}[zzChoice("view", 3)]
			derived, err = zzMCallMethod(thread, src.(HasAttrs), m, nil, nil)
		} else if kind == 2 {
			derived, err = zzMCallMethod(thread, src.(HasAttrs), "union", Tuple{NewList(nil)}, nil)
		} else {
			derived, err = slice(src, None, None, None)
		}
	}
	zzAssert(err == nil, "C04.derived.op_succeeds")
	if err != nil {
		return
	}

	// mutate the derived value in every way it allows
	switch dv := derived.(type) {
	case *List:
		for i := 0; i < dv.Len(); i++ {
			_ = dv.SetIndex(i, String("x"))
		}
		if dv.Len() > 1 {
			_, _ = zzMCallMethod(thread, dv, "pop", Tuple{MakeInt(0)}, nil)
		}
		_ = dv.Append(String("y"))
		_, _ = zzMCallMethod(thread, dv, "insert", Tuple{MakeInt(0), String("z")}, nil)
		_, _ = zzMCallMethod(thread, dv, "remove", Tuple{String("z")}, nil)
		_ = dv.Clear()
	case *Dict:
		for _, k := range dv.Keys() {
			_ = dv.SetKey(k, String("x"))
		}
		_, _, _ = dv.Delete(zzMInt(vals[0]))
		_ = dv.SetKey(String("new"), None)
		_ = dv.Clear()
	case *Set:
		_, _ = dv.Delete(zzMInt(vals[0]))
		_ = dv.Insert(String("new"))
		_ = dv.Clear()
	}

	if l != nil {
		zzAssert(zzMListSame(l, lsnap), "C04.derived.frozen_list_unchanged")
	} else {
		zzAssert(zzMHtSame(ht, hsnap), "C04.derived.frozen_table_unchanged")
	}
	zzReach("end")
}
