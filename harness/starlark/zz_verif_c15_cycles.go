//go:build verif

package starlark

// zzH15_cyclesPrint: str and repr of values containing reference cycles (through lists,
// dicts and tuples, with symbolic edges) terminate with a finite result.
//
//verif:unwind 200
//verif:depth 1500
func zzH15_cyclesPrint() {
	root, _ := zzC02Graph()
	thread := &Thread{Name: "t"}
	var out Value
	var err error
	useRepr := zzChoice("repr", 2) == 1
	panicked := false
	fatal := zzFatal("C15.cycles.fatal", func() {
		panicked = zzCatch(func() {
			if useRepr {
				out, err = Call(thread, Universe["repr"], Tuple{root}, nil)
			} else {
				out, err = Call(thread, Universe["str"], Tuple{root}, nil)
			}
		})
	})
	zzAssert(zzNot(fatal), "C15.cycles.terminates")
	zzAssert(zzNot(panicked), "C15.cycles.nopanic")
	if !fatal && !panicked {
		zzAssert(err == nil, "C15.cycles.noerror")
		if s, ok := out.(String); ok {
			zzAssert(len(s) > 0 && len(s) < 200, "C15.cycles.finite_text")
		}
	}
	zzReach("end")
}
