//go:build verif

package starlark

// H12.2: derived operations on two tables against list-comprehension models
// written from doc/spec.md ("left operand first").

import "go.starlark.net/syntax"

// ---- reference side: ordered id lists ----

func zzIdIn(ids []int, id int) bool {
	for _, x := range ids {
		if x == id {
			return true
		}
	}
	return false
}

func zzIdDedup(ids []int) []int {
	var r []int
	for _, x := range ids {
		if !zzIdIn(r, x) {
			r = append(r, x)
		}
	}
	return r
}

func zzIdHasDup(ids []int) bool { return len(zzIdDedup(ids)) != len(ids) }

// x then the elements of y that are not in x
func zzIdUnion(x, y []int) []int {
	r := append([]int(nil), x...)
	for _, e := range y {
		if !zzIdIn(r, e) {
			r = append(r, e)
		}
	}
	return r
}

// elements of x that are (in=true) / are not (in=false) in y, in the order of x
func zzIdFilter(x, y []int, in bool) []int {
	var r []int
	for _, e := range x {
		if zzIdIn(y, e) == in {
			r = append(r, e)
		}
	}
	return r
}

func zzIdSym(x, y []int) []int {
	return append(zzIdFilter(x, y, false), zzIdFilter(zzIdDedup(y), x, false)...)
}

func zzIdSubset(x, y []int) bool { return len(zzIdFilter(x, y, true)) == len(x) }

func zzIdSameSet(x, y []int) bool { return zzIdSubset(x, y) && zzIdSubset(y, x) }

func zzIdEq(x, y []int) bool {
	if len(x) != len(y) {
		return false
	}
	for i := range x {
		if x[i] != y[i] {
			return false
		}
	}
	return true
}

func zzSetModel(ids []int) *zzAL {
	m := new(zzAL)
	for _, id := range ids {
		m.add(id)
	}
	return m
}

func zzSetIDs(s *Set) []int {
	var r []int
	for e := s.ht.head; e != nil && len(r) < 100; e = e.next {
		r = append(r, zzKeyID(e.key))
	}
	return r
}

// zzCheckSet: the result v of a derived operation is a set equal to the model ids (content and order).
func zzCheckSet(id string, v Value, err error, ids []int, look []Value) {
	s, ok := v.(*Set)
	zzAssert(err == nil && ok && s != nil, id+".ok")
	if !ok || s == nil {
		return
	}
	zzHtInvariant("C12", &s.ht, zzKeyID)
	zzAssert(zzIdEq(zzSetIDs(s), ids), id+".order")
	zzHtAgree("C12", &s.ht, zzSetModel(ids), look, zzKeyID)
}

// zzKnown: a known finding whose zzAssertExcept is postponed to the end of the harness
// (the engine prunes a path after an assertion that fails on all of it, which would
// hide everything checked later on that path). "ok or region" is asserted on the spot.
type zzKnown struct {
	id         string
	ok, region bool
}

type zzKnownQ struct{ q []zzKnown }

func (kq *zzKnownQ) later(ok bool, id string, region bool) {
	zzAssert(zzOr(ok, region), id+".outside-known-region")
	kq.q = append(kq.q, zzKnown{id, ok, region})
}

func (kq *zzKnownQ) flush() {
	for _, k := range kq.q {
		zzAssertExcept(k.ok, k.id, k.region)
	}
	kq.q = nil
}

// zzDerived runs every derived operation for the set/dict X (ids xs, built in
// that order on top of preset) and the iterable Y (ids ys, duplicates allowed).
// full=false: only the Set methods that take an iterator (used with the big preset).
func zzDerived(preset int, xs, ys []Value, full bool) {
	kq := new(zzKnownQ)
	// --- build the operands through the real API ---
	X := new(Set)
	DX := new(Dict)
	mX := new(zzAL)  // set model
	mDX := new(zzAL) // dict model
	var look []Value // keys to look up: every key mentioned, and the residents that matter
	for i, h := range zzHtResidentHashes[preset] {
		k := zzKey{id: 100 + i, h: h}
		X.Insert(k)
		DX.SetKey(k, zzVal{int64(1000 + i)})
		mX.add(k.id)
		mDX.set(k.id, int64(1000+i))
	}
	for i, k := range xs {
		X.Insert(k)
		DX.SetKey(k, zzVal{int64(10 + i)})
		mX.add(zzKeyID(k))
		mDX.set(zzKeyID(k), int64(10+i))
		look = append(look, k)
	}
	var yids []int
	for _, k := range ys {
		if !zzIdIn(yids, zzKeyID(k)) && !zzIdIn(mX.ids[len(zzHtResidentHashes[preset]):], zzKeyID(k)) {
			look = append(look, k)
		}
		yids = append(yids, zzKeyID(k))
	}
	Ylist := NewList(append([]Value(nil), ys...))
	Yset := new(Set)
	DY := new(Dict)
	mDY := new(zzAL)
	for j, k := range ys {
		Yset.Insert(k)
		DY.SetKey(k, zzVal{int64(500 + j)}) // a repeated key keeps its place and takes the later value
		mDY.set(zzKeyID(k), int64(500+j))
	}
	yset := zzIdDedup(yids)
	xids := append([]int(nil), mX.ids...)

	zzHtInvariant("C12", &X.ht, zzKeyID)
	zzHtAgree("C12", &X.ht, mX, look, zzKeyID)
	zzHtAgree("C12", &DX.ht, mDX, nil, zzKeyID)
	zzHtAgree("C12", &Yset.ht, zzSetModel(yset), look, zzKeyID)
	zzHtAgree("C12", &DY.ht, mDY, nil, zzKeyID)

	iter := func() Iterator { return Ylist.Iterate() }
	done := func(it Iterator) { it.Done() }

	// --- Set methods taking an iterator (the iterable may repeat elements) ---
	it := iter()
	v, err := X.Union(it)
	done(it)
	zzCheckSet("C12.union", v, err, zzIdUnion(xids, yids), look)

	it = iter()
	v, err = X.Difference(it)
	done(it)
	zzCheckSet("C12.difference", v, err, zzIdFilter(xids, yids, false), nil)

	// spec: "preserving the element order of the left operand"
	it = iter()
	v, err = X.Intersection(it)
	done(it)
	wantI := zzIdFilter(xids, yids, true)
	if s, ok := v.(*Set); ok && err == nil {
		zzHtInvariant("C12", &s.ht, zzKeyID)
		got := zzSetIDs(s)
		zzAssert(zzIdSameSet(got, wantI) && !zzIdHasDup(got), "C12.intersection.content")
		// known finding: the result follows the order of the RIGHT operand; the two differ
		// exactly when the common elements occur in a different relative order in y.
		kq.later(zzIdEq(got, wantI), "C12.intersection.order-left", !zzIdEq(zzIdFilter(yset, xids, true), wantI))
		zzAssert(zzIdEq(got, zzIdFilter(yset, xids, true)) || zzIdEq(got, wantI), "C12.intersection.order-some-operand")
	} else {
		zzAssert(false, "C12.intersection.ok")
	}

	// spec: items in S but not y, followed by items in y but not S
	it = iter()
	v, err = X.SymmetricDifference(it)
	done(it)
	wantS := zzIdSym(xids, yids)
	if s, ok := v.(*Set); ok && err == nil {
		zzHtInvariant("C12", &s.ht, zzKeyID)
		// known finding: an element repeated in the iterable is toggled once per occurrence
		kq.later(zzIdEq(zzSetIDs(s), wantS), "C12.symmetric_difference.order", zzIdHasDup(yids))
	} else {
		zzAssert(false, "C12.symmetric_difference.ok")
	}

	it = iter()
	sub, err := X.IsSubset(it)
	done(it)
	zzAssert(err == nil && sub == zzIdSubset(xids, yids), "C12.issubset")

	it = iter()
	sup, err := X.IsSuperset(it)
	done(it)
	zzAssert(err == nil && sup == zzIdSubset(yids, xids), "C12.issuperset")

	it = iter()
	cnt, err := X.ht.count(it)
	done(it)
	zzAssert(err == nil && cnt == len(zzIdFilter(yset, xids, true)), "C12.count")
	zzObserve("count", cnt)

	zzCheckSet("C12.clone", X.clone(), nil, xids, nil)

	if !full {
		zzAssert(X.ht.itercount == 0 && Ylist.itercount == 0, "C12.derived.iterators-released")
		zzHtInvariant("C12", &X.ht, zzKeyID)
		zzHtAgree("C12", &X.ht, mX, look, zzKeyID)
		zzReach("end")
		kq.flush()
		return
	}

	// --- set (x) set: operators and comparisons ---
	v, err = Binary(syntax.PIPE, X, Yset)
	zzCheckSet("C12.binary.or", v, err, zzIdUnion(xids, yset), nil)
	v, err = Binary(syntax.MINUS, X, Yset)
	zzCheckSet("C12.binary.minus", v, err, zzIdFilter(xids, yset, false), nil)
	v, err = Binary(syntax.CIRCUMFLEX, X, Yset)
	zzCheckSet("C12.binary.xor", v, err, zzIdSym(xids, yset), nil)
	v, err = Binary(syntax.AMP, X, Yset)
	if s, ok := v.(*Set); ok && err == nil {
		got := zzSetIDs(s)
		zzAssert(zzIdSameSet(got, wantI) && !zzIdHasDup(got), "C12.binary.and.content")
		kq.later(zzIdEq(got, wantI), "C12.intersection.order-left", !zzIdEq(zzIdFilter(yset, xids, true), wantI))
	} else {
		zzAssert(false, "C12.binary.and.ok")
	}

	same := zzIdSameSet(xids, yset)
	eq, err := setsEqual(X, Yset)
	zzAssert(err == nil && eq == same, "C12.setsEqual")
	cmp := func(op syntax.Token) bool {
		b, err := X.CompareSameType(op, Yset, CompareLimit)
		zzAssert(err == nil, "C12.set.compare.noerr")
		return b
	}
	zzAssert(cmp(syntax.EQL) == same && cmp(syntax.NEQ) == !same, "C12.set.compare.eq")
	zzAssert(cmp(syntax.LE) == zzIdSubset(xids, yset), "C12.set.compare.le")
	zzAssert(cmp(syntax.LT) == (zzIdSubset(xids, yset) && !same), "C12.set.compare.lt")
	zzAssert(cmp(syntax.GE) == zzIdSubset(yset, xids), "C12.set.compare.ge")
	zzAssert(cmp(syntax.GT) == (zzIdSubset(yset, xids) && !same), "C12.set.compare.gt")

	// --- in-place update of a copy: setUpdate / InsertAll / addAll ---
	c := X.clone()
	err = setUpdate(c, Tuple{Ylist, Yset}, nil)
	zzCheckSet("C12.setUpdate", c, err, zzIdUnion(xids, yids), look)
	zzAssert(Ylist.itercount == 0 && Yset.ht.itercount == 0, "C12.setUpdate.iterators-released")

	h2 := new(Set)
	e1 := h2.ht.addAll(&X.ht)
	e2 := h2.ht.addAll(&Yset.ht)
	zzAssert(e1 == nil && e2 == nil, "C12.addAll.noerr")
	zzCheckSet("C12.addAll", h2, nil, zzIdUnion(xids, yset), nil)

	// --- dicts: union (|), update from a mapping, update from pairs, equality ---
	mU := mDX.clone()
	for i, id := range mDY.ids {
		mU.set(id, mDY.vals[i]) // keys keep the place of their first appearance, right value wins
	}
	du := DX.Union(DY)
	zzHtInvariant("C12", &du.ht, zzKeyID)
	zzHtAgree("C12", &du.ht, mU, look, zzKeyID)
	bv, err := Binary(syntax.PIPE, DX, DY)
	if bd, ok := bv.(*Dict); ok && err == nil {
		zzHtAgree("C12", &bd.ht, mU, nil, zzKeyID)
	} else {
		zzAssert(false, "C12.binary.dict-or.ok")
	}

	d2 := new(Dict)
	d2.ht.addAll(&DX.ht)
	err = updateDict(d2, Tuple{DY}, nil)
	zzAssert(err == nil, "C12.updateDict.mapping.noerr")
	zzHtInvariant("C12", &d2.ht, zzKeyID)
	zzHtAgree("C12", &d2.ht, mU, nil, zzKeyID)

	pairs := make([]Value, len(ys))
	for j, k := range ys {
		pairs[j] = Tuple{k, zzVal{int64(500 + j)}}
	}
	d3 := new(Dict)
	d3.ht.addAll(&DX.ht)
	pl := NewList(pairs)
	err = updateDict(d3, Tuple{pl}, nil)
	zzAssert(err == nil && pl.itercount == 0, "C12.updateDict.pairs.noerr")
	zzHtAgree("C12", &d3.ht, mU, nil, zzKeyID)

	// equality ignores order: DX against a dict with the same items inserted backwards
	rev := new(Dict)
	for i := len(mDX.ids) - 1; i >= 0; i-- {
		k, _ := zzFindKey(DX, mDX.ids[i])
		rev.SetKey(k, zzVal{mDX.vals[i]})
	}
	eq, err = dictsEqual(DX, rev, CompareLimit)
	zzAssert(err == nil && eq, "C12.dictsEqual.reordered")
	eq, err = dictsEqual(DX, DY, CompareLimit)
	zzAssert(err == nil && eq == (len(mDX.ids) == 0 && len(mDY.ids) == 0), "C12.dictsEqual.different-values")

	// --- the operands are unchanged and no iterator is left open ---
	zzAssert(X.ht.itercount == 0 && Yset.ht.itercount == 0 && Ylist.itercount == 0 && DX.ht.itercount == 0 && DY.ht.itercount == 0, "C12.derived.iterators-released")
	zzHtInvariant("C12", &X.ht, zzKeyID)
	zzHtAgree("C12", &X.ht, mX, look, zzKeyID)
	zzHtAgree("C12", &DX.ht, mDX, nil, zzKeyID)
	zzHtAgree("C12", &Yset.ht, zzSetModel(yset), nil, zzKeyID)
	zzHtAgree("C12", &DY.ht, mDY, nil, zzKeyID)
	zzReach("end")
	kq.flush()
}

func zzFindKey(d *Dict, id int) (Value, bool) {
	for e := d.ht.head; e != nil; e = e.next {
		if zzKeyID(e.key) == id {
			return e.key, true
		}
	}
	return nil, false
}

// zzH12_derived_small: X = the first lx of the fresh keys (any ordered subset of
// interchangeable keys is of this form), Y = every sequence of up to ly keys from
// the pool (repetitions allowed), every hash symbolic.
//
//verif:unwind 200
func zzH12_derived_small() {
	P := zzParam("pool", 3, 3)
	maxX := zzParam("maxX", 2, 3)
	maxY := zzParam("maxY", 2, 3)
	pool := make([]Value, P)
	for i := range pool {
		pool[i] = zzKey{id: i, h: zzU32("h" + zzDigit(i))}
	}
	lx := zzChoice("lx", maxX+1)
	ly := zzChoice("ly", maxY+1)
	var ys []Value
	for j := 0; j < ly; j++ {
		ys = append(ys, pool[zzChoice("y"+zzDigit(j), P)])
	}
	zzDerived(0, pool[:lx], ys, true)
}

// zzH12_derived_chain: X = 12 residents in one chain of two buckets (+ up to one
// fresh key), Y drawn from residents sitting in either bucket of the chain and fresh keys.
//
//verif:unwind 200
func zzH12_derived_chain() {
	maxY := zzParam("maxY", 2, 3)
	f0 := zzKey{id: 0, h: zzU32("h0")}
	f1 := zzKey{id: 1, h: zzU32("h1")}
	hs := zzHtResidentHashes[5]
	r := func(i int) Value { return zzKey{id: 100 + i, h: hs[i]} }
	pool := []Value{r(1), r(8), r(11), f0, f1}[:zzParam("pool", 4, 5)]
	lx := zzChoice("lx", 2)
	ly := zzChoice("ly", maxY+1)
	var ys []Value
	for j := 0; j < ly; j++ {
		ys = append(ys, pool[zzChoice("y"+zzDigit(j), len(pool))])
	}
	zzDerived(5, []Value{f0}[:lx], ys, false)
}
