//go:build verif

package starlark

import "go.starlark.net/syntax"

// zzH08_binding_stable: the values bound to *args / **kwargs / ordinary parameters by a call
// from Starlark code remain exactly those values after the caller goes on to evaluate
// further expressions and calls (a binding that aliases caller storage would be "a
// different binding" a moment later).
func zzH08_binding_stable() {
	const src = `
def keep(*r):
    return r
def keep2(a, *r, **kw):
    return (a, r, kw)
def keepk(**kw):
    return kw
t = keep(v0, v1, v2)
u = [v2, v1, v0, v0, v1, v2]
w = keep2(v0, v1, k=v2)
x = (v1, v1, v1, v2, v2)
y = keepk(a=v0, b=v1)
z = {"p": v2, "q": v2, "r": v0}
held = []
def chain(*r):
    held.append(r)
    return len(r)
n = chain(v0, v1) + chain(v2) + chain(v1, v2, v0)
`
	v0, v1, v2 := MakeInt64(int64(zzI32("v0"))), MakeInt64(int64(zzI32("v1"))), MakeInt64(int64(zzI32("v2")))
	thread := &Thread{Name: "t"}
	g, err := ExecFileOptions(&syntax.FileOptions{}, thread, "s.star", src, StringDict{"v0": v0, "v1": v1, "v2": v2})
	zzAssert(err == nil, "C08.stable.runs")
	if err != nil {
		return
	}
	eq := func(a, b Value) bool {
		ok, err := Equal(a, b)
		return err == nil && ok
	}
	zzAssert(eq(g["t"], Tuple{v0, v1, v2}), "C08.stable.varargs")
	w := g["w"].(Tuple)
	zzAssert(eq(w[0], v0), "C08.stable.positional")
	zzAssert(eq(w[1], Tuple{v1}), "C08.stable.varargs_after_positional")
	kw := w[2].(*Dict)
	kv, found, _ := kw.Get(String("k"))
	zzAssert(found && kw.Len() == 1 && eq(kv, v2), "C08.stable.kwargs")
	y := g["y"].(*Dict)
	ya, fa, _ := y.Get(String("a"))
	yb, fb, _ := y.Get(String("b"))
	zzAssert(fa && fb && y.Len() == 2 && eq(ya, v0) && eq(yb, v1), "C08.stable.kwargs_only")
	held := g["held"].(*List)
	zzAssert(held.Len() == 3, "C08.stable.chain_calls")
	if held.Len() == 3 {
		zzAssert(eq(held.Index(0), Tuple{v0, v1}), "C08.stable.chain_first")
		zzAssert(eq(held.Index(1), Tuple{v2}), "C08.stable.chain_second")
		zzAssert(eq(held.Index(2), Tuple{v1, v2, v0}), "C08.stable.chain_third")
	}
	zzReach("end")
}
