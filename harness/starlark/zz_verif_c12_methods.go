//go:build verif

package starlark

// H12.3: the Starlark-level methods of dict and set (called the way the
// interpreter calls them: Attr + Call) against the association-list model.

// zzMethKeyID: zzKey ids, and 900 for the string key "kw" introduced by update(**kwargs).
func zzMethKeyID(v Value) int {
	if s, ok := v.(String); ok && s == "kw" {
		return 900
	}
	return zzKeyID(v)
}

type zzMethOp struct {
	name string
	key  Value
}

// zzMethCall performs recv.name(args..., **kwargs) through Attr and Call.
func zzMethCall(thread *Thread, recv HasAttrs, name string, args Tuple, kwargs []Tuple) (Value, error) {
	m, err := recv.Attr(name)
	if err != nil || m == nil {
		zzAssert(false, "C12.method.exists")
		return nil, err
	}
	return Call(thread, m, args, kwargs)
}

// zzMethUniverse: the keys an operation may name at this step (symmetry reduction as in H12.1).
func zzMethUniverse(uni, fresh []Value, used int) []Value {
	ks := append([]Value(nil), uni...)
	if used < len(fresh) {
		ks = append(ks, fresh[used])
	}
	return ks
}

// zzH12_methods_dict: dict.{pop, popitem, setdefault, update, clear, get} histories.
//
//verif:unwind 200
func zzH12_methods_dict() {
	F := zzParam("fresh", 2, 2)
	L := zzParam("ops", 2, 3)
	thread := &Thread{Name: "c12"}
	d := new(Dict)
	m := new(zzAL)
	res := zzHtPreset(&d.ht, m, 6)
	var fresh []Value
	for i := 0; i < F; i++ {
		fresh = append(fresh, zzKey{id: i, h: zzU32("h" + zzDigit(i))})
	}
	uni := []Value{res[1]}
	used := 0
	dflt := zzVal{7777}

	for step := 0; step < L; step++ {
		var opts []zzMethOp
		for _, k := range zzMethUniverse(uni, fresh, used) {
			opts = append(opts, zzMethOp{"pop", k}, zzMethOp{"pop-default", k}, zzMethOp{"setdefault", k}, zzMethOp{"update", k}, zzMethOp{"get", k})
		}
		opts = append(opts, zzMethOp{"popitem", nil}, zzMethOp{"clear", nil})
		op := opts[zzChoice("op"+zzDigit(step), len(opts))]
		if op.key != nil && used < F && zzKeyID(op.key) == used {
			uni = append(uni, fresh[used])
			used++
		}
		id := -1
		if op.key != nil {
			id = zzKeyID(op.key)
		}
		nv := zzI64("v" + zzDigit(step))
		switch op.name {
		case "pop":
			v, err := zzMethCall(thread, d, "pop", Tuple{op.key}, nil)
			mv, found := m.del(id)
			zzAssert((err == nil) == found, "C12.dict.pop.error-iff-missing")
			if err == nil && found {
				zzAssert(zzValN(v) == mv, "C12.dict.pop.value")
			}
		case "pop-default":
			v, err := zzMethCall(thread, d, "pop", Tuple{op.key, dflt}, nil)
			mv, found := m.del(id)
			zzAssert(err == nil, "C12.dict.pop-default.noerr")
			if err == nil {
				zzAssert(zzValN(v) == zzIteI64(found, mv, 7777), "C12.dict.pop-default.value")
			}
		case "get":
			v, err := zzMethCall(thread, d, "get", Tuple{op.key, dflt}, nil)
			zzAssert(err == nil, "C12.dict.get.noerr")
			want := int64(7777)
			if j := m.find(id); j >= 0 {
				want = m.vals[j]
			}
			if err == nil {
				zzAssert(zzValN(v) == want, "C12.dict.get.value")
			}
		case "setdefault":
			v, err := zzMethCall(thread, d, "setdefault", Tuple{op.key, zzVal{nv}}, nil)
			zzAssert(err == nil, "C12.dict.setdefault.noerr")
			want := nv
			if j := m.find(id); j >= 0 {
				want = m.vals[j] // present: value and position unchanged
			} else {
				m.set(id, nv)
			}
			if err == nil {
				zzAssert(zzValN(v) == want, "C12.dict.setdefault.value")
			}
		case "update":
			// d.update([(k, nv), (head, nv+1), (k, nv+2)], kw=nv+3): pairs in order, then keyword arguments
			pairs := NewList([]Value{Tuple{op.key, zzVal{nv}}, Tuple{res[0], zzVal{nv + 1}}, Tuple{op.key, zzVal{nv + 2}}})
			v, err := zzMethCall(thread, d, "update", Tuple{pairs}, []Tuple{{String("kw"), zzVal{nv + 3}}})
			zzAssert(err == nil && v == None, "C12.dict.update.noerr")
			zzAssert(pairs.itercount == 0, "C12.dict.update.iterator-released")
			m.set(id, nv)
			m.set(zzKeyID(res[0]), nv+1)
			m.set(id, nv+2)
			m.set(900, nv+3)
		case "popitem":
			v, err := zzMethCall(thread, d, "popitem", nil, nil)
			zzAssert((err == nil) == (len(m.ids) > 0), "C12.dict.popitem.error-iff-empty")
			if err == nil && len(m.ids) > 0 {
				t, ok := v.(Tuple)
				zzAssert(ok && len(t) == 2 && zzMethKeyID(t[0]) == m.ids[0], "C12.dict.popitem.first-key")
				if ok && len(t) == 2 {
					zzAssert(zzValN(t[1]) == m.vals[0], "C12.dict.popitem.value")
				}
				m.del(m.ids[0])
			}
		case "clear":
			_, err := zzMethCall(thread, d, "clear", nil, nil)
			zzAssert(err == nil, "C12.dict.clear.noerr")
			m.clear()
		}
		zzHtInvariant("C12", &d.ht, zzMethKeyID)
		zzHtAgree("C12", &d.ht, m, uni, zzMethKeyID)

		// keys()/values()/items() as lists
		kl, err := zzMethCall(thread, d, "keys", nil, nil)
		ok := err == nil
		if l, isl := kl.(*List); ok && isl && l.Len() == len(m.ids) {
			for i := range m.ids {
				if zzMethKeyID(l.Index(i)) != m.ids[i] {
					ok = false
				}
			}
		} else {
			ok = false
		}
		zzAssert(ok, "C12.dict.keys.order")
		vl, err := zzMethCall(thread, d, "values", nil, nil)
		ok = err == nil
		vok := true
		if l, isl := vl.(*List); ok && isl && l.Len() == len(m.ids) {
			for i := range m.ids {
				vok = zzAnd(vok, zzValN(l.Index(i)) == m.vals[i])
			}
		} else {
			ok = false
		}
		zzAssert(zzAnd(ok, vok), "C12.dict.values.order")
	}
	zzObserve("len", d.Len())
	zzReach("end")
}

// zzH12_methods_set: set.{add, discard, remove, pop, clear, update} histories.
//
//verif:unwind 200
func zzH12_methods_set() {
	F := zzParam("fresh", 2, 2)
	L := zzParam("ops", 2, 3)
	thread := &Thread{Name: "c12"}
	s := new(Set)
	m := new(zzAL)
	var res []Value
	for i, h := range zzHtResidentHashes[6] {
		k := zzKey{id: 100 + i, h: h}
		zzAssert(s.Insert(k) == nil, "C12.preset.insert")
		m.add(k.id)
		res = append(res, k)
	}
	var fresh []Value
	for i := 0; i < F; i++ {
		fresh = append(fresh, zzKey{id: i, h: zzU32("h" + zzDigit(i))})
	}
	uni := []Value{res[1]}
	used := 0

	for step := 0; step < L; step++ {
		var opts []zzMethOp
		for _, k := range zzMethUniverse(uni, fresh, used) {
			opts = append(opts, zzMethOp{"add", k}, zzMethOp{"discard", k}, zzMethOp{"remove", k}, zzMethOp{"update", k})
		}
		opts = append(opts, zzMethOp{"pop", nil}, zzMethOp{"clear", nil})
		op := opts[zzChoice("op"+zzDigit(step), len(opts))]
		if op.key != nil && used < F && zzKeyID(op.key) == used {
			uni = append(uni, fresh[used])
			used++
		}
		id := -1
		if op.key != nil {
			id = zzKeyID(op.key)
		}
		switch op.name {
		case "add":
			v, err := zzMethCall(thread, s, "add", Tuple{op.key}, nil)
			zzAssert(err == nil && v == None, "C12.set.add.noerr")
			m.add(id)
		case "discard":
			v, err := zzMethCall(thread, s, "discard", Tuple{op.key}, nil)
			zzAssert(err == nil && v == None, "C12.set.discard.noerr")
			m.del(id)
		case "remove":
			_, err := zzMethCall(thread, s, "remove", Tuple{op.key}, nil)
			_, found := m.del(id)
			zzAssert((err == nil) == found, "C12.set.remove.error-iff-missing")
		case "update":
			// s.update([k, head], (k, tail)): iterables in order, elements in order
			l := NewList([]Value{op.key, res[0]})
			v, err := zzMethCall(thread, s, "update", Tuple{l, Tuple{op.key, res[2]}}, nil)
			zzAssert(err == nil && v == None, "C12.set.update.noerr")
			zzAssert(l.itercount == 0, "C12.set.update.iterator-released")
			m.add(id)
			m.add(zzKeyID(res[0]))
			m.add(zzKeyID(res[2]))
		case "pop":
			v, err := zzMethCall(thread, s, "pop", nil, nil)
			zzAssert((err == nil) == (len(m.ids) > 0), "C12.set.pop.error-iff-empty")
			if err == nil && len(m.ids) > 0 {
				zzAssert(zzKeyID(v) == m.ids[0], "C12.set.pop.first")
				m.del(m.ids[0])
			}
		case "clear":
			_, err := zzMethCall(thread, s, "clear", nil, nil)
			zzAssert(err == nil, "C12.set.clear.noerr")
			m.clear()
		}
		zzHtInvariant("C12", &s.ht, zzKeyID)
		zzHtAgree("C12", &s.ht, m, uni, zzKeyID)
	}
	zzObserve("len", s.Len())
	zzReach("end")
}
