//go:build verif

package starlark

// H03.3: a whole program (parser, resolver, compiler, VM) that builds, mutates
// and iterates dicts and sets is run twice: with string keys of >= 12 bytes
// (hashed with the per-process seed: symbolic, every collision pattern of the keys
// is a path) and with short keys (FNV, no seed). Printed output, the value of
// the globals, the number of executed steps and the error must be identical, and
// equal to the output demanded by insertion-order semantics.

import (
	"strings"

	"go.starlark.net/syntax"
)

const zzStepsSrc = `
d = {K0: 1, K1: 2, K2: 3}
d.pop(K0)
d[K0] = 4
d.setdefault(K1, 9)
s = set([K2, K1, K0, K1])
t = s | set([K0, "zz"])
u = t & set(["zz", K1])
out = [d[k] for k in d] + [len(t)] + [1 if k in d else 0 for k in t] + [len(u)]
def f():
    n = 0
    for k in d:
        if k in s:
            n += 10
        n += 1
    for k in t:
        n += d.get(k, 100)
    return n
r = f()
d2 = dict([(K2, 7), (K0, 8)], **{K1: 5})
d2.update(d)
vals = d2.values() + [v for _, v in (d | {K1: 6}).items()] + sorted(d.values(), reverse=True)
print(out, r, vals)
x = d["zz"]
`

// by insertion-order semantics:
//
//	d = {K1: 2, K2: 3, K0: 4}; s = [K2, K1, K0]; t = [K2, K1, K0, "zz"]; u = {K1, "zz"}
//	out = [2, 3, 4] + [4] + [1, 1, 1, 0] + [2]
//	f: 3 * 11 + (3 + 2 + 4 + 100) = 142
//	d2 = {K2: 3, K0: 4, K1: 2}; d | {K1: 6} = {K1: 6, K2: 3, K0: 4}
const zzStepsWant = "[2, 3, 4, 4, 1, 1, 1, 0, 2] 142 [3, 4, 2, 6, 3, 4, 4, 3, 2]"

type zzRunResult struct {
	printed string
	steps   uint64
	errmsg  string
	bt      string
	globals string
}

func zzStepsRun(k0, k1, k2 string) zzRunResult {
	src := zzStepsSrc
	src = strings.ReplaceAll(src, "K0", `"`+k0+`"`)
	src = strings.ReplaceAll(src, "K1", `"`+k1+`"`)
	src = strings.ReplaceAll(src, "K2", `"`+k2+`"`)
	var res zzRunResult
	thread := &Thread{Name: "c03", Print: func(_ *Thread, msg string) { res.printed += msg + "\n" }}
	opts := &syntax.FileOptions{Set: true, GlobalReassign: true}
	g, err := ExecFileOptions(opts, thread, "steps.star", src, nil)
	res.steps = thread.ExecutionSteps()
	if err != nil {
		res.errmsg = err.Error()
		if ee, ok := err.(*EvalError); ok {
			res.bt = ee.Backtrace()
		}
	}
	if g != nil {
		// canonical serialisation of the globals that hold no key text
		for _, name := range []string{"out", "r", "vals"} {
			if v := g[name]; v != nil {
				res.globals += name + "=" + v.String() + ";"
			}
		}
	}
	return res
}

//verif:unwind 400
func zzH03_steps_seed() {
	long := zzStepsRun("long-key-number-0", "long-key-no-1", "long-key-2-xx")
	short := zzStepsRun("k0", "k1", "k2")
	zzAssert(long.printed == zzStepsWant+"\n", "C03.steps.printed.expected")
	zzAssert(long.printed == short.printed, "C03.steps.printed.same")
	zzAssert(long.globals == short.globals, "C03.steps.globals.same")
	zzAssert(long.steps == short.steps, "C03.steps.count.same")
	zzAssert(long.errmsg != "" && long.errmsg == short.errmsg, "C03.steps.error.same")
	zzAssert(long.bt == short.bt, "C03.steps.backtrace.same")
	zzObserve("printed", long.printed)
	zzObserve("steps", long.steps)
	zzObserve("err", long.errmsg)
	zzReach("end")
}
