//go:build verif

package starlark

// Expression statements: every expression statement is evaluated for its effects and its
// possible failure, including a bare name (which fails when the variable — local, captured
// or global — is not yet assigned), a bare attribute/index, and literals/docstrings.
var zzC01Stmt = []zzC01Skel{
	{"t_barelocal", zzNeedNone, `
def f():
    emit(1)
    if v3:
        x = 1
    x
    emit(2)
    return 3
r = f()
`},
	{"t_bareglobal", zzNeedTop, `
def f():
    emit(1)
    g
    emit(2)
    return 3
if p:
    g = 1
r = f()
`},
	{"t_barecaptured", zzNeedNone, `
def outer():
    def inner():
        emit(1)
        y
        emit(2)
        return 4
    if q:
        y = 0
    return inner()
r = outer()
`},
	{"t_bareexprs", zzNeedNone, `
def f(d):
    """doc"""
    "string"
    1
    d["k"]
    emit(1)
    d.missing
    emit(2)
def g():
    emit(0)
    f({"k": v0} if v3 else {})
    emit(3)
r = g()
`},
}

//verif:unwind 200
func zzH01_diff_stmt() { zzC01Run("stmt", zzC01Stmt, 4) }
