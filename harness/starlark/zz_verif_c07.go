//go:build verif

package starlark

import (
	"strings"

	"go.starlark.net/syntax"
)

// Programs for the step-limit and cancellation harnesses. `tick()` is a host
// built-in recording an observable side effect; `act()` performs a host action
// chosen by the schedule.
var zzC07Progs = []string{
	// 0: straight line
	`tick()
tick()
x = 1 + 2
tick()
`,
	// 1: loop + nested call
	`def f(n):
    for i in range(n):
        tick()
    return n
def g():
    return f(2) + f(1)
g()
tick()
`,
	// 2: recursion, comprehension, callback through sorted(key=...)
	`def fact(n):
    tick()
    if n <= 1:
        return 1
    return n * fact(n - 1)
fact(3)
ys = [tick() for _ in range(2)]
def key(v):
    tick()
    return -v
sorted([1, 2], key=key)
tick()
`,
	// 3: re-entrant execution on the same thread through opcodes other than CALL:
	// load (thread.Load runs a module), attribute access, binary operator and iteration
	// of a host value that call back into Starlark.
	`load("m.star", "v")
def cb():
    tick()
    return 1
hv.cb = cb
a = hv.attr
tick()
b = hv + 1
tick()
for e in hv:
    tick()
c = f2()
tick()
`,
	// 4: infinite loop (while) — must be stopped by the limit for every N
	`def spin():
    while True:
        tick()
spin()
`,
}

var zzC07Opts = &syntax.FileOptions{Set: true, While: true, TopLevelControl: true, GlobalReassign: true, Recursion: true}

type zzTickLog struct {
	steps []uint64 // thread.Steps observed at each tick() call
}

// zzHost is a host value whose attribute access, + operator and iteration call back
// into Starlark on the current thread.
type zzHost struct {
	thread *Thread
	cb     Value
	n      int
}

func (h *zzHost) String() string        { return "host" }
func (h *zzHost) Type() string          { return "host" }
func (h *zzHost) Freeze()               {}
func (h *zzHost) Truth() Bool           { return True }
func (h *zzHost) Hash() (uint32, error) { return 1, nil }
func (h *zzHost) AttrNames() []string   { return []string{"attr", "cb"} }
func (h *zzHost) SetField(name string, v Value) error {
	h.cb = v
	return nil
}
func (h *zzHost) Attr(name string) (Value, error) {
	if name == "attr" && h.cb != nil {
		return Call(h.thread, h.cb, nil, nil)
	}
	return nil, nil
}
func (h *zzHost) Binary(op syntax.Token, y Value, side Side) (Value, error) {
	if h.cb != nil {
		return Call(h.thread, h.cb, nil, nil)
	}
	return nil, nil
}
func (h *zzHost) Iterate() Iterator { return &zzHostIter{h, 0} }

type zzHostIter struct {
	h *zzHost
	i int
}

func (it *zzHostIter) Next(p *Value) bool {
	if it.i >= 2 {
		return false
	}
	it.i++
	v, err := Call(it.h.thread, it.h.cb, nil, nil)
	if err != nil {
		return false
	}
	*p = v
	return true
}
func (it *zzHostIter) Done() {}

func zzC07Setup(th *Thread, env StringDict) {
	env["hv"] = &zzHost{thread: th}
	th.Load = func(t *Thread, module string) (StringDict, error) {
		return ExecFileOptions(zzC07Opts, t, module, "v = [x * x for x in range(3)]\ndef f2():\n    return v[1]\n", nil)
	}
	env["f2"] = NewBuiltin("f2", func(thread *Thread, b *Builtin, args Tuple, kwargs []Tuple) (Value, error) { return None, nil })
}

func zzC07Env(log *zzTickLog) StringDict {
	return StringDict{
		"tick": NewBuiltin("tick", func(thread *Thread, b *Builtin, args Tuple, kwargs []Tuple) (Value, error) {
			log.steps = append(log.steps, thread.Steps)
			return None, nil
		}),
	}
}

// zzH07_limit: with a symbolic step limit N and a symbolic initial step count,
// exactly the instructions numbered below the limit execute; the run fails with a
// cancellation error iff the program needs N or more steps; step counts of
// completed runs do not depend on N.
//
//verif:unwind 400
//verif:decisions 2000
func zzH07_limit() {
	nprog := zzParam("programs", 4, 5)
	pi := zzChoice("prog", nprog)
	src := zzC07Progs[pi]
	// reference run without limit (concrete), bounded for the infinite program by a concrete limit
	ref := &zzTickLog{}
	t0 := &Thread{Name: "ref"}
	const refCap = 150
	t0.SetMaxExecutionSteps(refCap)
	env0 := zzC07Env(ref)
	zzC07Setup(t0, env0)
	_, err0 := ExecFileOptions(zzC07Opts, t0, "p.star", src, env0)
	total := t0.Steps // number of steps the whole program needs (or refCap for the infinite one)
	infinite := err0 != nil
	zzObserve("total", total)

	// symbolic run
	N := zzU64("N")
	// initial step count of a reused thread: structural choice (a symbolic s0 only makes every
	// comparison two-variable; zzH07_exhausted covers arbitrary s0 >= N)
	s0 := []uint64{0, 1000, 1 << 40}[zzChoice("s0", zzParam("initial_counts", 2, 3))]
	zzAssume(N >= 1)
	zzAssume(N < 1<<62)
	zzAssume(N > s0) // otherwise the very first instruction is refused; covered by zzH07_exhausted
	if infinite {
		zzAssume(N-s0 < refCap) // the reference run only knows the first refCap steps
	}
	log := &zzTickLog{}
	th := &Thread{Name: "t"}
	th.Steps = s0
	th.SetMaxExecutionSteps(N)
	env := zzC07Env(log)
	zzC07Setup(th, env)
	_, err := ExecFileOptions(zzC07Opts, th, "p.star", src, env)

	// instruction numbered k (1-based, relative) executes iff s0+k < N.
	// So the run completes iff s0+total < N.
	completes := zzAnd(zzNot(infinite), s0+total < N)
	zzAssert((err == nil) == completes, "C07.limit.fails_iff_needed")
	if err != nil {
		zzAssert(strings.Contains(err.Error(), "cancelled"), "C07.limit.error_is_cancellation")
		// the counter has reached the limit (a host iterator that swallows the cancellation
		// error lets the caller's loop head count once more, without executing anything)
		zzAssert(th.Steps >= N, "C07.limit.counter_reached_limit")
		zzAssert(th.Steps <= N+4, "C07.limit.counter_stops_near_limit")
	} else {
		zzAssert(th.Steps-s0 == total, "C07.limit.step_count_independent_of_limit")
	}
	// observable effects: tick i happened iff its (relative) step index is below the limit
	want := 0
	for _, st := range ref.steps {
		want += zzIteInt(s0+st < N, 1, 0)
	}
	zzObserve("ticks", len(log.steps))
	zzAssert(len(log.steps) == want, "C07.limit.no_effect_at_or_after_limit")
	for i := range log.steps {
		zzAssert(log.steps[i]-s0 == ref.steps[i], "C07.limit.same_steps_per_effect")
	}
	zzReach("end")
}

// zzH07_exhausted: a thread whose counter has already reached the limit executes nothing.
func zzH07_exhausted() {
	N := zzU64("N")
	s0 := zzU64("s0")
	zzAssume(N >= 1)
	zzAssume(s0 >= N)
	zzAssume(s0 < 1<<63)
	log := &zzTickLog{}
	th := &Thread{Name: "t"}
	th.Steps = s0
	th.SetMaxExecutionSteps(N)
	_, err := ExecFileOptions(zzC07Opts, th, "p.star", zzC07Progs[0], zzC07Env(log))
	zzAssert(err != nil, "C07.exhausted.fails")
	zzAssert(len(log.steps) == 0, "C07.exhausted.no_effect")
	zzReach("end")
}

// zzH07_cancel: host actions injected at every act() call, combined with a symbolic step
// limit. Execution stops at the first loop head at which a cancellation is pending or the
// limit is reached; no tick happens afterwards; the error names the FIRST reason (a host
// reason pending when the limit is hit wins over "too many steps"); cancellation
// persists for the next execution unless reset.
//
//verif:unwind 300
//verif:decisions 3000
func zzH07_cancel() {
	const src = `def body(i):
    act()
    tick()
for i in range(3):
    body(i)
act()
tick()
`
	// reference run: step numbers of every act() and tick() call, and the total
	type ev struct {
		step uint64
		act  bool
	}
	var evs []ev
	t0 := &Thread{Name: "ref"}
	env0 := StringDict{
		"tick": NewBuiltin("tick", func(thread *Thread, b *Builtin, args Tuple, kwargs []Tuple) (Value, error) {
			evs = append(evs, ev{thread.Steps, false})
			return None, nil
		}),
		"act": NewBuiltin("act", func(thread *Thread, b *Builtin, args Tuple, kwargs []Tuple) (Value, error) {
			evs = append(evs, ev{thread.Steps, true})
			return None, nil
		}),
	}
	_, err0 := ExecFileOptions(zzC07Opts, t0, "c.star", src, env0)
	zzAssert(err0 == nil, "C07.cancel.reference_runs")
	total := t0.Steps

	N := zzU64("N")
	zzAssume(zzAnd(N >= 1, N < 1<<62))
	th := &Thread{Name: "t"}
	th.SetMaxExecutionSteps(N)
	log := &zzTickLog{}
	acts := 0
	env := zzC07Env(log)
	var choices [8]int
	env["act"] = NewBuiltin("act", func(thread *Thread, b *Builtin, args Tuple, kwargs []Tuple) (Value, error) {
		k := acts
		acts++
		c := zzChoice("act"+string(rune('0'+k)), 5)
		choices[k] = c
		switch c {
		case 1:
			thread.Cancel("a")
		case 2:
			thread.Cancel("b")
		case 3:
			thread.Uncancel()
		case 4: // two cancellations in a row (e.g. from two goroutines): the first reason wins
			thread.Cancel("a")
			thread.Cancel("b")
		}
		return None, nil
	})
	_, err := ExecFileOptions(zzC07Opts, th, "c.star", src, env)

	// Model. Walk the reference events in order; event e (the CALL instruction at step e.step)
	// executes iff e.step < N and no cancellation became pending at an earlier act.
	pending := ""
	wantTicks := 0
	actIdx := 0
	var limitFirst bool // the limit is what stopped the run (symbolic)
	stopped := false
	for _, e := range evs {
		if stopped {
			break
		}
		if e.act {
			if actIdx >= acts {
				// this act was not executed in the symbolic run: the limit struck before it
				break
			}
			switch choices[actIdx] {
			case 1, 4:
				pending = "a"
			case 2:
				pending = "b"
			}
			actIdx++
			if pending != "" {
				stopped = true
			}
		} else {
			wantTicks++
		}
	}
	_ = limitFirst
	if pending != "" {
		// a host cancellation was delivered by an executed act: it must be reported, even when
		// the step limit is reached at the very next loop head
		zzAssert(err != nil, "C07.cancel.fails")
		if err != nil {
			zzAssert(strings.HasSuffix(err.Error(), "cancelled: "+pending), "C07.cancel.first_reason")
		}
	} else {
		zzAssert((err == nil) == (total < N), "C07.cancel.limit_only")
		if err != nil {
			zzAssert(strings.HasSuffix(err.Error(), "cancelled: too many steps"), "C07.cancel.limit_reason")
		}
	}
	// no effect after the stopping point: every executed tick has a step below the limit, and
	// ticks following an effective cancel never run
	for _, st := range log.steps {
		zzAssert(st < N, "C07.cancel.no_effect_at_or_after_limit")
	}
	if pending != "" {
		zzAssert(len(log.steps) <= wantTicks, "C07.cancel.no_effect_after_cancel")
	}
	// a later execution on the same thread
	log2 := &zzTickLog{}
	reset := zzChoice("reset", 2) == 1
	if reset {
		th.Uncancel()
	}
	th.SetMaxExecutionSteps(1 << 62)
	_, err2 := ExecFileOptions(zzC07Opts, th, "d.star", "tick()\n", zzC07Env(log2))
	if err != nil && !reset {
		zzAssert(err2 != nil, "C07.cancel.persists")
		zzAssert(len(log2.steps) == 0, "C07.cancel.persists_no_effect")
		if err2 != nil && pending != "" {
			zzAssert(strings.HasSuffix(err2.Error(), "cancelled: "+pending), "C07.cancel.persists_reason")
		}
	} else {
		zzAssert(err2 == nil, "C07.cancel.reset_runs")
		zzAssert(len(log2.steps) == 1, "C07.cancel.reset_effect")
	}
	zzReach("end")
}

// zzH07_depth: with recursion enabled the frame-depth limit refuses calls beyond 100000 frames.
func zzH07_depth() {
	th := &Thread{Name: "t"}
	g, err := ExecFileOptions(zzC07Opts, th, "r.star", "def f():\n    return 1\n", nil)
	zzAssert(err == nil, "C07.depth.setup")
	fn := g["f"].(*Function)
	// pre-fill the thread's stack with a symbolic number of (shared) dummy frames
	depth := zzChoice("depthsel", 4)
	sizes := []int{0, 99_999, 100_000, 100_001}
	n := sizes[depth]
	dummy := &frame{callable: NewBuiltin("host", nil)}
	th.stack = make([]*frame, n, n+8)
	for i := range th.stack {
		th.stack[i] = dummy
	}
	_, err = Call(th, fn, nil, nil)
	// Call pushes one frame, so CallInternal sees n+1 frames; it refuses iff n+1 > 100000
	zzAssert((err != nil) == (n+1 > 100_000), "C07.depth.limit")
	zzAssert(len(th.stack) == n, "C07.depth.stack_restored")
	zzReach("end")
}
