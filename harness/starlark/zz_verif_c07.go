//go:build verif

package starlark

import (
	"strings"

	"go.starlark.net/syntax"
)

// Programs for the step-limit and cancellation harnesses. `tick()` is a host
// built-in recording an observable side effect; `act()` performs a host action
// chosen by the schedule.
var zzC07Progs = []string{
	// 0: straight line
	`tick()
tick()
x = 1 + 2
tick()
`,
	// 1: loop + nested call
	`def f(n):
    for i in range(n):
        tick()
    return n
def g():
    return f(2) + f(1)
g()
tick()
`,
	// 2: recursion, comprehension, callback through sorted(key=...)
	`def fact(n):
    tick()
    if n <= 1:
        return 1
    return n * fact(n - 1)
fact(3)
ys = [tick() for _ in range(2)]
def key(v):
    tick()
    return -v
sorted([1, 2], key=key)
tick()
`,
	// 3: infinite loop (while) — must be stopped by the limit for every N
	`def spin():
    while True:
        tick()
spin()
`,
}

var zzC07Opts = &syntax.FileOptions{Set: true, While: true, TopLevelControl: true, GlobalReassign: true, Recursion: true}

type zzTickLog struct {
	steps []uint64 // thread.Steps observed at each tick() call
}

func zzC07Env(log *zzTickLog) StringDict {
	return StringDict{
		"tick": NewBuiltin("tick", func(thread *Thread, b *Builtin, args Tuple, kwargs []Tuple) (Value, error) {
			log.steps = append(log.steps, thread.Steps)
			return None, nil
		}),
	}
}

// zzH07_limit: with a symbolic step limit N and a symbolic initial step count,
// exactly the instructions numbered below the limit execute; the run fails with a
// cancellation error iff the program needs N or more steps; step counts of
// completed runs do not depend on N.
//
//verif:unwind 400
//verif:decisions 2000
func zzH07_limit() {
	nprog := zzParam("programs", 2, 4)
	pi := zzChoice("prog", nprog)
	src := zzC07Progs[pi]
	// reference run without limit (concrete), bounded for the infinite program by a concrete limit
	ref := &zzTickLog{}
	t0 := &Thread{Name: "ref"}
	const refCap = 90
	t0.SetMaxExecutionSteps(refCap)
	_, err0 := ExecFileOptions(zzC07Opts, t0, "p.star", src, zzC07Env(ref))
	total := t0.Steps // number of steps the whole program needs (or refCap for the infinite one)
	infinite := err0 != nil
	zzObserve("total", total)

	// symbolic run
	N := zzU64("N")
	s0 := zzU64("s0")
	zzAssume(N >= 1)
	zzAssume(s0 < 1<<62)
	zzAssume(N < 1<<62)
	zzAssume(N > s0) // otherwise the very first instruction is refused; covered by zzH07_exhausted
	if infinite {
		zzAssume(N-s0 < refCap) // the reference run only knows the first refCap steps
	}
	log := &zzTickLog{}
	th := &Thread{Name: "t"}
	th.Steps = s0
	th.SetMaxExecutionSteps(N)
	_, err := ExecFileOptions(zzC07Opts, th, "p.star", src, zzC07Env(log))

	// instruction numbered k (1-based, relative) executes iff s0+k < N.
	// So the run completes iff s0+total < N.
	completes := zzAnd(zzNot(infinite), s0+total < N)
	zzAssert((err == nil) == completes, "C07.limit.fails_iff_needed")
	if err != nil {
		zzAssert(strings.Contains(err.Error(), "cancelled"), "C07.limit.error_is_cancellation")
		// never executes N or more steps: the counter stops exactly at N
		zzAssert(th.Steps == N, "C07.limit.counter_stops_at_limit")
	} else {
		zzAssert(th.Steps-s0 == total, "C07.limit.step_count_independent_of_limit")
	}
	// observable effects: tick i happened iff its (relative) step index is below the limit
	want := 0
	for _, st := range ref.steps {
		want += zzIteInt(s0+st < N, 1, 0)
	}
	zzObserve("ticks", len(log.steps))
	zzAssert(len(log.steps) == want, "C07.limit.no_effect_at_or_after_limit")
	for i := range log.steps {
		zzAssert(log.steps[i]-s0 == ref.steps[i], "C07.limit.same_steps_per_effect")
	}
	zzReach("end")
}

// zzH07_exhausted: a thread whose counter has already reached the limit executes nothing.
func zzH07_exhausted() {
	N := zzU64("N")
	s0 := zzU64("s0")
	zzAssume(N >= 1)
	zzAssume(s0 >= N)
	zzAssume(s0 < 1<<63)
	log := &zzTickLog{}
	th := &Thread{Name: "t"}
	th.Steps = s0
	th.SetMaxExecutionSteps(N)
	_, err := ExecFileOptions(zzC07Opts, th, "p.star", zzC07Progs[0], zzC07Env(log))
	zzAssert(err != nil, "C07.exhausted.fails")
	zzAssert(len(log.steps) == 0, "C07.exhausted.no_effect")
	zzReach("end")
}

// zzH07_cancel: host actions injected at every act() call. After the first
// effective Cancel no further tick happens; the error names the first reason since
// the last Uncancel; cancellation persists for the next execution unless reset.
//
//verif:unwind 200
func zzH07_cancel() {
	const src = `def body(i):
    act()
    tick()
for i in range(3):
    body(i)
act()
tick()
`
	nacts := 4
	th := &Thread{Name: "t"}
	log := &zzTickLog{}
	var pending string // model: reason in force ("" = none)
	acts := 0
	ticksWhenCancelled := -1
	env := zzC07Env(log)
	env["act"] = NewBuiltin("act", func(thread *Thread, b *Builtin, args Tuple, kwargs []Tuple) (Value, error) {
		k := acts
		acts++
		switch zzChoice("act"+string(rune('0'+k)), 5) {
		case 4: // two cancellations in a row (e.g. from two goroutines): the first reason wins
			thread.Cancel("a")
			thread.Cancel("b")
			if pending == "" {
				pending = "a"
				ticksWhenCancelled = len(log.steps)
			}
		case 1:
			thread.Cancel("a")
			if pending == "" {
				pending = "a"
				ticksWhenCancelled = len(log.steps)
			}
		case 2:
			thread.Cancel("b")
			if pending == "" {
				pending = "b"
				ticksWhenCancelled = len(log.steps)
			}
		case 3:
			thread.Uncancel()
			pending = ""
			ticksWhenCancelled = -1
		}
		return None, nil
	})
	_ = nacts
	_, err := ExecFileOptions(zzC07Opts, th, "c.star", src, env)
	// The program calls act() 4 times unless cancelled earlier. Cancellation takes effect at the
	// next instruction after the built-in returns: no tick after an effective cancel.
	if pending != "" {
		zzAssert(err != nil, "C07.cancel.fails")
		if err != nil {
			zzAssert(strings.HasSuffix(err.Error(), "cancelled: "+pending), "C07.cancel.first_reason")
		}
		zzAssert(len(log.steps) == ticksWhenCancelled, "C07.cancel.no_effect_after_cancel")
	} else {
		zzAssert(err == nil, "C07.cancel.uncancelled_completes")
		zzAssert(len(log.steps) == 4, "C07.cancel.all_effects")
	}
	// a later execution on the same thread
	log2 := &zzTickLog{}
	reset := zzChoice("reset", 2) == 1
	if reset {
		th.Uncancel()
	}
	_, err2 := ExecFileOptions(zzC07Opts, th, "d.star", "tick()\n", zzC07Env(log2))
	if pending != "" && !reset {
		zzAssert(err2 != nil, "C07.cancel.persists")
		zzAssert(len(log2.steps) == 0, "C07.cancel.persists_no_effect")
		if err2 != nil {
			zzAssert(strings.HasSuffix(err2.Error(), "cancelled: "+pending), "C07.cancel.persists_reason")
		}
	} else {
		zzAssert(err2 == nil, "C07.cancel.reset_runs")
		zzAssert(len(log2.steps) == 1, "C07.cancel.reset_effect")
	}
	zzReach("end")
}

// zzH07_depth: with recursion enabled the frame-depth limit refuses calls beyond 100000 frames.
func zzH07_depth() {
	th := &Thread{Name: "t"}
	g, err := ExecFileOptions(zzC07Opts, th, "r.star", "def f():\n    return 1\n", nil)
	zzAssert(err == nil, "C07.depth.setup")
	fn := g["f"].(*Function)
	// pre-fill the thread's stack with a symbolic number of (shared) dummy frames
	depth := zzChoice("depthsel", 4)
	sizes := []int{0, 99_999, 100_000, 100_001}
	n := sizes[depth]
	dummy := &frame{callable: NewBuiltin("host", nil)}
	th.stack = make([]*frame, n, n+8)
	for i := range th.stack {
		th.stack[i] = dummy
	}
	_, err = Call(th, fn, nil, nil)
	// Call pushes one frame, so CallInternal sees n+1 frames; it refuses iff n+1 > 100000
	zzAssert((err != nil) == (n+1 > 100_000), "C07.depth.limit")
	zzAssert(len(th.stack) == n, "C07.depth.stack_restored")
	zzReach("end")
}
