//go:build verif

package starlark

// H01.1 (VM half): the effect of every opcode of the bytecode interpreter on the operand
// stack equals the documented stack picture (and hence, by zzH01_stackeffect in package
// compile, the compiler's static stack-effect table), for hand-assembled functions
//
//	CONSTANT<sentinel> ; NONE^d ; <operands> ; OP<arg> ; [observers] ; MAKETUPLE<1+d+nout> ; RETURN
//
// with MaxStack set to exactly the depth the documented pictures predict: an instruction
// that pushes more than documented indexes past the stack (panic) or shifts the sentinel
// out of element 0; one that pops more than documented makes MAKETUPLE underflow or
// shifts a filler into the result. The values left on the stack are compared with a
// per-opcode reference (operand order of binary operations, DUP2/EXCH/UNPACK order,
// CALL argument decoding, MAKEFUNC split of defaults and free variables, LOAD order,
// local/cell/global/free indexing).

import (
	"fmt"

	"go.starlark.net/internal/compile"
	"go.starlark.net/syntax"
)

type zzVMIns struct {
	op  compile.Opcode
	arg uint32
	to  string // jump target label (arg is resolved by the assembler)
	def string // label defined at this instruction
}

func zzVMI(op compile.Opcode) zzVMIns              { return zzVMIns{op: op} }
func zzVMA(op compile.Opcode, arg uint32) zzVMIns  { return zzVMIns{op: op, arg: arg} }
func zzVMJ(op compile.Opcode, to string) zzVMIns   { return zzVMIns{op: op, to: to} }
func zzVML(def string, ins zzVMIns) zzVMIns        { ins.def = def; return ins }
func zzVMK(i int) zzVMIns                          { return zzVMIns{op: compile.CONSTANT, arg: uint32(i)} }

// zzVMAsm assembles instructions; operands are 7-bit little-endian varints; jump operands
// are padded to 4 bytes with NOPs (as the compiler does) so that addresses are known.
func zzVMAsm(ins []zzVMIns) []byte {
	size := func(in zzVMIns) uint32 {
		if in.op < compile.OpcodeArgMin {
			return 1
		}
		if in.to != "" {
			return 5
		}
		n := uint32(2)
		for x := in.arg; x >= 0x80; x >>= 7 {
			n++
		}
		return n
	}
	labels := make(map[string]uint32)
	var pc uint32
	for _, in := range ins {
		if in.def != "" {
			labels[in.def] = pc
		}
		pc += size(in)
	}
	labels["$end"] = pc
	var code []byte
	for _, in := range ins {
		code = append(code, byte(in.op))
		if in.op < compile.OpcodeArgMin {
			continue
		}
		x := in.arg
		end := len(code)
		if in.to != "" {
			x = labels[in.to]
			end = len(code) + 4
		}
		for x >= 0x80 {
			code = append(code, byte(x)|0x80)
			x >>= 7
		}
		code = append(code, byte(x))
		for len(code) < end {
			code = append(code, byte(compile.NOP))
		}
	}
	return code
}

// zzVMEnv: the objects a case refers to.
type zzVMEnv struct {
	a, b       Value // symbolic Ints
	av, bv     int64
	list       *List
	dict       *Dict
	obj        *zzC01Obj
	locals     Tuple // arguments = initial values of the 3 parameters
	cells      []*cell
	globals    []Value
	callArgs   Tuple
	callKwargs []Tuple
	called     int
	module     *Module
	inner      *compile.Funcode
}

type zzVMCase struct {
	name   string
	consts []Value  // constant pool entries 1.. (0 is the sentinel)
	code   []zzVMIns // operands, instruction under test, observers
	peak   int      // documented maximal depth above the fillers while code runs
	nout   int      // documented number of values above the fillers after code
	isRet  bool     // the instruction under test is RETURN: result is the returned value
	fails  bool     // the run is expected to fail (no result)
	check  func(out Tuple, e *zzVMEnv) bool
}

var zzVMBinTok = map[compile.Opcode]syntax.Token{
	compile.PLUS: syntax.PLUS, compile.MINUS: syntax.MINUS, compile.STAR: syntax.STAR, compile.SLASH: syntax.SLASH,
	compile.SLASHSLASH: syntax.SLASHSLASH, compile.PERCENT: syntax.PERCENT, compile.AMP: syntax.AMP, compile.PIPE: syntax.PIPE,
	compile.CIRCUMFLEX: syntax.CIRCUMFLEX, compile.LTLT: syntax.LTLT, compile.GTGT: syntax.GTGT, compile.IN: syntax.IN,
}

var zzVMCaseNames = []string{
	"NOP", "DUP", "DUP2", "POP", "EXCH",
	"LT", "GT", "GE", "LE", "EQL", "NEQ",
	"PLUS", "MINUS", "STAR", "SLASH", "SLASHSLASH", "PERCENT", "AMP", "PIPE", "CIRCUMFLEX", "LTLT", "GTGT", "IN",
	"UPLUS", "UMINUS", "TILDE", "NONE", "TRUE", "FALSE", "MANDATORY",
	"ITERPUSH", "ITERPOP", "NOT", "RETURN", "SETINDEX", "INDEX", "SETDICT", "SETDICTUNIQ", "APPEND", "SLICE",
	"INPLACE_ADD", "INPLACE_ADD_list", "INPLACE_PIPE", "INPLACE_PIPE_dict", "MAKEDICT",
	"JMP", "CJMP", "ITERJMP_next", "ITERJMP_done",
	"CONSTANT", "CONSTANT_wide", "MAKETUPLE", "MAKELIST", "MAKEFUNC", "LOAD",
	"SETLOCAL", "SETGLOBAL", "LOCAL", "FREE", "FREECELL", "LOCALCELL", "SETLOCALCELL", "GLOBAL", "PREDECLARED", "UNIVERSAL",
	"ATTR", "SETFIELD", "UNPACK", "CALL", "CALL_VAR", "CALL_KW", "CALL_VAR_KW",
	"LOCAL_unbound", "GLOBAL_unbound",
}

func zzVMEq(x, y Value) bool {
	eq, err := Equal(x, y)
	return err == nil && eq
}

func zzVMTupleEq(x Tuple, y ...Value) bool {
	if len(x) != len(y) {
		return false
	}
	ok := true
	for i := range x {
		ok = zzAnd(ok, zzVMEq(x[i], y[i]))
	}
	return ok
}

// zzVMMake builds the case for an opcode. Names pool: 0 "f", 1 "v0"(predeclared), 2 "len".
func zzVMMake(name string, e *zzVMEnv) zzVMCase {
	A, B := e.a, e.b
	c := zzVMCase{name: name}
	two := func(op compile.Opcode) {
		c.consts = []Value{A, B}
		c.code = []zzVMIns{zzVMK(1), zzVMK(2), zzVMI(op)}
		c.peak, c.nout = 2, 1
	}
	switch name {
	case "NOP":
		c.consts = []Value{A}
		c.code = []zzVMIns{zzVMK(1), zzVMI(compile.NOP)}
		c.peak, c.nout = 1, 1
		c.check = func(out Tuple, e *zzVMEnv) bool { return zzVMTupleEq(out, A) }
	case "DUP":
		c.consts = []Value{A, B}
		c.code = []zzVMIns{zzVMK(1), zzVMK(2), zzVMI(compile.DUP)}
		c.peak, c.nout = 3, 3
		c.check = func(out Tuple, e *zzVMEnv) bool { return zzVMTupleEq(out, A, B, B) }
	case "DUP2":
		c.consts = []Value{A, B}
		c.code = []zzVMIns{zzVMK(1), zzVMK(2), zzVMI(compile.DUP2)}
		c.peak, c.nout = 4, 4
		c.check = func(out Tuple, e *zzVMEnv) bool { return zzVMTupleEq(out, A, B, A, B) }
	case "POP":
		two(compile.POP)
		c.check = func(out Tuple, e *zzVMEnv) bool { return zzVMTupleEq(out, A) }
	case "EXCH":
		two(compile.EXCH)
		c.nout = 2
		c.check = func(out Tuple, e *zzVMEnv) bool { return zzVMTupleEq(out, B, A) }
	case "LT", "GT", "GE", "LE", "EQL", "NEQ":
		ops := map[string]compile.Opcode{"LT": compile.LT, "GT": compile.GT, "GE": compile.GE, "LE": compile.LE, "EQL": compile.EQL, "NEQ": compile.NEQ}
		two(ops[name])
		av, bv := e.av, e.bv
		var want bool
		switch name {
		case "LT":
			want = av < bv
		case "GT":
			want = av > bv
		case "GE":
			want = av >= bv
		case "LE":
			want = av <= bv
		case "EQL":
			want = av == bv
		case "NEQ":
			want = av != bv
		}
		c.check = func(out Tuple, e *zzVMEnv) bool {
			b, ok := out[0].(Bool)
			return zzAnd(ok, bool(b) == want)
		}
	case "PLUS", "MINUS", "STAR", "SLASH", "SLASHSLASH", "PERCENT", "AMP", "PIPE", "CIRCUMFLEX", "LTLT", "GTGT":
		ops := map[string]compile.Opcode{"PLUS": compile.PLUS, "MINUS": compile.MINUS, "STAR": compile.STAR, "SLASH": compile.SLASH,
			"SLASHSLASH": compile.SLASHSLASH, "PERCENT": compile.PERCENT, "AMP": compile.AMP, "PIPE": compile.PIPE,
			"CIRCUMFLEX": compile.CIRCUMFLEX, "LTLT": compile.LTLT, "GTGT": compile.GTGT}
		op := ops[name]
		two(op)
		want, werr := Binary(zzVMBinTok[op], A, B)
		c.fails = werr != nil
		c.check = func(out Tuple, e *zzVMEnv) bool { return zzVMEq(out[0], want) }
	case "IN":
		l := NewList([]Value{MakeInt(3), B})
		c.consts = []Value{A, l}
		c.code = []zzVMIns{zzVMK(1), zzVMK(2), zzVMI(compile.IN)}
		c.peak, c.nout = 2, 1
		want := zzOr(e.av == 3, e.av == e.bv)
		c.check = func(out Tuple, e *zzVMEnv) bool {
			b, ok := out[0].(Bool)
			return zzAnd(ok, bool(b) == want)
		}
	case "UPLUS", "UMINUS", "TILDE":
		ops := map[string]compile.Opcode{"UPLUS": compile.UPLUS, "UMINUS": compile.UMINUS, "TILDE": compile.TILDE}
		c.consts = []Value{A}
		c.code = []zzVMIns{zzVMK(1), zzVMI(ops[name])}
		c.peak, c.nout = 1, 1
		var want int64
		switch name {
		case "UPLUS":
			want = e.av
		case "UMINUS":
			want = -e.av
		case "TILDE":
			want = ^e.av
		}
		c.check = func(out Tuple, e *zzVMEnv) bool { return zzVMEq(out[0], MakeInt64(want)) }
	case "NONE", "TRUE", "FALSE", "MANDATORY":
		ops := map[string]compile.Opcode{"NONE": compile.NONE, "TRUE": compile.TRUE, "FALSE": compile.FALSE, "MANDATORY": compile.MANDATORY}
		c.code = []zzVMIns{zzVMI(ops[name])}
		c.peak, c.nout = 1, 1
		c.check = func(out Tuple, e *zzVMEnv) bool {
			switch name {
			case "NONE":
				return out[0] == None
			case "TRUE":
				return out[0] == True
			case "FALSE":
				return out[0] == False
			}
			_, ok := out[0].(mandatory)
			return ok
		}
	case "ITERPUSH":
		c.consts = []Value{A, e.list}
		c.code = []zzVMIns{zzVMK(1), zzVMK(2), zzVMI(compile.ITERPUSH)}
		c.peak, c.nout = 2, 1
		c.check = func(out Tuple, e *zzVMEnv) bool { return zzAnd(zzVMTupleEq(out, A), e.list.itercount == 0) }
	case "ITERPOP":
		c.consts = []Value{A, e.list}
		c.code = []zzVMIns{zzVMK(1), zzVMK(2), zzVMI(compile.ITERPUSH), zzVMI(compile.ITERPOP), zzVMK(2), zzVMK(1), zzVMI(compile.APPEND)}
		c.peak, c.nout = 3, 1
		// after ITERPOP the list is no longer being iterated; APPEND itself does not check,
		// so observe the iteration count through the result of the run
		c.check = func(out Tuple, e *zzVMEnv) bool { return zzAnd(zzVMTupleEq(out, A), e.list.itercount == 0) }
	case "NOT":
		c.consts = []Value{A}
		c.code = []zzVMIns{zzVMK(1), zzVMI(compile.NOT)}
		c.peak, c.nout = 1, 1
		want := e.av == 0
		c.check = func(out Tuple, e *zzVMEnv) bool {
			b, ok := out[0].(Bool)
			return zzAnd(ok, bool(b) == want)
		}
	case "RETURN":
		c.consts = []Value{A, B}
		c.code = []zzVMIns{zzVMK(1), zzVMK(2), zzVMI(compile.RETURN)}
		c.peak, c.nout = 2, 1
		c.isRet = true
		c.check = func(out Tuple, e *zzVMEnv) bool { return zzVMEq(out[0], B) }
	case "SETINDEX":
		c.consts = []Value{e.list, MakeInt(1), A}
		c.code = []zzVMIns{zzVMK(1), zzVMK(2), zzVMK(3), zzVMI(compile.SETINDEX)}
		c.peak, c.nout = 3, 0
		c.check = func(out Tuple, e *zzVMEnv) bool {
			return zzAnd(e.list.Len() == 3, zzAnd(zzVMEq(e.list.Index(1), A), zzVMEq(e.list.Index(0), MakeInt(10))))
		}
	case "INDEX":
		c.consts = []Value{e.list, MakeInt(2)}
		c.code = []zzVMIns{zzVMK(1), zzVMK(2), zzVMI(compile.INDEX)}
		c.peak, c.nout = 2, 1
		c.check = func(out Tuple, e *zzVMEnv) bool { return zzVMEq(out[0], MakeInt(12)) }
	case "SETDICT", "SETDICTUNIQ":
		op := compile.SETDICT
		if name == "SETDICTUNIQ" {
			op = compile.SETDICTUNIQ
		}
		c.consts = []Value{e.dict, String("k"), A}
		c.code = []zzVMIns{zzVMK(1), zzVMK(2), zzVMK(3), zzVMI(op)}
		c.peak, c.nout = 3, 0
		c.check = func(out Tuple, e *zzVMEnv) bool {
			v, found, _ := e.dict.Get(String("k"))
			return found && zzVMEq(v, A) && e.dict.Len() == 2
		}
	case "APPEND":
		c.consts = []Value{e.list, A}
		c.code = []zzVMIns{zzVMK(1), zzVMK(2), zzVMI(compile.APPEND)}
		c.peak, c.nout = 2, 0
		c.check = func(out Tuple, e *zzVMEnv) bool { return e.list.Len() == 4 && zzVMEq(e.list.Index(3), A) }
	case "SLICE":
		c.consts = []Value{e.list, MakeInt(1), MakeInt(3), MakeInt(1)}
		c.code = []zzVMIns{zzVMK(1), zzVMK(2), zzVMK(3), zzVMK(4), zzVMI(compile.SLICE)}
		c.peak, c.nout = 4, 1
		c.check = func(out Tuple, e *zzVMEnv) bool {
			l, ok := out[0].(*List)
			return ok && l.Len() == 2 && zzVMEq(l.Index(0), MakeInt(11)) && zzVMEq(l.Index(1), MakeInt(12))
		}
	case "INPLACE_ADD":
		two(compile.INPLACE_ADD)
		want := MakeInt64(e.av + e.bv)
		c.check = func(out Tuple, e *zzVMEnv) bool { return zzVMEq(out[0], want) }
	case "INPLACE_ADD_list":
		c.consts = []Value{e.list, Tuple{A, B}}
		c.code = []zzVMIns{zzVMK(1), zzVMK(2), zzVMI(compile.INPLACE_ADD)}
		c.peak, c.nout = 2, 1
		c.check = func(out Tuple, e *zzVMEnv) bool {
			return out[0] == Value(e.list) && e.list.Len() == 5 && zzVMEq(e.list.Index(3), A) && zzVMEq(e.list.Index(4), B)
		}
	case "INPLACE_PIPE":
		two(compile.INPLACE_PIPE)
		want := MakeInt64(e.av | e.bv)
		c.check = func(out Tuple, e *zzVMEnv) bool { return zzVMEq(out[0], want) }
	case "INPLACE_PIPE_dict":
		d2 := new(Dict)
		d2.SetKey(String("z"), A)
		c.consts = []Value{e.dict, d2}
		c.code = []zzVMIns{zzVMK(1), zzVMK(2), zzVMI(compile.INPLACE_PIPE)}
		c.peak, c.nout = 2, 1
		c.check = func(out Tuple, e *zzVMEnv) bool {
			v, found, _ := e.dict.Get(String("z"))
			return out[0] == Value(e.dict) && found && zzVMEq(v, A) && d2.Len() == 1
		}
	case "MAKEDICT":
		c.code = []zzVMIns{zzVMI(compile.MAKEDICT)}
		c.peak, c.nout = 1, 1
		c.check = func(out Tuple, e *zzVMEnv) bool {
			d, ok := out[0].(*Dict)
			return ok && d.Len() == 0
		}
	case "JMP":
		c.consts = []Value{A, B}
		c.code = []zzVMIns{zzVMK(1), zzVMJ(compile.JMP, "L"), zzVMI(compile.POP), zzVMI(compile.POP), zzVML("L", zzVMK(2))}
		c.peak, c.nout = 2, 2
		c.check = func(out Tuple, e *zzVMEnv) bool { return zzVMTupleEq(out, A, B) }
	case "CJMP":
		c.consts = []Value{A, String("F"), String("T")}
		c.code = []zzVMIns{zzVMK(1), zzVMJ(compile.CJMP, "T"), zzVMK(2), zzVMJ(compile.JMP, "E"), zzVML("T", zzVMK(3)), zzVML("E", zzVMI(compile.NOP))}
		c.peak, c.nout = 1, 1
		want := e.av != 0
		c.check = func(out Tuple, e *zzVMEnv) bool {
			s, ok := out[0].(String)
			if !ok {
				return false
			}
			return zzOr(zzAnd(want, s == "T"), zzAnd(!want, s == "F"))
		}
	case "ITERJMP_next":
		// fall through with the next element pushed
		c.consts = []Value{e.list, String("done")}
		c.code = []zzVMIns{zzVMK(1), zzVMI(compile.ITERPUSH), zzVMJ(compile.ITERJMP, "D"), zzVMJ(compile.JMP, "E"), zzVML("D", zzVMK(2)), zzVML("E", zzVMI(compile.NOP))}
		c.peak, c.nout = 1, 1
		c.check = func(out Tuple, e *zzVMEnv) bool { return zzVMEq(out[0], MakeInt(10)) }
	case "ITERJMP_done":
		// exhausted: jump, nothing pushed
		c.consts = []Value{NewList(nil), String("done"), String("elem?")}
		c.code = []zzVMIns{zzVMK(1), zzVMI(compile.ITERPUSH), zzVMJ(compile.ITERJMP, "D"), zzVMI(compile.POP), zzVMK(3), zzVMJ(compile.JMP, "E"), zzVML("D", zzVMK(2)), zzVML("E", zzVMI(compile.NOP))}
		c.peak, c.nout = 1, 1
		c.check = func(out Tuple, e *zzVMEnv) bool { return zzVMEq(out[0], String("done")) }
	case "CONSTANT":
		k := 1 + zzChoice("k", 3)
		c.consts = []Value{A, B, String("c")}
		c.code = []zzVMIns{zzVMK(k)}
		c.peak, c.nout = 1, 1
		c.check = func(out Tuple, e *zzVMEnv) bool { return zzVMEq(out[0], c.consts[k-1]) }
	case "CONSTANT_wide":
		// operands that need 2 and 3 bytes (7-bit groups), including zero groups
		ks := []int{127, 128, 129, 300, 16383, 16384, 16512}
		k := ks[zzChoice("k", len(ks))]
		c.consts = make([]Value, k)
		for i := range c.consts {
			c.consts[i] = None
		}
		c.consts[k-2] = B
		c.consts[k-1] = A
		c.code = []zzVMIns{zzVMK(k - 1), zzVMK(k)}
		c.peak, c.nout = 2, 2
		c.check = func(out Tuple, e *zzVMEnv) bool { return zzVMTupleEq(out, B, A) }
	case "MAKETUPLE", "MAKELIST":
		n := zzChoice("n", 4)
		vals := []Value{A, B, String("c")}[:n]
		c.consts = []Value{A, B, String("c")}
		for i := 0; i < n; i++ {
			c.code = append(c.code, zzVMK(1+i))
		}
		op := compile.MAKETUPLE
		if name == "MAKELIST" {
			op = compile.MAKELIST
		}
		c.code = append(c.code, zzVMA(op, uint32(n)))
		c.peak, c.nout = n, 1
		if n == 0 {
			c.peak = 1
		}
		c.check = func(out Tuple, e *zzVMEnv) bool {
			if name == "MAKELIST" {
				l, ok := out[0].(*List)
				return ok && zzVMTupleEq(Tuple(l.elems), vals...)
			}
			t, ok := out[0].(Tuple)
			return ok && zzVMTupleEq(t, vals...)
		}
	case "MAKEFUNC":
		// inner function has 2 free variables; the tuple holds ndef defaults then the 2 cells
		ndef := zzChoice("ndef", 3)
		t := Tuple{A, B}[:ndef]
		t = append(append(Tuple{}, t...), e.cells[0], e.cells[1])
		c.consts = []Value{t}
		c.code = []zzVMIns{zzVMK(1), zzVMA(compile.MAKEFUNC, 0)}
		c.peak, c.nout = 1, 1
		c.check = func(out Tuple, e *zzVMEnv) bool {
			f, ok := out[0].(*Function)
			if !ok || f.funcode != e.inner || f.module != e.module {
				return false
			}
			return len(f.defaults) == ndef && zzVMTupleEq(f.defaults, t[:ndef]...) &&
				len(f.freevars) == 2 && f.freevars[0] == Value(e.cells[0]) && f.freevars[1] == Value(e.cells[1])
		}
	case "LOAD":
		// from1 from2 module LOAD<2> => v1 v2
		c.consts = []Value{String("a"), String("B"), String("lib.star")}
		c.code = []zzVMIns{zzVMK(1), zzVMK(2), zzVMK(3), zzVMA(compile.LOAD, 2)}
		c.peak, c.nout = 3, 2
		c.check = func(out Tuple, e *zzVMEnv) bool { return zzVMTupleEq(out, MakeInt(7), String("bee")) }
	case "SETLOCAL":
		i := zzChoice("i", 2) // (local 2 is a cell)
		c.consts = []Value{A}
		c.code = []zzVMIns{zzVMK(1), zzVMA(compile.SETLOCAL, uint32(i)), zzVMA(compile.LOCAL, 0), zzVMA(compile.LOCAL, 1), zzVMA(compile.LOCALCELL, 2)}
		c.peak, c.nout = 3, 3
		c.check = func(out Tuple, e *zzVMEnv) bool {
			want := append(Tuple{}, e.locals...)
			want[i] = A
			return zzVMTupleEq(out, want...)
		}
	case "LOCAL":
		i := zzChoice("i", 2)
		c.code = []zzVMIns{zzVMA(compile.LOCAL, uint32(i))}
		c.peak, c.nout = 1, 1
		c.check = func(out Tuple, e *zzVMEnv) bool { return zzVMEq(out[0], e.locals[i]) }
	case "SETGLOBAL":
		i := zzChoice("i", 3)
		c.consts = []Value{A}
		c.code = []zzVMIns{zzVMK(1), zzVMA(compile.SETGLOBAL, uint32(i))}
		c.peak, c.nout = 1, 0
		c.check = func(out Tuple, e *zzVMEnv) bool {
			ok := true
			for j := 0; j < 3; j++ {
				if j == i {
					ok = ok && zzVMEq(e.module.globals[j], A)
				} else {
					ok = ok && e.module.globals[j] == e.globals[j]
				}
			}
			return ok
		}
	case "GLOBAL":
		i := zzChoice("i", 2)
		c.code = []zzVMIns{zzVMA(compile.GLOBAL, uint32(i))}
		c.peak, c.nout = 1, 1
		c.check = func(out Tuple, e *zzVMEnv) bool { return out[0] == e.globals[i] }
	case "FREE":
		i := zzChoice("i", 2)
		c.code = []zzVMIns{zzVMA(compile.FREE, uint32(i))}
		c.peak, c.nout = 1, 1
		c.check = func(out Tuple, e *zzVMEnv) bool { return out[0] == Value(e.cells[i]) }
	case "FREECELL":
		i := zzChoice("i", 2)
		c.code = []zzVMIns{zzVMA(compile.FREECELL, uint32(i))}
		c.peak, c.nout = 1, 1
		c.check = func(out Tuple, e *zzVMEnv) bool { return out[0] == e.cells[i].v }
	case "LOCALCELL":
		// local 2 is a cell (Funcode.Cells = [2])
		c.code = []zzVMIns{zzVMA(compile.LOCALCELL, 2)}
		c.peak, c.nout = 1, 1
		c.check = func(out Tuple, e *zzVMEnv) bool { return zzVMEq(out[0], e.locals[2]) }
	case "SETLOCALCELL":
		c.consts = []Value{A}
		c.code = []zzVMIns{zzVMK(1), zzVMA(compile.SETLOCALCELL, 2), zzVMA(compile.LOCALCELL, 2), zzVMA(compile.LOCAL, 0), zzVMA(compile.LOCAL, 1)}
		c.peak, c.nout = 3, 3
		c.check = func(out Tuple, e *zzVMEnv) bool { return zzVMTupleEq(out, A, e.locals[0], e.locals[1]) }
	case "PREDECLARED":
		c.code = []zzVMIns{zzVMA(compile.PREDECLARED, 1)}
		c.peak, c.nout = 1, 1
		c.check = func(out Tuple, e *zzVMEnv) bool { return zzVMEq(out[0], B) }
	case "UNIVERSAL":
		c.code = []zzVMIns{zzVMA(compile.UNIVERSAL, 2)}
		c.peak, c.nout = 1, 1
		c.check = func(out Tuple, e *zzVMEnv) bool { return out[0] == Universe["len"] }
	case "ATTR":
		c.consts = []Value{A, e.obj}
		c.code = []zzVMIns{zzVMK(1), zzVMK(2), zzVMA(compile.ATTR, 0)}
		c.peak, c.nout = 2, 2
		c.check = func(out Tuple, e *zzVMEnv) bool { return zzVMTupleEq(out, A, MakeInt(77)) }
	case "SETFIELD":
		c.consts = []Value{B, e.obj, A}
		c.code = []zzVMIns{zzVMK(1), zzVMK(2), zzVMK(3), zzVMA(compile.SETFIELD, 0)}
		c.peak, c.nout = 3, 1
		c.check = func(out Tuple, e *zzVMEnv) bool { return zzAnd(zzVMTupleEq(out, B), zzVMEq(e.obj.vals[0], A)) }
	case "UNPACK":
		n := zzChoice("n", 4)
		vals := Tuple{A, B, String("c")}[:n]
		c.consts = []Value{vals}
		c.code = []zzVMIns{zzVMK(1), zzVMA(compile.UNPACK, uint32(n))}
		c.peak, c.nout = n, n
		if n == 0 {
			c.peak = 1
		}
		c.check = func(out Tuple, e *zzVMEnv) bool {
			ok := true
			for i := 0; i < n; i++ { // vn ... v1: the first element ends on top
				ok = zzAnd(ok, zzVMEq(out[n-1-i], vals[i]))
			}
			return ok
		}
	case "CALL", "CALL_VAR", "CALL_KW", "CALL_VAR_KW":
		npos := zzChoice("npos", zzParam("call_npos", 2, 4))
		if zzParam("call_npos", 2, 4) == 2 {
			npos *= 3 // quick: 0 or 3 positional arguments
		}
		nnamed := zzChoice("nnamed", zzParam("call_nnamed", 2, 3))
		rec := NewBuiltin("rec", func(thread *Thread, b *Builtin, args Tuple, kwargs []Tuple) (Value, error) {
			e.called++
			e.callArgs = append(Tuple{}, args...)
			e.callKwargs = append([]Tuple{}, kwargs...)
			return String("result"), nil
		})
		pos := Tuple{A, B, String("p3")}[:npos]
		names := []Value{String("x"), String("y")}[:nnamed]
		nvals := []Value{B, A}[:nnamed]
		star := Tuple{String("s1"), A}
		kw := new(Dict)
		kw.SetKey(String("kx"), B)
		kw.SetKey(String("ky"), String("kv"))
		c.consts = []Value{String("below"), rec}
		c.code = []zzVMIns{zzVMK(1), zzVMK(2)}
		push := func(v Value) {
			c.consts = append(c.consts, v)
			c.code = append(c.code, zzVMK(len(c.consts)))
		}
		for _, v := range pos {
			push(v)
		}
		for i := range names {
			push(names[i])
			push(nvals[i])
		}
		depth := 2 + npos + 2*nnamed
		op := compile.CALL
		wantArgs := append(Tuple{}, pos...)
		var wantKw []Tuple
		for i := range names {
			wantKw = append(wantKw, Tuple{names[i], nvals[i]})
		}
		if name == "CALL_VAR" || name == "CALL_VAR_KW" {
			push(star)
			depth++
			wantArgs = append(wantArgs, star...)
		}
		if name == "CALL_KW" || name == "CALL_VAR_KW" {
			push(kw)
			depth++
			wantKw = append(wantKw, Tuple{String("kx"), B}, Tuple{String("ky"), String("kv")})
		}
		switch name {
		case "CALL_VAR":
			op = compile.CALL_VAR
		case "CALL_KW":
			op = compile.CALL_KW
		case "CALL_VAR_KW":
			op = compile.CALL_VAR_KW
		}
		c.code = append(c.code, zzVMA(op, uint32(npos<<8|nnamed)))
		c.peak, c.nout = depth, 2
		c.check = func(out Tuple, e *zzVMEnv) bool {
			if e.called != 1 || !zzVMTupleEq(out, String("below"), String("result")) {
				return false
			}
			if !zzVMTupleEq(e.callArgs, wantArgs...) || len(e.callKwargs) != len(wantKw) {
				return false
			}
			ok := true
			for i := range wantKw {
				ok = zzAnd(ok, zzVMTupleEq(e.callKwargs[i], wantKw[i]...))
			}
			return ok
		}
	case "LOCAL_unbound":
		// local 3 is not a parameter and has not been assigned: dynamic error, not a nil on the stack
		c.code = []zzVMIns{zzVMA(compile.LOCAL, 3)}
		c.peak, c.nout = 1, 1
		c.fails = true
	case "GLOBAL_unbound":
		c.code = []zzVMIns{zzVMA(compile.GLOBAL, 2)}
		c.peak, c.nout = 1, 1
		c.fails = true
	default:
		panic("zzVMMake: no case for " + name)
	}
	return c
}

// zzH01_vm_stack: see the file comment. a, b: symbolic int8 (the operators themselves are the subject of C10; bounded where an operator
// requires: shift counts 0..7).
//
//verif:unwind 100
func zzH01_vm_stack() {
	name := zzVMCaseNames[zzChoice("case", len(zzVMCaseNames))]
	d := zzChoice("fillers", zzParam("filler_depths", 1, 3))
	av, bv := int64(zzI8("a")), int64(zzI8("b"))
	switch name {
	case "LTLT", "GTGT":
		zzAssume(zzAnd(bv >= 0, bv < 8))
	case "SLASH":
		// float division of symbolic operands is out of the solver's reach; the point here is
		// operand order and stack depth, for which concrete operands suffice
		av, bv = 7, 2
	case "SLASHSLASH", "PERCENT":
		bv = 3 // symbolic dividend, concrete divisor (symbolic/symbolic division: see C10)
	}
	e := &zzVMEnv{a: MakeInt64(av), b: MakeInt64(bv), av: av, bv: bv}
	e.list = NewList([]Value{MakeInt(10), MakeInt(11), MakeInt(12)})
	e.dict = new(Dict)
	e.dict.SetKey(String("j"), MakeInt(1))
	e.obj = &zzC01Obj{names: []string{"f"}, vals: []Value{MakeInt(77)}}
	e.locals = Tuple{String("l0"), String("l1"), String("l2")}
	e.cells = []*cell{{v: String("c0")}, {v: String("c1")}}
	e.globals = []Value{String("g0"), String("g1"), nil}

	prog := &compile.Program{
		Names:   []string{"f", "v0", "len"},
		Globals: []compile.Binding{{Name: "g0"}, {Name: "g1"}, {Name: "g2"}},
	}
	e.inner = &compile.Funcode{Prog: prog, Name: "inner", Code: []byte{byte(compile.NONE), byte(compile.RETURN)}, MaxStack: 1,
		FreeVars: []compile.Binding{{Name: "c0"}, {Name: "c1"}}}
	prog.Functions = []*compile.Funcode{e.inner}
	c := zzVMMake(name, e)
	zzObserve("case", c.name)

	var ins []zzVMIns
	ins = append(ins, zzVMK(0))
	for i := 0; i < d; i++ {
		ins = append(ins, zzVMI(compile.NONE))
	}
	ins = append(ins, c.code...)
	ins = append(ins, zzVMA(compile.MAKETUPLE, uint32(1+d+c.nout)), zzVMI(compile.RETURN))
	fc := &compile.Funcode{
		Prog: prog, Name: "hand", Code: zzVMAsm(ins),
		Locals:    []compile.Binding{{Name: "l0"}, {Name: "l1"}, {Name: "l2"}, {Name: "l3"}},
		Cells:     []int{2},
		FreeVars:  []compile.Binding{{Name: "c0"}, {Name: "c1"}},
		MaxStack:  1 + d + c.peak,
		NumParams: 3,
	}
	prog.Toplevel = fc
	sentinel := String("sentinel")
	e.module = &Module{
		program:     &Program{compiled: prog},
		predeclared: StringDict{"v0": e.b},
		globals:     append([]Value{}, e.globals...),
		constants:   append([]Value{sentinel}, c.consts...),
	}
	fn := &Function{funcode: fc, module: e.module, freevars: Tuple{e.cells[0], e.cells[1]}}
	thread := &Thread{Name: "vm", Load: zzC01Load}

	var res Value
	var err error
	panicked := zzCatch(func() { res, err = Call(thread, fn, e.locals, nil) })
	zzAssert(!panicked, "C01.vm.no_index_panic")
	if panicked {
		return
	}
	zzObserve("failed", err != nil)
	zzAssert((err != nil) == c.fails, "C01.vm.outcome")
	if err != nil {
		zzReach("end")
		return
	}
	if c.check == nil {
		return
	}
	if c.isRet {
		zzAssert(c.check(Tuple{res}, e), "C01.vm.values")
		zzReach("end")
		return
	}
	t, ok := res.(Tuple)
	zzAssert(ok, "C01.vm.result_tuple")
	zzAssert(len(t) == 1+d+c.nout, "C01.vm.depth")
	zzAssert(t[0] == Value(sentinel), "C01.vm.sentinel")
	for i := 1; i <= d; i++ {
		zzAssert(t[i] == None, "C01.vm.fillers")
	}
	zzAssert(c.check(t[1+d:], e), "C01.vm.values")
	_ = fmt.Sprint
	zzReach("end")
}
