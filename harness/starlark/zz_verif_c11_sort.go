//go:build verif

package starlark

// C11 H11.3: sorted, min, max respect the order and sorted is a stable permutation.
// The real built-ins are called (argument unpacking, key calls, sort.Stable from
// the standard library interpreted). Elements are pairs (key, index) with a
// symbolic key and their original position as a hidden index; key= extracts the
// key. The reference relation on keys is the one of H11.1 (ints: integer order;
// floats: bit-pattern order with NaN greatest and all NaNs equal).

import (
	"go.starlark.net/syntax"
)

var zzFirst = NewBuiltin("first", func(_ *Thread, _ *Builtin, args Tuple, _ []Tuple) (Value, error) {
	return args[0].(Tuple)[0], nil
})

// zzSortKeys builds n symbolic keys of one kind (0: ints in int16 range, 1: floats
// of any bit pattern) and the reference relations lt[i][j], eq[i][j].
func zzSortKeys(n, kind int) (keys []Value, lt, eq [][]bool) {
	ints := make([]int64, n)
	bits := make([]uint64, n)
	for i := 0; i < n; i++ {
		name := "k" + string(rune('0'+i))
		if kind == 0 {
			ints[i] = int64(zzI16(name))
			keys = append(keys, MakeInt64(ints[i]))
		} else {
			bits[i] = zzU64(name)
			keys = append(keys, Float(zzFloatOfBits(bits[i])))
		}
	}
	lt, eq = make([][]bool, n), make([][]bool, n)
	for i := 0; i < n; i++ {
		lt[i], eq[i] = make([]bool, n), make([]bool, n)
		for j := 0; j < n; j++ {
			if kind == 0 {
				lt[i][j], eq[i][j] = ints[i] < ints[j], ints[i] == ints[j]
			} else {
				lt[i][j], eq[i][j] = zzRefFloatCmp(bits[i], bits[j])
			}
		}
	}
	return keys, lt, eq
}

func zzIndexOf(v Value) int {
	i, _ := v.(Tuple)[1].(Int).Int64()
	return int(i)
}

// zzH11_sorted: sorted(pairs, key=first[, reverse=True]) over n pairs with
// symbolic keys: the result is a permutation of the input (each hidden index
// exactly once), ordered by key (non-decreasing; non-increasing with reverse),
// and stable (equal keys keep their input order, also with reverse).
//
//verif:unwind 80
func zzH11_sorted() {
	n := zzParam("n", 3, 4)
	kind := zzChoice("keykind", 2)
	reverse := zzChoice("reverse", 2) == 1
	keys, lt, eq := zzSortKeys(n, kind)
	elems := make([]Value, n)
	for i := range elems {
		elems[i] = Tuple{keys[i], MakeInt(i)}
	}
	kwargs := []Tuple{{String("key"), zzFirst}}
	if reverse {
		kwargs = append(kwargs, Tuple{String("reverse"), True})
	}
	th := &Thread{Name: "zz"}
	res, err := Call(th, Universe["sorted"], Tuple{NewList(elems)}, kwargs)
	zzAssert(err == nil, "C11.sorted.ok")
	out, isList := res.(*List)
	zzAssert(isList, "C11.sorted.type")
	zzAssert(out.Len() == n, "C11.sorted.length")
	seen := make([]bool, n)
	p := make([]int, n)
	perm := true
	for a := 0; a < n; a++ {
		p[a] = zzIndexOf(out.Index(a))
		if p[a] < 0 || p[a] >= n || seen[p[a]] {
			perm = false
			break
		}
		seen[p[a]] = true
	}
	zzObserve("first", p[0])
	zzAssert(perm, "C11.sorted.permutation")
	for a := 0; a+1 < n; a++ {
		i, j := p[a], p[a+1]
		if reverse {
			zzAssert(zzNot(lt[i][j]), "C11.sorted.ordered_reverse")
		} else {
			zzAssert(zzNot(lt[j][i]), "C11.sorted.ordered")
		}
		zzAssert(zzImplies(eq[i][j], i < j), "C11.sorted.stable")
	}
	zzReach("end")
}

// zzH11_sorted_plain: sorted(list of ints) without key: the result is the
// sorting-network arrangement of the inputs (the unique sorted permutation).
//
//verif:unwind 80
func zzH11_sorted_plain() {
	n := 3
	var v [3]int64
	elems := make([]Value, n)
	for i := range elems {
		v[i] = int64(zzI32("v" + string(rune('0'+i))))
		elems[i] = MakeInt64(v[i])
	}
	cx := func(a, b *int64) { // compare-exchange
		lo, hi := zzIteI64(*a <= *b, *a, *b), zzIteI64(*a <= *b, *b, *a)
		*a, *b = lo, hi
	}
	w := v
	cx(&w[0], &w[1])
	cx(&w[1], &w[2])
	cx(&w[0], &w[1])
	th := &Thread{Name: "zz"}
	res, err := Call(th, Universe["sorted"], Tuple{NewList(elems)}, nil)
	zzAssert(err == nil, "C11.sortedplain.ok")
	out := res.(*List)
	zzAssert(out.Len() == n, "C11.sortedplain.length")
	for a := 0; a < n; a++ {
		got, fits := out.Index(a).(Int).Int64()
		if a == 0 {
			zzObserve("min", got)
		}
		zzAssert(zzAnd(fits, got == w[a]), "C11.sortedplain.value")
	}
	zzReach("end")
}

// zzH11_minmax: min / max with key= over n pairs: the result is the first
// element whose key is minimal / maximal in the reference order.
//
//verif:unwind 80
func zzH11_minmax() {
	n := zzParam("n", 3, 4)
	kind := zzChoice("keykind", 2)
	isMax := zzChoice("max", 2) == 1
	keys, lt, _ := zzSortKeys(n, kind)
	elems := make(Tuple, n)
	for i := range elems {
		elems[i] = Tuple{keys[i], MakeInt(i)}
	}
	name := "min"
	if isMax {
		name = "max"
	}
	th := &Thread{Name: "zz"}
	var res Value
	var err error
	if zzChoice("varargs", 2) == 1 {
		res, err = Call(th, Universe[name], elems, []Tuple{{String("key"), zzFirst}})
	} else {
		res, err = Call(th, Universe[name], Tuple{NewList(elems)}, []Tuple{{String("key"), zzFirst}})
	}
	zzAssert(err == nil, "C11.minmax.ok")
	m := zzIndexOf(res)
	zzObserve("m", m)
	zzAssert(m >= 0 && m < n, "C11.minmax.is_an_element")
	for j := 0; j < n; j++ {
		if isMax {
			zzAssert(zzNot(lt[m][j]), "C11.minmax.extremal")
			if j < m {
				zzAssert(lt[j][m], "C11.minmax.first")
			}
		} else {
			zzAssert(zzNot(lt[j][m]), "C11.minmax.extremal")
			if j < m {
				zzAssert(lt[m][j], "C11.minmax.first")
			}
		}
	}
	_ = syntax.LT
	zzReach("end")
}

// zzH11_sorted_ties: sorted without key over elements that may be equal yet distinguishable
// (an Int and the Float of the same value), with and without reverse: the result is the
// stable arrangement — ties keep their input order in both directions.
//
//verif:unwind 80
func zzH11_sorted_ties() {
	const n = 3
	var v [n]int64
	var isF [n]bool
	elems := make([]Value, n)
	for i := 0; i < n; i++ {
		// values from a small concrete set (exact Int/Float comparison of symbolic values goes
		// through big.Rat and is covered by zzH11_int_float_*): what is explored here is every
		// arrangement of ties and kinds
		v[i] = int64(zzChoice("v"+string(rune('0'+i)), 3))
		isF[i] = zzChoice("float"+string(rune('0'+i)), 2) == 1
		if isF[i] {
			elems[i] = Float(float64(v[i]))
		} else {
			elems[i] = MakeInt64(v[i])
		}
	}
	reverse := zzChoice("reverse", 2) == 1
	// reference: stable insertion sort of the indices
	idx := []int{0, 1, 2}
	for a := 1; a < n; a++ {
		for b := a; b > 0; b-- {
			x, y := idx[b-1], idx[b]
			var before bool // must y move before x?
			if reverse {
				before = v[y] > v[x]
			} else {
				before = v[y] < v[x]
			}
			if !before {
				break
			}
			idx[b-1], idx[b] = y, x
		}
	}
	th := &Thread{Name: "zz"}
	var kwargs []Tuple
	if reverse {
		kwargs = []Tuple{{String("reverse"), True}}
	}
	res, err := Call(th, Universe["sorted"], Tuple{NewList(elems)}, kwargs)
	zzAssert(err == nil, "C11.sortedties.ok")
	if err != nil {
		return
	}
	out := res.(*List)
	zzAssert(out.Len() == n, "C11.sortedties.length")
	for a := 0; a < n && a < out.Len(); a++ {
		want := idx[a]
		switch g := out.Index(a).(type) {
		case Int:
			got, _ := g.Int64()
			zzAssert(zzAnd(!isF[want], got == v[want]), "C11.sortedties.stable_arrangement")
		case Float:
			zzAssert(zzAnd(isF[want], float64(g) == float64(v[want])), "C11.sortedties.stable_arrangement")
		}
	}
	zzReach("end")
}
