//go:build verif

package starlark

import (
	"math"

	"go.starlark.net/syntax"
)

var zzC11Ops = [...]syntax.Token{syntax.EQL, syntax.NEQ, syntax.LT, syntax.LE, syntax.GT, syntax.GE}

const (
	zzExpMask  = uint64(0x7ff) << 52
	zzFracMask = uint64(1)<<52 - 1
	zzSignBit  = uint64(1) << 63
)

// Int x Float comparison harness core, shared by C10 (exact int/float comparison) and C11.

// zzC11View is what operator i of zzC11Ops must answer when the left operand is
// less than (lt) / equal to (eq) the right operand in the reference order.
func zzC11View(i int, lt, eq bool) bool {
	switch i {
	case 0:
		return eq
	case 1:
		return zzNot(eq)
	case 2:
		return lt
	case 3:
		return zzOr(lt, eq)
	case 4:
		return zzNot(zzOr(lt, eq))
	}
	return zzNot(lt)
}


func zzWShl(a zzW, k uint) zzW {
	if k == 0 {
		return a
	}
	return zzW{int64(uint64(a.hi)<<k | a.lo>>(64-k)), a.lo << k}
}


// zzSymFloatKJ builds the double (+-)k*2^j with a symbolic P-bit integer k
// (2^(P-1) <= k < 2^P, i.e. the full significand when P = 53) and a concrete j
// (the weight of k's last bit), and returns its bit pattern and sign.
func zzSymFloatKJ(name string, P, j int) (f float64, k uint64, neg bool) {
	k = zzU64(name + "_k")
	zzAssume(zzAnd(k >= 1<<uint(P-1), k < 1<<uint(P)))
	neg = zzBool(name + "_neg")
	exp := uint64(j + P - 1 + 1023) // biased exponent of the leading bit
	frac := (k - 1<<uint(P-1)) << uint(53-P)
	bits := exp<<52 | frac
	bits = zzIteU64(neg, bits|zzSignBit, bits)
	return math.Float64frombits(bits), k, neg
}


func zzIntFloat(part int) {
	B := zzParam("bits", 66, 70)
	x, xv := zzSymInt("x", B)
	var f float64
	var lt, eq bool // reference: x < f, x == f
	bigJ := []int{1, 11}
	smallP := 2
	if zzParam("thorough_regimes", 0, 1) == 1 {
		bigJ = []int{0, 1, 10, 11}
	}
	smallJ := []int{-1, 0, 1}
	type conc struct {
		f     float64
		num   zzW  // f * 2^scale
		scale uint // compare x<<scale with num
		huge  int  // +1: above every int in range, -1: below
	}
	concs := []conc{
		{f: 1.0, num: zzW{0, 1}},
		{f: -2.5, num: zzWNeg(zzW{0, 5}), scale: 1},
		{f: 9007199254740994, num: zzW{0, 9007199254740994}},
		{f: 18446744073709551616.0, num: zzW{1, 0}},
		{f: 1e300, huge: 1},
		{f: -1e300, huge: -1},
		{f: 0, num: zzW{}},
		{f: math.Copysign(0, -1), num: zzW{}},
		{f: math.Inf(1), huge: 1},
		{f: math.Inf(-1), huge: -1},
	}
	nBig, nSmall := len(bigJ), smallP*len(smallJ)
	var r int
	switch part {
	case 0:
		r = zzChoice("regime", nBig)
	case 1:
		r = nBig + nSmall + zzChoice("regime", len(concs)+1)
	default:
		r = nBig + zzChoice("regime", nSmall)
	}
	switch {
	case r < nBig+nSmall:
		P, j := 53, 0
		if r < nBig {
			j = bigJ[r]
		} else {
			P, j = (r-nBig)/len(smallJ)+1, smallJ[(r-nBig)%len(smallJ)]
		}
		var k uint64
		var neg bool
		f, k, neg = zzSymFloatKJ("f", P, j)
		kv, kn := zzW{0, k}, zzWNeg(zzW{0, k})
		kv = zzW{zzIteI64(neg, kn.hi, kv.hi), zzIteU64(neg, kn.lo, kv.lo)}
		a, b := xv, kv // compare a with b, both scaled by 2^max(0,-j)
		if j >= 0 {
			b = zzWShl(kv, uint(j))
		} else {
			a = zzWShl(xv, uint(-j))
		}
		lt, eq = zzWLess(a, b), zzWEq(a, b)
	case r < nBig+nSmall+len(concs):
		c := concs[r-nBig-nSmall]
		f = c.f
		switch c.huge {
		case 1:
			lt, eq = true, false
		case -1:
			lt, eq = false, false
		default:
			a := zzWShl(xv, c.scale)
			lt, eq = zzWLess(a, c.num), zzWEq(a, c.num)
		}
	default:
		f = math.Float64frombits(0x7ff8000000000000 | zzU64("payload")&(zzFracMask>>1))
		lt, eq = true, false
	}
	gt := zzNot(zzOr(lt, eq))
	for i, op := range zzC11Ops {
		got, err := CompareDepth(op, x, Float(f), CompareLimit)
		zzAssert(err == nil, "C11.intfloat.ok")
		if i == 2 {
			zzObserve("lt", got)
		}
		zzAssert(got == zzC11View(i, lt, eq), "C11.intfloat.view")
		rev, err := CompareDepth(op, Float(f), x, CompareLimit)
		zzAssert(err == nil, "C11.floatint.ok")
		zzAssert(rev == zzC11View(i, gt, eq), "C11.floatint.view")
	}
	hx, e1 := x.Hash()
	hf, e2 := Float(f).Hash()
	zzAssert(zzAnd(e1 == nil, e2 == nil), "C11.intfloat.hash_ok")
	zzObserve("hf", hf)
	zzAssert(zzImplies(eq, hx == hf), "C11.intfloat.equal_values_equal_hash")
	zzReach("end")
}


var _ = math.Inf
