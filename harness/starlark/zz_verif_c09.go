//go:build verif

package starlark

import (
	"strconv"

	"go.starlark.net/resolve"
	"go.starlark.net/syntax"
)

// ---------------------------------------------------------------------------
// H09.1 / H09.4: static rules x syntactic placement x all FileOptions.
//
// A program is
//
//	load("m", "h")        # prefix (items about h only): h is file-local (or global if LoadBindsGlobally)
//	g = 0                  # prefix: g is a global
//	<chain of up to 3 containers around one item of interest>
//	later = 0              # suffix: a global bound after the item
//
// built directly as a syntax tree. Every node position is symbolic (H09.1) or
// a distinct concrete line (H09.4, which also runs the compiler). The six
// FileOptions are symbolic booleans. The reference below computes, from the
// chain, the item and the options, how many static errors the language
// definition (doc/spec.md: "Name binding and variables", "If/While/For
// statements", "Break and Continue", "Load statements"; syntax/options.go)
// requires and where the first one is.
// ---------------------------------------------------------------------------

// containers
const (
	zzCDefBody       = iota // def fK(): <stmts>
	zzCIfThen               // if 1: <stmts>
	zzCIfElse               // if 1: pass / else: <stmts>
	zzCForBody              // for vK in []: <stmts>
	zzCWhileBody            // while 1: <stmts>
	zzCAfterIf              // if 1: pass      followed, in the same block, by <stmts>
	zzCAfterFor             // for uK in []: pass   followed by <stmts>
	zzCAfterDef             // def fK(): pass  followed by <stmts>
	zzCDefDefault           // def fK(p=<expr>): pass
	zzCLambdaBody           // lambda: <expr>
	zzCLambdaDefault        // lambda p=<expr>: p
	zzCCompBody             // [<expr> for cK in []]
	zzCCompIter             // [cK for cK in <expr>]
	zzCCompCond             // [cK for cK in [] if <expr>]
	zzNContainers
)

func zzCHoldsStmts(c int) bool { return c <= zzCAfterDef }

// items of interest
const (
	zzIBreak = iota
	zzIContinue
	zzIReturn
	zzILoadFresh    // load("m2", "n")
	zzILoadGlobal   // load("m2", "g")     g is already a global
	zzILoadLoaded   // load("m2", "h")     h is already bound by a load
	zzIIf           // if 1: pass
	zzIFor          // for w in []: pass
	zzIWhile        // while 1: pass
	zzIAssignGlobal // g = 1
	zzIAugGlobal    // g += 1
	zzIDefGlobal    // def g(): pass
	zzIAssignLoaded // h = 1
	// expression items
	zzISet       // set
	zzIUndefined // nosuchname
	zzIForward   // later   (bound after the use)
	zzIBound     // g
	zzNItems
)

const zzNStmtItems = zzISet

type zzGen struct {
	symbolic bool
	n        int
	file     string
	// recorded for the reference
	conPos      []syntax.Position // position of the keyword of each container (if/for/while), outermost first
	itemPos     syntax.Position
	loadNamePos syntax.Position // position of the bound name of a load item
}

func (g *zzGen) pos() syntax.Position {
	g.n++
	if g.symbolic {
		nm := "pos" + strconv.Itoa(g.n)
		return syntax.MakePosition(&g.file, zzI32(nm+"_line"), zzI32(nm+"_col"))
	}
	return syntax.MakePosition(&g.file, int32(g.n), 1)
}

func (g *zzGen) ident(name string) *syntax.Ident {
	return &syntax.Ident{NamePos: g.pos(), Name: name}
}
func (g *zzGen) identAt(name string, p syntax.Position) *syntax.Ident {
	return &syntax.Ident{NamePos: p, Name: name}
}
func (g *zzGen) lit() syntax.Expr {
	return &syntax.Literal{Token: syntax.INT, TokenPos: g.pos(), Raw: "1", Value: int64(1)}
}
func (g *zzGen) str(s string) *syntax.Literal {
	return &syntax.Literal{Token: syntax.STRING, TokenPos: g.pos(), Raw: strconv.Quote(s), Value: s}
}
func (g *zzGen) emptyList() syntax.Expr {
	return &syntax.ListExpr{Lbrack: g.pos(), Rbrack: g.pos()}
}
func (g *zzGen) pass() syntax.Stmt {
	return &syntax.BranchStmt{Token: syntax.PASS, TokenPos: g.pos()}
}
func (g *zzGen) assign(name string, op syntax.Token, at syntax.Position) syntax.Stmt {
	return &syntax.AssignStmt{OpPos: g.pos(), Op: op, LHS: g.identAt(name, at), RHS: g.lit()}
}
func (g *zzGen) load(module, name string, loadPos, namePos syntax.Position) syntax.Stmt {
	return &syntax.LoadStmt{Load: loadPos, Module: g.str(module), From: []*syntax.Ident{g.ident(name)},
		To: []*syntax.Ident{g.identAt(name, namePos)}, Rparen: g.pos()}
}

// item builds the item of interest; exactly one of (stmt, expr) is non-nil.
func (g *zzGen) item(it int) (syntax.Stmt, syntax.Expr) {
	p := g.pos()
	g.itemPos = p
	switch it {
	case zzIBreak:
		return &syntax.BranchStmt{Token: syntax.BREAK, TokenPos: p}, nil
	case zzIContinue:
		return &syntax.BranchStmt{Token: syntax.CONTINUE, TokenPos: p}, nil
	case zzIReturn:
		return &syntax.ReturnStmt{Return: p}, nil
	case zzILoadFresh:
		g.loadNamePos = g.pos()
		return g.load("m2", "n", p, g.loadNamePos), nil
	case zzILoadGlobal:
		// two positions: the load keyword (nesting error) and the name (rebinding error)
		g.loadNamePos = g.pos()
		return g.load("m2", "g", p, g.loadNamePos), nil
	case zzILoadLoaded:
		g.loadNamePos = g.pos()
		return g.load("m2", "h", p, g.loadNamePos), nil
	case zzIIf:
		return &syntax.IfStmt{If: p, Cond: g.lit(), True: []syntax.Stmt{g.pass()}}, nil
	case zzIFor:
		return &syntax.ForStmt{For: p, Vars: g.ident("w"), X: g.emptyList(), Body: []syntax.Stmt{g.pass()}}, nil
	case zzIWhile:
		return &syntax.WhileStmt{While: p, Cond: g.lit(), Body: []syntax.Stmt{g.pass()}}, nil
	case zzIAssignGlobal:
		return g.assign("g", syntax.EQ, p), nil
	case zzIAugGlobal:
		return g.assign("g", syntax.PLUS_EQ, p), nil
	case zzIDefGlobal:
		return &syntax.DefStmt{Def: g.pos(), Name: g.identAt("g", p), Lparen: g.pos(), Rparen: g.pos(), Body: []syntax.Stmt{g.pass()}}, nil
	case zzIAssignLoaded:
		return g.assign("h", syntax.EQ, p), nil
	case zzISet:
		return nil, g.identAt("set", p)
	case zzIUndefined:
		return nil, g.identAt("nosuchname", p)
	case zzIForward:
		return nil, g.identAt("later", p)
	case zzIBound:
		return nil, g.identAt("g", p)
	}
	panic("bad item")
}

// wrap puts the inner node(s) into container c (k = nesting level, used for unique names).
func (g *zzGen) wrap(c, k int, st []syntax.Stmt, ex syntax.Expr, kwPos syntax.Position) ([]syntax.Stmt, syntax.Expr) {
	ks := strconv.Itoa(k)
	if st == nil {
		st = []syntax.Stmt{&syntax.ExprStmt{X: ex}}
	}
	one := func(s syntax.Stmt) []syntax.Stmt { return []syntax.Stmt{s} }
	switch c {
	case zzCDefBody:
		return one(&syntax.DefStmt{Def: kwPos, Name: g.ident("f" + ks), Lparen: g.pos(), Rparen: g.pos(), Body: st}), nil
	case zzCIfThen:
		return one(&syntax.IfStmt{If: kwPos, Cond: g.lit(), True: st}), nil
	case zzCIfElse:
		return one(&syntax.IfStmt{If: kwPos, Cond: g.lit(), True: one(g.pass()), ElsePos: g.pos(), False: st}), nil
	case zzCForBody:
		return one(&syntax.ForStmt{For: kwPos, Vars: g.ident("v" + ks), X: g.emptyList(), Body: st}), nil
	case zzCWhileBody:
		return one(&syntax.WhileStmt{While: kwPos, Cond: g.lit(), Body: st}), nil
	case zzCAfterIf:
		return append(one(&syntax.IfStmt{If: kwPos, Cond: g.lit(), True: one(g.pass())}), st...), nil
	case zzCAfterFor:
		return append(one(&syntax.ForStmt{For: kwPos, Vars: g.ident("u" + ks), X: g.emptyList(), Body: one(g.pass())}), st...), nil
	case zzCAfterDef:
		return append(one(&syntax.DefStmt{Def: kwPos, Name: g.ident("f" + ks), Lparen: g.pos(), Rparen: g.pos(), Body: one(g.pass())}), st...), nil
	case zzCDefDefault:
		par := &syntax.BinaryExpr{X: g.ident("p"), OpPos: g.pos(), Op: syntax.EQ, Y: ex}
		return one(&syntax.DefStmt{Def: kwPos, Name: g.ident("f" + ks), Lparen: g.pos(), Params: []syntax.Expr{par}, Rparen: g.pos(), Body: one(g.pass())}), nil
	case zzCLambdaBody:
		return nil, &syntax.LambdaExpr{Lambda: kwPos, Body: ex}
	case zzCLambdaDefault:
		par := &syntax.BinaryExpr{X: g.ident("p"), OpPos: g.pos(), Op: syntax.EQ, Y: ex}
		return nil, &syntax.LambdaExpr{Lambda: kwPos, Params: []syntax.Expr{par}, Body: g.ident("p")}
	case zzCCompBody:
		return nil, &syntax.Comprehension{Lbrack: kwPos, Body: ex, Rbrack: g.pos(),
			Clauses: []syntax.Node{&syntax.ForClause{For: g.pos(), Vars: g.ident("c" + ks), In: g.pos(), X: g.emptyList()}}}
	case zzCCompIter:
		return nil, &syntax.Comprehension{Lbrack: kwPos, Body: g.ident("c" + ks), Rbrack: g.pos(),
			Clauses: []syntax.Node{&syntax.ForClause{For: g.pos(), Vars: g.ident("c" + ks), In: g.pos(), X: ex}}}
	case zzCCompCond:
		return nil, &syntax.Comprehension{Lbrack: kwPos, Body: g.ident("c" + ks), Rbrack: g.pos(),
			Clauses: []syntax.Node{
				&syntax.ForClause{For: g.pos(), Vars: g.ident("c" + ks), In: g.pos(), X: g.emptyList()},
				&syntax.IfClause{If: g.pos(), Cond: ex}}}
	}
	panic("bad container")
}

// zzChooseProgram picks a well-formed (chain, item): statements only where
// statements may appear.
func zzChooseProgram(maxDepth int) (chain []int, item int) {
	depth := zzChoice("depth", maxDepth+1)
	stmtMode := true
	for k := 0; k < depth; k++ {
		var c int
		if stmtMode {
			c = zzChoice("container"+strconv.Itoa(k), zzNContainers)
		} else {
			c = zzCLambdaBody + zzChoice("container"+strconv.Itoa(k), zzNContainers-zzCLambdaBody)
		}
		chain = append(chain, c)
		stmtMode = zzCHoldsStmts(c)
	}
	if stmtMode {
		item = zzChoice("item", zzNItems)
	} else {
		item = zzNStmtItems + zzChoice("item", zzNItems-zzNStmtItems)
	}
	return
}

// build returns the file for (chain, item).
func (g *zzGen) build(chain []int, item int, opts *syntax.FileOptions) *syntax.File {
	// keyword positions are allocated outermost first so that names are stable
	g.conPos = nil
	for range chain {
		g.conPos = append(g.conPos, g.pos())
	}
	st1, ex := g.item(item)
	var st []syntax.Stmt
	if st1 != nil {
		st = []syntax.Stmt{st1}
	}
	for k := len(chain) - 1; k >= 0; k-- {
		st, ex = g.wrap(chain[k], k, st, ex, g.conPos[k])
	}
	if st == nil {
		st = []syntax.Stmt{&syntax.ExprStmt{X: ex}}
	}
	var stmts []syntax.Stmt
	if item == zzILoadLoaded || item == zzIAssignLoaded {
		// (only where h is needed: every load makes the resolver read LoadBindsGlobally)
		stmts = append(stmts, g.load("m", "h", g.pos(), g.pos()))
	}
	stmts = append(stmts, g.assign("g", syntax.EQ, g.pos()))
	stmts = append(stmts, st...)
	stmts = append(stmts, g.assign("later", syntax.EQ, g.pos()))
	return &syntax.File{Path: g.file, Stmts: stmts, Options: opts}
}

// zzVerdict is the reference's answer.
type zzVerdict struct {
	count       int  // number of static errors required (symbolic)
	line, col   int32 // position of the first one (symbolic), valid if count > 0
	regionFwd   bool // the program is in the region of known finding "forward reference"
	regionLoad  bool // ... "load rebinding a global"
}

func (v *zzVerdict) add(cond bool, p syntax.Position) {
	first := zzAnd(cond, v.count == 0)
	v.line = zzIteI32(first, p.Line, v.line)
	v.col = zzIteI32(first, p.Col, v.col)
	v.count += zzIteInt(cond, 1, 0)
}

// zzReference: the legality predicate.
func zzReference(g *zzGen, chain []int, item int, o *syntax.FileOptions) zzVerdict {
	var v zzVerdict
	inFunc := false  // inside a def or lambda
	loops := 0       // enclosing for/while loops within the current function
	fileScope := true // the innermost lexical block is the file block
	nested := false  // inside any compound statement
	for k, c := range chain {
		p := g.conPos[k]
		switch c {
		case zzCDefBody:
			inFunc, loops, fileScope, nested = true, 0, false, true
		case zzCIfThen, zzCIfElse:
			// "An if statement at top level results in a static error" unless TopLevelControl
			v.add(zzAnd(!inFunc, zzNot(o.TopLevelControl)), p)
			nested = true
		case zzCForBody:
			v.add(zzAnd(!inFunc, zzNot(o.TopLevelControl)), p)
			loops++
			nested = true
		case zzCWhileBody:
			v.add(zzNot(o.While), p)
			v.add(zzAnd(!inFunc, zzNot(o.TopLevelControl)), p)
			loops++
			nested = true
		case zzCAfterIf, zzCAfterFor:
			// a preceding sibling if/for: itself subject to the top-level rule, no effect on what follows
			v.add(zzAnd(!inFunc, zzNot(o.TopLevelControl)), p)
		case zzCAfterDef:
		case zzCDefDefault:
			nested = true // default values are evaluated in the enclosing block
		case zzCLambdaBody:
			inFunc, loops, fileScope = true, 0, false
		case zzCLambdaDefault:
		case zzCCompBody, zzCCompCond:
			fileScope = false // comprehension block
		case zzCCompIter:
			// first iterable is resolved in the enclosing block
		}
	}
	p := g.itemPos
	// a top-level binding of an already bound top-level name
	rebind := zzAnd(fileScope, zzNot(o.GlobalReassign))
	switch item {
	case zzIBreak, zzIContinue:
		v.add(loops == 0, p)
	case zzIReturn:
		v.add(!inFunc, p)
	case zzILoadFresh:
		v.add(nested, p)
	case zzILoadGlobal, zzILoadLoaded:
		v.add(nested, p)
		// "it is an error for a load statement to bind the name of a global"
		v.add(rebind, g.loadNamePos)
		if item == zzILoadGlobal {
			v.regionLoad = zzAnd(rebind, zzNot(o.LoadBindsGlobally))
		}
	case zzIIf, zzIFor:
		v.add(zzAnd(!inFunc, zzNot(o.TopLevelControl)), p)
	case zzIWhile:
		v.add(zzNot(o.While), p)
		v.add(zzAnd(!inFunc, zzNot(o.TopLevelControl)), p)
	case zzIAssignGlobal, zzIAugGlobal, zzIDefGlobal, zzIAssignLoaded:
		v.add(rebind, p)
	case zzISet:
		v.add(zzNot(o.Set), p)
	case zzIUndefined:
		v.add(true, p)
	case zzIForward:
		// legal: "all uses of the name within the block are treated as references to
		// that binding, even if the use appears before the binding. This is true even at the top level"
		v.regionFwd = zzAnd(fileScope, o.GlobalReassign)
	case zzIBound:
	}
	return v
}

func zzOptions() *syntax.FileOptions {
	return &syntax.FileOptions{
		Set:               zzBool("opt_Set"),
		While:             zzBool("opt_While"),
		TopLevelControl:   zzBool("opt_TopLevelControl"),
		GlobalReassign:    zzBool("opt_GlobalReassign"),
		LoadBindsGlobally: zzBool("opt_LoadBindsGlobally"),
		Recursion:         zzBool("opt_Recursion"),
	}
}

// zzCheckVerdict compares the resolver's answer with the reference.
func zzCheckVerdict(err error, v zzVerdict, item int) {
	rejected := err != nil
	zzObserve("rejected", rejected)
	switch item {
	case zzIForward:
		zzAssertExcept(rejected == (v.count > 0), "C09.static.forward_ref.error_iff_illegal", v.regionFwd)
	case zzILoadGlobal:
		zzAssertExcept(rejected == (v.count > 0), "C09.static.load_rebinds_global.error_iff_illegal", v.regionLoad)
	default:
		zzAssert(rejected == (v.count > 0), "C09.static.error_iff_illegal")
	}
	if err == nil {
		return
	}
	errs, ok := err.(resolve.ErrorList)
	zzAssert(ok, "C09.static.error_type")
	if !ok || len(errs) == 0 {
		zzAssert(false, "C09.static.errorlist_nonempty")
		return
	}
	zzObserve("nerrors", len(errs))
	switch item {
	case zzIForward:
		zzAssertExcept(len(errs) == v.count, "C09.static.forward_ref.error_count", v.regionFwd)
	case zzILoadGlobal:
		zzAssertExcept(len(errs) == v.count, "C09.static.load_rebinds_global.error_count", v.regionLoad)
	default:
		zzAssert(len(errs) == v.count, "C09.static.error_count")
	}
	first := errs[0].Pos
	zzAssert(zzImplies(v.count > 0, zzAnd(first.Line == v.line, first.Col == v.col)), "C09.static.first_error_position")
}

// H09.1: resolve.File over all placements x all options, symbolic positions.
//
//verif:unwind 40
func zzH09_static() {
	g := &zzGen{symbolic: true, file: "p.star"}
	chain, item := zzChooseProgram(zzParam("maxdepth", 2, 3))
	opts := zzOptions()
	f := g.build(chain, item, opts)
	err := resolve.File(f, zzNoPredeclared, Universe.Has)
	v := zzReference(g, chain, item, opts)
	zzCheckVerdict(err, v, item)
	zzAssert(f.Module != nil, "C09.static.module_recorded")
	zzReach("end")
}

// H09.4: FileProgram (resolver + compiler) on the same programs with concrete
// positions: a program is returned iff the reference finds no static error,
// so no code of a rejected program can run; every legal program compiles.
//
//verif:unwind 40
func zzH09_fileprogram() {
	g := &zzGen{symbolic: false, file: "p.star"}
	chain, item := zzChooseProgram(zzParam("maxdepth_compile", 1, 2))
	opts := zzOptions()
	f := g.build(chain, item, opts)
	prog, err := FileProgram(f, zzNoPredeclared)
	v := zzReference(g, chain, item, opts)
	zzCheckVerdict(err, v, item)
	zzAssert((prog == nil) == (err != nil), "C09.fileprogram.program_iff_no_error")
	if prog != nil {
		zzAssert(prog.compiled != nil && prog.compiled.Toplevel != nil, "C09.fileprogram.compiled")
		zzObserve("nfuncs", len(prog.compiled.Functions))
	}
	zzReach("end")
}
