//go:build verif

package starlark

import (
	"strconv"

	"go.starlark.net/resolve"
	"go.starlark.net/syntax"
)

// ---------------------------------------------------------------------------
// H09.2: argument-order rules at call sites and the 255-argument limit.
//
// A call  g(<args>)  with up to n arguments, each of kind
//
//	P  expr      positional
//	N  x=expr    named (x a symbolic one-byte name: a repeat is a solver choice)
//	S  *expr
//	K  **expr
//
// at symbolic positions, placed at top level, in a def body or in a lambda body.
// Reference (doc/spec.md "Functions"): all positional arguments precede all
// named ones; at most one *args, after all positional and named arguments; at
// most one **kwargs, last; no two named arguments with the same name. I.e. the
// list has the shape P* N* S? K? with distinct names. The first static error
// is positioned at the first argument that breaks the rule.
// ---------------------------------------------------------------------------

const (
	zzAP = iota
	zzAN
	zzAS
	zzAK
)

//verif:unwind 40
func zzH09_callargs() {
	file := "args.star"
	npos := 0
	newPos := func() syntax.Position {
		npos++
		nm := "pos" + strconv.Itoa(npos)
		return syntax.MakePosition(&file, zzI32(nm+"_line"), zzI32(nm+"_col"))
	}
	lit := func() syntax.Expr {
		return &syntax.Literal{Token: syntax.INT, TokenPos: newPos(), Raw: "1", Value: int64(1)}
	}
	n := zzChoice("nargs", zzParam("maxargs", 3, 4)+1)
	kinds := make([]int, n)
	names := make([]string, n)
	starts := make([]syntax.Position, n)
	var args []syntax.Expr
	for i := 0; i < n; i++ {
		kinds[i] = zzChoice("kind"+strconv.Itoa(i), 4)
		starts[i] = newPos()
		switch kinds[i] {
		case zzAP:
			args = append(args, &syntax.Literal{Token: syntax.INT, TokenPos: starts[i], Raw: "1", Value: int64(1)})
		case zzAN:
			names[i] = zzString("name"+strconv.Itoa(i), 1)
			zzAssume(zzAnd(names[i][0] >= 'a', names[i][0] <= 'z')) // an identifier
			args = append(args, &syntax.BinaryExpr{X: &syntax.Ident{NamePos: starts[i], Name: names[i]}, OpPos: newPos(), Op: syntax.EQ, Y: lit()})
		case zzAS:
			args = append(args, &syntax.UnaryExpr{OpPos: starts[i], Op: syntax.STAR, X: lit()})
		case zzAK:
			args = append(args, &syntax.UnaryExpr{OpPos: starts[i], Op: syntax.STARSTAR, X: lit()})
		}
	}
	call := &syntax.CallExpr{Fn: &syntax.Ident{NamePos: newPos(), Name: "len"}, Lparen: newPos(), Args: args, Rparen: newPos()}
	var stmt syntax.Stmt
	switch zzChoice("place", 3) {
	case 0:
		stmt = &syntax.ExprStmt{X: call}
	case 1:
		stmt = &syntax.DefStmt{Def: newPos(), Name: &syntax.Ident{NamePos: newPos(), Name: "f"}, Lparen: newPos(), Rparen: newPos(),
			Body: []syntax.Stmt{&syntax.ExprStmt{X: call}}}
	case 2:
		stmt = &syntax.ExprStmt{X: &syntax.LambdaExpr{Lambda: newPos(), Body: call}}
	}
	f := &syntax.File{Path: file, Stmts: []syntax.Stmt{stmt}, Options: zzOptions()}
	err := resolve.File(f, zzNoPredeclared, Universe.Has)

	// reference
	stage := 0
	bad := false // some argument breaks a rule (symbolic)
	var fl, fc int32
	for i := 0; i < n; i++ {
		illegal := false
		switch kinds[i] {
		case zzAP:
			illegal = stage > 0
		case zzAN:
			illegal = stage > 1
			for j := 0; j < i; j++ {
				if kinds[j] == zzAN {
					illegal = zzOr(illegal, names[i] == names[j])
				}
			}
			if stage < 1 {
				stage = 1
			}
		case zzAS:
			illegal = stage > 1
			if stage < 2 {
				stage = 2
			}
		case zzAK:
			illegal = stage > 2
			stage = 3
		}
		first := zzAnd(illegal, zzNot(bad))
		fl = zzIteI32(first, starts[i].Line, fl)
		fc = zzIteI32(first, starts[i].Col, fc)
		bad = zzOr(bad, illegal)
	}
	zzObserve("rejected", err != nil)
	zzAssert((err != nil) == bad, "C09.callargs.error_iff_misordered_or_repeated")
	if err != nil {
		errs, ok := err.(resolve.ErrorList)
		zzAssert(ok && len(errs) > 0, "C09.callargs.error_type")
		if ok && len(errs) > 0 {
			zzAssert(zzImplies(bad, zzAnd(errs[0].Pos.Line == fl, errs[0].Pos.Col == fc)), "C09.callargs.first_error_position")
		}
	}
	zzReach("end")
}

// zzH09_arglimit: the 255-argument limits (one concrete structure per case;
// positions symbolic): 255 positional or named arguments are accepted, 256 are
// rejected at the position of the call expression.
func zzH09_arglimit() {
	file := "limit.star"
	named := zzChoice("named", 2) == 1
	n := 255 + zzChoice("over", 2)
	zero := syntax.MakePosition(&file, 1, 1)
	callPos := syntax.MakePosition(&file, 2, 3)
	if n > 255 {
		// (symbolic only where no code is generated: the compiler's line table encoder is C16's subject)
		callPos = syntax.MakePosition(&file, zzI32("call_line"), zzI32("call_col"))
	}
	var args []syntax.Expr
	for i := 0; i < n; i++ {
		var a syntax.Expr = &syntax.Literal{Token: syntax.INT, TokenPos: zero, Raw: "1", Value: int64(1)}
		if named {
			a = &syntax.BinaryExpr{X: &syntax.Ident{NamePos: zero, Name: "k" + strconv.Itoa(i)}, OpPos: zero, Op: syntax.EQ, Y: a}
		}
		args = append(args, a)
	}
	call := &syntax.CallExpr{Fn: &syntax.Ident{NamePos: callPos, Name: "len"}, Lparen: zero, Args: args, Rparen: zero}
	f := &syntax.File{Path: file, Stmts: []syntax.Stmt{&syntax.ExprStmt{X: call}}, Options: zzOptions()}
	prog, err := FileProgram(f, zzNoPredeclared)
	zzObserve("rejected", err != nil)
	zzAssert((err != nil) == (n > 255), "C09.arglimit.rejected_iff_over_255")
	zzAssert((prog == nil) == (err != nil), "C09.arglimit.program_iff_no_error")
	if err != nil {
		errs, ok := err.(resolve.ErrorList)
		zzAssert(ok && len(errs) == 1, "C09.arglimit.one_error")
		if ok && len(errs) > 0 {
			zzAssert(zzAnd(errs[0].Pos.Line == callPos.Line, errs[0].Pos.Col == callPos.Col), "C09.arglimit.position")
		}
	}
	zzReach("end")
}
