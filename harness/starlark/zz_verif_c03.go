//go:build verif

package starlark

// C03: execution is deterministic.
//
// H03.1 (zzH03_maporder_*): every listing derived from a Go map is the same
// under every iteration order of the map. After zzMapOrderNondet(true) each
// `range` over a Go map takes a nondeterministic permutation (the explorer
// forks over all n! of them); the result must equal the one computed under
// insertion order. The names are symbolic strings, so the sort inside the code
// under test is exercised for every relative order of the names and the final
// equality is decided by the solver.
//
// Natively zzMapOrderNondet is a no-op and Go randomises map iteration itself:
// the native side of a replay therefore repeats the operation and compares
// every result with the first one.

import "strings"

// zzSymNames returns n pairwise distinct symbolic names of nb lower-case letters.
func zzSymNames(n, nb int) []string {
	names := make([]string, n)
	for i := range names {
		s := zzString("k"+zzDigit(i), nb)
		for j := 0; j < nb; j++ {
			zzAssume(zzAnd(s[j] >= 'a', s[j] <= 'z'))
		}
		for j := 0; j < i; j++ {
			zzAssume(names[j] != s)
		}
		names[i] = s
	}
	return names
}

// zzUnderAllOrders evaluates f under insertion order and under a nondeterministic
// order of every Go map it ranges over.
func zzUnderAllOrders(f func() string) (ref, got string) {
	zzMapOrderNondet(false)
	ref = f()
	zzMapOrderNondet(true)
	got = f()
	zzMapOrderNondet(false)
	if !zzSymbolic() {
		// native replay: Go's own randomisation supplies the orders
		for i := 0; i < 200 && got == ref; i++ {
			got = f()
		}
	}
	return ref, got
}

// zzIsSortedDistinct: reference postcondition, names strictly increasing.
func zzIsSortedDistinct(names []string) bool {
	ok := true
	for i := 1; i < len(names); i++ {
		ok = zzAnd(ok, names[i-1] < names[i])
	}
	return ok
}

// builtinAttrNames: the method listing of every built-in type (x.AttrNames(), dir(x)).
//
//verif:unwind 400
func zzH03_maporder_builtinAttrNames() {
	n := zzParam("names", 3, 4)
	names := zzSymNames(n, zzParam("bytes", 2, 2))
	m := map[string]*Builtin{}
	for _, nm := range names {
		m[nm] = NewBuiltin(nm, nil)
	}
	var last []string
	ref, got := zzUnderAllOrders(func() string {
		last = builtinAttrNames(m)
		return strings.Join(last, ",")
	})
	zzAssert(got == ref, "C03.maporder.builtinAttrNames.same")
	zzAssert(zzAnd(len(last) == n, zzIsSortedDistinct(last)), "C03.maporder.builtinAttrNames.sorted")
	zzObserve("names", ref)
	zzReach("end")
}

// zzAttrMap: an application-defined value whose AttrNames lists a Go map in map order
// (the HasAttrs contract does not ask for sorted names; dir() must sort).
type zzAttrMap struct{ m map[string]Value }

func (a zzAttrMap) String() string        { return "zzAttrMap" }
func (a zzAttrMap) Type() string          { return "zzAttrMap" }
func (a zzAttrMap) Freeze()               {}
func (a zzAttrMap) Truth() Bool           { return True }
func (a zzAttrMap) Hash() (uint32, error) { return 0, zzErrHash }
func (a zzAttrMap) Attr(name string) (Value, error) {
	return a.m[name], nil
}
func (a zzAttrMap) AttrNames() []string {
	var r []string
	for k := range a.m {
		r = append(r, k)
	}
	return r
}

// dir(x) for a value with map-ordered AttrNames.
//
//verif:unwind 400
func zzH03_maporder_dir() {
	n := zzParam("names", 3, 4)
	names := zzSymNames(n, zzParam("bytes", 2, 2))
	a := zzAttrMap{map[string]Value{}}
	for i, nm := range names {
		a.m[nm] = MakeInt(i)
	}
	thread := &Thread{Name: "c03"}
	ref, got := zzUnderAllOrders(func() string {
		v, err := dir(thread, nil, Tuple{a}, nil)
		if err != nil {
			return "error"
		}
		l := v.(*List)
		parts := make([]string, l.Len())
		for i := range parts {
			parts[i] = string(l.Index(i).(String))
		}
		return strings.Join(parts, ",")
	})
	zzAssert(got == ref, "C03.maporder.dir.same")
	zzObserve("dir", ref)
	zzReach("end")
}

// StringDict.Keys and StringDict.String (printed globals / predeclared).
//
//verif:unwind 400
func zzH03_maporder_stringDict() {
	n := zzParam("names", 3, 4)
	names := zzSymNames(n, zzParam("bytes", 2, 2))
	d := StringDict{}
	for i, nm := range names {
		d[nm] = MakeInt(i)
	}
	var last []string
	which := zzChoice("which", 2)
	ref, got := zzUnderAllOrders(func() string {
		if which == 1 {
			return d.String()
		}
		last = d.Keys()
		return strings.Join(last, ",")
	})
	zzAssert(got == ref, "C03.maporder.stringDict.same")
	if which == 0 {
		zzAssert(zzAnd(len(last) == n, zzIsSortedDistinct(last)), "C03.maporder.stringDict.sorted")
	}
	zzObserve("keys", ref)
	zzReach("end")
}

// ---- H03.2: dict/set state over seeded string hashes equals the hash-blind model ----

// zzStrKeyNames: the key universe of H03.2. Keys 0..2 are >= 12 bytes (hashed by
// maphash with the per-process seed: in the engine an uninterpreted function of a
// symbolic seed, so every collision pattern between them is explored), key 3 is
// short (FNV, seed-independent).
var zzStrKeyNames = []String{"long-key-number-0", "long-key-no-1", "long-key-2-xx", "short"}

func zzStrKeyID(v Value) int {
	if s, ok := v.(String); ok {
		for i, n := range zzStrKeyNames {
			if s == n {
				return i
			}
		}
	}
	return -1
}

// zzH03_seed_dict: every history of insert/delete/clear/popitem over string keys
// leaves the dict in the state predicted by the association list, whatever the seed.
//
//verif:unwind 200
func zzH03_seed_dict() {
	F := zzParam("longkeys", 1, 2)
	L := zzParam("ops", 2, 3)
	d := new(Dict)
	m := new(zzAL)
	// residents: a short key with a fixed FNV hash and one long key
	resid := []String{"short", "resident-long-key"}
	for i, r := range resid {
		id := 200 + i
		if r == "short" {
			id = 3
		}
		zzAssert(d.SetKey(r, zzVal{int64(1000 + i)}) == nil, "C03.seed.preset")
		m.set(id, int64(1000+i))
	}
	keyID := func(v Value) int {
		if s, ok := v.(String); ok {
			for i, r := range resid {
				if s == r && r != "short" {
					return 200 + i
				}
			}
		}
		return zzStrKeyID(v)
	}
	fresh := []Value{zzStrKeyNames[0], zzStrKeyNames[1], zzStrKeyNames[2]}[:F]
	uni := []Value{zzStrKeyNames[3], String("resident-long-key")}
	used := 0
	type zzOp struct {
		kind int
		key  Value
	}
	for step := 0; step < L; step++ {
		var opts []zzOp
		ks := append([]Value(nil), uni...)
		if used < F {
			ks = append(ks, fresh[used])
		}
		for _, k := range ks {
			opts = append(opts, zzOp{0, k}, zzOp{1, k})
		}
		opts = append(opts, zzOp{2, nil}, zzOp{3, nil})
		op := opts[zzChoice("op"+zzDigit(step), len(opts))]
		if op.key != nil && used < F && keyID(op.key) == used {
			uni = append(uni, fresh[used])
			used++
		}
		switch op.kind {
		case 0:
			v := zzI64("v" + zzDigit(step))
			zzAssert(d.SetKey(op.key, zzVal{v}) == nil, "C03.seed.insert.noerr")
			m.set(keyID(op.key), v)
		case 1:
			v, found, err := d.Delete(op.key)
			mv, mfound := m.del(keyID(op.key))
			zzAssert(err == nil && found == mfound, "C03.seed.delete.found")
			if found && mfound {
				zzAssert(zzValN(v) == mv, "C03.seed.delete.value")
			}
		case 2:
			zzAssert(d.Clear() == nil, "C03.seed.clear.noerr")
			m.clear()
		case 3:
			k, ok := d.ht.first()
			zzAssert(ok == (len(m.ids) > 0), "C03.seed.popitem.ok")
			if ok && len(m.ids) > 0 {
				zzAssert(keyID(k) == m.ids[0], "C03.seed.popitem.first")
				d.Delete(k)
				m.del(m.ids[0])
			}
		}
		zzHtInvariant("C03", &d.ht, keyID)
		zzHtAgree("C03", &d.ht, m, uni, keyID)
	}
	// the printed form is what a program can observe
	zzObserve("str", d.String())
	zzObserve("len", d.Len())
	zzReach("end")
}

// ---- H03.2 (iii): hash() of a string is the Java string hash, of bytes FNV-1a; no seed ----

// zzRefUTF8 decodes one code point the way the Go spec defines `range` over a
// string (RFC 3629 well-formedness; an ill-formed byte yields U+FFFD, width 1).
func zzRefUTF8(s string, i int) (r rune, w int) {
	b0 := s[i]
	if b0 < 0x80 {
		return rune(b0), 1
	}
	cont := func(j int, lo, hi byte) bool { return j < len(s) && s[j] >= lo && s[j] <= hi }
	switch {
	case b0 >= 0xC2 && b0 <= 0xDF:
		if cont(i+1, 0x80, 0xBF) {
			return rune(b0&0x1F)<<6 | rune(s[i+1]&0x3F), 2
		}
	case b0 >= 0xE0 && b0 <= 0xEF:
		lo, hi := byte(0x80), byte(0xBF)
		if b0 == 0xE0 {
			lo = 0xA0
		}
		if b0 == 0xED {
			hi = 0x9F
		}
		if cont(i+1, lo, hi) && cont(i+2, 0x80, 0xBF) {
			return rune(b0&0x0F)<<12 | rune(s[i+1]&0x3F)<<6 | rune(s[i+2]&0x3F), 3
		}
	case b0 >= 0xF0 && b0 <= 0xF4:
		lo, hi := byte(0x80), byte(0xBF)
		if b0 == 0xF0 {
			lo = 0x90
		}
		if b0 == 0xF4 {
			hi = 0x8F
		}
		if cont(i+1, lo, hi) && cont(i+2, 0x80, 0xBF) && cont(i+3, 0x80, 0xBF) {
			return rune(b0&0x07)<<18 | rune(s[i+1]&0x3F)<<12 | rune(s[i+2]&0x3F)<<6 | rune(s[i+3]&0x3F), 4
		}
	}
	return 0xFFFD, 1
}

// zzRefJavaHash: java.lang.String.hashCode of the UTF-16 transcoding.
func zzRefJavaHash(s string) int32 {
	var h int32
	for i := 0; i < len(s); {
		r, w := zzRefUTF8(s, i)
		i += w
		if r >= 0x10000 {
			r -= 0x10000
			h = 31*h + (0xD800 + (r>>10)&0x3FF)
			h = 31*h + (0xDC00 + r&0x3FF)
		} else {
			h = 31*h + r
		}
	}
	return h
}

func zzHashBuiltin(x Value) (int64, bool) {
	thread := &Thread{Name: "c03"}
	v, err := hash(thread, nil, Tuple{x}, nil)
	if err != nil {
		return 0, false
	}
	i, ok := v.(Int)
	if !ok {
		return 0, false
	}
	n, ok := i.Int64()
	return n, ok
}

// zzH03_hash_string: hash(s) for every string of up to n bytes (all byte values,
// including ill-formed UTF-8) equals the reference; in particular no seed.
//
//verif:unwind 400
func zzH03_hash_string() {
	n := zzChoice("len", zzParam("maxlen", 2, 3)+1)
	s := zzString("s", n)
	got, ok := zzHashBuiltin(String(s))
	zzAssert(ok, "C03.hash.string.ok")
	zzAssert(got == int64(zzRefJavaHash(s)), "C03.hash.string.java")
	zzObserve("hash", got)
	zzReach("end")
}

// zzH03_hash_long: strings of >= 12 bytes are the ones String.Hash sends to the
// seeded maphash; hash() must not. ASCII content keeps the reference a polynomial.
//
//verif:unwind 400
func zzH03_hash_long() {
	n := 12 + zzChoice("extra", zzParam("extra", 2, 5))
	s := zzString("s", n)
	var want int32
	for i := 0; i < n; i++ {
		zzAssume(s[i] < 0x80)
		want = 31*want + int32(s[i])
	}
	got, ok := zzHashBuiltin(String(s))
	zzAssert(ok, "C03.hash.long.ok")
	zzAssert(got == int64(want), "C03.hash.long.java")
	// bytes: 32-bit FNV-1a
	var f uint32 = 2166136261
	for i := 0; i < n; i++ {
		f = (f ^ uint32(s[i])) * 16777619
	}
	gotb, okb := zzHashBuiltin(Bytes(s))
	zzAssert(okb, "C03.hash.bytes.ok")
	zzAssert(gotb == int64(f), "C03.hash.bytes.fnv")
	zzObserve("hash", got)
	zzObserve("hashb", gotb)
	zzReach("end")
}
