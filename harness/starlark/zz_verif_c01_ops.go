//go:build verif

package starlark

// H01.3, operator family: one program template instantiated with each binary operator
// token (in an expression, in a condition, and as an augmented assignment to a name, an
// index and a field), so that the compiler's token -> opcode mapping (binop, the in-place
// forms) and the VM's opcode -> token mapping ("order must match Token") are each
// exercised for every operator. Operands: v0, v1 symbolic; the right operand of the
// division and shift operators is a literal (symbolic divisors: see C10).

type zzC01Op struct {
	tok   string // operator
	lhs   string // left operand
	rhs   string // right operand
	noAug bool   // no augmented form (comparisons, membership)
}

var zzC01Ops = []zzC01Op{
	{"-", "v0", "v1", false}, {"<<", "v0", "2", false}, {"<", "v0", "v1", true},
	{"not in", "v0", "[v1, 3]", true}, {"|", "v0", "v1", false},
	{"//", "v0", "3", false}, {"+", "v0", "v1", false}, {"*", "v0", "v1", false}, {"%", "v0", "3", false},
	{"&", "v0", "v1", false}, {"^", "v0", "v1", false}, {">>", "v0", "2", false},
	{"/", "7", "2", false}, // float division: concrete operands (symbolic floats are out of the solver's reach)
	{">", "v0", "v1", true}, {"<=", "v0", "v1", true}, {">=", "v0", "v1", true}, {"==", "v0", "v1", true}, {"!=", "v0", "v1", true},
	{"in", "v0", "[v1, 3]", true},
}

func zzC01OpSource(o zzC01Op) string {
	src := "x = emit(" + o.lhs + ") " + o.tok + " emit(" + o.rhs + ")\n" +
		"def c():\n" +
		"    if " + o.lhs + " " + o.tok + " " + o.rhs + ":\n" +
		"        return emit(1)\n" +
		"    return emit(2)\n" +
		"rc = c()\n"
	if !o.noAug {
		src += "def f():\n" +
			"    y = " + o.lhs + "\n" +
			"    y " + o.tok + "= " + o.rhs + "\n" +
			"    l = [" + o.lhs + "]\n" +
			"    l[0] " + o.tok + "= " + o.rhs + "\n" +
			"    o = obj()\n" +
			"    o.f = " + o.lhs + "\n" +
			"    o.f " + o.tok + "= " + o.rhs + "\n" +
			"    return (y, l, o)\n" +
			"r = f()\n"
	}
	return src
}

//verif:unwind 200
func zzH01_diff_ops() {
	n := zzParam("operators", 5, len(zzC01Ops))
	o := zzC01Ops[zzChoice("operator", n)]
	zzObserve("operator", o.tok)
	zzC01Diff(zzC01OpSource(o), zzC01Options(zzNeedNone, 0), false)
	zzReach("end")
}
