//go:build verif

package starlark

import "go.starlark.net/syntax"

// C13 / H13.4: list.insert / pop / remove / extend / append, repetition and
// concatenation of string, bytes, list, tuple.

// zzTags maps the elements of got to their positions in the pool (identity).
func zzTags(pool []Value, got []Value) []int64 {
	out := make([]int64, len(got))
	for i, v := range got {
		out[i] = zzTagOf(pool, v)
	}
	return out
}

// zzH13_list_insert: L.insert(i, x) for every Int i: effective index = i (+n if
// negative) clamped to [0, n]; elements above move up by one.
func zzH13_list_insert() {
	n := zzChoice("n", zzParam("maxlen", 3, 5)+1)
	pool := zzElems(n + 1) // pool[n] is the inserted value
	l := NewList(append([]Value{}, pool[:n]...))
	i := zzOptFrom("i", 1, 4)
	got, err := zzCallMethod(l, "insert", Tuple{i.v, pool[n]})
	zzObserve("err", err != nil)
	// beyond int64: doc/spec.md clamps, Python fails; either is accepted
	zzAssert(zzImplies(zzWFits64(i.w), err == nil), "C13.list_insert.no_error")
	if err != nil {
		zzAssert(len(l.elems) == n, "C13.list_insert.failed_call_leaves_list")
		zzReach("end_err")
		return
	}
	zzAssert(got == None, "C13.list_insert.returns_none")
	iv := zzClamp64(i.w, zzLim)
	pos := zzIteI64(iv < 0, iv+int64(n), iv)
	pos = zzIteI64(pos < 0, 0, zzIteI64(pos > int64(n), int64(n), pos))
	zzAssert(len(l.elems) == n+1, "C13.list_insert.length")
	zzAssume(len(l.elems) == n+1)
	ok := true
	for k, tag := range zzTags(pool, l.elems) {
		want := zzIteI64(int64(k) < pos, int64(k), zzIteI64(int64(k) == pos, int64(n), int64(k-1)))
		ok = zzAnd(ok, tag == want)
	}
	zzObserve("last_is_new", zzTagOf(pool, l.elems[n]) == int64(n))
	zzAssert(ok, "C13.list_insert.elements")
	zzReach("end")
}

// zzH13_list_pop: L.pop([i]) succeeds exactly for -n <= i < n, returns and removes element i.
func zzH13_list_pop() {
	n := zzChoice("n", zzParam("maxlen", 3, 5)+1)
	pool := zzElems(n)
	l := NewList(append([]Value{}, pool...))
	var args Tuple
	iv := int64(-1)
	if zzChoice("shape", 2) == 1 {
		i := zzOptFrom("i", 1, 4)
		args = Tuple{i.v}
		iv = zzClamp64(i.w, zzLim)
	}
	got, err := zzCallMethod(l, "pop", args)
	valid := zzAnd(iv >= -int64(n), iv < int64(n))
	idx := zzIteI64(iv < 0, iv+int64(n), iv)
	zzObserve("err", err != nil)
	zzAssert((err == nil) == valid, "C13.list_pop.error_iff_out_of_range")
	if err != nil {
		zzAssert(len(l.elems) == n, "C13.list_pop.failed_call_leaves_list")
		zzReach("end_err")
		return
	}
	zzAssert(zzTagOf(pool, got) == idx, "C13.list_pop.returns_element")
	zzAssert(len(l.elems) == n-1, "C13.list_pop.length")
	zzAssume(len(l.elems) == n-1)
	ok := true
	for k, tag := range zzTags(pool, l.elems) {
		ok = zzAnd(ok, tag == zzIteI64(int64(k) < idx, int64(k), int64(k+1)))
	}
	zzAssert(ok, "C13.list_pop.elements")
	zzReach("end")
}

// zzH13_list_remove: L.remove(x) removes the first element equal to x, fails if absent.
//
//verif:unwind 40
func zzH13_list_remove() {
	n := zzChoice("n", zzParam("maxlen", 3, 5)+1)
	s := zzString("s", n)
	v := zzString("v", 1)
	elems := make([]Value, n)
	for i := range elems {
		elems[i] = String(s[i : i+1])
	}
	l := NewList(append([]Value{}, elems...))
	_, err := zzCallMethod(l, "remove", Tuple{String(v)})
	first := int64(-1)
	for p := n - 1; p >= 0; p-- {
		first = zzIteI64(s[p] == v[0], int64(p), first)
	}
	zzObserve("err", err != nil)
	zzAssert((err != nil) == (first == -1), "C13.list_remove.error_iff_absent")
	if err != nil {
		zzAssert(len(l.elems) == n, "C13.list_remove.failed_call_leaves_list")
		zzReach("end_err")
		return
	}
	zzAssert(len(l.elems) == n-1, "C13.list_remove.length")
	zzAssume(len(l.elems) == n-1)
	ok := true
	for k, e := range l.elems {
		es, isStr := e.(String)
		if !isStr || len(es) != 1 {
			ok = false
			break
		}
		ok = zzAnd(ok, es[0] == zzAtStr(s, zzIteI64(int64(k) < first, int64(k), int64(k+1))))
	}
	zzAssert(ok, "C13.list_remove.elements")
	zzReach("end")
}

// zzH13_list_extend_append: L.extend(iterable) / L.append(x) / L + M / L += M.
func zzH13_list_extend_append() {
	n := zzChoice("n", 3)
	m := zzChoice("m", 3)
	pool := zzElems(n + m + 1)
	l := NewList(append([]Value{}, pool[:n]...))
	var arg Value
	switch zzChoice("argkind", 3) {
	case 0:
		arg = NewList(append([]Value{}, pool[n:n+m]...))
	case 1:
		arg = Tuple(append([]Value{}, pool[n:n+m]...))
	case 2:
		arg = l // self-extension
		m = n
	}
	self := arg == Value(l)
	got, err := zzCallMethod(l, "extend", Tuple{arg})
	zzAssert(zzAnd(err == nil, got == None), "C13.list_extend.ok")
	zzAssert(len(l.elems) == n+m, "C13.list_extend.length")
	for k, tag := range zzTags(pool, l.elems) {
		want := int64(k)
		if self && k >= n {
			want = int64(k - n)
		}
		zzAssert(tag == want, "C13.list_extend.elements")
	}
	got, err = zzCallMethod(l, "append", Tuple{pool[len(pool)-1]})
	zzAssert(zzAnd(err == nil, got == None), "C13.list_append.ok")
	zzAssert(len(l.elems) == n+m+1 && l.elems[n+m] == pool[len(pool)-1], "C13.list_append.last")
	_, err = zzCallMethod(l, "extend", Tuple{MakeInt(1)})
	zzAssert(err != nil, "C13.list_extend.non_iterable_fails")
	zzReach("end")
}

// zzH13_concat: x + y for string, bytes, list, tuple (same kind) is the
// elements of x followed by those of y; mixed kinds fail; a list sum is fresh.
func zzH13_concat() {
	kind := zzChoice("kind", 4)
	n := zzChoice("n", zzParam("maxlen", 2, 3)+1)
	m := zzChoice("m", zzParam("maxlen", 2, 3)+1)
	s := zzString("s", n)
	t := zzString("t", m)
	pool := zzElems(n + m)
	var x, y Value
	switch kind {
	case 0:
		x, y = String(s), String(t)
	case 1:
		x, y = Bytes(s), Bytes(t)
	case 2:
		x, y = NewList(append([]Value{}, pool[:n]...)), NewList(append([]Value{}, pool[n:]...))
	case 3:
		x, y = Tuple(append([]Value{}, pool[:n]...)), Tuple(append([]Value{}, pool[n:]...))
	}
	got, err := Binary(syntax.PLUS, x, y)
	// bytes + bytes is rejected at run time ("unknown binary op") although Python
	// accepts it and the compiler folds b"a" + b"b" (doc/spec.md does not define bytes).
	if kind == 1 {
		zzAssertExcept(err == nil, "C13.concat.bytes_plus_bytes_supported", true)
	} else {
		zzAssert(err == nil, "C13.concat.no_error")
	}
	if err != nil {
		return
	}
	switch kind {
	case 0:
		r, ok := got.(String)
		zzAssert(ok, "C13.concat.result_type")
		zzObserve("res", string(r))
		zzAssert(zzStrEq(string(r), s+t), "C13.concat.value")
	case 1:
		r, ok := got.(Bytes)
		zzAssert(ok, "C13.concat.result_type")
		zzAssert(zzStrEq(string(r), s+t), "C13.concat.value")
	case 2:
		r, ok := got.(*List)
		zzAssert(ok, "C13.concat.result_type")
		zzAssert(r != x.(*List) && r != y.(*List), "C13.concat.list_fresh")
		zzAssert(len(r.elems) == n+m, "C13.concat.length")
		for k, tag := range zzTags(pool, r.elems) {
			zzAssert(tag == int64(k), "C13.concat.value")
		}
		zzAssert(len(x.(*List).elems) == n && len(y.(*List).elems) == m, "C13.concat.operands_unchanged")
	case 3:
		r, ok := got.(Tuple)
		zzAssert(ok, "C13.concat.result_type")
		zzAssert(len(r) == n+m, "C13.concat.length")
		for k, tag := range zzTags(pool, r) {
			zzAssert(tag == int64(k), "C13.concat.value")
		}
	}
	// mixed kinds
	others := []Value{String("a"), Bytes("a"), NewList(nil), Tuple{}}
	for k, o := range others {
		if k != kind {
			_, err := Binary(syntax.PLUS, x, o)
			zzAssert(err != nil, "C13.concat.mixed_kinds_fail")
		}
	}
	zzReach("end")
}

// zzH13_repeat: x * c and c * x for string, bytes, list, tuple:
// c <= 0 -> empty; 1 <= c <= 3 -> c copies; len(x) > 0 and c >= 2^30 -> error.
// (3 < c < 2^30 is outside the claim: allocation size.)
//
//verif:concretize 8
func zzH13_repeat() {
	kind := zzChoice("kind", 4)
	n := zzChoice("n", zzParam("maxlen", 2, 3)+1)
	s := zzString("s", n)
	pool := zzElems(n)
	var x Value
	switch kind {
	case 0:
		x = String(s)
	case 1:
		x = Bytes(s)
	case 2:
		x = NewList(append([]Value{}, pool...))
	case 3:
		x = Tuple(append([]Value{}, pool...))
	}
	c := zzOptFrom("c", 1, 4)
	cv := zzClamp64(c.w, zzLim)
	zzAssume(zzOr(cv <= 3, cv >= 1<<30))
	var got Value
	var err error
	if zzChoice("side", 2) == 0 {
		got, err = Binary(syntax.STAR, x, c.v)
	} else {
		got, err = Binary(syntax.STAR, c.v, x)
	}
	zzObserve("err", err != nil)
	if n == 0 {
		zzAssert(err == nil, "C13.repeat.empty_operand_never_fails")
	} else {
		zzAssert(zzImplies(cv >= -1<<31, (err != nil) == (cv >= 1<<30)), "C13.repeat.error_iff_excessive")
		// spec: "Negative values of n behave like zero"; counts below -2^31 are rejected
		// (counts below -2^31 used to fail "repeat count too large": fixed in /repo)
		zzAssert(zzImplies(cv < -1<<31, err == nil), "C13.repeat.negative_beyond_int32_is_zero")
	}
	if err != nil {
		zzReach("end_err")
		return
	}
	// expected length n * max(c, 0)
	reps := zzIteI64(cv < 0, 0, cv)
	if n == 0 {
		reps = 0
	}
	var rs string
	var rv []Value
	tyOK := false
	switch kind {
	case 0:
		var r String
		r, tyOK = got.(String)
		rs = string(r)
	case 1:
		var r Bytes
		r, tyOK = got.(Bytes)
		rs = string(r)
	case 2:
		var r *List
		r, tyOK = got.(*List)
		if tyOK {
			rv = r.elems
			zzAssert(r != x.(*List), "C13.repeat.list_fresh")
		}
	case 3:
		var r Tuple
		r, tyOK = got.(Tuple)
		rv = r
	}
	zzAssert(tyOK, "C13.repeat.result_type")
	gotLen := len(rs) + len(rv)
	zzObserve("len", gotLen)
	zzAssert(int64(gotLen) == int64(n)*reps, "C13.repeat.length")
	ok := true
	for k := 0; k < gotLen; k++ {
		if kind <= 1 {
			ok = zzAnd(ok, rs[k] == s[k%n])
		} else {
			ok = zzAnd(ok, zzTagOf(pool, rv[k]) == int64(k%n))
		}
	}
	zzAssert(ok, "C13.repeat.elements")
	zzReach("end")
}
