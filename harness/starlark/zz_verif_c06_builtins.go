//go:build verif

package starlark

import "go.starlark.net/syntax"

// C06 H06.2: every built-in function, method, operator and VM instruction that
// iterates over an argument, applied to K in {list, dict, set} whose frozen
// flag and iterator count c0 are symbolic, with element types chosen to reach
// the early-return paths (wrong element type / unhashable element / non-pair at
// a chosen position, failing or panicking key function at a chosen call).
// By any exit path: iterator count back at c0 (untouched throughout if frozen),
// K's contents and flag unchanged, call stack restored; while a key function
// runs, an unfrozen K is locked (count c0+1).

type zzB06Op struct {
	name    string
	flavour int  // 0 ints, 1 strings, 2 pairs
	setOnly bool // operator forms that iterate only when K is a set
	keyFn   bool // takes key=f
}

var zzB06Ops = []zzB06Op{
	{"all", 0, false, false}, {"any", 0, false, false}, {"bytes", 0, false, false},
	{"dict", 2, false, false}, {"enumerate", 0, false, false}, {"list", 0, false, false},
	{"max", 0, false, false}, {"min", 0, false, false}, {"reversed", 0, false, false},
	{"set", 0, false, false}, {"sorted", 0, false, false}, {"tuple", 0, false, false},
	{"zip", 0, false, false}, {"zip_bad", 0, false, false}, {"zip3", 0, false, false},
	{"max_key", 0, false, true}, {"min_key", 0, false, true}, {"sorted_key", 0, false, true},
	{"list.extend", 0, false, false}, {"dict.update", 2, false, false},
	{"set.union", 0, false, false}, {"set.update", 0, false, false},
	{"set.difference", 0, false, false}, {"set.intersection", 0, false, false},
	{"set.issubset", 0, false, false}, {"set.issuperset", 0, false, false},
	{"set.symmetric_difference", 0, false, false}, {"str.join", 1, false, false},
	{"iadd", 0, false, false},
	{"set|", 0, true, false}, {"set&", 0, true, false}, {"set-", 0, true, false}, {"set^", 0, true, false},
	{"set<=", 0, true, false}, {"set>=", 0, true, false}, {"set<", 0, true, false}, {"set>", 0, true, false},
	{"self.extend", 0, false, false}, {"self.update", 0, false, false},
}

var zzB06Strs = []string{"a", "bb", "c"}

// zzB06Elems builds the n element values of the given flavour with an optional
// poison element at position pos (pos == n: none).
func zzB06Elems(flavour, n, pos, poison int, hashable bool) []Value {
	ev := zzMSyms("e", n)
	vv := zzMSyms("w", n)
	zzMDistinct(ev)
	elems := make([]Value, n)
	for i := range elems {
		switch flavour {
		case 0:
			elems[i] = zzMInt(ev[i])
		case 1:
			elems[i] = String(zzB06Strs[i])
		case 2:
			if hashable {
				// K hashes these tuples: keep them concrete (Tuple.Hash of symbolic
				// elements is a chain of 32-bit multiplications the solver cannot invert)
				elems[i] = Tuple{MakeInt(10 + i), MakeInt(20 + i)}
			} else {
				elems[i] = Tuple{zzMInt(ev[i]), zzMInt(vv[i])}
			}
		}
		if i == pos {
			switch {
			case flavour == 1:
				elems[i] = MakeInt(7) // not a string
			case flavour == 2 && poison == 2:
				// a mutable sequence of the wrong length: must itself be unlocked afterwards
				elems[i] = NewList([]Value{MakeInt(301), MakeInt(302), MakeInt(303)})
			case flavour == 2 && poison == 0:
				elems[i] = MakeInt(300) // not iterable
			case flavour == 2:
				elems[i] = Tuple{MakeInt(301), MakeInt(302), MakeInt(303)} // wrong length
			case poison == 0 || hashable:
				elems[i] = String("p") // wrong type, incomparable with ints
			default:
				elems[i] = NewList([]Value{MakeInt(1)}) // unhashable
			}
		}
	}
	return elems
}

//verif:unwind 200
func zzH06_builtins() {
	N := zzParam("maxlen", 2, 3)
	op := zzB06Ops[zzChoice("op", len(zzB06Ops))]
	kind := zzChoice("K", 3)
	if op.setOnly {
		kind = 2
	}
	n := zzChoice("n", N+1)
	pos := zzChoice("pos", n+1)
	poison := 0
	if pos < n && (op.flavour == 2 || kind == 0) && op.flavour != 1 {
		if op.flavour == 2 && kind == 0 {
			poison = zzChoice("poison", 3)
		} else {
			poison = zzChoice("poison", 2)
		}
	}
	elems := zzB06Elems(op.flavour, n, pos, poison, kind != 0)
	k := &zzC06K{kind: kind, n: n}
	switch kind {
	case 0:
		k.l = NewList(append([]Value(nil), elems...))
	case 1:
		k.d = new(Dict)
		for i, e := range elems {
			if err := k.d.SetKey(e, MakeInt(i)); err != nil {
				panic(err)
			}
		}
	case 2:
		k.s = new(Set)
		for _, e := range elems {
			if err := k.s.Insert(e); err != nil {
				panic(err)
			}
		}
	}
	// quick tier: K unfrozen (the lock matters only then); thorough: frozen flag symbolic too
	// (a frozen K must not have its counter touched at all)
	frozen, c0 := false, zzU32("c0")
	if zzParam("symbolic_frozen", 0, 1) == 1 {
		frozen = zzBool("frozen")
	}
	zzAssume(c0 < 1<<31)
	var flag *bool
	switch kind {
	case 0:
		flag = &k.l.frozen
	case 1:
		flag = &k.d.ht.frozen
	case 2:
		flag = &k.s.ht.frozen
	}
	*flag = frozen
	*k.counter() = c0
	var lsnap zzMListSnap
	var hsnap zzMHtSnap
	switch kind {
	case 0:
		lsnap = zzMSnapList(k.l)
	case 1:
		hsnap = zzMSnapHt(&k.d.ht)
	case 2:
		hsnap = zzMSnapHt(&k.s.ht)
	}
	K := k.value()
	thread := &Thread{Name: "t"}

	// key function with a fault schedule
	calls, at, fault := 0, -1, zzFaultNone
	lockOK := true
	if op.keyFn {
		at = zzChoice("at", n+1)
		if at < n {
			fault = 1 + zzChoice("fault", 2) // error or panic
		}
	}
	keyf := NewBuiltin("keyf", func(thread *Thread, b *Builtin, args Tuple, kwargs []Tuple) (Value, error) {
		i := calls
		calls++
		want := zzIteU32(frozen, c0, c0+1)
		lockOK = zzAnd(lockOK, *k.counter() == want)
		if i == at {
			if fault == zzFaultError {
				return nil, nameErr(b, "scheduled failure")
			}
			panic("scheduled host panic")
		}
		return args[0], nil
	})
	kw := []Tuple{{String("key"), keyf}}
	sv := zzMSyms("s", 2)
	zzMDistinct(sv)
	S := zzMSetOf(sv) // the other operand of set methods/operators

	var res Value
	var err error
	panicked := zzCatch(func() {
		switch op.name {
		case "all", "any", "bytes", "dict", "enumerate", "list", "max", "min", "reversed", "set", "sorted", "tuple":
			res, err = Call(thread, Universe[op.name], Tuple{K}, nil)
		case "zip":
			res, err = Call(thread, Universe["zip"], Tuple{K, K}, nil)
		case "zip_bad":
			res, err = Call(thread, Universe["zip"], Tuple{K, MakeInt(5)}, nil)
		case "zip3":
			res, err = Call(thread, Universe["zip"], Tuple{Tuple{MakeInt(1)}, K, K}, nil)
		case "max_key":
			res, err = Call(thread, Universe["max"], Tuple{K}, kw)
		case "min_key":
			res, err = Call(thread, Universe["min"], Tuple{K}, kw)
		case "sorted_key":
			res, err = Call(thread, Universe["sorted"], Tuple{K}, kw)
		case "list.extend":
			res, err = zzMCallMethod(thread, NewList(nil), "extend", Tuple{K}, nil)
		case "dict.update":
			res, err = zzMCallMethod(thread, new(Dict), "update", Tuple{K}, nil)
		case "set.union", "set.update", "set.difference", "set.intersection", "set.issubset", "set.issuperset", "set.symmetric_difference":
			res, err = zzMCallMethod(thread, S, op.name[4:], Tuple{K}, nil)
		case "str.join":
			res, err = zzMCallMethod(thread, String(","), "join", Tuple{K}, nil)
		case "iadd":
			res, err = Call(thread, zzC06Mod["iadd"], Tuple{NewList(nil), K}, nil)
		case "set|":
			res, err = Binary(syntax.PIPE, S, K)
		case "set&":
			res, err = Binary(syntax.AMP, S, K)
		case "set-":
			res, err = Binary(syntax.MINUS, S, K)
		case "set^":
			res, err = Binary(syntax.CIRCUMFLEX, S, K)
		case "set<=", "set>=", "set<", "set>":
			tok := map[string]syntax.Token{"set<=": syntax.LE, "set>=": syntax.GE, "set<": syntax.LT, "set>": syntax.GT}[op.name]
			var b bool
			b, err = Compare(tok, S, K)
			res = Bool(b)
		case "self.extend": // K.extend(K) / K.update(K): the argument is the receiver
			switch kind {
			case 0:
				res, err = zzMCallMethod(thread, k.l, "extend", Tuple{K}, nil)
			case 1:
				res, err = zzMCallMethod(thread, k.d, "update", Tuple{K}, nil)
			case 2:
				res, err = zzMCallMethod(thread, k.s, "union", Tuple{K}, nil)
			}
		case "self.update":
			switch kind {
			case 0:
				res, err = Call(thread, zzC06Mod["iadd"], Tuple{K, K}, nil)
			case 1:
				res, err = Call(thread, zzC06ipipe(), Tuple{K, K}, nil)
			case 2:
				res, err = zzMCallMethod(thread, k.s, "update", Tuple{K}, nil)
			}
		default:
			panic("unknown op " + op.name)
		}
	})
	_ = res
	zzObserve("failed", err != nil)
	zzObserve("panicked", panicked)
	zzAssert(panicked == (op.keyFn && calls > at && at >= 0 && fault == zzFaultPanic), "C06.builtin.panic_iff_scheduled")
	zzAssert(lockOK, "C06.builtin.locked_during_key_call")
	zzAssert(*k.counter() == c0, "C06.builtin.unlocked")
	zzAssert(*flag == frozen, "C06.builtin.flag_unchanged")
	zzAssert(thread.CallStackDepth() == 0, "C06.builtin.stack_restored")
	// every mutable element of K that the built-in iterated over is unlocked again
	for _, e := range elems {
		if el, ok := e.(*List); ok {
			zzAssert(el.itercount == 0, "C06.builtin.element_unlocked")
		}
	}
	selfMut := op.name == "self.extend" || op.name == "self.update"
	if !selfMut {
		// a built-in that only reads K leaves it bit-for-bit unchanged
		var same bool
		switch kind {
		case 0:
			same = zzMListSame(k.l, lsnap)
		default:
			if kind == 1 {
				same = zzMHtSame(&k.d.ht, hsnap)
			} else {
				same = zzMHtSame(&k.s.ht, hsnap)
			}
		}
		zzAssert(same, "C06.builtin.K_unchanged")
	} else {
		// self-application on a locked/frozen K must not change it
		locked := zzOr(frozen, c0 > 0)
		var same bool
		switch kind {
		case 0:
			same = zzMListSame(k.l, lsnap)
		case 1:
			same = zzMHtSame(&k.d.ht, hsnap)
		default:
			same = zzMHtSame(&k.s.ht, hsnap)
		}
		zzAssert(zzImplies(locked, same), "C06.builtin.self_locked_unchanged")
	}
	zzAssume(c0 == 0)
	if !frozen {
		zzAssert(k.mutateOK(), "C06.builtin.mutable_again")
	}
	zzReach("end")
}
