//go:build verif

package starlark

// Program skeletons for H01.3 (see zz_verif_c01_diff.go). Leaves v0,v1 (Int from int8),
// v2 (Int from int32), v3,p,q (Bool) are symbolic; emit(x) logs and returns x.
// Within each group the skeletons run in the quick tier come first.

var (
	zzNeedNone     = zzC01Need{}
	zzNeedWhile    = zzC01Need{while: true}
	zzNeedTop      = zzC01Need{toplevel: true, reassign: true}
	zzNeedReassign = zzC01Need{reassign: true}
	zzNeedRec      = zzC01Need{recursion: true}
)

// ---- expressions: evaluation order, short circuit, conditional, folding ----
var zzC01Expr = []zzC01Skel{
	{"e_order", zzNeedNone, `
x = emit(v0) - emit(v1) * emit(3)
y = (emit(1), [emit(2), emit(3)], {emit(4): emit(5)})
`},
	{"e_andor", zzNeedNone, `
x = emit(v0) and emit(v1) or emit(v2)
y = emit(v3) or emit(v0)
z = not (emit(p) and emit(q))
`},
	{"e_cond", zzNeedNone, `
x = emit(v0) if emit(v3) else emit(v1)
y = emit(1) if v0 < v1 else emit(2) if v1 < v2 else emit(3)
`},
	{"e_plusfold", zzNeedNone, `
t = "c"
s = "a" + "b" + t + "d" + "e"
l = [emit(v0)] + [emit(v1)] + [t] + [1] + [emit(2)]
u = (1,) + (v0,) + () + (t,) + (2,) + (3,)
w = "x" + ("y" + "z") + t
m = [1] + [2] + (l if p else []) + [3] + [4]
`},
	{"e_member", zzNeedNone, `
l = [v0, 3]
a = v1 in l
b = v1 not in l
def f():
    if v1 not in l:
        emit(1)
    else:
        emit(2)
    if not (v1 in l) or p:
        emit(3)
    return 0 if v1 not in l else 1
r = f()
`},
	{"e_unary", zzNeedNone, `
a = -v0
b = +v1
c = ~v2
d = not v3
e = - - v0
f = -(v0 + v1) * 2
g = not not p
`},
	{"e_compare", zzNeedNone, `
a = v0 < v1
b = v0 == v1
c = (v0 >= v1) == v3
d = v0 != v1 and v1 <= v2
e = emit(v0) > emit(v1)
`},
	{"e_deep", zzNeedNone, `
x = [v0, [v1, (v2, {1: v3, 2: [emit(1), (emit(2), emit(3))]})], emit(4) + (emit(5) + (emit(6) + emit(7)))]
y = ((((emit(8), 1), 2), 3), [[[[emit(9)]]]])
`},
	{"e_index", zzNeedNone, `
l = [v0, v1, v2, 4]
a = l[1]
b = l[-1]
c = l[1:3]
d = l[::-1]
e = l[emit(2)]
t = (v0, v1)[emit(0)]
dd = {"k": v0}["k"]
s = "hello"[1:emit(3)]
`},
	{"e_method", zzNeedNone, `
l = []
l.append(emit(v0))
l.extend([emit(v1), 2])
d = {}
d.update([("a", v0)], b=emit(v1))
s = ",".join(["a", "b"])
g = d.get("zz", emit(v2))
o = obj()
o.f = v0
h = o.f
`},
	{"e_literals", zzNeedNone, `
a = 1180591620717411303424
b = 1.5
c = "s"
d = b"by"
e = 0x7fffffff + 1
f = -2147483648 - 1
g = [a, b, c, d, (), [], {}]
h = a if v3 else b
`},
}

// ---- control flow ----
var zzC01Ctrl = []zzC01Skel{
	{"c_ifelif", zzNeedNone, `
def f(a, b):
    if a < b:
        emit(1)
        return "lt"
    elif a == b:
        emit(2)
        return "eq"
    else:
        emit(3)
    return "gt"
r = f(v0, v1)
`},
	{"c_forbc", zzNeedNone, `
def f():
    out = []
    for i in [v0, 1, v1, 2]:
        if i == 1:
            continue
        if i == v1:
            break
        out.append(emit(i))
    return out
r = f()
`},
	{"c_iterrelease", zzNeedNone, `
def first(l, x):
    for e in l:
        if e == x:
            return e
    return None
def g(l):
    for e in l:
        if e == v1:
            break
    l.append(9)
    return l
a = [v0, 2, 3]
r1 = first(a, 2)
a.append(4)
r2 = g(a)
`},
	{"c_while", zzNeedWhile, `
def f():
    i = 0
    n = 0
    while i < 4:
        i += 1
        if i == v0:
            continue
        if i == v1:
            break
        n += emit(i)
    return n
r = f()
`},
	{"c_ifcond", zzNeedNone, `
def f():
    if v0 < v1 and not (v1 < v2 or v3):
        emit(1)
    elif p or q and v3:
        emit(2)
    if not p:
        emit(3)
    if not (p and q):
        emit(4)
    else:
        emit(5)
    return 0
r = f()
`},
	{"c_forreturn", zzNeedNone, `
def f():
    for i in range(3):
        for j in range(2):
            emit(i * 10 + j)
            if i == v0 and j == v1:
                return (i, j)
    return None
r = f()
l = [1]
`},
	{"c_breakinner", zzNeedNone, `
def f():
    out = []
    for i in range(2):
        for j in range(3):
            if j == v0:
                break
            out.append((i, j))
        out.append(i)
    return out
r = f()
`},
	{"c_whilefor", zzNeedWhile, `
def f():
    t = 0
    for i in range(2):
        k = 0
        while True:
            k += 1
            if k > 2:
                break
            if p:
                continue
            t += k
        if q:
            continue
        t += 100
    return t
r = f()
`},
	{"c_toplevel", zzNeedTop, `
x = 0
if v3:
    x = 1
else:
    y = 2
for i in [v0, v1]:
    if i < 0:
        continue
    x += 1
    if x > 1:
        break
`},
	{"c_returns", zzNeedNone, `
def a():
    return
def b():
    pass
def c():
    if v3:
        return 1
def d():
    for i in [1]:
        return i
    return 2
r = [a(), b(), c(), d()]
`},
	{"c_condnot", zzNeedNone, `
def f():
    if not (v0 if p else v1):
        emit(1)
    if (p or q) and not (v3 and p):
        emit(2)
    elif not p and not q:
        emit(3)
    x = emit(4) if not v3 else emit(5)
    return x
r = f()
`},
}

// ---- comprehensions ----
var zzC01Comp = []zzC01Skel{
	{"k_listif", zzNeedNone, `
r = [emit(x) * 2 for x in [v0, v1, v2] if x > 0]
`},
	{"k_multi", zzNeedNone, `
r = [(a, b, c) for a, b in [(v0, 1), (v1, 2)] if a < b for c in range(2) if c != b]
`},
	{"k_scope", zzNeedNone, `
x = 1
y = [x for x in [v0, v1]]
z = x
def f():
    x = 5
    w = [x + 1 for x in [v0]]
    return (x, w)
r = f()
`},
	{"k_closure", zzNeedNone, `
fs = [lambda: i for i in [v0, v1]]
r = [f() for f in fs]
def g():
    gs = [lambda: j + 1 for j in [v1, v2]]
    return [h() for h in gs]
r2 = g()
`},
	{"k_dict", zzNeedNone, `
r = {k: emit(v) for k, v in [("a", v0), ("b", v1), ("a", v2)]}
`},
	{"k_outer", zzNeedNone, `
x = [v0, v1]
y = [x for x in x]
def f(x):
    return [x * 2 for x in x if x != 0]
r = f([v0, 1])
z = [[y for y in range(x)] for x in [1, 2]]
`},
	{"k_shared", zzNeedNone, `
def f():
    fs = []
    for i in [v0, v1]:
        fs += [lambda: x for x in [i]]
    return [g() for g in fs]
r = f()
`},
	{"k_unbound", zzNeedNone, `
def f():
    return [1 for x in ([1] if v3 else []) for y in z for z in ()]
r = f()
`},
	{"k_nested", zzNeedNone, `
def f(n):
    m = {i: [j * n for j in range(i)] for i in range(3)}
    return m
r = f(v0)
`},
}

// ---- assignment ----
var zzC01Assign = []zzC01Skel{
	{"a_unpack", zzNeedNone, `
a, b = v0, v1
def f():
    a, b = v0, v1
    a, b = b, a
    (c, d), [e, g] = (a, b), [v2, v3]
    return [a, b, c, d, e, g]
r = f()
[h, (i, j)] = [1, (v0, 3)]
`},
	{"a_indexorder", zzNeedNone, `
l = [0, 0, 0]
l[emit(1)] = emit(v0)
d = {}
d[emit("k")] = emit(v1)
def ix(i):
    emit(i + 100)
    return i
l[ix(0)], l[ix(2)] = emit(v1), emit(v2)
`},
	{"a_augindex", zzNeedNone, `
def ix():
    emit(9)
    return 1
def box(l):
    emit(8)
    return l
l = [v0, v1, v2]
def f():
    box(l)[ix()] += emit(5)
    box(l)[ix()] *= 2
    return l
r = f()
`},
	{"a_alias", zzNeedNone, `
def f():
    a = [v0]
    b = a
    a += [v1]
    t = (v0,)
    u = t
    t += (v1,)
    d = {"a": v0}
    e = d
    d |= {"b": v1}
    s = "x"
    s += "y"
    return [a, b, t, u, d, e, s]
r = f()
`},
	{"a_dot", zzNeedNone, `
o = obj()
o.f = emit(v0)
o.g = [1]
def f():
    o.f += emit(v1)
    o.g += [v2]
    return o.f
r = f()
`},
	{"a_augops", zzNeedNone, `
def f():
    x = v0
    x += v1
    x -= 3
    x *= 2
    x &= v1
    x |= 4
    x ^= v1
    x <<= 2
    x >>= 1
    return x
r = f()
`},
	{"a_augdiv", zzNeedNone, `
def f():
    x = v0
    x //= 3
    x %= 5
    y = 7
    y /= 2
    return (x, y)
r = f()
`},
	{"a_global", zzNeedNone, `
x = [v0]
y = v1
def f():
    x.append(v2)
    y = 5
    return y
r = f()
`},
	{"a_fortargets", zzNeedNone, `
def f():
    d = {"a": v0, "b": v1}
    out = []
    for k, v in d.items():
        out.append((k, v))
    l = [0, 0]
    for l[1] in [v2, v0]:
        out.append(l[1])
    return (out, l)
r = f()
`},
}

// ---- functions, closures, calls ----
var zzC01Func = []zzC01Skel{
	{"f_byref", zzNeedNone, `
def outer():
    x = v0
    def inner():
        return x
    x = v1
    return inner()
r = outer()
def counter():
    n = [v2]
    def inc():
        n[0] += 1
        return n[0]
    return inc
c = counter()
r2 = [c(), c()]
`},
	{"f_three", zzNeedNone, `
def a(x):
    y = v0
    def b():
        z = v1
        def c():
            return [x, y, z]
        return c
    return b()()
r = a(v2)
`},
	{"f_defaults", zzNeedNone, `
def mk(y):
    z = v1
    def f(a=emit(v0), b=emit(v1)):
        return a - b + z + y
    return f
f = mk(1)
r = [f(), f(1), f(b=2), f(3, 4), f(b=5, a=6)]
`},
	{"f_varkw", zzNeedNone, `
def f(a, b=2, *args, k=v0, **kw):
    return [a, b, args, k, kw]
r1 = f(1)
r2 = f(1, 2, 3, 4, k=5, z=v1)
r3 = f(b=v2, a=0, y=1)
def g(a, *, k, j=3):
    return (a, k, j)
r4 = g(1, k=2)
r5 = g(a=v0, j=1, k=v1)
`},
	{"f_callorder", zzNeedNone, `
def f(*args, **kw):
    return (args, kw)
r = f(emit(1), emit(2), k=emit(3), *[emit(4)], **{"z": emit(5)})
def g():
    emit(0)
    return f
r2 = g()(emit(6), j=emit(7))
`},
	{"f_star", zzNeedNone, `
def f(a, b, c=5, **kw):
    return [a, b, c, kw]
r1 = f(*[v0, v1])
r2 = f(*(1, 2, 3))
r3 = f(v0, *[2], **{"c": v2})
r4 = f(**{"b": 1, "a": v3})
r5 = f(1, c=2, *[3], **{"z": 4})
`},
	{"f_loopcapture", zzNeedNone, `
def f():
    fs = []
    gs = []
    for i in [v0, v1]:
        fs.append(lambda: i)
        gs.append(lambda i=i: i)
    return [fs[0](), fs[1](), gs[0](), gs[1]()]
r = f()
`},
	{"f_recursion", zzNeedRec, `
def fact(n):
    if n <= 1:
        return 1
    return n * fact(n - 1)
r = fact(4)
def ev(n):
    return True if n == 0 else od(n - 1)
def od(n):
    return False if n == 0 else ev(n - 1)
r2 = ev(3 if v3 else 2)
`},
	{"f_shadow", zzNeedNone, `
x = v0
def f():
    x = v1
    def g():
        return x
    return g()
def h():
    return x
r = [f(), h(), x]
`},
	{"f_conddef", zzNeedTop, `
if v3:
    def f():
        return 1
else:
    def f():
        return 2
r = f()
def f():
    return 3
r2 = f()
`},
	{"f_higher", zzNeedNone, `
def twice(f, x):
    return f(f(x))
def add(n):
    return lambda x: x + n
r = twice(add(v0), v1)
m = {"f": add(1)}
r2 = m["f"](v2)
`},
	{"f_sigs", zzNeedNone, `
def f1(a=1, *args, k):
    return [a, args, k]
def f2(a, b=2, *, k=3, **kw):
    return [a, b, k, kw]
def f3(*, k):
    return k
def f4(**kw):
    return kw
def f5(g=lambda: v0):
    return g()
r = [f1(k=v0), f1(5, 6, k=v1), f2(v0), f2(1, k=v1, z=2), f3(k=v2), f4(), f4(a=v0), f5(), f5(lambda: 1)]
`},
}

// ---- scoping ----
var zzC01Scope = []zzC01Skel{
	{"s_localhides", zzNeedNone, `
y = "g"
def hello():
    out = []
    for x in (1, 2):
        if x == 2:
            out.append(y)
        if x == 1:
            y = "l"
    return out
r = hello()
`},
	{"s_usebefore", zzNeedNone, `
x = len("ab")
len = v0
y = len
`},
	{"s_cellparam", zzNeedNone, `
def f(a, b):
    def g():
        return a + b
    a = a + 1
    return g()
r = f(v0, v1)
def h(*args, **kw):
    def g():
        return (args, kw)
    return g
r2 = h(v0, k=v1)()
`},
	{"s_load", zzNeedNone, `
load("lib.star", "a", b="B")
x = a + v0
def f():
    return b
r = f()
`},
	{"s_shadowuniv", zzNeedNone, `
def f():
    len = v0
    return len
r = f()
n = len("abc")
`},
	{"s_globaluniv", zzNeedNone, `
def f():
    return len
r0 = f
len = v0
r = f()
`},
	{"s_globalbefore", zzNeedNone, `
def f():
    return g
a = emit(1)
b = f() if v3 else 0
g = 2
c = f()
`},
	{"s_localbefore", zzNeedNone, `
def f():
    if v3:
        y = 1
    return y
r = f()
`},
	{"s_inner", zzNeedNone, `
def outer():
    x = v0
    def inner():
        x = v1
        return x
    i = inner()
    return (x, i)
r = outer()
`},
	{"s_predecl", zzNeedNone, `
def f():
    return v0
v0 = 5
r = f()
`},
	{"s_legacy", zzNeedReassign, `
x = len("ab")
len = v0
y = len
y = [len for i in [1]]
x += 1
load("lib.star", "a")
a = 3
`},
	{"s_cellbefore", zzNeedNone, `
def outer():
    def inner():
        return y
    if v3:
        r = inner()
    if p:
        z = y
    y = 1
    return inner()
r = outer()
`},
}

// ---- dynamic failures: same operation fails, same partial effects ----
var zzC01Err = []zzC01Skel{
	{"x_args", zzNeedNone, `
def f(a, b):
    return a
def g():
    if v3:
        return f(1)
    if p:
        return f(1, 2, 3)
    if q:
        return f(1, 2, a=3)
    return f(1, 2, z=3)
r0 = emit(0)
r = g()
`},
	{"x_nested", zzNeedNone, `
def a(x):
    return b(x) + 1
def b(x):
    return c(x)
def c(x):
    return 10 // x
r = a(v0 & 1)
`},
	{"x_partial", zzNeedNone, `
a = 1
b = emit(v0)
c = [][0] if v3 else 2
d = 3
`},
	{"x_recursion", zzNeedNone, `
def f(n):
    emit(n)
    if n > 0:
        return f(n - 1)
    return 0
def g():
    return f(0) if v3 else f(1)
r = g()
`},
	{"x_recursion2", zzNeedNone, `
def mk():
    def f(g):
        emit(1)
        return g(None) if g else 0
    return f
a = mk()
b = mk()
r0 = a(None)
r = a(b) if v3 else a(lambda g: 5)
`},
	{"x_call", zzNeedNone, `
def f(**kw):
    return kw
def g():
    if v3:
        return f(**5)
    if p:
        return f(*5)
    if q:
        return f(**{1: 2})
    return v0(1)
r = g()
`},
	{"x_unpack", zzNeedNone, `
def g():
    a, b = (1, 2, 3) if v3 else (1, 2)
    for c, d in [(1, 2), (3,) if p else (3, 4)]:
        emit(c)
    e, f = 1 if q else "ab".elems()
    return a
r = g()
`},
	{"x_mutiter", zzNeedNone, `
def g():
    l = [1, 2]
    for x in l:
        if x == v0:
            l.append(3)
    d = {1: 1}
    for k in d:
        if p:
            d[2] = 2
    return (l, d)
r = g()
`},
	{"x_dictlit", zzNeedNone, `
def g():
    a = {emit(1): emit(2), emit(v0): emit(4)}
    b = {[1]: 2} if p else {}
    c = {k: 1 for k in ([[]] if q else [1])}
    return a
r = g()
`},
	{"x_ops", zzNeedNone, `
def g():
    a = 1 + (2 if v3 else "x")
    b = [1][v0]
    c = None.foo if p else 0
    d = -"s" if q else 0
    return a
r = g()
`},
	{"x_misc", zzNeedNone, `
def g():
    l = [1]
    if v3:
        l[(v0 & 1) + 0] += 1
    if p:
        def h(a=l[5]):
            pass
    x = [1 // y for y in [1, v1 & 1]]
    return x
r = g()
`},
	{"x_print", zzNeedNone, `
print("a", 1)
x = emit(v0)
print("b")
`},
	{"x_args2", zzNeedNone, `
def f1(a=1, *args, k):
    return [a, args, k]
def f2(a, b=2, *, k=3, **kw):
    return [a, b, k, kw]
def f3(*, k):
    return k
def g():
    if v3:
        return f1()
    if p:
        return f3(1)
    if q:
        return f2(1, 2, 3)
    return f2(1, a=2, **{"k": 1})
r = g()
`},
}

// Known defect (C01.diff.outcome): the compiler folds a sum of adjacent bytes literals
// (compile.go plus/addable/add, code 'b') although bytes + bytes is not a defined binary
// operation (Binary has no Bytes case): b"a" + b"b" succeeds, x = b"a"; x + b"b" fails.
var zzC01BytesFold = zzC01Skel{"e_bytesfold", zzNeedNone, `
bb = b"a" + b"b"
`}

// Control for the harness below: the same shape with string literals, which is well defined.
var zzC01StringFold = zzC01Skel{"e_stringfold", zzNeedNone, `
bb = "a" + "b"
`}

//verif:unwind 200
func zzH01_diff_bytesfold() {
	sk := zzC01StringFold
	isBytes := zzChoice("bytes", 2) == 1
	if isBytes {
		sk = zzC01BytesFold
	}
	zzObserve("skeleton", sk.name)
	zzC01Diff(sk.src, zzC01Options(sk.need, 0), isBytes)
	zzReach("end")
}

// Known defect (C01.diff.fail_position): a failing slice operation is not reported at the
// position of the slice expression's '[' (as a failing index operation is) but at the
// position of whichever operand was compiled last: compile.go expr(*syntax.SliceExpr) calls
// setPos(e.Lbrack) before compiling the operands, which consume the position, so SLICE is
// emitted without one and Funcode.Position falls back to the preceding instruction.
var zzC01SlicePos = zzC01Skel{"x_slicepos", zzNeedNone, `
x = [1, 2]
a = 0
def f():
    return x[1 : 2 :
              a]
r = f()
`}

// Control: the same failure shape for an index expression, reported at its '['.
var zzC01IndexPos = zzC01Skel{"x_indexpos", zzNeedNone, `
x = [1, 2]
a = 5
def f():
    return x[
              a]
r = f()
`}

//verif:unwind 200
func zzH01_diff_slicepos() {
	sk := zzC01IndexPos
	isSlice := zzChoice("slice", 2) == 1
	if isSlice {
		sk = zzC01SlicePos
	}
	zzObserve("skeleton", sk.name)
	zzC01DiffK(sk.src, zzC01Options(sk.need, 0), false, isSlice)
	zzReach("end")
}

// ---- the harnesses: one per group so that they can be run (and parallelised) separately ----

//verif:unwind 200
func zzH01_diff_expr() { zzC01Run("expr", zzC01Expr, 5) }

//verif:unwind 200
func zzH01_diff_ctrl() { zzC01Run("ctrl", zzC01Ctrl, 5) }

//verif:unwind 200
func zzH01_diff_comp() { zzC01Run("comp", zzC01Comp, 4) }

//verif:unwind 200
func zzH01_diff_assign() { zzC01Run("assign", zzC01Assign, 4) }

//verif:unwind 200
func zzH01_diff_func() { zzC01Run("func", zzC01Func, 5) }

//verif:unwind 200
func zzH01_diff_scope() { zzC01Run("scope", zzC01Scope, 4) }

//verif:unwind 200
func zzH01_diff_err() { zzC01Run("err", zzC01Err, 4) }
