//go:build verif

package starlark

import "go.starlark.net/syntax"

// ---------------------------------------------------------------------------
// H15.3b  repr(v) is source text that evaluates to a value equal to v and of
// the same type, for containers holding symbolic strings, bytes and small
// ints (printer writeValue / Int.String / syntax.Quote; then the whole
// front end and interpreter through EvalOptions).
//
// Bounds: strings of 1 symbolic ASCII byte (longer strings: H15.1), bytes of 1
// arbitrary symbolic byte, symbolic ints with 100 <= |i| <= maxint (smaller
// magnitudes take strconv's table fast path, which the engine can only
// enumerate; they appear as the concrete elements 0, 7, -42); four container
// shapes nested to depth 2. Floats and big ints are outside (formatting is an
// opaque model).
//
//verif:unwind 400
func zzH15_repr_eval() {
	zzExactItoa(true) // the digits of the symbolic int are part of the claim here
	s := zzString("s", 1)
	zzAssume(s[0] < 0x80)
	by := zzString("b", 1)
	i := zzI64("i")
	m := int64(zzParam("maxint", 999, 99999))
	zzAssume(zzAnd(i >= -m, i <= m))
	zzAssume(zzOr(i >= 100, i <= -100))
	var v Value
	switch zzChoice("shape", 4) {
	case 0:
		v = NewList([]Value{String(s), MakeInt64(i)})
	case 1:
		v = Tuple{Bytes(by)} // 1-tuple: trailing comma
	case 2:
		d := NewDict(2)
		d.SetKey(String(s), Tuple{MakeInt(-1234567), None, True})
		v = d
	case 3:
		v = NewList([]Value{NewList(nil), Tuple{}, NewDict(0), False, MakeInt(0), MakeInt(7), MakeInt(-42), Tuple{String(s + "\"" + s)}})
	}
	text := v.String()
	zzObserve("text", text)

	thread := &Thread{Name: "t"}
	got, err := EvalOptions(&syntax.FileOptions{}, thread, "r.star", text, nil)
	zzAssert(err == nil, "C15.repr.evaluates")
	if err == nil {
		eq, err2 := Equal(got, v)
		zzAssert(err2 == nil, "C15.repr.comparable")
		zzAssert(eq, "C15.repr.equal")
		zzAssert(got.Type() == v.Type(), "C15.repr.type")
	}

	// str of a string is the string itself; repr of it is the quoted form
	st, err3 := Call(thread, Universe["str"], Tuple{String(s + s)}, nil)
	zzAssert(err3 == nil, "C15.str.noerr")
	if err3 == nil {
		ss, ok := st.(String)
		zzAssert(zzAnd(ok, string(ss) == s+s), "C15.str.identity")
	}
	zzReach("end")
}
