//go:build verif

package starlark

// Engine self-test (not a property): small Go kernels over symbolic inputs whose every
// intermediate result is observed; the driver replays sampled solver models natively and
// compares all observations (translation validation of the SSA encoder itself).
// Run with: ./bin/symgo run -prop C00 -samples 64

import (
	"math"
	"strconv"
	"strings"
	"unicode/utf8"
)

type zzPair struct {
	a int32
	b uint16
}

type zzShape interface{ area() int64 }
type zzSq struct{ s int64 }
type zzRect struct{ w, h int64 }

func (s zzSq) area() int64    { return s.s * s.s }
func (r *zzRect) area() int64 { return r.w * r.h }

// zzH00_ints: integer arithmetic of all widths, shifts, conversions.
func zzH00_ints() {
	a, b := zzI64("a"), zzI64("b")
	u, v := zzU64("u"), zzU64("v")
	i32, u8 := zzI32("i32"), zzU8("u8")
	sh := zzU8("sh")
	zzObserve("add", a+b)
	zzObserve("sub", a-b)
	zzObserve("mul", a*b)
	zzObserve("and", a&b)
	zzObserve("or", a|b)
	zzObserve("xor", a^b)
	zzObserve("andnot", a&^b)
	zzObserve("neg", -a)
	zzObserve("not", ^a)
	zzObserve("shl", a<<sh)
	zzObserve("shr", a>>sh)
	zzObserve("ushr", u>>sh)
	zzObserve("shl32", i32<<(sh&63))
	zzObserve("shr32", i32>>(sh&63))
	zzObserve("u8shl", u8<<(sh&15))
	zzObserve("lt", a < b)
	zzObserve("ule", u <= v)
	zzObserve("i8", int8(a))
	zzObserve("u16", uint16(a))
	zzObserve("i32to64", int64(i32))
	zzObserve("u8to64", uint64(u8))
	zzObserve("i64tou64", uint64(a))
	zzObserve("u64toi32", int32(u))
	if b != 0 {
		zzObserve("div", a/b)
		zzObserve("rem", a%b)
	}
	if v != 0 {
		zzObserve("udiv", u/v)
		zzObserve("urem", u%v)
	}
	var arr [5]int64
	for i := range arr {
		arr[i] = int64(i) * 7
	}
	idx := u8 % 5
	zzObserve("arr", arr[idx])
	arr[idx] = a
	zzObserve("arr2", arr[2])
	sl := []uint8{1, 2, 3, 4}
	sl[u8&3] = sh
	zzObserve("sl0", sl[0])
	zzObserve("sl3", sl[3])
	zzReach("end")
}

// zzH00_floats: float arithmetic, comparisons and conversions.
func zzH00_floats() {
	f, g := zzF64("f"), zzF64("g")
	n := zzI64("n")
	zzObserve("fadd", f+g)
	zzObserve("fmul", f*g)
	zzObserve("fdiv", f/g)
	zzObserve("flt", f < g)
	zzObserve("feq", f == g)
	zzObserve("fne", f != f)
	zzObserve("neg", -f)
	zzObserve("bits", math.Float64bits(f))
	zzObserve("abs", math.Abs(f))
	zzObserve("isnan", math.IsNaN(f))
	zzObserve("isinf", math.IsInf(g, 0))
	zzObserve("floor", math.Floor(f))
	zzObserve("itof", float64(n))
	zzObserve("utof", float64(uint64(n)))
	if f > -1e18 && f < 1e18 {
		zzObserve("ftoi", int64(f))
		zzObserve("ftoi32", int32(int64(f)))
	}
	zzObserve("f32", float32(f))
	zzReach("end")
}

// zzH00_strings: strings with symbolic bytes.
func zzH00_strings() {
	s := zzString("s", 4)
	t := zzString("t", 2)
	zzObserve("cat", s+t)
	zzObserve("eq", s[:2] == t)
	zzObserve("lt", s < t+"zz")
	zzObserve("b1", s[1])
	i := int(zzU8("i") % 4)
	zzObserve("bi", s[i])
	zzObserve("idx", strings.IndexByte(s, t[0]))
	zzObserve("has", strings.Contains(s, t))
	zzObserve("pre", strings.HasPrefix(s, t))
	zzObserve("upper", strings.ToUpper(t))
	n := 0
	for _, r := range s {
		if r == utf8.RuneError {
			n += 100
		} else {
			n++
		}
	}
	zzObserve("runes", n)
	zzObserve("valid", utf8.ValidString(s))
	bs := []byte(s)
	bs[0] = 'x'
	zzObserve("bytes", string(bs))
	zzObserve("quote", strconv.Quote(t))
	m := map[string]int{"ab": 1, "cd": 2}
	zzObserve("map", m[t])
	switch t {
	case "ab":
		zzObserve("sw", 1)
	case "zz":
		zzObserve("sw", 2)
	default:
		zzObserve("sw", 3)
	}
	zzReach("end")
}

// zzH00_control: structs, interfaces, closures, defer/recover, append aliasing.
func zzH00_control() {
	a := zzI64("a")
	k := zzU8("k")
	p := zzPair{a: int32(a), b: uint16(k)}
	q := p
	q.a++
	zzObserve("pa", p.a)
	zzObserve("qa", q.a)
	zzObserve("peq", p == q)
	var sh zzShape
	if k&1 == 0 {
		sh = zzSq{a & 0xff}
	} else {
		sh = &zzRect{a & 0xf, int64(k)}
	}
	zzObserve("area", sh.area())
	_, isSq := sh.(zzSq)
	zzObserve("issq", isSq)
	acc := int64(0)
	add := func(x int64) { acc += x }
	for i := int64(0); i < 3; i++ {
		add(i * a)
	}
	zzObserve("acc", acc)
	res := func() (r int64) {
		defer func() {
			if e := recover(); e != nil {
				r = -1
			}
		}()
		var arr []int64
		if k > 200 {
			return arr[k] // index out of range -> recovered
		}
		return 5 / (a & 1) // divide by zero when a is even -> recovered
	}()
	zzObserve("res", res)
	base := make([]int64, 2, 4)
	x := append(base, a)
	y := append(base, a+1)
	zzObserve("alias", x[2]) // y overwrote the shared slot
	zzObserve("y2", y[2])
	f := sh.area
	zzObserve("mval", f())
	zzReach("end")
}
