//go:build verif

package starlark

import (
	"runtime/debug"

	"go.starlark.net/internal/compile"
)

// C04 H04.2: object graphs of <= N nodes. Node kinds and edge shape are
// structure choices; the pre-frozen flags are symbolic (any downward-closed
// subset: the invariant Freeze itself maintains). After StringDict.Freeze every
// flag-carrying node reachable from the root is frozen, no unreachable node
// changed, and the call terminates.

const (
	zzGList = iota
	zzGDictV
	zzGDictK // children are keys, wrapped as bound methods (hashable)
	zzGSetK
	zzGTuple
	zzGFnDefaults
	zzGFnCells
	zzGBuiltin
	zzGKinds
)

type zzGNode struct {
	kind int
	val  Value
	flag *bool // nil for kinds without a frozen flag
	kids []int
}

var zzGFuncode = &compile.Funcode{Name: "f"}

func zzGShapes(n int) [][][]int {
	if n == 3 {
		return [][][]int{
			{{1}, {2}, {}},    // chain
			{{1, 2}, {}, {}},  // fan
			{{1}, {2}, {0}},   // 3-cycle
			{{0, 1}, {}, {1}}, // self loop; node 2 unreachable but points into the graph
			{{1}, {2}, {1}},   // back edge below the root
			{{1, 2}, {2}, {}}, // shared child
			{{1}, {1, 2}, {}}, // self loop below the root
		}
	}
	return [][][]int{
		{{1}, {2}, {3}, {}},     // chain
		{{1, 2, 3}, {}, {}, {}}, // fan
		{{1, 2}, {3}, {3}, {}},  // diamond
		{{1}, {2}, {0, 3}, {}},  // 3-cycle with a tail
		{{0, 1}, {2}, {}, {1}},  // self loop; node 3 unreachable, points into the graph
		{{1}, {2}, {1, 3}, {}},  // back edge below the root
		{{1}, {2, 3}, {}, {}},   // tree
		{{1}, {}, {3}, {1}},     // two unreachable nodes
		{{1}, {2}, {3}, {0}},    // 4-cycle
		{{1, 3}, {2}, {1}, {2}}, // two entries into a 2-cycle
	}
}

func zzGWrapKey(i int, child Value) Value {
	return &Builtin{name: "m" + string(rune('0'+i)), recv: child}
}

// zzGBuild allocates the nodes first and wires the edges afterwards, so cycles are possible.
func zzGBuild(kinds []int, shape [][]int) []*zzGNode {
	nodes := make([]*zzGNode, len(kinds))
	for i, k := range kinds {
		nd := &zzGNode{kind: k, kids: shape[i]}
		switch k {
		case zzGList:
			l := NewList(nil)
			nd.val, nd.flag = l, &l.frozen
		case zzGDictV, zzGDictK:
			d := new(Dict)
			nd.val, nd.flag = d, &d.ht.frozen
		case zzGSetK:
			s := new(Set)
			nd.val, nd.flag = s, &s.ht.frozen
		case zzGTuple:
			nd.val = make(Tuple, len(shape[i]))
		case zzGFnDefaults, zzGFnCells:
			nd.val = &Function{funcode: zzGFuncode}
		case zzGBuiltin:
			nd.val = &Builtin{name: "b"}
		}
		nodes[i] = nd
	}
	for _, nd := range nodes {
		for j, c := range nd.kids {
			cv := nodes[c].val
			var err error
			switch nd.kind {
			case zzGList:
				err = nd.val.(*List).Append(cv)
			case zzGDictV:
				err = nd.val.(*Dict).SetKey(MakeInt(j), cv)
			case zzGDictK:
				err = nd.val.(*Dict).SetKey(zzGWrapKey(j, cv), MakeInt(j))
			case zzGSetK:
				err = nd.val.(*Set).Insert(zzGWrapKey(j, cv))
			case zzGTuple:
				nd.val.(Tuple)[j] = cv
			case zzGFnDefaults:
				fn := nd.val.(*Function)
				fn.defaults = append(fn.defaults, cv)
			case zzGFnCells:
				fn := nd.val.(*Function)
				fn.freevars = append(fn.freevars, &cell{cv})
			case zzGBuiltin:
				b := nd.val.(*Builtin)
				if b.recv == nil {
					b.recv = cv
				} else if t, ok := b.recv.(Tuple); ok && j > 1 {
					b.recv = append(t, cv)
				} else {
					b.recv = Tuple{b.recv, cv}
				}
			}
			if err != nil {
				panic("zzGBuild: " + err.Error())
			}
		}
	}
	return nodes
}

// zzGReach: reach[i][j] = j reachable from i by one or more edges.
func zzGReach(nodes []*zzGNode) [][]bool {
	n := len(nodes)
	r := make([][]bool, n)
	for i := range r {
		r[i] = make([]bool, n)
		for _, c := range nodes[i].kids {
			r[i][c] = true
		}
	}
	for k := 0; k < n; k++ {
		for i := 0; i < n; i++ {
			for j := 0; j < n; j++ {
				if r[i][k] && r[k][j] {
					r[i][j] = true
				}
			}
		}
	}
	return r
}

// zzGFlaglessCycle: some cycle reachable from the root consists only of nodes
// without a frozen flag (tuple/function/bound method/cell): Freeze has no guard there.
func zzGFlaglessCycle(nodes []*zzGNode, reach [][]bool) bool {
	n := len(nodes)
	// reachability restricted to flagless nodes
	r := make([][]bool, n)
	for i := range r {
		r[i] = make([]bool, n)
		if nodes[i].flag != nil {
			continue
		}
		for _, c := range nodes[i].kids {
			if nodes[c].flag == nil {
				r[i][c] = true
			}
		}
	}
	for k := 0; k < n; k++ {
		for i := 0; i < n; i++ {
			for j := 0; j < n; j++ {
				if r[i][k] && r[k][j] {
					r[i][j] = true
				}
			}
		}
	}
	for i := 0; i < n; i++ {
		if r[i][i] && (i == 0 || reach[0][i]) {
			return true
		}
	}
	return false
}

// zzH04_graphFreeze decides H04.2.
func zzH04_graphFreeze() {
	n := zzParam("nodes", 3, 4)
	shapes := zzGShapes(n)
	shapes = shapes[:zzParam("shapes", 5, len(shapes))]
	shape := shapes[zzChoice("shape", len(shapes))]
	// quick tier: one representative of {dict keys, set keys} and of {defaults, cells}; bound-method
	// receivers occur as the wrapped keys of the dict-key kind
	inner := []int{zzGList, zzGDictV, zzGDictK, zzGTuple, zzGFnCells, zzGBuiltin, zzGSetK, zzGFnDefaults}
	inner = inner[:zzParam("kinds", 5, 8)]
	leaf := []int{zzGList, zzGDictV, zzGSetK}
	kinds := make([]int, n)
	for i := range kinds {
		if len(shape[i]) == 0 {
			// a leaf without a flag is inert: leaves are list/dict/set
			kinds[i] = leaf[zzChoice("kind"+string(rune('0'+i)), len(leaf))]
		} else {
			kinds[i] = inner[zzChoice("kind"+string(rune('0'+i)), len(inner))]
		}
	}
	nodes := zzGBuild(kinds, shape)
	reach := zzGReach(nodes)
	// symbolic pre-frozen flags, downward closed
	pre := make([]bool, n)
	for i, nd := range nodes {
		if nd.flag != nil {
			pre[i] = zzBool("pre" + string(rune('0'+i)))
			*nd.flag = pre[i]
		}
	}
	for i := range nodes {
		for j := range nodes {
			if nodes[i].flag != nil && nodes[j].flag != nil && reach[i][j] {
				zzAssume(zzImplies(pre[i], pre[j]))
			}
		}
	}
	flagless := zzGFlaglessCycle(nodes, reach)
	g := StringDict{"root": nodes[0].val, "n": MakeInt(1), "s": String("x")}
	if !zzSymbolic() {
		debug.SetMaxStack(32 << 20) // native replay only: fail fast on runaway recursion
	}
	died := zzFatal("C04.graph.terminates", func() { g.Freeze() })
	zzAssertExcept(!died, "C04.graph.terminates", flagless)
	if died {
		zzReach("end")
		return
	}
	for i, nd := range nodes {
		if nd.flag == nil {
			continue
		}
		if i == 0 || reach[0][i] {
			zzAssert(*nd.flag, "C04.graph.reachable_frozen")
		} else {
			zzAssert(*nd.flag == pre[i], "C04.graph.unreachable_untouched")
		}
	}
	zzObserve("root", nodes[0].val.Type())
	// frozen means: mutators fail (ties the flag to behaviour for one mutator per kind; H04.1 covers all)
	if nodes[0].flag != nil {
		var err error
		switch v := nodes[0].val.(type) {
		case *List:
			err = v.Append(None)
		case *Dict:
			err = v.SetKey(String("zz"), None)
		case *Set:
			err = v.Insert(String("zz"))
		}
		zzAssert(err != nil, "C04.graph.root_rejects")
	}
	zzReach("end")
}
