//go:build verif

package starlark

// zzC02Graph builds a graph of three mutable containers (list A, dict B, list C) and a
// tuple T=(C,) whose edges are chosen symbolically; returns the root and all nodes.
func zzC02Graph() (root Value, nodes []Value) {
	a := NewList(nil)
	b := NewDict(2)
	c := NewList(nil)
	t := Tuple{c, MakeInt(7)}
	nodes = []Value{a, b, c, t}
	pick := func(name string) Value {
		k := zzChoice(name, 5)
		if k == 4 {
			return MakeInt(1)
		}
		return nodes[k]
	}
	a.Append(pick("a0"))
	a.Append(pick("a1"))
	b.SetKey(String("k"), pick("b0"))
	c.Append(pick("c0"))
	return nodes[zzChoice("root", 4)], nodes
}

// zzC02GraphCopy returns a second graph with the same shape (so that == must walk both).
func zzC02GraphCopy(root Value, nodes []Value) (Value, []Value) {
	a := NewList(nil)
	b := NewDict(2)
	c := NewList(nil)
	t := Tuple{c, MakeInt(7)}
	cp := []Value{a, b, c, t}
	mapv := func(v Value) Value {
		for i, n := range nodes {
			if i < 3 && v == n {
				return cp[i]
			}
		}
		if tt, ok := v.(Tuple); ok && len(tt) == 2 {
			return t
		}
		return v
	}
	oa, ob, oc := nodes[0].(*List), nodes[1].(*Dict), nodes[2].(*List)
	for i := 0; i < oa.Len(); i++ {
		a.Append(mapv(oa.Index(i)))
	}
	v, _, _ := ob.Get(String("k"))
	b.SetKey(String("k"), mapv(v))
	c.Append(mapv(oc.Index(0)))
	for i, n := range nodes {
		if i < 3 && root == n {
			return cp[i], cp
		}
	}
	return t, cp
}

