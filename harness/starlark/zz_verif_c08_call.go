//go:build verif

package starlark

import (
	"strconv"

	"go.starlark.net/syntax"
)

// ---------------------------------------------------------------------------
// H08.3: the CALL / CALL_VAR / CALL_KW / CALL_VAR_KW opcodes.
//
// A call expression  callee(1, .., a=11, .., *s, **d)  with np positional
// literals, nn named arguments (names a, b), an optional *s and an optional
// **d is compiled from source and executed. s is a list/tuple of 0..3 values
// (or a non-iterable), d a dict of 0..2 entries whose keys are symbolic
// one-byte strings (so a key may or may not collide with a named argument, a
// parameter, or the other key), or has a non-string key, or is not a mapping.
//
// Reference (doc/spec.md "Functions"): the callee receives the positional
// arguments followed by the elements of s, and the named arguments in source
// order followed by the entries of d in insertion order; a non-iterable after
// *, a non-mapping after ** or a non-string key is a dynamic error (the callee
// is not called). With a Starlark callee `def f(*r, **w)` a name given twice
// (named and in d) is an error, otherwise r and w hold exactly those values.
// ---------------------------------------------------------------------------

type zzCapture struct {
	called bool
	args   Tuple
	kwargs []Tuple
}

//verif:unwind 40
func zzH08_callflatten() {
	np := zzChoice("npos", 3)
	nn := zzChoice("nnamed", 3)
	sKind := zzChoice("star", 4)     // 0 none, 1 list, 2 tuple, 3 non-iterable
	dKind := zzChoice("starstar", 4) // 0 none, 1 dict with string keys, 2 dict with a non-string key, 3 non-mapping
	starlarkCallee := zzChoice("callee", 2) == 1

	src := "result = callee("
	sep := ""
	for i := 0; i < np; i++ {
		src += sep + strconv.Itoa(1+i)
		sep = ", "
	}
	for j := 0; j < nn; j++ {
		src += sep + "ab"[j:j+1] + "=" + strconv.Itoa(11+j)
		sep = ", "
	}
	if sKind != 0 {
		src += sep + "*s"
		sep = ", "
	}
	if dKind != 0 {
		src += sep + "**d"
	}
	src += ")\n"
	if starlarkCallee {
		src = "def callee(*r, **w):\n    return (r, w)\n" + src
	}

	// *s
	var sVal Value = None
	ns := 0
	if sKind == 1 || sKind == 2 {
		ns = zzChoice("slen", zzParam("maxstar", 2, 3)+1)
		var elems []Value
		for i := 0; i < ns; i++ {
			elems = append(elems, MakeInt(21+i))
		}
		if sKind == 1 {
			sVal = NewList(elems)
		} else {
			sVal = Tuple(elems)
		}
	} else if sKind == 3 {
		sVal = MakeInt(99)
	}
	// **d
	var dVal Value = None
	var dKeys []string
	if dKind == 1 || dKind == 2 {
		d := new(Dict)
		nd := zzChoice("dlen", 3)
		for i := 0; i < nd; i++ {
			k := zzString("dkey"+strconv.Itoa(i), 1)
			for _, prev := range dKeys {
				zzAssume(k != prev) // dict keys are distinct by construction
			}
			dKeys = append(dKeys, k)
			d.SetKey(String(k), MakeInt(31+i))
		}
		if dKind == 2 {
			d.SetKey(MakeInt(7), MakeInt(39))
		}
		dVal = d
	} else if dKind == 3 {
		dVal = MakeInt(98)
	}

	cp := &zzCapture{}
	pre := StringDict{"s": sVal, "d": dVal}
	if !starlarkCallee {
		pre["callee"] = NewBuiltin("callee", func(th *Thread, b *Builtin, args Tuple, kwargs []Tuple) (Value, error) {
			cp.called = true
			cp.args = append(Tuple(nil), args...)
			cp.kwargs = append([]Tuple(nil), kwargs...)
			return None, nil
		})
	}
	th := &Thread{Name: "t"}
	g, err := ExecFileOptions(&syntax.FileOptions{}, th, "call.star", src, pre)
	zzObserve("failed", err != nil)

	badOperand := sKind == 3 || dKind == 2 || dKind == 3
	if badOperand {
		zzAssert(err != nil, "C08.call.bad_star_operand_fails")
		zzAssert(!cp.called, "C08.call.bad_star_operand_callee_not_called")
		zzReach("end")
		return
	}
	// expected flattened arguments
	var wantPos []int
	for i := 0; i < np; i++ {
		wantPos = append(wantPos, 1+i)
	}
	for i := 0; i < ns; i++ {
		wantPos = append(wantPos, 21+i)
	}
	var wantNames []string
	var wantVals []int
	for j := 0; j < nn; j++ {
		wantNames = append(wantNames, "ab"[j:j+1])
		wantVals = append(wantVals, 11+j)
	}
	for i, k := range dKeys {
		wantNames = append(wantNames, k)
		wantVals = append(wantVals, 31+i)
	}

	if !starlarkCallee {
		zzAssert(err == nil, "C08.call.builtin_call_succeeds")
		zzAssert(cp.called, "C08.call.callee_called")
		zzAssert(len(cp.args) == len(wantPos), "C08.call.positional_count")
		zzAssert(len(cp.kwargs) == len(wantNames), "C08.call.keyword_count")
		if len(cp.args) == len(wantPos) {
			for i := range wantPos {
				zzAssert(zzValueID(cp.args[i]) == wantPos[i], "C08.call.positional_order")
			}
		}
		if len(cp.kwargs) == len(wantNames) {
			all := true
			for i := range wantNames {
				k, isStr := cp.kwargs[i][0].(String)
				zzAssert(isStr && len(cp.kwargs[i]) == 2, "C08.call.keyword_pair_shape")
				all = zzAnd(all, zzAnd(string(k) == wantNames[i], zzValueID(cp.kwargs[i][1]) == wantVals[i]))
			}
			zzAssert(all, "C08.call.keyword_order")
		}
		zzReach("end")
		return
	}

	// Starlark callee def callee(*r, **w)
	dup := false
	for i := range wantNames {
		for j := 0; j < i; j++ {
			dup = zzOr(dup, wantNames[i] == wantNames[j])
		}
	}
	zzAssert((err != nil) == dup, "C08.call.duplicate_keyword_fails")
	if err == nil {
		res, ok := g["result"].(Tuple)
		zzAssert(ok && len(res) == 2, "C08.call.result_shape")
		if ok && len(res) == 2 {
			r, ok1 := res[0].(Tuple)
			w, ok2 := res[1].(*Dict)
			zzAssert(ok1 && ok2, "C08.call.result_types")
			if ok1 && ok2 {
				zzAssert(len(r) == len(wantPos), "C08.call.varargs_len")
				if len(r) == len(wantPos) {
					for i := range wantPos {
						zzAssert(zzValueID(r[i]) == wantPos[i], "C08.call.varargs_order")
					}
				}
				items := w.Items()
				zzAssert(len(items) == len(wantNames), "C08.call.kwargs_len")
				if len(items) == len(wantNames) {
					all := true
					for i := range wantNames {
						k, isStr := items[i][0].(String)
						zzAssert(isStr, "C08.call.kwargs_key_string")
						all = zzAnd(all, zzAnd(string(k) == wantNames[i], zzValueID(items[i][1]) == wantVals[i]))
					}
					zzAssert(all, "C08.call.kwargs_order")
				}
			}
		}
	}
	zzReach("end")
}
