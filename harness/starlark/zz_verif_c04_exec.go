//go:build verif

package starlark

import "go.starlark.net/syntax"

// C04 H04.3 [T2]: ExecFileOptions freezes everything reachable from the globals
// on success and on every failure path (error in the module body, in a called
// function, in a host built-in, cancellation at a symbolic step count); values
// not reachable from the globals stay mutable; the predeclared environment and
// the universe are not written.

// zzXWalk visits every value reachable from v through list/tuple elements, dict
// keys and values, set elements, function defaults and cells, bound receivers.
func zzXWalk(v Value, seen *[]Value, visit func(Value)) {
	switch v.(type) {
	case *List, *Dict, *Set, *Function, *Builtin, *cell:
		for _, s := range *seen {
			if s == v {
				return
			}
		}
		*seen = append(*seen, v)
	}
	visit(v)
	switch v := v.(type) {
	case *List:
		for _, e := range v.elems {
			zzXWalk(e, seen, visit)
		}
	case Tuple:
		for _, e := range v {
			zzXWalk(e, seen, visit)
		}
	case *Dict:
		for e := v.ht.head; e != nil; e = e.next {
			zzXWalk(e.key, seen, visit)
			zzXWalk(e.value, seen, visit)
		}
	case *Set:
		for e := v.ht.head; e != nil; e = e.next {
			zzXWalk(e.key, seen, visit)
		}
	case *Function:
		zzXWalk(v.defaults, seen, visit)
		zzXWalk(v.freevars, seen, visit)
	case *cell:
		if v.v != nil {
			zzXWalk(v.v, seen, visit)
		}
	case *Builtin:
		if v.recv != nil {
			zzXWalk(v.recv, seen, visit)
		}
	}
}

const zzXSrc = `
a = [n0, [2, 3], {"k": [4]}]
def mk():
    cap = [5]
    def inner(x=[6], *, y={7: [8]}):
        return cap
    return inner
f = mk()
m = a.append
t = (a, {9: [10]}, set([(11, 12)]))
keep([13])
def local():
    tmp = [14]
    keep(tmp)
    return len(tmp)
k = local()
b = {"x": a, f: [15]}
STAGE1
c = [16]
STAGE2
d = [17, c]
`

func zzXProgram(kind int) string {
	src := zzXSrc
	rep := func(s, old, new string) string {
		for i := 0; i+len(old) <= len(s); i++ {
			if s[i:i+len(old)] == old {
				return s[:i] + new + s[i+len(old):]
			}
		}
		return s
	}
	s1, s2 := "pass", "pass"
	switch kind {
	case 1:
		s1 = "z = 1 // zero"
	case 2:
		s2 = "def g():\n    return boom(c)\nz = g()"
	case 3:
		s2 = "z = [boom(e) for e in d0]"
	case 4:
		s1 = "z = hostpanic()"
	}
	return rep(rep(src, "STAGE1", s1), "STAGE2", s2)
}

//verif:unwind 400
func zzH04_execFreeze() {
	kind := zzChoice("program", 6) // 0 ok, 1 div by zero, 2 error in callee, 3 error in comprehension, 4 host panic, 5 cancel at symbolic step
	var kept []Value
	keep := NewBuiltin("keep", func(_ *Thread, _ *Builtin, args Tuple, _ []Tuple) (Value, error) {
		kept = append(kept, args[0])
		return None, nil
	})
	boom := NewBuiltin("boom", func(_ *Thread, b *Builtin, args Tuple, _ []Tuple) (Value, error) {
		return nil, nameErr(b, "boom")
	})
	hostpanic := NewBuiltin("hostpanic", func(_ *Thread, b *Builtin, args Tuple, _ []Tuple) (Value, error) {
		panic("host panic")
	})
	n0 := zzU8("n0")
	hostList := NewList([]Value{zzMInt(n0)}) // a value passed in from the host, stored in a global by the module
	pre := StringDict{"keep": keep, "boom": boom, "hostpanic": hostpanic, "n0": zzMInt(n0), "zero": MakeInt(0), "d0": hostList}
	preCopy := StringDict{}
	for k, v := range pre {
		preCopy[k] = v
	}
	nuni := len(Universe)
	thread := &Thread{Name: "t"}
	if kind == 5 {
		lim := zzU64("steps")
		zzAssume(zzAnd(lim >= 1, lim <= uint64(zzParam("maxsteps", 40, 400))))
		thread.SetMaxExecutionSteps(lim)
	}
	opts := &syntax.FileOptions{Set: true, GlobalReassign: true}
	var g StringDict
	var err error
	zzWriteLogStart()
	panicked := zzCatch(func() {
		g, err = ExecFileOptions(opts, thread, "x.star", zzXProgram(kind%5), pre)
	})
	zzWriteLogStop()
	// writes into the two environment maps themselves = all writes below the maps minus
	// the writes into their values (the module may mutate predeclared *values*)
	var envVals []any
	for _, v := range pre {
		envVals = append(envVals, v)
	}
	for _, v := range Universe {
		envVals = append(envVals, v)
	}
	zzAssert(zzWritesInto(pre, Universe) == zzWritesInto(envVals...), "C04.exec.env_not_written")
	zzObserve("failed", err != nil)
	zzAssert(panicked == (kind == 4), "C04.exec.panic_only_from_host")
	if panicked {
		// nothing is returned to the host on a host panic; the thread is still usable
		zzAssert(thread.CallStackDepth() == 0, "C04.exec.stack")
		zzReach("end")
		return
	}
	zzAssert((err != nil) == (kind != 0 && !(kind == 5 && thread.Steps < thread.maxSteps)), "C04.exec.error_expected")
	// every value reachable from the returned globals is frozen
	var seen []Value
	nflag := 0
	for _, name := range g.Keys() {
		zzXWalk(g[name], &seen, func(v Value) {
			switch v := v.(type) {
			case *List:
				nflag++
				zzAssert(v.frozen, "C04.exec.reachable_frozen")
			case *Dict:
				nflag++
				zzAssert(v.ht.frozen, "C04.exec.reachable_frozen")
			case *Set:
				nflag++
				zzAssert(v.ht.frozen, "C04.exec.reachable_frozen")
			}
		})
	}
	zzObserve("nflag", nflag)
	if err == nil {
		zzAssert(nflag >= 14, "C04.exec.walk_complete")
		// a function of the module called later cannot mutate module state
		_, err2 := Call(thread, zzC04Mod["callappend"], Tuple{g["a"], None}, nil)
		zzAssert(err2 != nil, "C04.exec.later_call_rejected")
		_, err3 := Call(thread, g["m"], Tuple{None}, nil)
		zzAssert(err3 != nil, "C04.exec.bound_method_rejected")
	}
	// values that never became reachable from the globals stay mutable
	for _, v := range kept {
		l := v.(*List)
		zzAssert(zzNot(l.frozen), "C04.exec.unreachable_mutable")
		zzAssert(l.Append(None) == nil, "C04.exec.unreachable_mutable")
	}
	// a host value stays mutable unless the module stored it in a global
	if _, stored := g["z"]; !stored {
		zzAssert(hostList.Append(None) == nil, "C04.exec.host_value_mutable")
	}
	// predeclared and universe: same keys, same values
	same := len(pre) == len(preCopy) && len(Universe) == nuni
	for k, v := range preCopy {
		same = same && pre[k] == v
	}
	zzAssert(same, "C04.exec.env_same")
	zzAssert(thread.CallStackDepth() == 0, "C04.exec.stack")
	zzReach("end")
}
