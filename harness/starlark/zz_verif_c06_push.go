//go:build verif

package starlark

import "iter"

// C06 H06.3 [T2]: Go push iterators (List/Set/Tuple.Elements, Dict.Entries,
// Elements(iterable), Entries(mapping)) over K with symbolic frozen flag and
// iterator count c0, with a consumer that stops (returns false) or panics at a
// symbolic index: K is locked exactly while the loop body runs, and the count
// is back at c0 afterwards by every exit path.

// zzPMapping is an IterableMapping without the Entries fast path.
type zzPMapping struct{ d *Dict }

func (m zzPMapping) String() string                   { return "zzPMapping" }
func (m zzPMapping) Type() string                     { return "zzPMapping" }
func (m zzPMapping) Freeze()                          {}
func (m zzPMapping) Truth() Bool                      { return True }
func (m zzPMapping) Hash() (uint32, error)            { return 0, nil }
func (m zzPMapping) Get(k Value) (Value, bool, error) { return m.d.Get(k) }
func (m zzPMapping) Iterate() Iterator                { return m.d.Iterate() }
func (m zzPMapping) Items() []Tuple                   { return m.d.Items() }

//verif:unwind 64
func zzH06_pushIterators() {
	N := zzParam("maxlen", 2, 3)
	n := zzChoice("n", N+1)
	// 0 List.Elements 1 Elements(list) 2 Set.Elements 3 Elements(set) 4 Dict.Entries
	// 5 Entries(dict) 6 Elements(dict) [generic] 7 Entries(custom mapping) [generic] 8 Elements(tuple)
	op := zzChoice("op", 9)
	kind := []int{0, 0, 2, 2, 1, 1, 1, 1, 0}[op]
	generic := op == 6 || op == 7
	k := zzC06MakeK(kind, n)
	frozen, c0 := zzBool("frozen"), zzU32("c0")
	zzAssume(c0 < 1<<31)
	var flag *bool
	switch kind {
	case 0:
		flag = &k.l.frozen
	case 1:
		flag = &k.d.ht.frozen
	case 2:
		flag = &k.s.ht.frozen
	}
	*flag = frozen
	*k.counter() = c0
	thread := &Thread{Name: "t"}

	var seq1 iter.Seq[Value]
	var seq2 iter.Seq2[Value, Value]
	switch op {
	case 0:
		seq1 = k.l.Elements()
	case 1:
		seq1 = Elements(k.l)
	case 2:
		seq1 = k.s.Elements()
	case 3:
		seq1 = Elements(k.s)
	case 4:
		seq2 = k.d.Entries()
	case 5:
		seq2 = Entries(k.d)
	case 6:
		seq1 = Elements(k.d)
	case 7:
		seq2 = Entries(zzPMapping{k.d})
	case 8:
		seq1 = Elements(Tuple(k.l.elems))
	}
	// The generic (non-specialised) sequences violate three related expectations; each is
	// asserted on its own path so that one known failure does not mask the others.
	which := -1
	if generic {
		which = zzChoice("which", 3)
	}
	// (the generic Elements/Entries path used to lock at creation: fixed in /repo, see known_findings.json)
	_ = generic
	// obtaining the sequence takes no lock: only ranging over it does
	if which <= 0 {
		zzAssert(*k.counter() == c0, "C06.push.lock_only_while_ranging")
	}

	at := zzU8("at")
	stopKind := zzChoice("stop", 2) // 0: return false (break), 1: panic
	run := func() (visited int, lockOK bool, panicked bool) {
		lockOK = true
		body := func() bool {
			want := zzIteU32(zzOr(frozen, op == 8), c0, c0+1)
			lockOK = zzAnd(lockOK, *k.counter() == want)
			i := visited
			visited++
			if uint8(i) == at {
				if stopKind == 1 {
					panic("consumer panic")
				}
				return false
			}
			return true
		}
		panicked = zzCatch(func() {
			if seq1 != nil {
				seq1(func(Value) bool { return body() })
			} else {
				seq2(func(_, _ Value) bool { return body() })
			}
		})
		return
	}
	visited, lockOK, panicked := run()
	zzObserve("visited", visited)
	zzObserve("panicked", panicked)
	zzAssert(lockOK, "C06.push.locked_while_ranging")
	zzAssert(panicked == (stopKind == 1 && int(at) < n), "C06.push.panic_iff_scheduled")
	wantVisited := zzIteInt(int(at) < n, int(at)+1, n)
	zzAssert(visited == wantVisited, "C06.push.visited")
	zzAssert(*k.counter() == c0, "C06.push.unlocked")
	zzAssert(*flag == frozen, "C06.push.flag_unchanged")
	// an iter.Seq may be ranged over again
	_, lockOK2, _ := run()
	if which < 0 || which == 1 {
		zzAssert(lockOK2, "C06.push.rerange_locked")
	}
	if which < 0 || which == 2 {
		zzAssert(*k.counter() == c0, "C06.push.rerange_unlocked")
	}
	zzAssert(thread.CallStackDepth() == 0, "C06.push.stack")
	zzReach("end")
}
