//go:build verif

package starlark

import "math/big"

// C13 / H13.1: slicing and indexing of string, bytes, list and tuple against
// the CPython reference (PySlice_AdjustIndices + subscription), for all
// lo/hi/step in {None} ∪ Int (magnitudes up to 2^bits, i.e. also beyond int32
// and int64).

// ---- shared C13 helpers ----

// zzOperand is a slice/index operand: None or a symbolic Int with exact value w.
type zzOperand struct {
	v    Value
	none bool
	w    zzW
}

// zzOpt returns an operand chosen (structurally) among
//   0: None
//   1: any int32 value (small representation), fully symbolic
//   2: any int64 value outside int32 (big representation)
//   3: any value v with 2^64 <= |v| < 2^70
// cats limits the categories used (2: None/int32 only).
func zzOpt(name string, cats int) zzOperand { return zzOptFrom(name, 0, cats) }

// zzOptFrom is zzOpt restricted to categories first..cats-1.
func zzOptFrom(name string, first, cats int) zzOperand {
	switch first + zzChoice(name+"_kind", cats-first) {
	case 0:
		return zzOperand{v: None, none: true}
	case 1:
		v := int64(zzI32(name))
		return zzOperand{v: MakeInt64(v), w: zzWOf64(v)}
	case 2:
		v := zzI64(name)
		zzAssume(zzOr(v < -1<<31, v > 1<<31-1))
		return zzOperand{v: MakeInt64(v), w: zzWOf64(v)}
	}
	neg := zzBool(name + "_neg")
	lo := zzU64(name + "_lo")
	hi := zzU64(name + "_hi")
	zzAssume(zzAnd(hi >= 1, hi < 64))
	b := new(big.Int).SetBits([]big.Word{big.Word(lo), big.Word(hi)})
	w := zzW{int64(hi), lo}
	if neg {
		b.Neg(b)
		w = zzWNeg(w)
	}
	return zzOperand{v: MakeBigInt(b), w: w}
}

// zzClamp64 clamps w into [-lim, lim] (lim < 2^62).
func zzClamp64(w zzW, lim int64) int64 {
	hi := zzWLess(zzWOf64(lim), w)
	lo := zzWLess(w, zzWOf64(-lim))
	return zzIteI64(hi, lim, zzIteI64(lo, -lim, int64(w.lo)))
}

func zzIn32(o zzOperand) bool { return zzOr(o.none, zzWFits32(o.w)) }

const zzLim = int64(1) << 40

// zzPyAdjust is one operand of CPython's PySlice_AdjustIndices (plus the
// defaults of PySlice_Unpack): v is the operand (ignored if none), n the
// length, neg whether step < 0.
func zzPyAdjust(o zzOperand, n int64, neg bool, isStart bool) int64 {
	lowClamp := zzIteI64(neg, -1, 0)
	highClamp := zzIteI64(neg, n-1, n)
	if o.none {
		if isStart {
			return zzIteI64(neg, n-1, 0)
		}
		return zzIteI64(neg, -1, n)
	}
	v := zzClamp64(o.w, zzLim)
	a := zzIteI64(v < 0, v+n, v)
	a = zzIteI64(zzAnd(v < 0, a < 0), lowClamp, a)
	a = zzIteI64(zzAnd(v >= 0, v >= n), highClamp, a)
	return a
}

// zzPySlice returns, for a sequence of length n, the reference index of the
// k-th result element (k < n) and the reference result length.
func zzPySlice(lo, hi, st zzOperand, n int) (idx []int64, length int) {
	step := int64(1)
	if !st.none {
		step = zzClamp64(st.w, zzLim)
	}
	neg := step < 0
	start := zzPyAdjust(lo, int64(n), neg, true)
	stop := zzPyAdjust(hi, int64(n), neg, false)
	idx = make([]int64, n)
	for k := 0; k < n; k++ {
		i := start + int64(k)*step
		idx[k] = i
		valid := zzIteBool(neg, i > stop, i < stop)
		length += zzIteInt(valid, 1, 0)
	}
	return idx, length
}

// zzAtStr is s[i] for symbolic i (0 when out of range), without forking.
func zzAtStr(s string, i int64) byte {
	var b byte
	for j := 0; j < len(s); j++ {
		b = zzIteU8(i == int64(j), s[j], b)
	}
	return b
}

func zzInRange(i int64, n int) bool { return zzAnd(i >= 0, i < int64(n)) }

// zzElems makes n distinct concrete element values.
func zzElems(n int) []Value {
	elems := make([]Value, n)
	for i := range elems {
		elems[i] = String(string(rune('a' + i)))
	}
	return elems
}

// zzTagOf is the position of v in elems (concrete identity), or -1.
func zzTagOf(elems []Value, v Value) int64 {
	for i, e := range elems {
		if e == v {
			return int64(i)
		}
	}
	return -1
}

// ---- H13.1a: normalisation in slice()/indices()/asIndex() for ALL lengths ----

// zzRecSeq is a Sliceable of (symbolic) length n that records the normalised
// (start, end, step) that slice() hands to the per-type Slice method.
type zzRecSeq struct {
	n                int
	start, end, step int
	calls            int
}

func (r *zzRecSeq) String() string        { return "zzRecSeq" }
func (r *zzRecSeq) Type() string          { return "zzRecSeq" }
func (r *zzRecSeq) Freeze()               {}
func (r *zzRecSeq) Truth() Bool           { return True }
func (r *zzRecSeq) Hash() (uint32, error) { return 0, nil }
func (r *zzRecSeq) Iterate() Iterator     { return nil }
func (r *zzRecSeq) Len() int              { return r.n }
func (r *zzRecSeq) Index(i int) Value     { return None }
func (r *zzRecSeq) Slice(start, end, step int) Value {
	r.start, r.end, r.step = start, end, step
	r.calls++
	return None
}

// zzH13_slice_norm: for every length n in [0, 2^31) and every lo/hi/step in
// None ∪ Int, slice() either fails exactly when step == 0 (or, known finding,
// an operand is outside int32) or calls Slice(start, end, step) with a triple
// denoting the same index sequence as CPython's PySlice_AdjustIndices, and
// within the bounds the per-type Slice methods rely on.
func zzH13_slice_norm() {
	n := zzInt("n")
	zzAssume(zzAnd(n >= 0, n <= 1<<31-1))
	lo := zzOpt("lo", 4)
	hi := zzOpt("hi", 4)
	st := zzOpt("step", 4)
	r := &zzRecSeq{n: n}

	_, err := slice(r, lo.v, hi.v, st.v)

	zeroStep := zzAnd(zzNot(st.none), zzWEq(st.w, zzW{}))
	zzAssert(zzImplies(zeroStep, err != nil), "C13.slice.zero_step_fails")
	zzAssume(zzNot(zeroStep))
	zzAssertExcept(err == nil, "C13.slice.operand_beyond_int32_accepted",
		zzOr(zzNot(zzIn32(lo)), zzOr(zzNot(zzIn32(hi)), zzNot(zzIn32(st)))))
	if err != nil {
		return
	}
	zzAssert(r.calls == 1, "C13.slice.norm.calls_Slice_once")

	step := int64(1)
	if !st.none {
		step = zzClamp64(st.w, zzLim)
	}
	neg := step < 0
	wantStart := zzPyAdjust(lo, int64(n), neg, true)
	wantStop := zzPyAdjust(hi, int64(n), neg, false)
	wantEmpty := zzIteBool(neg, wantStart <= wantStop, wantStart >= wantStop)

	gs, ge, gstep := int64(r.start), int64(r.end), int64(r.step)
	zzObserve("start", r.start)
	zzObserve("end", r.end)
	zzObserve("step", r.step)
	zzAssert(gstep == step, "C13.slice.norm.step")
	gotEmpty := zzIteBool(neg, gs <= ge, gs >= ge)
	zzAssert(gotEmpty == wantEmpty, "C13.slice.norm.emptiness")
	zzAssert(zzImplies(zzNot(wantEmpty), zzAnd(gs == wantStart, ge == wantStop)), "C13.slice.norm.start_stop")
	// bounds the Slice implementations rely on (s[start:end], s[i] in the loop)
	pos := zzAnd(zzAnd(0 <= gs, gs <= ge), ge <= int64(n))
	// (negative stride: an empty result may be denoted by any start == end)
	ngv := zzOr(gs == ge, zzAnd(zzAnd(-1 <= ge, ge < gs), gs <= int64(n)-1))
	zzAssert(zzIteBool(neg, ngv, pos), "C13.slice.norm.bounds")
	zzReach("end")
}

// ---- H13.1b/c: per-type Slice and end-to-end slice() on real receivers ----

// zzMakeRecv builds a receiver of the given kind (0 string, 1 bytes, 2 list,
// 3 tuple) of length n: symbolic bytes s, or the distinct elements elems.
func zzMakeRecv(kind, n int) (x Value, s string, elems []Value) {
	s = zzString("s", n)
	elems = zzElems(n)
	switch kind {
	case 0:
		x = String(s)
	case 1:
		x = Bytes(s)
	case 2:
		x = NewList(append([]Value{}, elems...))
	case 3:
		x = Tuple(append([]Value{}, elems...))
	}
	return
}

// zzCheckSliceResult compares got with the reference (idx[k] = source index of
// the k-th element, wantLen = length).
func zzCheckSliceResult(kind, n int, x, got Value, s string, elems []Value, idx []int64, wantLen int) {
	ok := true
	switch kind {
	case 0, 1:
		var r string
		var tyOK bool
		if kind == 0 {
			var v String
			v, tyOK = got.(String)
			r = string(v)
		} else {
			var v Bytes
			v, tyOK = got.(Bytes)
			r = string(v)
		}
		zzAssert(tyOK, "C13.slice.result_type")
		zzObserve("res", r)
		zzAssert(len(r) == wantLen, "C13.slice.length")
		zzAssume(len(r) <= n)
		for k := 0; k < len(r); k++ {
			ok = zzAnd(ok, zzAnd(zzInRange(idx[k], n), r[k] == zzAtStr(s, idx[k])))
		}
	case 2, 3:
		var r []Value
		var tyOK bool
		if kind == 2 {
			var v *List
			v, tyOK = got.(*List)
			if tyOK {
				r = v.elems
				// a list slice is a new list and leaves the receiver alone
				zzAssert(v != x.(*List), "C13.slice.list_fresh")
				zzAssert(len(x.(*List).elems) == n, "C13.slice.recv_unchanged")
			}
		} else {
			var v Tuple
			v, tyOK = got.(Tuple)
			r = v
		}
		zzAssert(tyOK, "C13.slice.result_type")
		zzObserve("reslen", len(r))
		zzAssert(len(r) == wantLen, "C13.slice.length")
		zzAssume(len(r) <= n)
		for k := 0; k < len(r); k++ {
			ok = zzAnd(ok, zzTagOf(elems, r[k]) == idx[k])
		}
	}
	zzAssert(ok, "C13.slice.elements")
}

// zzSliceCore: end-to-end slice(x, lo, hi, step) on a real receiver.
func zzSliceCore(kind int, maxn int) {
	n := zzChoice("n", maxn+1)
	lo := zzOpt("lo", 2)
	hi := zzOpt("hi", 2)
	st := zzOpt("step", 2)
	x, s, elems := zzMakeRecv(kind, n)

	got, err := slice(x, lo.v, hi.v, st.v)

	zeroStep := zzAnd(zzNot(st.none), zzWEq(st.w, zzW{}))
	zzAssert(zzImplies(zeroStep, err != nil), "C13.slice.zero_step_fails")
	zzAssume(zzNot(zeroStep))
	zzAssert(err == nil, "C13.slice.int32_operands_accepted")
	if err != nil {
		return
	}
	idx, wantLen := zzPySlice(lo, hi, st, n)
	zzCheckSliceResult(kind, n, x, got, s, elems, idx, wantLen)
	zzReach("end")
}

// zzSliceMethod: X.Slice(start, end, step) called directly with every triple
// satisfying the bounds established by zzH13_slice_norm; result = the elements
// start, start+step, ... strictly before end.
func zzSliceMethod(kind int, maxn int) {
	n := zzChoice("n", maxn+1)
	x, s, elems := zzMakeRecv(kind, n)
	start, end, step := zzInt("start"), zzInt("end"), zzInt("step")
	zzAssume(zzAnd(step != 0, zzAnd(step >= -1<<31, step <= 1<<31-1)))
	pos := zzAnd(zzAnd(0 <= start, start <= end), end <= n)
	ngv := zzOr(zzAnd(start == end, zzAnd(start >= -1, start <= 1<<31-1)),
		zzAnd(zzAnd(-1 <= end, end < start), start <= n-1))
	zzAssume(zzIteBool(step < 0, ngv, pos))
	got := x.(Sliceable).Slice(start, end, step)
	idx := make([]int64, n)
	wantLen := 0
	for k := 0; k < n; k++ {
		i := int64(start) + int64(k)*int64(step)
		idx[k] = i
		wantLen += zzIteInt(zzIteBool(step < 0, i > int64(end), i < int64(end)), 1, 0)
	}
	zzCheckSliceResult(kind, n, x, got, s, elems, idx, wantLen)
	zzReach("end")
}

//verif:unwind 40
func zzH13_slice_e2e_string() { zzSliceCore(0, zzParam("maxlen_e2e", 2, 5)) }

//verif:unwind 40
//verif:thorough
func zzH13_slice_e2e_bytes() { zzSliceCore(1, zzParam("maxlen_e2e", 2, 4)) }

//verif:unwind 40
func zzH13_slice_e2e_list() { zzSliceCore(2, zzParam("maxlen_e2e", 2, 4)) }

//verif:unwind 40
//verif:thorough
func zzH13_slice_e2e_tuple() { zzSliceCore(3, zzParam("maxlen_e2e", 2, 4)) }

//verif:unwind 40
func zzH13_Slice_string() { zzSliceMethod(0, zzParam("maxlen", 3, 6)) }

//verif:unwind 40
func zzH13_Slice_bytes() { zzSliceMethod(1, zzParam("maxlen", 3, 6)) }

//verif:unwind 40
func zzH13_Slice_list() { zzSliceMethod(2, zzParam("maxlen", 3, 6)) }

//verif:unwind 40
func zzH13_Slice_tuple() { zzSliceMethod(3, zzParam("maxlen", 3, 6)) }

// ---- H13.1d: x[i] and x[i] = z ----

// zzIndexCore: getIndex (and setIndex) for every Int i: succeeds exactly for
// -n <= i < n and then denotes element i (+n if negative), as in Python.
func zzIndexCore(kind int) {
	maxn := zzParam("maxlen_idx", 3, 6)
	n := zzChoice("n", maxn+1)
	i := zzOptFrom("i", 1, 4)
	x, s, elems := zzMakeRecv(kind, n)
	iv := zzClamp64(i.w, zzLim)
	valid := zzAnd(iv >= -int64(n), iv < int64(n))
	idx := zzIteI64(iv < 0, iv+int64(n), iv)

	got, err := getIndex(x, i.v)
	zzObserve("err", err != nil)
	zzAssert((err == nil) == valid, "C13.index.error_iff_out_of_range")
	if err == nil {
		switch kind {
		case 0:
			r, ok := got.(String)
			zzAssert(ok, "C13.index.result_type")
			zzAssert(len(r) == 1, "C13.index.string_len1")
			zzObserve("res", string(r))
			zzAssert(r[0] == zzAtStr(s, idx), "C13.index.element")
		case 1:
			// doc/spec.md does not define bytes; the implementation yields a 1-byte bytes.
			r, ok := got.(Bytes)
			zzAssert(ok, "C13.index.result_type")
			zzAssert(len(r) == 1, "C13.index.string_len1")
			zzAssert(r[0] == zzAtStr(s, idx), "C13.index.element")
		case 2, 3:
			zzAssert(zzTagOf(elems, got) == idx, "C13.index.element")
		}
	}

	// assignment
	z := String("new")
	err2 := setIndex(x, i.v, z)
	if kind != 2 {
		zzAssert(err2 != nil, "C13.setindex.immutable_fails")
	} else {
		l := x.(*List)
		zzAssert((err2 == nil) == valid, "C13.setindex.error_iff_out_of_range")
		zzAssert(len(l.elems) == n, "C13.setindex.length_unchanged")
		ok := true
		for k := 0; k < len(l.elems) && k < n; k++ {
			tag := zzTagOf(elems, l.elems[k]) // -1 for z
			hit := zzAnd(err2 == nil, idx == int64(k))
			ok = zzAnd(ok, tag == zzIteI64(hit, -1, int64(k)))
			if tag == -1 {
				ok = zzAnd(ok, l.elems[k] == Value(z))
			}
		}
		zzAssert(ok, "C13.setindex.only_element_i_replaced")
	}
	zzReach("end")
}

func zzH13_index_string() { zzIndexCore(0) }
func zzH13_index_bytes()  { zzIndexCore(1) }
func zzH13_index_list()   { zzIndexCore(2) }
func zzH13_index_tuple()  { zzIndexCore(3) }

// zzH13_index_badtype: a non-int index or slice operand is an error.
func zzH13_index_badtype() {
	kind := zzChoice("kind", 4)
	x, _, _ := zzMakeRecv(kind, 2)
	bad := []Value{None, String("0"), Float(0), True}[zzChoice("bad", 4)]
	_, err := getIndex(x, bad)
	zzAssert(err != nil, "C13.index.non_int_fails")
	if bad != None {
		_, err = slice(x, bad, None, None)
		zzAssert(err != nil, "C13.slice.non_int_fails")
		_, err = slice(x, None, bad, None)
		zzAssert(err != nil, "C13.slice.non_int_fails")
		_, err = slice(x, None, None, bad)
		zzAssert(err != nil, "C13.slice.non_int_fails")
	}
	_, err = slice(Float(1), None, None, None)
	zzAssert(err != nil, "C13.slice.non_sequence_fails")
	zzReach("end")
}

// ---- H13.1e: slicing and indexing a range ----

// zzH13_slice_range: range(a, a+n*s, s)[lo:hi:st] denotes the elements
// r[idx_k] of the CPython reference; r[i] = a + i*s. a, lo, hi symbolic
// (|a| <= 2^20; lo/hi any int32 or None); the range step s and the stride st
// are structural choices from small sets, because rangeLen divides by s*st
// (64-bit division by a symbolic divisor does not finish). Overflowing ranges: C10.
//
// Thorough tier only (the 64-bit divisions by constants cost ~5 s of solver time per path).
//
//verif:unwind 40
//verif:thorough
func zzH13_slice_range() {
	ns := []int{0, 3}
	svals := []int{-1, 2}
	stvals := []int{0, -2} // 0 = None
	n := ns[zzChoice("n", len(ns))]
	s := svals[zzChoice("s", len(svals))]
	a := zzInt("a")
	zzAssume(zzAnd(a >= -1<<20, a <= 1<<20))
	r := rangeValue{start: a, stop: a + n*s, step: s, len: n}
	lo := zzOpt("lo", 2)
	hi := zzOpt("hi", 2)
	st := zzOperand{v: None, none: true}
	if c := stvals[zzChoice("st", len(stvals))]; c != 0 {
		st = zzOperand{v: MakeInt(c), w: zzWOf64(int64(c))}
	}
	got, err := slice(r, lo.v, hi.v, st.v)
	zzAssert(err == nil, "C13.slice.int32_operands_accepted")
	if err != nil {
		return
	}
	g, ok := got.(rangeValue)
	zzAssert(ok, "C13.slice.result_type")
	idx, wantLen := zzPySlice(lo, hi, st, n)
	zzObserve("len", g.len)
	zzAssert(g.len == wantLen, "C13.slice.range_length")
	okAll := true
	for k := 0; k < n; k++ {
		okAll = zzAnd(okAll, zzImplies(k < wantLen, int64(g.start)+int64(k)*int64(g.step) == int64(a)+idx[k]*int64(s)))
	}
	zzAssert(okAll, "C13.slice.range_elements")

	// indexing
	i := zzOptFrom("i", 1, 2)
	iv := int64(i.w.lo)
	valid := zzAnd(iv >= -int64(n), iv < int64(n))
	e, err := getIndex(r, i.v)
	zzAssert((err == nil) == valid, "C13.index.error_iff_out_of_range")
	if err == nil {
		ev, isInt := zzIntOf(e)
		zzAssert(isInt, "C13.index.result_type")
		zzAssert(ev == int64(a)+zzIteI64(iv < 0, iv+int64(n), iv)*int64(s), "C13.index.range_element")
	}
	zzReach("end")
}
