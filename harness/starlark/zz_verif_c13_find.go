//go:build verif

package starlark

// C13 / H13.2: find rfind index rindex count startswith endswith list.index
// with optional start/end, through the real method dispatch (Attr + Call).
//
// Oracle: the Python definition of the operation applied to the reference
// sub-range [a, b) obtained from the CPython index adjustment (negative: +n,
// then clamp to [0, n]); omitted == None.
// Receivers and needles are over the alphabet {a,b,c} (ASCII: bytes == code points).

func zzAlpha(s string) {
	for i := 0; i < len(s); i++ {
		zzAssume(zzAnd(s[i] >= 'a', s[i] <= 'c'))
	}
}

func zzCallMethod(recv Value, name string, args Tuple) (Value, error) {
	fn, err := recv.(HasAttrs).Attr(name)
	if err != nil || fn == nil {
		panic("no method " + name)
	}
	return Call(&Thread{Name: "zz"}, fn, args, nil)
}

// zzRangeArgs chooses the argument shape (…), (…, lo), (…, lo, hi) and returns
// the extra arguments with their operands (omitted is treated as None).
func zzRangeArgs(cats int) (extra Tuple, lo, hi zzOperand, shape int) {
	lo = zzOperand{v: None, none: true}
	hi = zzOperand{v: None, none: true}
	shape = zzChoice("shape", 3)
	switch shape {
	case 1:
		lo = zzOpt("lo", cats)
		extra = Tuple{lo.v}
	case 2:
		lo = zzOpt("lo", cats)
		hi = zzOpt("hi", cats)
		extra = Tuple{lo.v, hi.v}
	}
	return
}

// zzRefRange is the reference sub-range: a, b clamped to [0, n] (b not yet
// raised to a), bEff = max(a, b), and pyEmpty = CPython's "start > end" test,
// where CPython does not clamp start to n.
func zzRefRange(lo, hi zzOperand, n int) (a, b, bEff int64, pyEmpty bool) {
	a = zzPyAdjust(lo, int64(n), false, true)
	b = zzPyAdjust(hi, int64(n), false, false)
	bEff = zzIteI64(b < a, a, b)
	raw := int64(0)
	if !lo.none {
		v := zzClamp64(lo.w, zzLim)
		raw = zzIteI64(v < 0, zzIteI64(v+int64(n) < 0, 0, v+int64(n)), v)
	}
	pyEmpty = raw > b
	return
}

// zzMatchAt: sub occurs in s at concrete position p, within [a, bEff).
func zzMatchAt(s, sub string, p int, a, bEff int64) bool {
	if p+len(sub) > len(s) {
		return false
	}
	m := zzAnd(int64(p) >= a, int64(p+len(sub)) <= bEff)
	for j := 0; j < len(sub); j++ {
		m = zzAnd(m, s[p+j] == sub[j])
	}
	return m
}

func zzIntOf(v Value) (int64, bool) {
	i, ok := v.(Int)
	if !ok {
		return 0, false
	}
	x, err := AsInt32(i)
	if err != nil {
		return 0, false
	}
	return int64(x), true
}

// zzFindCore: method in find rfind index rindex count.
func zzFindCore(method string) {
	cats := zzParam("cats", 2, 4)
	if method == "find" {
		cats = zzParam("cats_find", 3, 4)
	}
	extra, lo, hi, shape := zzRangeArgs(cats)
	// quick tier: the full needle range without start/end, short needles with them
	maxm := zzParam("maxneedle", 2, 2)
	if shape > 0 && method != "find" {
		maxm = zzParam("maxneedle_ranged", 1, 2)
	}
	maxn := zzParam("maxlen", 3, 4)
	if shape > 0 && method != "find" {
		maxn = zzParam("maxlen_ranged", 2, 4)
	}
	n := zzChoice("n", maxn+1)
	m := zzChoice("m", maxm+1)
	s := zzString("s", n)
	sub := zzString("sub", m)
	zzAlpha(s)
	zzAlpha(sub)
	args := append(Tuple{String(sub)}, extra...)

	got, err := zzCallMethod(String(s), method, args)

	in32 := zzAnd(zzIn32(lo), zzIn32(hi))
	a, _, bEff, pyEmpty := zzRefRange(lo, hi, n)

	// reference
	first, last := int64(-1), int64(-1)
	for p := n; p >= 0; p-- {
		first = zzIteI64(zzMatchAt(s, sub, p, a, bEff), int64(p), first)
	}
	for p := 0; p <= n; p++ {
		last = zzIteI64(zzMatchAt(s, sub, p, a, bEff), int64(p), last)
	}
	step := m
	if step == 0 {
		step = 1
	}
	next, cnt := int64(0), int64(0)
	for p := 0; p <= n; p++ {
		take := zzAnd(zzMatchAt(s, sub, p, a, bEff), int64(p) >= next)
		cnt += zzIteI64(take, 1, 0)
		next = zzIteI64(take, int64(p+step), next)
	}

	want := first
	switch method {
	case "rfind", "rindex":
		want = last
	case "count":
		want = cnt
	}
	mayFail := method == "index" || method == "rindex"
	zzObserve("err", err != nil)
	if mayFail {
		zzAssert(zzImplies(want == -1, err != nil), "C13."+method+".fails_if_absent")
		zzAssertExcept(zzImplies(want != -1, err == nil), "C13.find.index_beyond_int32_accepted", zzNot(in32))
	} else {
		zzAssertExcept(err == nil, "C13.find.index_beyond_int32_accepted", zzNot(in32))
	}
	if err != nil {
		return
	}
	g, ok := zzIntOf(got)
	zzAssert(ok, "C13.find.result_is_int")
	zzObserve("res", g)
	zzAssert(g == want, "C13."+method+".value")
	// CPython: an empty needle is not found (count 0) when start > end, where
	// start is not clamped to len; Starlark's clamping convention finds it.
	if method == "count" {
		zzAssertExcept(zzImplies(pyEmpty, g == 0), "C13.find.python_empty_needle_empty_range", zzAnd(m == 0, pyEmpty))
	} else {
		zzAssertExcept(zzImplies(pyEmpty, g == -1), "C13.find.python_empty_needle_empty_range", zzAnd(m == 0, pyEmpty))
	}
	zzReach("end")
}

//verif:unwind 40
func zzH13_find() { zzFindCore("find") }

//verif:unwind 40
func zzH13_rfind() { zzFindCore("rfind") }

//verif:unwind 40
func zzH13_index() { zzFindCore("index") }

//verif:unwind 40
func zzH13_rindex() { zzFindCore("rindex") }

//verif:unwind 40
func zzH13_count() { zzFindCore("count") }

// zzAffixAt: t is a prefix (suffix) of s[a:bEff].
func zzAffixAt(s, t string, a, bEff int64, suffix bool) bool {
	ok := a+int64(len(t)) <= bEff
	base := a
	if suffix {
		base = bEff - int64(len(t))
	}
	for j := 0; j < len(t); j++ {
		ok = zzAnd(ok, zzAtStr(s, base+int64(j)) == t[j])
	}
	return ok
}

// zzAffixCore: startswith / endswith with a string or a tuple of strings.
func zzAffixCore(method string) {
	n := zzChoice("n", zzParam("maxlen", 2, 4)+1)
	s := zzString("s", n)
	zzAlpha(s)
	extra, lo, hi, shape := zzRangeArgs(zzParam("cats", 2, 4))
	maxm := zzParam("maxneedle", 2, 2)
	if shape > 0 {
		maxm = zzParam("maxneedle_ranged", 1, 2)
	}
	maxt := zzParam("maxneedle_tuple", 1, 2)
	if maxt > maxm {
		maxt = maxm
	}
	var x Value
	var ts []string
	switch zzChoice("xkind", 3) {
	case 0: // string
		t := zzString("t0", zzChoice("m0", maxm+1))
		ts = []string{t}
		x = String(t)
	case 1: // empty tuple
		x = Tuple{}
	case 2: // 2-tuple
		t0 := zzString("t0", zzChoice("m0", maxt+1))
		t1 := zzString("t1", zzChoice("m1", maxt+1))
		ts = []string{t0, t1}
		x = Tuple{String(t0), String(t1)}
	}
	hasEmpty := false
	for _, t := range ts {
		zzAlpha(t)
		if len(t) == 0 {
			hasEmpty = true
		}
	}
	got, err := zzCallMethod(String(s), method, append(Tuple{x}, extra...))

	in32 := zzAnd(zzIn32(lo), zzIn32(hi))
	a, _, bEff, pyEmpty := zzRefRange(lo, hi, n)
	want := false
	for _, t := range ts {
		want = zzOr(want, zzAffixAt(s, t, a, bEff, method == "endswith"))
	}
	zzAssertExcept(err == nil, "C13.find.index_beyond_int32_accepted", zzNot(in32))
	if err != nil {
		return
	}
	g, ok := got.(Bool)
	zzAssert(ok, "C13.affix.result_is_bool")
	zzObserve("res", bool(g))
	zzAssert(bool(g) == want, "C13."+method+".value")
	zzAssertExcept(zzImplies(pyEmpty, zzNot(bool(g))), "C13.find.python_empty_needle_empty_range", zzAnd(hasEmpty, pyEmpty))
	zzReach("end")
}

//verif:unwind 40
func zzH13_startswith() { zzAffixCore("startswith") }

//verif:unwind 40
func zzH13_endswith() { zzAffixCore("endswith") }

// zzH13_affix_badtype: startswith/endswith reject non-string prefixes.
func zzH13_affix_badtype() {
	method := []string{"startswith", "endswith"}[zzChoice("method", 2)]
	bad := []Value{None, MakeInt(1), Tuple{MakeInt(1), String("a")}, NewList(nil)}[zzChoice("bad", 4)]
	_, err := zzCallMethod(String("abc"), method, Tuple{bad})
	zzAssert(err != nil, "C13.affix.non_string_fails")
	_, err = zzCallMethod(String("abc"), "find", Tuple{MakeInt(1)})
	zzAssert(err != nil, "C13.find.non_string_fails")
	_, err = zzCallMethod(String("abc"), "find", Tuple{})
	zzAssert(err != nil, "C13.find.missing_arg_fails")
	_, err = zzCallMethod(String("abc"), "find", Tuple{String("a"), None, None, None})
	zzAssert(err != nil, "C13.find.extra_arg_fails")
	zzReach("end")
}

// zzH13_list_index: list.index(v[, start[, end]]) == first p in [a, b) with
// list[p] == v, else an error.
//
//verif:unwind 40
func zzH13_list_index() {
	n := zzChoice("n", zzParam("maxlen", 3, 4)+1)
	s := zzString("s", n)
	zzAlpha(s)
	elems := make([]Value, n)
	for i := range elems {
		elems[i] = String(s[i : i+1])
	}
	v := zzString("v", 1)
	zzAlpha(v)
	extra, lo, hi, _ := zzRangeArgs(zzParam("cats", 3, 4))
	l := NewList(elems)
	got, err := zzCallMethod(l, "index", append(Tuple{String(v)}, extra...))

	in32 := zzAnd(zzIn32(lo), zzIn32(hi))
	a, b, _, _ := zzRefRange(lo, hi, n)
	want := int64(-1)
	for p := n - 1; p >= 0; p-- {
		hit := zzAnd(zzAnd(int64(p) >= a, int64(p) < b), s[p] == v[0])
		want = zzIteI64(hit, int64(p), want)
	}
	zzObserve("err", err != nil)
	zzAssert(zzImplies(want == -1, err != nil), "C13.list_index.fails_if_absent")
	zzAssertExcept(zzImplies(want != -1, err == nil), "C13.find.index_beyond_int32_accepted", zzNot(in32))
	if err != nil {
		return
	}
	g, ok := zzIntOf(got)
	zzAssert(ok, "C13.find.result_is_int")
	zzObserve("res", g)
	zzAssert(g == want, "C13.list_index.value")
	zzAssert(l.Len() == n, "C13.list_index.recv_unchanged")
	zzReach("end")
}
