//go:build verif

package starlarkstruct

import "go.starlark.net/starlark"

// C04 H04.2 (struct edges): graphs of <= N nodes, each a *Struct (children are
// field values) or a *List (children are elements), cycles through lists
// included. Pre-frozen flags are symbolic (any downward-closed subset). After
// freezing the root through StringDict.Freeze or Module.Freeze every reachable
// node is frozen and no unreachable node changed.

type zzSNode struct {
	isStruct bool
	s        *Struct
	l        *starlark.List
	kids     []int
}

func (n *zzSNode) val() starlark.Value {
	if n.isStruct {
		return n.s
	}
	return n.l
}

func zzSShapes(n int) [][][]int {
	if n == 3 {
		return [][][]int{
			{{1}, {2}, {}},
			{{1, 2}, {}, {}},
			{{1}, {2}, {0}},
			{{0, 1}, {}, {1}},
			{{1}, {2}, {1}},
			{{1, 2}, {2}, {}},
		}
	}
	return [][][]int{
		{{1}, {2}, {3}, {}},
		{{1, 2, 3}, {}, {}, {}},
		{{1, 2}, {3}, {3}, {}},
		{{1}, {2}, {0, 3}, {}},
		{{0, 1}, {2}, {}, {1}},
		{{1}, {2}, {1, 3}, {}},
		{{1}, {}, {3}, {1}},
		{{1}, {2}, {3}, {0}},
	}
}

func zzSReach(nodes []*zzSNode) [][]bool {
	n := len(nodes)
	r := make([][]bool, n)
	for i := range r {
		r[i] = make([]bool, n)
		for _, c := range nodes[i].kids {
			r[i][c] = true
		}
	}
	for k := 0; k < n; k++ {
		for i := 0; i < n; i++ {
			for j := 0; j < n; j++ {
				if r[i][k] && r[k][j] {
					r[i][j] = true
				}
			}
		}
	}
	return r
}

func zzSListFrozen(l *starlark.List) bool {
	// observable definition of frozen: the Go API mutator is rejected
	return l.Append(starlark.None) != nil
}

func zzH04_structFreeze() {
	n := zzParam("nodes", 3, 4)
	shapes := zzSShapes(n)
	shape := shapes[zzChoice("shape", len(shapes))]
	nodes := make([]*zzSNode, n)
	for i := range nodes {
		nd := &zzSNode{kids: shape[i]}
		nd.isStruct = zzChoice("kind"+string(rune('0'+i)), 2) == 0
		if nd.isStruct {
			nd.s = &Struct{constructor: Default}
		} else {
			nd.l = starlark.NewList(nil)
		}
		nodes[i] = nd
	}
	for _, nd := range nodes {
		for j, c := range nd.kids {
			if nd.isStruct {
				nd.s.entries = append(nd.s.entries, entry{"f" + string(rune('a'+j)), nodes[c].val()})
			} else if err := nd.l.Append(nodes[c].val()); err != nil {
				panic(err)
			}
		}
	}
	reach := zzSReach(nodes)
	pre := make([]bool, n)
	for i := range nodes {
		pre[i] = zzBool("pre" + string(rune('0'+i)))
	}
	for i := range nodes {
		for j := range nodes {
			if reach[i][j] {
				zzAssume(zzImplies(pre[i], pre[j]))
			}
		}
	}
	for i, nd := range nodes {
		if nd.isStruct {
			nd.s.frozen = pre[i]
		}
	}
	for i, nd := range nodes {
		if !nd.isStruct && pre[i] {
			nd.l.Freeze() // descendants are pre-frozen by the closure assumption
		}
	}
	if zzChoice("via", 2) == 0 {
		starlark.StringDict{"root": nodes[0].val()}.Freeze()
	} else {
		(&Module{Name: "m", Members: starlark.StringDict{"root": nodes[0].val()}}).Freeze()
	}
	for i, nd := range nodes {
		reachable := i == 0 || reach[0][i]
		if nd.isStruct {
			if reachable {
				zzAssert(nd.s.frozen, "C04.struct.reachable_frozen")
			} else {
				zzAssert(nd.s.frozen == pre[i], "C04.struct.unreachable_untouched")
			}
		}
	}
	for i, nd := range nodes {
		reachable := i == 0 || reach[0][i]
		if !nd.isStruct {
			fz := zzSListFrozen(nd.l)
			if reachable {
				zzAssert(fz, "C04.struct.reachable_list_frozen")
			} else {
				zzAssert(fz == pre[i], "C04.struct.unreachable_list_untouched")
			}
		}
	}
	zzObserve("rootfrozen", nodes[0].isStruct && nodes[0].s.frozen)
	zzReach("end")
}
