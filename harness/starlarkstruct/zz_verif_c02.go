//go:build verif

package starlarkstruct

import "go.starlark.net/starlark"

// zzH02_structCycle: str/repr, ==, hash and Freeze of a struct that is reachable from
// itself (through a list field) terminate with a value or an error.
//
//verif:depth 1500
func zzH02_structCycle() {
	l := starlark.NewList(nil)
	s := FromStringDict(Default, starlark.StringDict{"items": l, "n": starlark.MakeInt(1)})
	l.Append(s)
	op := zzChoice("op", 4)
	panicked := false
	fatal := zzFatal("C02.struct_cycle.fatal", func() {
		panicked = zzCatch(func() {
			switch op {
			case 0:
				_ = s.String()
			case 1:
				s.Freeze()
			case 2:
				_, _ = s.Hash()
			case 3:
				_, _ = starlark.Equal(s, s)
			}
		})
	})
	// recorded defect: Struct.String has no cycle guard (writeValue's path stack does not cover struct fields)
	zzAssertExcept(zzNot(fatal), "C02.struct_cycle.terminates", op == 0)
	zzAssert(zzNot(panicked), "C02.struct_cycle.nopanic")
	zzReach("end")
}
