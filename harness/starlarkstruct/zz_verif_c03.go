//go:build verif

package starlarkstruct

// C03 H03.1 (struct part): a struct or module built from a Go map lists and prints
// its fields in the same order whatever the iteration order of that map.
// See harness/starlark/zz_verif_c03.go for the scheme.

import (
	"strings"

	"go.starlark.net/starlark"
	"go.starlark.net/syntax"
)

func zz03Digit(i int) string { return string(rune('0' + i)) }

// zz03Names returns n pairwise distinct symbolic names of nb lower-case letters.
func zz03Names(n, nb int) []string {
	names := make([]string, n)
	for i := range names {
		s := zzString("k"+zz03Digit(i), nb)
		for j := 0; j < nb; j++ {
			zzAssume(zzAnd(s[j] >= 'a', s[j] <= 'z'))
		}
		for j := 0; j < i; j++ {
			zzAssume(names[j] != s)
		}
		names[i] = s
	}
	return names
}

func zz03UnderAllOrders(f func() string) (ref, got string) {
	zzMapOrderNondet(false)
	ref = f()
	zzMapOrderNondet(true)
	got = f()
	zzMapOrderNondet(false)
	if !zzSymbolic() {
		// native replay: Go's own map randomisation supplies the orders
		for i := 0; i < 200 && got == ref; i++ {
			got = f()
		}
	}
	return ref, got
}

// FromStringDict: String(), AttrNames() and Attr of every name.
//
//verif:unwind 400
func zzH03_maporder_fromStringDict() {
	n := zzParam("names", 3, 4)
	names := zz03Names(n, zzParam("bytes", 2, 2))
	d := starlark.StringDict{}
	for i, nm := range names {
		d[nm] = starlark.MakeInt(i)
	}
	var last []string
	ref, got := zz03UnderAllOrders(func() string {
		s := FromStringDict(Default, d)
		last = s.AttrNames()
		return strings.Join(last, ",") + "|" + s.String()
	})
	zzAssert(got == ref, "C03.maporder.fromStringDict.same")
	sorted := len(last) == n
	for i := 1; i < len(last); i++ {
		sorted = zzAnd(sorted, last[i-1] < last[i])
	}
	zzAssert(sorted, "C03.maporder.fromStringDict.sorted")
	zzObserve("struct", ref)
	zzReach("end")
}

// Module (the value of `json`, `math`, `time`): AttrNames / dir.
//
//verif:unwind 400
func zzH03_maporder_module() {
	n := zzParam("names", 3, 4)
	names := zz03Names(n, zzParam("bytes", 2, 2))
	var kwargs []starlark.Tuple
	for i, nm := range names {
		kwargs = append(kwargs, starlark.Tuple{starlark.String(nm), starlark.MakeInt(i)})
	}
	thread := &starlark.Thread{Name: "c03"}
	mv, err := MakeModule(thread, starlark.NewBuiltin("module", MakeModule), starlark.Tuple{starlark.String("m")}, kwargs)
	zzAssert(err == nil, "C03.maporder.module.made")
	m := mv.(*Module)
	ref, got := zz03UnderAllOrders(func() string {
		return strings.Join(m.AttrNames(), ",")
	})
	zzAssert(got == ref, "C03.maporder.module.same")
	zzObserve("module", ref)
	zzReach("end")
}

// struct + struct (Binary) goes through a Go map of the union of the fields.
//
//verif:unwind 400
func zzH03_maporder_structPlus() {
	n := zzParam("names", 3, 4)
	names := zz03Names(n, zzParam("bytes", 2, 2))
	var kx, ky []starlark.Tuple
	for i, nm := range names {
		kv := starlark.Tuple{starlark.String(nm), starlark.MakeInt(i)}
		if i%2 == 0 {
			kx = append(kx, kv)
		} else {
			ky = append(ky, kv)
		}
	}
	// one shared field: the right operand wins
	ky = append(ky, starlark.Tuple{starlark.String(names[0]), starlark.MakeInt(99)})
	x, y := FromKeywords(Default, kx), FromKeywords(Default, ky)
	ref, got := zz03UnderAllOrders(func() string {
		z, err := x.Binary(syntax.PLUS, y, starlark.Left)
		if err != nil {
			return "error"
		}
		return z.String()
	})
	zzAssert(got == ref, "C03.maporder.structPlus.same")
	zzObserve("sum", ref)
	zzReach("end")
}
