//go:build verif

package syntax

// ---------------------------------------------------------------------------
// H15.1  Quote / unquote are inverse.

// zzH15_roundtrip_bytes: for every byte string s of n <= maxlen symbolic
// bytes, unquote(Quote(s, true)) == (s, bytes, not triple); the quoted text is
// well-formed UTF-8 without control characters.
//
//verif:unwind 200
func zzH15_roundtrip_bytes() {
	maxn := zzParam("maxlen", 2, 3)
	n := zzChoice("n", maxn+1)
	s := zzString("s", n)
	q := Quote(s, true)
	got, triple, isByte, err := unquote(q)
	zzAssert(err == nil, "C15.rt.bytes.accepted")
	zzAssert(zzAnd(isByte, !triple), "C15.rt.bytes.kind")
	zzAssert(got == s, "C15.rt.bytes.value")
	zzAssert(zzValidUTF8(q), "C15.rt.bytes.text_utf8")
	zzAssert(zzNoControls(q), "C15.rt.bytes.text_printable")
	zzObserve("q", q)
	zzReach("end")
}

// zzH15_roundtrip_string: for every valid UTF-8 string of n <= maxlen
// symbolic bytes, unquote(Quote(s, false)) == (s, string, not triple).
// (Invalid UTF-8 is outside the property in string mode: Quote documents that
// its result is then not a legal literal.)
//
//verif:unwind 200
func zzH15_roundtrip_string() {
	maxn := zzParam("maxlen", 2, 3)
	n := zzChoice("n", maxn+1)
	s := zzString("s", n)
	zzAssume(zzValidUTF8(s))
	q := Quote(s, false)
	zzAssert(zzValidUTF8(q), "C15.rt.string.text_utf8")
	zzAssert(zzNoControls(q), "C15.rt.string.text_printable")
	got, triple, isByte, err := unquote(q)
	zzAssert(err == nil, "C15.rt.string.accepted")
	zzAssert(zzAnd(!isByte, !triple), "C15.rt.string.kind")
	zzAssert(got == s, "C15.rt.string.value")
	zzObserve("q", q)
	zzReach("end")
}

// zzH15_roundtrip_rune: one arbitrary Unicode scalar value (all four encoded
// sizes, so \u and \U escapes and astral printable runes are reached), in
// string mode (thorough: both modes). (Neighbouring-byte contexts exist in the
// harness but are switched off in both tiers: ~25x the paths; adjacent
// interactions are covered by the <=3-byte harnesses.)
//
//verif:unwind 200
func zzH15_roundtrip_rune() {
	r := zzI32("r")
	zzAssume(zzAnd(r >= 0, r <= 0x10FFFF))
	zzAssume(zzNot(zzAnd(r >= 0xD800, r <= 0xDFFF)))
	s := zzEncodeRune(r)
	switch zzChoice("ctx", zzParam("contexts", 1, 1)) {
	case 1:
		s = s + zzString("post", 1)
	case 2:
		s = zzString("pre", 1) + s
	}
	b := zzChoice("bytesmode", zzParam("modes", 1, 2)) == 1 // quick: string mode only
	q := Quote(s, b)
	got, triple, isByte, err := unquote(q)
	valid := zzValidUTF8(s)
	zzAssert(zzImplies(zzOr(b, valid), err == nil), "C15.rt.rune.accepted")
	if err == nil {
		zzAssert(zzAnd(isByte == b, !triple), "C15.rt.rune.kind")
		zzAssert(zzImplies(zzOr(b, valid), got == s), "C15.rt.rune.value")
	}
	zzAssert(zzValidUTF8(q), "C15.rt.rune.text_utf8")
	zzAssert(zzNoControls(q), "C15.rt.rune.text_printable")
	zzObserve("q", q)
	zzReach("end")
}

// ---------------------------------------------------------------------------
// H15.2  unquote accepts exactly the literal grammar and returns the denoted
// bytes. Reference decoder written from doc/spec.md "String literals" /
// "String escapes" plus the Bazel Starlark spec for \u, \U and bytes literals
// (string literals: octal/hex escapes only up to 0x7F; \u/\U denote the UTF-8
// encoding of a Unicode scalar value).

// zzNoBackslashCR: no backslash immediately followed by CR. unquote rejects
// that pair, the spec's "escaped newline" arguably covers it; the scanner
// normalises CR/CRLF to LF before unquote sees the text, so the case is not
// reachable through Parse and is left outside the claim.
func zzNoBackslashCR(s string) bool {
	r := true
	for i := 0; i+1 < len(s); i++ {
		r = zzAnd(r, zzNot(zzAnd(s[i] == '\\', s[i+1] == '\r')))
	}
	return r
}

func zzCheckUnquote(body string, tag string, npfx, nquot int) {
	pfx := []int{0, 2, 1, 3}[zzChoice("pfx", npfx)] // "", b, r, rb
	raw, isByte := pfx&1 != 0, pfx&2 != 0
	// quotation: ", ', triple-" (quick) and triple-' (thorough)
	qk := zzChoice("quoting", nquot)
	Q := "\""
	if qk == 1 || qk == 3 {
		Q = "'"
	}
	full := body
	if qk >= 2 {
		full = Q + Q + body + Q + Q
	}
	text := []string{"", "r", "b", "rb"}[pfx] + Q + full + Q
	if !raw {
		zzAssume(zzNoBackslashCR(full))
	}

	got, triple, gotByte, err := unquote(text)

	// reference
	inner, wantTriple := full, false
	if n := len(full); n >= 4 && full[0] == Q[0] && full[1] == Q[0] && full[n-2] == Q[0] && full[n-1] == Q[0] {
		inner, wantTriple = full[2:n-2], true
	}
	want, ok := zzRefDecode(inner, raw, isByte)
	zzObserve("ok", err == nil)
	zzAssert((err == nil) == ok, "C15.unquote."+tag+".accepts_iff_grammar")
	if err == nil && ok {
		zzAssert(got == string(want), "C15.unquote."+tag+".value")
		zzAssert(zzAnd(triple == wantTriple, gotByte == isByte), "C15.unquote."+tag+".kind")
		zzObserve("got", got)
	}
}

// zzH15_unquote_free: literal bodies of k <= maxbody arbitrary symbolic bytes.
//
//verif:unwind 200
func zzH15_unquote_free() {
	maxk := zzParam("maxbody", 2, 3)
	k := zzChoice("k", maxk+1)
	zzCheckUnquote(zzString("body", k), "free", 4, zzParam("quotings", 2, 3))
	zzReach("end")
}

// zzH15_unquote_hex: the fixed-width escapes \xHH, \uHHHH, \UHHHHHHHH and the
// octal escape \OOO followed by a fourth digit, with symbolic digits, in
// string and bytes literals. One chosen digit position (none/first/last) is an
// arbitrary byte, so non-hex characters must be rejected; the other digits
// range over [0-9a-f] (thorough: also [A-F]); some digits of \U and all octal
// digits range over [0-9] only, to bound the forks inside strconv.ParseUint.
// Thorough: one optional arbitrary trailing byte. Quotation fixed to "...".
//
//verif:unwind 400
func zzH15_unquote_hex() {
	form := zzChoice("form", 4)
	nd := []int{2, 4, 8, 4}[form]
	lead := []string{"\\x", "\\u", "\\U", "\\"}[form]
	digs := zzBytes("d", nd)
	anyPos := -1
	if form != 3 {
		nany := zzParam("anypos", 1, 3)
		if form == 0 && nany < 2 {
			nany = 2 // quick: the arbitrary character only in the \\x form
		}
		anyPos = []int{-1, nd - 1, 0}[zzChoice("anypos", nany)]
	}
	upper := zzParam("uppercase", 0, 1) == 1
	for i := 0; i < nd; i++ {
		if i == anyPos {
			continue
		}
		c := digs[i]
		if form == 3 || form == 2 && (i < 2 || i > 5) {
			// \U: the range and surrogate checks are decided by digits 3..6
			zzAssume(zzB(c, '0', '9'))
			continue
		}
		isHex := zzOr(zzB(c, '0', '9'), zzB(c, 'a', 'f'))
		if upper {
			isHex = zzOr(isHex, zzB(c, 'A', 'F'))
		}
		zzAssume(isHex)
	}
	body := lead + string(digs)
	if zzChoice("tail", zzParam("tails", 1, 2)) == 1 {
		body += zzString("t", 1)
	}
	zzCheckUnquote(body, "hex", 2, 1)
	zzReach("end")
}

// ---------------------------------------------------------------------------
// H15.3  The same round trip through the real scanner and parser:
// ParseExpr(Quote(s, b)) is a Literal of the right kind whose Value is s,
// whose Raw is the quoted text, positioned at 1:1.
//
//verif:unwind 300
func zzH15_parse_quote() {
	var s string
	b := zzChoice("mode", 2) == 1
	if zzChoice("shape", 2) == 0 {
		n := zzChoice("n", zzParam("maxlen", 1, 2)+1)
		s = zzString("s", n)
	} else {
		r := zzI32("r")
		zzAssume(zzAnd(r >= 0x80, r <= 0x10FFFF))
		zzAssume(zzNot(zzAnd(r >= 0xD800, r <= 0xDFFF)))
		s = zzEncodeRune(r)
		if zzParam("rune_bytes_mode", 0, 1) == 0 {
			zzAssume(!b)
		}
	}
	if !b {
		zzAssume(zzValidUTF8(s))
	}
	q := Quote(s, b)
	e, err := ParseExpr("q.star", q, 0)
	zzAssert(err == nil, "C15.parse.accepted")
	if err == nil {
		lit, ok := e.(*Literal)
		zzAssert(ok, "C15.parse.literal_node")
		if ok {
			want := STRING
			if b {
				want = BYTES
			}
			zzAssert(lit.Token == want, "C15.parse.kind")
			v, isStr := lit.Value.(string)
			zzAssert(isStr, "C15.parse.value_type")
			zzAssert(v == s, "C15.parse.value")
			zzAssert(lit.Raw == q, "C15.parse.raw")
			zzAssert(zzAnd(lit.TokenPos.Line == 1, lit.TokenPos.Col == 1), "C15.parse.pos")
			zzObserve("v", v)
		}
	}
	zzReach("end")
}
