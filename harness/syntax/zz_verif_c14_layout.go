//go:build verif

package syntax

// ---------------------------------------------------------------------------
// H14.3  Layout: NEWLINE / INDENT / OUTDENT synthesis.
//
// Three logical lines whose indentation is a symbolic string of 0..maxindent
// characters, each a symbolic byte in {space, tab}; variations: blank line,
// comment line with unrelated indentation, bracketed continuation, backslash
// continuation, missing final newline, CRLF line endings. The real scanner's
// token stream must equal the reference indentation-stack algorithm
// (zzRefLex), including the "unindent does not match" rejection.

// zzIndent returns an indentation of 0..maxw symbolic characters over {space,
// tab}; with wide it may also be 7 or 8 (thorough: or 15, 16) concrete spaces,
// the widths that distinguish tab stops from fixed tab widths.
func zzIndent(name string, maxw int, wide bool) string {
	nw := maxw + 1
	widths := []int{7, 8}
	if maxw >= 2 {
		widths = []int{7, 8, 15, 16}
	}
	if wide {
		nw += len(widths)
	}
	w := zzChoice(name+"w", nw)
	if w > maxw {
		return "                "[:widths[w-maxw-1]]
	}
	ind := zzString(name, w)
	for i := 0; i < w; i++ {
		zzAssume(zzOr(ind[i] == ' ', ind[i] == '\t'))
	}
	return ind
}

//verif:unwind 300
func zzH14_layout() {
	maxw := zzParam("maxindent", 1, 2)
	nvar := zzParam("variations", 4, 7)
	v := zzChoice("variation", nvar)
	nl := "\n"
	if v == 6 {
		nl = "\r\n"
	}
	l1, l2, l3 := "a", "b", "c"
	text := zzIndent("i1", maxw, false)
	switch v {
	case 2: // brackets: the next line's indentation is insignificant, no NEWLINE inside
		l1, l2 = "a(", "b)"
	case 3: // backslash continuation: ditto
		l1 = "a \\"
	}
	text += l1 + nl
	if v == 1 {
		text += "   " + nl // blank line
	}
	text += zzIndent("i2", maxw, true) + l2 + nl
	if v == 4 {
		text += " \t # comment" + nl // comment-only line
	}
	text += zzIndent("i3", maxw, false) + l3
	if v != 5 {
		text += nl
	}
	ref := zzCheckLex(text, "layout")
	zzObserve("refok", ref.ok)
	zzReach("end")
}
