//go:build verif

package syntax

// ---------------------------------------------------------------------------
// Reference lexer for H14.2/H14.3/H14.4: maximal-munch tokenisation of ASCII
// text following doc/spec.md "Lexical elements" (token lists, int/float
// grammar, string literal rules) and Python's layout algorithm
// (NEWLINE/INDENT/OUTDENT from an indentation stack, tab stops every 8
// columns, no layout inside brackets, blank/comment lines ignored,
// backslash-newline joins lines). It shares no code with scan.go.

type zzT struct {
	kind      Token
	line, col int32
	raw       string // spelling (real tokens only)
	sval      string // STRING/BYTES value
	ival      int64  // INT value when it fits in 62 bits
	big       bool   // INT too wide for ival
}

type zzLexResult struct {
	toks []zzT
	ok   bool // false: the text is not a token sequence (lexical error expected)
	// flags describing corners the reference leaves outside the claim / known regions
	numAdjacent bool // a numeric literal is immediately followed by a letter, digit or '_'
	contAtBOL   bool // backslash-newline before the first token of a logical line
	tabAfterTab bool // indentation containing a tab that is preceded by another tab
	nonASCII    bool
	hasNUL      bool // the text contains a NUL byte
}

var zzPunct = []struct {
	text string
	tok  Token
}{
	{"//=", SLASHSLASH_EQ}, {"<<=", LTLT_EQ}, {">>=", GTGT_EQ},
	{"//", SLASHSLASH}, {"+=", PLUS_EQ}, {"-=", MINUS_EQ}, {"*=", STAR_EQ}, {"/=", SLASH_EQ}, {"%=", PERCENT_EQ},
	{"==", EQL}, {"!=", NEQ}, {"^=", CIRCUMFLEX_EQ}, {"<=", LE}, {">=", GE}, {"<<", LTLT}, {">>", GTGT},
	{"&=", AMP_EQ}, {"|=", PIPE_EQ}, {"**", STARSTAR},
	{"+", PLUS}, {"-", MINUS}, {"*", STAR}, {"/", SLASH}, {"%", PERCENT}, {"=", EQ}, {"^", CIRCUMFLEX},
	{"<", LT}, {">", GT}, {"&", AMP}, {"|", PIPE}, {".", DOT}, {",", COMMA}, {";", SEMI}, {":", COLON}, {"~", TILDE},
	{"(", LPAREN}, {")", RPAREN}, {"[", LBRACK}, {"]", RBRACK}, {"{", LBRACE}, {"}", RBRACE},
}

var zzKeywords = []struct {
	text string
	tok  Token
}{
	{"and", AND}, {"elif", ELIF}, {"in", IN}, {"or", OR}, {"break", BREAK}, {"else", ELSE}, {"lambda", LAMBDA},
	{"pass", PASS}, {"continue", CONTINUE}, {"for", FOR}, {"load", LOAD}, {"return", RETURN}, {"def", DEF},
	{"if", IF}, {"not", NOT}, {"while", WHILE},
	// reserved (assert is permitted as an identifier by the Go implementation)
	{"as", AS}, {"except", EXCEPT}, {"nonlocal", NONLOCAL}, {"finally", FINALLY}, {"raise", RAISE},
	{"async", ASYNC}, {"from", FROM}, {"try", TRY}, {"await", AWAIT}, {"global", GLOBAL}, {"with", WITH},
	{"class", CLASS}, {"import", IMPORT}, {"yield", YIELD}, {"del", DEL}, {"is", IS},
}

func zzIsLetter(c byte) bool { return 'a' <= c && c <= 'z' || 'A' <= c && c <= 'Z' || c == '_' }
func zzIsDigit(c byte) bool  { return '0' <= c && c <= '9' }

// zzDigitsEnd returns the end of the run of bytes for which digit value < base, starting at i.
func zzDigitsEnd(s string, i int, base int) int {
	for i < len(s) {
		v, ok := zzHexVal(s[i])
		if !ok || v >= base {
			break
		}
		i++
	}
	return i
}

// zzExpEnd: if an exponent ([eE][+-]?digits) starts at i, returns its end, else i.
func zzExpEnd(s string, i int) int {
	if i < len(s) && (s[i] == 'e' || s[i] == 'E') {
		j := i + 1
		if j < len(s) && (s[j] == '+' || s[j] == '-') {
			j++
		}
		if k := zzDigitsEnd(s, j, 10); k > j {
			return k
		}
	}
	return i
}

// zzNumber returns the end and kind of the longest int/float literal at i
// (s[i] is a digit, or '.' followed by a digit).
func zzNumber(s string, i int) (end int, kind Token) {
	n := len(s)
	if s[i] == '.' {
		j := zzDigitsEnd(s, i+1, 10)
		return zzExpEnd(s, j), FLOAT
	}
	// prefixed ints
	if s[i] == '0' && i+1 < n {
		base := 0
		switch s[i+1] {
		case 'x', 'X':
			base = 16
		case 'o', 'O':
			base = 8
		case 'b', 'B':
			base = 2
		}
		if base != 0 {
			if j := zzDigitsEnd(s, i+2, base); j > i+2 {
				return j, INT
			}
			return i + 1, INT // just "0"
		}
	}
	d := zzDigitsEnd(s, i, 10) // decimals
	// float = decimals '.' [decimals] [exponent] | decimals exponent
	if d < n && s[d] == '.' {
		j := zzDigitsEnd(s, d+1, 10)
		return zzExpEnd(s, j), FLOAT
	}
	if e := zzExpEnd(s, d); e > d {
		return e, FLOAT
	}
	// decimal_lit = ('1'…'9') {digit} | '0'
	if s[i] == '0' {
		return i + 1, INT
	}
	return d, INT
}

// zzIntValue computes the positional value of an int literal spelling.
func zzIntValue(raw string) (v int64, big bool) {
	base, digits := 10, raw
	if len(raw) > 2 && raw[0] == '0' {
		switch raw[1] {
		case 'x', 'X':
			base, digits = 16, raw[2:]
		case 'o', 'O':
			base, digits = 8, raw[2:]
		case 'b', 'B':
			base, digits = 2, raw[2:]
		}
	}
	for i := 0; i < len(digits); i++ {
		d, _ := zzHexVal(digits[i])
		if v >= 1<<57 {
			return 0, true
		}
		v = v*int64(base) + int64(d)
	}
	return v, false
}

// zzStringLit scans the string literal whose opening quote is at q
// (prefix already skipped). It returns the index after the closing quote and
// the normalised body (line endings as LF), or ok=false if unterminated.
func zzStringLit(s string, q int) (end int, body string, triple, ok bool) {
	n := len(s)
	Q := s[q]
	i := q + 1
	if q+2 < n && s[q+1] == Q && s[q+2] == Q {
		triple = true
		i = q + 3
	}
	var b []byte
	for i < n {
		c := s[i]
		switch {
		case c == '\\':
			if i+1 >= n {
				return 0, "", triple, false
			}
			// backslash protects the next character (a CRLF pair counts as one)
			b = append(b, '\\')
			i++
			if s[i] == '\r' {
				b = append(b, '\n')
				i++
				if i < n && s[i] == '\n' {
					i++
				}
			} else {
				b = append(b, s[i])
				i++
			}
		case c == '\r' || c == '\n':
			if !triple {
				return 0, "", triple, false
			}
			b = append(b, '\n')
			i++
			if c == '\r' && i < n && s[i] == '\n' {
				i++
			}
		case c == Q:
			if !triple {
				return i + 1, string(b), triple, true
			}
			if i+2 < n && s[i+1] == Q && s[i+2] == Q {
				return i + 3, string(b), triple, true
			}
			b = append(b, c)
			i++
		default:
			b = append(b, c)
			i++
		}
	}
	return 0, "", triple, false
}

func zzRefLex(s string) (res zzLexResult) {
	n := len(s)
	for k := 0; k < n; k++ {
		if s[k] >= 0x80 {
			res.nonASCII = true
			return
		}
		if s[k] == 0 {
			res.hasNUL = true
		}
	}
	i := 0
	line, col := int32(1), int32(1)
	depth := 0
	stack := []int{0}
	bol := true   // at the beginning of a physical line that starts a logical line
	lineToks := 0 // tokens on the current logical line
	emit := func(kind Token, raw string) {
		res.toks = append(res.toks, zzT{kind: kind, line: line, col: col, raw: raw})
	}
	eol := func(k int) bool { return k < n && (s[k] == '\n' || s[k] == '\r') }
	newline := func() {
		if s[i] == '\r' && i+1 < n && s[i+1] == '\n' {
			i++
		}
		i++
		line++
		col = 1
	}
	advance := func(to int) { // over non-newline ASCII
		col += int32(to - i)
		i = to
	}
	for {
		if bol {
			bol = false
			w := 0
			sawTab := false
			for i < n && (s[i] == ' ' || s[i] == '\t') {
				if s[i] == ' ' {
					w++
				} else {
					if sawTab {
						res.tabAfterTab = true
					}
					sawTab = true
					w = w/8*8 + 8
				}
				advance(i + 1)
			}
			blank := i >= n || s[i] == '#' || eol(i)
			if blank {
				// skip the comment and the line ending; the line produces no tokens
				for i < n && !eol(i) {
					advance(i + 1)
				}
				if i < n {
					newline()
					bol = true
					continue
				}
			} else if depth == 0 {
				top := stack[len(stack)-1]
				if w > top {
					stack = append(stack, w)
					emit(INDENT, "")
				} else if w < top {
					for w < stack[len(stack)-1] {
						stack = stack[:len(stack)-1]
						emit(OUTDENT, "")
					}
					if w != stack[len(stack)-1] {
						return // inconsistent dedent
					}
				}
			}
		}
		for i < n && (s[i] == ' ' || s[i] == '\t') {
			advance(i + 1)
		}
		if i < n && s[i] == '#' {
			for i < n && !eol(i) {
				advance(i + 1)
			}
		}
		if i >= n {
			if lineToks > 0 {
				emit(NEWLINE, "\n")
			}
			for len(stack) > 1 {
				stack = stack[:len(stack)-1]
				emit(OUTDENT, "")
			}
			emit(EOF, "")
			res.ok = true
			return
		}
		c := s[i]
		switch {
		case eol(i):
			if depth == 0 {
				if lineToks > 0 {
					emit(NEWLINE, "\n")
				}
				lineToks = 0
				newline()
				bol = true
			} else {
				newline()
			}
			continue
		case c == '\\':
			if !eol(i + 1) {
				return // stray backslash
			}
			if lineToks == 0 && depth == 0 {
				res.contAtBOL = true
			}
			advance(i + 1)
			newline()
			continue
		}
		lineToks++
		switch {
		case c == '"' || c == '\'' ||
			(c == 'r' || c == 'b') && i+1 < n && (s[i+1] == '"' || s[i+1] == '\'') ||
			c == 'r' && i+2 < n && s[i+1] == 'b' && (s[i+2] == '"' || s[i+2] == '\''):
			q := i
			raw, isByte := false, false
			if s[q] == 'r' {
				raw = true
				q++
			}
			if s[q] == 'b' {
				isByte = true
				q++
			}
			end, body, triple, ok := zzStringLit(s, q)
			if !ok {
				return
			}
			// Literal.Raw is the spelling with line endings normalised to LF
			quotes := s[q : q+1]
			if triple {
				quotes = s[q : q+3]
			}
			spelling := s[i:q] + quotes + body + quotes
			val, vok := zzRefDecode(body, raw, isByte)
			if !vok {
				return
			}
			t := zzT{kind: STRING, line: line, col: col, raw: spelling, sval: string(val)}
			if isByte {
				t.kind = BYTES
			}
			res.toks = append(res.toks, t)
			// advance over a token that may contain newlines
			for i < end {
				if eol(i) {
					newline()
				} else {
					advance(i + 1)
				}
			}
		case zzIsLetter(c):
			j := i
			for j < n && (zzIsLetter(s[j]) || zzIsDigit(s[j])) {
				j++
			}
			word := s[i:j]
			kind := IDENT
			for _, kw := range zzKeywords {
				if word == kw.text {
					kind = kw.tok
				}
			}
			emit(kind, word)
			advance(j)
		case zzIsDigit(c) || c == '.' && i+1 < n && zzIsDigit(s[i+1]):
			end, kind := zzNumber(s, i)
			t := zzT{kind: kind, line: line, col: col, raw: s[i:end]}
			if kind == INT {
				t.ival, t.big = zzIntValue(t.raw)
			}
			res.toks = append(res.toks, t)
			if end < n && (zzIsLetter(s[end]) || zzIsDigit(s[end])) {
				res.numAdjacent = true
			}
			advance(end)
		default:
			matched := false
			for _, p := range zzPunct {
				if i+len(p.text) <= n && s[i:i+len(p.text)] == p.text {
					switch p.tok {
					case LPAREN, LBRACK, LBRACE:
						depth++
					case RPAREN, RBRACK, RBRACE:
						if depth == 0 {
							return // unbalanced closing bracket
						}
						depth--
					}
					emit(p.tok, p.text)
					advance(i + len(p.text))
					matched = true
					break
				}
			}
			if !matched {
				return // not the start of any token (includes NUL, !, $, ?, @, `)
			}
		}
	}
}

// --- driving the real scanner ------------------------------------------------

func zzScanAll(src string, limit int) (toks []zzT, err error) {
	sc, err := newScanner("t.star", src, false)
	if err != nil {
		return nil, err
	}
	defer sc.recover(&err)
	var v tokenValue // one value reused across calls, as the parser does
	for k := 0; k < limit; k++ {
		t := sc.nextToken(&v)
		zt := zzT{kind: t, line: v.pos.Line, col: v.pos.Col, raw: v.raw}
		switch t {
		case STRING, BYTES:
			zt.sval = v.string
		case INT:
			zt.ival = v.int
			zt.big = v.bigInt != nil
		}
		toks = append(toks, zt)
		if t == EOF {
			break
		}
	}
	return toks, nil
}

// zzDropFinalNewline removes a NEWLINE that directly precedes the trailing
// OUTDENT* EOF: the scanner synthesises it only inside an indented block, the
// reference always; the grammar accepts EOF in its place.
func zzDropFinalNewline(ts []zzT) []zzT {
	k := len(ts) - 1 // EOF
	for k > 0 && ts[k-1].kind == OUTDENT {
		k--
	}
	if k > 0 && ts[k-1].kind == NEWLINE {
		out := append([]zzT{}, ts[:k-1]...)
		return append(out, ts[k:]...)
	}
	return ts
}

// zzSameTokens compares kinds, spellings, values, and the positions of all
// tokens that have a spelling (synthetic tokens: kind only).
func zzSameTokens(a, b []zzT) bool {
	if len(a) != len(b) {
		return false
	}
	same := true
	for k := range a {
		x, y := a[k], b[k]
		if x.kind != y.kind {
			return false
		}
		switch x.kind {
		case INDENT, OUTDENT, EOF, NEWLINE:
			continue
		}
		same = zzAnd(same, zzAnd(x.line == y.line, x.col == y.col))
		same = zzAnd(same, x.raw == y.raw)
		switch x.kind {
		case STRING, BYTES:
			same = zzAnd(same, x.sval == y.sval)
		case INT:
			same = zzAnd(same, x.big == y.big)
			if !x.big && !y.big {
				same = zzAnd(same, x.ival == y.ival)
			}
		}
	}
	return same
}

// zzCheckLex runs both lexers on src and asserts agreement: the scanner
// fails (with a positioned Error) exactly when the text is not a token
// sequence, and otherwise delivers the reference token stream.
//
// Known-finding regions (fixed ids, asserted with zzAssertExcept):
//
//	C14.tok.nul_truncates    a NUL byte outside a string literal ends the input silently
//	C14.tok.number_adjacent  a numeric literal directly followed by a letter/digit:
//	                         `1else`, `0or`, `1.else` are rejected, `00` is one INT
//	C14.layout.tab_after_tab the second tab of an indentation advances to column 15, not 16
func zzCheckLex(src string, tag string) zzLexResult {
	got, err := zzScanAll(src, len(src)+8)
	ref := zzRefLex(src)
	zzAssume(!ref.nonASCII)
	zzAssume(!ref.contAtBOL) // outside the claim: continuation before the first token of a line
	zzObserve("err", err != nil)
	zzObserve("ntok", len(got))
	if err != nil {
		_, positioned := err.(Error)
		zzAssert(positioned, "C14.tok."+tag+".positioned_error")
	}
	agree := (err == nil) == ref.ok
	if err == nil && ref.ok {
		agree = zzSameTokens(zzDropFinalNewline(got), zzDropFinalNewline(ref.toks))
	}
	switch {
	case ref.hasNUL:
		zzAssertExcept(agree, "C14.tok.nul_truncates", true)
	case ref.numAdjacent:
		zzAssertExcept(agree, "C14.tok.number_adjacent", true)
	case ref.tabAfterTab:
		zzAssertExcept(agree, "C14.layout.tab_after_tab", true)
	default:
		zzAssert(agree, "C14.tok."+tag+".stream")
	}
	return ref
}

// ---------------------------------------------------------------------------
// H14.2  Tokenisation of symbolic bytes.

// zzH14_tok_free: every ASCII text of n <= maxlen symbolic bytes (all 128 values).
//
//verif:unwind 300
func zzH14_tok_free() {
	maxn := zzParam("maxlen", 2, 2)
	n := zzChoice("n", maxn+1)
	s := zzString("s", n)
	for i := 0; i < n; i++ {
		zzAssume(s[i] < 0x80)
	}
	zzCheckLex(s, "free")
	zzReach("end")
}

func zzInSet(c byte, set string) bool {
	r := false
	for i := 0; i < len(set); i++ {
		r = zzOr(r, c == set[i])
	}
	return r
}

// zzH14_tok_ops: texts of 3 symbolic bytes over the operator characters
// "=<>/*!" (thorough: all of "=<>/*!+-%&|^.~ ") and one digit / one letter
// class: every multi-character operator and its longest-match neighbours.
//
//verif:unwind 300
func zzH14_tok_ops() {
	n := 3 + zzChoice("extra", zzParam("extra", 1, 1))
	s := zzString("s", n)
	alpha := "=<>/*!"
	if zzParam("fullops", 0, 1) == 1 && n == 3 {
		alpha = "=<>/*!+-%&|^.~ "
	}
	for i := 0; i < n; i++ {
		zzAssume(zzOr(zzInSet(s[i], alpha), zzOr(zzB(s[i], '1', '9'), zzB(s[i], 'c', 'd'))))
	}
	zzCheckLex(s, "ops")
	zzReach("end")
}

// zzH14_tok_words: words of 3..8 symbolic lower-case letters: exactly the
// keywords and reserved words of the spec are keyword tokens, every other word
// (including `assert`) is an identifier.
//
//verif:unwind 300
func zzH14_tok_words() {
	n := 3 + zzChoice("len", 6)
	s := zzString("w", n)
	for i := 0; i < n; i++ {
		zzAssume(zzB(s[i], 'a', 'z'))
	}
	zzCheckLex(s, "words")
	zzReach("end")
}

// zzH14_tok_string: string and bytes literals through the real scanner:
// prefix, quotation, body of k symbolic ASCII bytes, closing quotation. The
// body may contain quotes, backslashes and line endings, so delimiting, raw
// mode, triple quoting, CR/CRLF normalisation and escape decoding all vary.
//
//verif:unwind 400
func zzH14_tok_string() {
	pfx := []string{"", "rb", "b", "r"}[zzChoice("pfx", zzParam("prefixes", 2, 4))]
	qk := zzChoice("quoting", zzParam("quotings", 2, 4))
	Q := []string{"\"", "\"\"\"", "'", "'''"}[qk]
	k := zzChoice("k", zzParam("maxbody", 2, 2)+1)
	body := zzString("body", k)
	for i := 0; i < k; i++ {
		zzAssume(body[i] < 0x80)
	}
	zzCheckLex(pfx+Q+body+Q, "string")
	zzReach("end")
}

// ---------------------------------------------------------------------------
// H14.4  Literal values.

// zzH14_int_literals: int literals with up to maxdigits symbolic digits in
// bases 10, 16, 8, 2 (both prefix letter cases) through the real scanner; the
// token's value equals the positional value sum(d_i * base^i) computed by the
// reference, the spelling and position are exact.
//
//verif:unwind 300
func zzH14_int_literals() {
	base := []int{10, 16, 8, 2}[zzChoice("base", 4)]
	nd := 1 + zzChoice("nd", zzParam("maxdigits", 3, 5))
	d := zzBytes("d", nd)
	text := ""
	if base != 10 {
		p := zzString("p", 1)
		lower := []byte{0, 0, 'b', 0, 0, 0, 0, 0, 'o', 0, 0, 0, 0, 0, 0, 0, 'x'}[base]
		zzAssume(zzOr(p[0] == lower, p[0] == lower-32))
		text = "0" + p
	}
	for i := 0; i < nd; i++ {
		c := d[i]
		switch base {
		case 10:
			if i == 0 && nd > 1 {
				zzAssume(zzB(c, '1', '9'))
			} else {
				zzAssume(zzB(c, '0', '9'))
			}
		case 16:
			zzAssume(zzOr(zzB(c, '0', '9'), zzOr(zzB(c, 'a', 'f'), zzB(c, 'A', 'F'))))
		case 8:
			zzAssume(zzB(c, '0', '7'))
		case 2:
			zzAssume(zzB(c, '0', '1'))
		}
	}
	text += string(d)
	ref := zzCheckLex(text, "int")
	zzAssert(zzAnd(ref.ok, len(zzDropFinalNewline(ref.toks)) == 2), "C14.int.one_token") // INT EOF
	// and through the parser: a Literal carrying that value
	e, err := ParseExpr("i.star", text, 0)
	zzAssert(err == nil, "C14.int.parses")
	if err == nil {
		lit, ok := e.(*Literal)
		zzAssert(ok, "C14.int.literal_node")
		if ok {
			v, isInt := lit.Value.(int64)
			zzAssert(zzAnd(isInt, lit.Token == INT), "C14.int.kind")
			zzObserve("value", v)
			zzAssert(v == ref.toks[0].ival, "C14.int.value")
			zzAssert(zzAnd(lit.Raw == text, zzAnd(lit.TokenPos.Line == 1, lit.TokenPos.Col == 1)), "C14.int.raw_pos")
		}
	}
	zzReach("end")
}

// zzH14_tok_number: texts of n <= maxlen symbolic bytes over digits, '.',
// 'e', 'E', '+', '-': which spellings form INT and FLOAT tokens (float values
// themselves are outside the claim: strconv.ParseFloat is an opaque model).
//
//verif:unwind 300
func zzH14_tok_number() {
	n := 1 + zzChoice("n", zzParam("maxlen", 3, 4))
	s := zzString("s", n)
	for i := 0; i < n; i++ {
		zzAssume(zzOr(zzB(s[i], '0', '9'), zzInSet(s[i], ".eE+-")))
	}
	zzCheckLex(s, "number")
	zzReach("end")
}

// zzH14_tok_unicode: one symbolic non-ASCII Unicode scalar value r inside an
// identifier: `x<r> y`. Identifiers are sequences of Unicode letters, digits
// and '_' (spec); columns count runes, not bytes, so `y` is at column 4
// whatever the encoded size of r. A non-letter r is rejected.
func zzH14_tok_unicode() {
	r := zzI32("r")
	zzAssume(zzAnd(r >= 0x80, r <= 0x10FFFF))
	zzAssume(zzNot(zzAnd(r >= 0xD800, r <= 0xDFFF)))
	enc := zzEncodeRune(r)
	src := "x" + enc + " y"
	got, err := zzScanAll(src, 8)
	letter := zzIsUnicodeLetter(r)
	zzObserve("err", err != nil)
	zzAssert((err == nil) == letter, "C14.tok.unicode.accept_iff_letter")
	if err == nil {
		zzAssert(len(got) == 3, "C14.tok.unicode.count")
		if len(got) == 3 {
			zzAssert(zzAnd(got[0].kind == IDENT, zzAnd(got[0].raw == "x"+enc, zzAnd(got[0].line == 1, got[0].col == 1))), "C14.tok.unicode.first")
			zzAssert(zzAnd(got[1].kind == IDENT, zzAnd(got[1].raw == "y", zzAnd(got[1].line == 1, got[1].col == 4))), "C14.tok.unicode.rune_column")
			zzAssert(got[2].kind == EOF, "C14.tok.unicode.eof")
		}
	} else {
		_, positioned := err.(Error)
		zzAssert(positioned, "C14.tok.unicode.positioned_error")
	}
	zzReach("end")
}
