//go:build verif

package syntax

import "strconv"

// ---------------------------------------------------------------------------
// H14.1  Operator precedence and associativity.
//
// The source text `[U] x OP1 [U] y OP2 [U] z [OP3 w]` is assembled from
// operator spellings chosen by zzChoice (structure bound) with symbolic
// identifier letters / digits and chosen spacing; the REAL scanner and parser
// (ParseExpr) produce a tree which is compared, including every node position,
// with the tree built by an independent stratified recursive-descent
// reference (one function per precedence level, transcribed from doc/spec.md
// "Binary operators"/"Unary operators").

type zzOp struct {
	text  string
	tok   Token
	level int // spec order: or=0 and=1 comparisons=3 | ^ & shifts additive multiplicative
}

var zzBinOps = []zzOp{
	{"or", OR, 0}, {"and", AND, 1},
	{"==", EQL, 3}, {"!=", NEQ, 3}, {"<", LT, 3}, {">", GT, 3}, {"<=", LE, 3}, {">=", GE, 3}, {"in", IN, 3}, {"not in", NOT_IN, 3},
	{"|", PIPE, 4}, {"^", CIRCUMFLEX, 5}, {"&", AMP, 6},
	{"<<", LTLT, 7}, {">>", GTGT, 7},
	{"-", MINUS, 8}, {"+", PLUS, 8},
	{"*", STAR, 9}, {"/", SLASH, 9}, {"//", SLASHSLASH, 9}, {"%", PERCENT, 9},
}

var zzUnOps = []zzOp{{"", 0, -1}, {"-", MINUS, 10}, {"+", PLUS, 10}, {"~", TILDE, 10}, {"not", NOT, 2}}

// reference token
type zzPTok struct {
	kind      int // 0 operand, 1 binary op, 2 unary op
	text      string
	tok       Token
	level     int
	line, col int
}

type zzSrc struct {
	text      string
	toks      []zzPTok
	line, col int
}

func (b *zzSrc) raw(s string) {
	b.text += s
	for i := 0; i < len(s); i++ {
		if s[i] == '\n' {
			b.line++
			b.col = 1
		} else {
			b.col++
		}
	}
}

func (b *zzSrc) add(kind int, text string, tok Token, level int) {
	b.toks = append(b.toks, zzPTok{kind, text, tok, level, b.line, b.col})
	b.raw(text)
}

func zzPos(line, col int) string { return "@" + strconv.Itoa(line) + ":" + strconv.Itoa(col) }

// --- reference parser: returns the canonical rendering or ok=false (syntax error)
type zzRef struct {
	toks     []zzPTok
	i        int
	ok       bool
	notinAt  int // column offset added to the position of a `not in` operator (0 = where it starts)
	sawNotIn bool
}

func (p *zzRef) opPos(op zzPTok) string {
	if op.tok == NOT_IN {
		p.sawNotIn = true
		return zzPos(op.line, op.col+p.notinAt)
	}
	return zzPos(op.line, op.col)
}

// binLevel: precedence level of t used as a binary operator, or -1. A token
// is classified by what it is, not by the role the harness gave it: `-` and
// `+` are binary (level 8) or unary depending on where they stand.
func zzBinLevel(t zzPTok) int {
	if t.kind == 1 {
		return t.level
	}
	if t.kind == 2 && (t.tok == MINUS || t.tok == PLUS) {
		return 8
	}
	return -1
}

func zzIsPrefix(t zzPTok) bool {
	return t.kind != 0 && (t.tok == MINUS || t.tok == PLUS || t.tok == TILDE)
}

func (p *zzRef) peekBin(level int) bool {
	return p.i < len(p.toks) && zzBinLevel(p.toks[p.i]) == level
}

func (p *zzRef) binLeft(level int, next func() string) string {
	x := next()
	for p.ok && p.peekBin(level) {
		op := p.toks[p.i]
		p.i++
		y := next()
		x = "(" + x + " " + op.text + p.opPos(op) + " " + y + ")"
	}
	return x
}

func (p *zzRef) orExpr() string  { return p.binLeft(0, p.andExpr) }
func (p *zzRef) andExpr() string { return p.binLeft(1, p.notExpr) }
func (p *zzRef) notExpr() string {
	if p.i < len(p.toks) && p.toks[p.i].kind == 2 && p.toks[p.i].tok == NOT {
		op := p.toks[p.i]
		p.i++
		x := p.notExpr()
		return "(not" + zzPos(op.line, op.col) + " " + x + ")"
	}
	return p.cmpExpr()
}
func (p *zzRef) cmpExpr() string {
	x := p.bitor()
	if p.ok && p.peekBin(3) {
		op := p.toks[p.i]
		p.i++
		y := p.bitor()
		x = "(" + x + " " + op.text + p.opPos(op) + " " + y + ")"
		if p.peekBin(3) {
			p.ok = false // comparisons do not associate
		}
	}
	return x
}
func (p *zzRef) bitor() string  { return p.binLeft(4, p.bitxor) }
func (p *zzRef) bitxor() string { return p.binLeft(5, p.bitand) }
func (p *zzRef) bitand() string { return p.binLeft(6, p.shift) }
func (p *zzRef) shift() string  { return p.binLeft(7, p.arith) }
func (p *zzRef) arith() string  { return p.binLeft(8, p.term) }
func (p *zzRef) term() string   { return p.binLeft(9, p.factor) }
func (p *zzRef) factor() string {
	if p.i >= len(p.toks) {
		p.ok = false
		return ""
	}
	t := p.toks[p.i]
	switch {
	case zzIsPrefix(t):
		p.i++
		x := p.factor()
		return "(" + t.text + zzPos(t.line, t.col) + " " + x + ")"
	case t.kind == 0:
		p.i++
		return t.text + zzPos(t.line, t.col)
	}
	p.ok = false // e.g. `not` where a primary is required
	return ""
}

// --- rendering of the real tree
func zzOpText(tok Token) string {
	for _, o := range zzBinOps {
		if o.tok == tok {
			return o.text
		}
	}
	for _, o := range zzUnOps {
		if o.tok == tok {
			return o.text
		}
	}
	return "?"
}

func zzP(p Position) string { return zzPos(int(p.Line), int(p.Col)) }

func zzShow(e Expr) string {
	start, _ := e.Span()
	switch e := e.(type) {
	case *Ident:
		return e.Name + zzP(e.NamePos)
	case *Literal:
		if v, ok := e.Value.(int64); ok && e.Token == INT && len(e.Raw) == 1 {
			return string([]byte{'0' + byte(v)}) + zzP(e.TokenPos)
		}
		return "?lit"
	case *UnaryExpr:
		if start != e.OpPos {
			return "?span"
		}
		return "(" + zzOpText(e.Op) + zzP(e.OpPos) + " " + zzShow(e.X) + ")"
	case *BinaryExpr:
		xs, _ := e.X.Span()
		if start != xs {
			return "?span"
		}
		return "(" + zzShow(e.X) + " " + zzOpText(e.Op) + zzP(e.OpPos) + " " + zzShow(e.Y) + ")"
	}
	return "?node"
}

var zzSeps = []string{" ", "  ", " \\\n ", "\t"}

// zzOperand appends a symbolic operand: a one-letter identifier or a one-digit int.
func (b *zzSrc) operand(i int) {
	name := "x" + strconv.Itoa(i)
	if i >= zzParam("symbolic_operands", 1, 2) { // the others are concrete (each symbolic byte costs ~25 solver calls per path)
		if i == 1 {
			b.add(0, "7", INT, -1)
		} else {
			b.add(0, string([]byte{'a' + byte(i)}), IDENT, -1)
		}
		return
	}
	if i%2 == 1 {
		d := zzString(name, 1)
		zzAssume(zzB(d[0], '1', '9')) // one scanner class ('0' starts the prefixed forms: H14.4)
		b.add(0, d, INT, -1)
		return
	}
	id := zzString(name, 1)
	zzAssume(zzB(id[0], 'c', 'q')) // one scanner class (not the string prefixes r, b); other letters: H14.2
	b.add(0, id, IDENT, -1)
}

// zzRepOps: one operator per precedence level (quick tier of the unary harness).
var zzRepOps = []int{0, 1, 2, 9, 10, 11, 12, 13, 15, 17}

func (b *zzSrc) binopRep(name string, sep string) {
	k := zzChoice(name, zzParam("unary_ops", len(zzRepOps), len(zzBinOps)))
	if zzParam("unary_ops", len(zzRepOps), len(zzBinOps)) == len(zzRepOps) {
		k = zzRepOps[k]
	}
	o := zzBinOps[k]
	b.raw(sep)
	b.add(1, o.text, o.tok, o.level)
	b.raw(" ")
}

func (b *zzSrc) binop(name string, sep string) {
	o := zzBinOps[zzChoice(name, len(zzBinOps))]
	b.raw(sep)
	b.add(1, o.text, o.tok, o.level)
	b.raw(" ")
}

func (b *zzSrc) unop(name string, n int) {
	u := zzUnOps[zzChoice(name, n)]
	if u.text == "" {
		return
	}
	b.add(2, u.text, u.tok, u.level)
	if u.tok == NOT {
		b.raw(" ")
	}
}

func zzCheckParse(b *zzSrc, id string) {
	ref := &zzRef{toks: b.toks, ok: true}
	want := ref.orExpr()
	if ref.i != len(ref.toks) {
		ref.ok = false
	}
	// Variant with `not in` positioned at its `in` word (the harness always
	// writes "not in" with one space): see finding C14.prec.*.notin_pos.
	ref2 := &zzRef{toks: b.toks, ok: true, notinAt: 4}
	want2 := ref2.orExpr()

	e, err := ParseExpr("p.star", b.text, 0)
	zzObserve("err", err != nil)
	zzAssert((err == nil) == ref.ok, "C14.prec."+id+".accept")
	if err == nil && ref.ok {
		got := zzShow(e)
		zzObserve("tree", got)
		// shape, operators, operand values and every position except OpPos of `not in`
		zzAssert(got == want2, "C14.prec."+id+".tree")
		// ... and OpPos of `not in` is where the operator starts
		zzAssertExcept(got == want, "C14.pos.notin_oppos", ref.sawNotIn)
	}
	if err != nil {
		_, isErr := err.(Error)
		zzAssert(isErr, "C14.prec."+id+".positioned_error")
	}
}

// zzH14_prec3: x OP1 y OP2 z over all 21x21 operator pairs, 4 spacings
// (including a line continuation) before OP2.
func zzH14_prec3() {
	b := &zzSrc{line: 1, col: 1}
	b.operand(0)
	b.binop("op1", " ")
	b.operand(1)
	b.binop("op2", zzSeps[zzChoice("sep", zzParam("seps", 1, len(zzSeps)))])
	b.operand(2)
	zzCheckParse(b, "bin3")
	zzReach("end")
}

// zzH14_prec4: x OP1 y OP2 z OP3 w over all 21^3 operator triples.
//
//verif:thorough
func zzH14_prec4() {
	b := &zzSrc{line: 1, col: 1}
	b.operand(0)
	b.binop("op1", " ")
	b.operand(1)
	b.binop("op2", " ")
	b.operand(2)
	b.binop("op3", "  ")
	b.operand(3)
	zzCheckParse(b, "bin4")
	zzReach("end")
}

// zzH14_unary: U1 x OP U2 y with U in {none, -, +, ~, not} and OP over one
// operator per precedence level (thorough: all 21): unary operators
// bind tighter than every binary operator, `not` sits between `and` and the
// comparisons and is rejected where a primary is required.
func zzH14_unary() {
	b := &zzSrc{line: 1, col: 1}
	b.unop("u1", len(zzUnOps))
	b.operand(0)
	b.binopRep("op", " ")
	b.unop("u2", len(zzUnOps))
	b.operand(1)
	zzCheckParse(b, "unary")
	zzReach("end")
}

// zzH14_unary3: x OP1 U y OP2 z and stacked prefixes U1 U2 x OP y.
//
//verif:thorough
func zzH14_unary3() {
	b := &zzSrc{line: 1, col: 1}
	if zzChoice("shape", 2) == 0 {
		b.operand(0)
		b.binop("op1", " ")
		b.unop("u", len(zzUnOps))
		b.operand(1)
		b.binop("op2", " ")
		b.operand(2)
	} else {
		b.unop("u1", len(zzUnOps))
		b.unop("u2", len(zzUnOps))
		b.operand(0)
		b.binop("op1", " ")
		b.operand(1)
	}
	zzCheckParse(b, "unary3")
	zzReach("end")
}

// zzH14_cond: the conditional expression binds weaker than every binary
// operator and nests to the right:
//
//	x OP1 y if z else w OP2 v      =  (x OP1 y) if z else (w OP2 v)
//	x if y else z if w else v      =  x if y else (z if w else v)
//	lambda: x if y else z OP1 w    =  lambda: (x if y else (z OP1 w))
func zzH14_cond() {
	ops := len(zzBinOps)
	o1 := zzBinOps[zzChoice("op1", ops)]
	b := &zzSrc{line: 1, col: 1}
	id := func(i int) string {
		t := b.toks[i]
		return t.text + zzPos(t.line, t.col)
	}
	var want string
	switch zzChoice("shape", 3) {
	case 0:
		o2 := zzBinOps[zzChoice("op2", zzParam("op2s", 4, ops))]
		b.operand(0) // 0
		b.raw(" ")
		b.add(1, o1.text, o1.tok, o1.level) // 1
		b.raw(" ")
		b.operand(1) // 2
		b.raw(" ")
		b.add(3, "if", IF, -1) // 3
		b.raw(" ")
		b.operand(2) // 4
		b.raw(" ")
		b.add(3, "else", ELSE, -1) // 5
		b.raw(" ")
		b.operand(3) // 6
		b.raw(" ")
		b.add(1, o2.text, o2.tok, o2.level) // 7
		b.raw(" ")
		b.operand(4) // 8
		want = "((" + id(0) + " " + id(1) + " " + id(2) + ") " + id(3) + " " + id(4) + " " + id(5) + " (" + id(6) + " " + id(7) + " " + id(8) + "))"
	case 1:
		b.operand(0) // 0
		b.raw(" ")
		b.add(3, "if", IF, -1) // 1
		b.raw(" ")
		b.operand(1) // 2
		b.raw(" ")
		b.add(3, "else", ELSE, -1) // 3
		b.raw("  ")
		b.operand(2) // 4
		b.raw(" ")
		b.add(3, "if", IF, -1) // 5
		b.raw(" ")
		b.operand(3) // 6
		b.raw(" ")
		b.add(3, "else", ELSE, -1) // 7
		b.raw(" ")
		b.operand(4) // 8
		want = "(" + id(0) + " " + id(1) + " " + id(2) + " " + id(3) + " (" + id(4) + " " + id(5) + " " + id(6) + " " + id(7) + " " + id(8) + "))"
	case 2:
		b.add(3, "lambda", LAMBDA, -1) // 0
		b.raw(": ")
		b.operand(0) // 1
		b.raw(" ")
		b.add(3, "if", IF, -1) // 2
		b.raw(" ")
		b.operand(1) // 3
		b.raw(" ")
		b.add(3, "else", ELSE, -1) // 4
		b.raw(" ")
		b.operand(2) // 5
		b.raw(" ")
		b.add(1, o1.text, o1.tok, o1.level) // 6
		b.raw(" ")
		b.operand(3) // 7
		want = "(" + id(0) + " (" + id(1) + " " + id(2) + " " + id(3) + " " + id(4) + " (" + id(5) + " " + id(6) + " " + id(7) + ")))"
	}
	e, err := ParseExpr("c.star", b.text, 0)
	zzAssert(err == nil, "C14.cond.accept")
	if err == nil {
		got := zzShowCond(e)
		zzObserve("tree", got)
		zzAssert(got == want, "C14.cond.tree")
	}
	zzReach("end")
}

// zzShowCond renders conditional and lambda nodes (positions of `if`, `else`,
// `lambda`); binary operators are rendered with the position of their
// spelling (for `not in` the position recorded by the parser is that of `in`,
// finding C14.pos.notin_oppos, compensated here).
func zzShowCond(e Expr) string {
	switch e := e.(type) {
	case *CondExpr:
		start, _ := e.Span()
		ts, _ := e.True.Span()
		if start != ts {
			return "?span"
		}
		return "(" + zzShowCond(e.True) + " if" + zzP(e.If) + " " + zzShowCond(e.Cond) + " else" + zzP(e.ElsePos) + " " + zzShowCond(e.False) + ")"
	case *LambdaExpr:
		start, _ := e.Span()
		if start != e.Lambda || len(e.Params) != 0 {
			return "?lambda"
		}
		return "(lambda" + zzP(e.Lambda) + " " + zzShowCond(e.Body) + ")"
	case *BinaryExpr:
		p := e.OpPos
		if e.Op == NOT_IN {
			p.Col -= 4
		}
		return "(" + zzShowCond(e.X) + " " + zzOpText(e.Op) + zzP(p) + " " + zzShowCond(e.Y) + ")"
	}
	return zzShow(e)
}

// zzH14_nearmiss: one token of the valid text `x OP1 y OP2 z` is deleted,
// duplicated, or swapped with its right neighbour. The result is accepted
// exactly when the reference grammar still derives it (e.g. `x - - z`), and
// then with the reference tree; otherwise ParseExpr returns a positioned Error.
func zzH14_nearmiss() {
	nops := zzParam("nearmiss_ops", 5, len(zzBinOps))
	pick := func(name string) zzOp {
		k := zzChoice(name, nops)
		if nops == 5 {
			k = []int{0, 2, 9, 15, 17}[k] // or == `not in` - *
		}
		return zzBinOps[k]
	}
	o1, o2 := pick("op1"), pick("op2")
	x := zzString("x0", 1)
	zzAssume(zzB(x[0], 'c', 'q'))
	base := []zzPTok{
		{kind: 0, text: x, tok: IDENT, level: -1},
		{kind: 1, text: o1.text, tok: o1.tok, level: o1.level},
		{kind: 0, text: "7", tok: INT, level: -1},
		{kind: 1, text: o2.text, tok: o2.tok, level: o2.level},
		{kind: 0, text: "z", tok: IDENT, level: -1},
	}
	m := zzChoice("mutation", 14)
	var seq []zzPTok
	switch {
	case m < 5: // delete token m
		seq = append(append(seq, base[:m]...), base[m+1:]...)
	case m < 10: // duplicate token m-5
		k := m - 5
		seq = append(append(append(seq, base[:k+1]...), base[k]), base[k+1:]...)
	default: // swap tokens k, k+1
		k := m - 10
		seq = append(seq, base...)
		seq[k], seq[k+1] = seq[k+1], seq[k]
	}
	b := &zzSrc{line: 1, col: 1}
	for i, t := range seq {
		if i > 0 {
			b.raw(" ")
		}
		b.add(t.kind, t.text, t.tok, t.level)
	}
	zzCheckParse(b, "nearmiss")
	zzReach("end")
}
