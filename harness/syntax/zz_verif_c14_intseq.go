//go:build verif

package syntax

import "math/big"

// zzH14_int_sequence: the value of an int literal does not depend on the literals scanned
// before it: `a = L1` followed by `b = L2` where L1 ranges over small, 64-bit-boundary and
// larger-than-64-bit literals in all bases, and L2 is a literal of symbolic digits in a
// (possibly different) base. Both Literal.Value results equal the positional values.
//
//verif:unwind 300
func zzH14_int_sequence() {
	firsts := []struct {
		text string
		big  string // decimal value if it does not fit int64, else ""
		val  int64
	}{
		{"7", "", 7},
		{"0x7fffffffffffffff", "", 1<<63 - 1},
		{"0x10000000000000000", "18446744073709551616", 0},
		{"99999999999999999999", "99999999999999999999", 0},
		{"0o2000000000000000000000", "18446744073709551616", 0},
		{"0b10000000000000000000000000000000000000000000000000000000000000000", "18446744073709551616", 0},
	}
	fi := zzChoice("first", len(firsts))
	f := firsts[fi]
	base := []int{10, 16, 8, 2}[zzChoice("base", 4)]
	nd := 2
	d := zzBytes("d", nd)
	prefix := map[int]string{10: "", 16: "0x", 8: "0o", 2: "0b"}[base]
	var want int64
	for i := 0; i < nd; i++ {
		c := d[i]
		var dv int64
		switch base {
		case 10:
			if i == 0 {
				zzAssume(zzB(c, '1', '9'))
			} else {
				zzAssume(zzB(c, '0', '9'))
			}
			dv = int64(c - '0')
		case 16:
			zzAssume(zzOr(zzB(c, '0', '9'), zzB(c, 'a', 'f')))
			dv = zzIteI64(c <= '9', int64(c-'0'), int64(c-'a')+10)
		case 8:
			zzAssume(zzB(c, '0', '7'))
			dv = int64(c - '0')
		case 2:
			zzAssume(zzB(c, '0', '1'))
			dv = int64(c - '0')
		}
		want = want*int64(base) + dv
	}
	second := prefix + string(d)
	src := "a = " + f.text + "\nb = " + second + "\n"
	file, err := Parse("s.star", src, 0)
	// recorded defect: octal and binary literals that do not fit 64 bits are rejected
	// ("invalid int literal") although decimal and hex literals of any size are accepted
	zzAssertExcept(err == nil, "C14.intseq.parses", fi >= 4)
	if err != nil {
		return
	}
	zzAssert(len(file.Stmts) == 2, "C14.intseq.two_statements")
	if len(file.Stmts) != 2 {
		return
	}
	l1, ok1 := file.Stmts[0].(*AssignStmt).RHS.(*Literal)
	l2, ok2 := file.Stmts[1].(*AssignStmt).RHS.(*Literal)
	zzAssert(ok1 && ok2, "C14.intseq.literals")
	if !(ok1 && ok2) {
		return
	}
	if f.big == "" {
		v, isInt := l1.Value.(int64)
		zzAssert(isInt && v == f.val, "C14.intseq.first_value")
	} else {
		bv, isBig := l1.Value.(*big.Int)
		wb, _ := new(big.Int).SetString(f.big, 10)
		zzAssert(isBig && bv.Cmp(wb) == 0, "C14.intseq.first_value")
	}
	v2, isInt2 := l2.Value.(int64)
	zzAssert(isInt2, "C14.intseq.second_kind")
	if isInt2 {
		zzObserve("v2", v2)
		zzAssert(v2 == want, "C14.intseq.second_value")
	}
	zzReach("end")
}
