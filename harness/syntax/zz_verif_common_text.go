//go:build verif

package syntax

import "unicode"

// Reference helpers shared by the C14/C15 harnesses. None of them calls into
// the code under test or into unicode/utf8.

// zzB reports lo <= b <= hi without forking.
func zzB(b, lo, hi byte) bool { return zzAnd(lo <= b, b <= hi) }

func zzCont(b byte) bool { return zzB(b, 0x80, 0xBF) }

// zzSeq1..4: s[i:] starts with a well-formed UTF-8 sequence of that length
// (Unicode 15 table 3-7). Non-forking.
func zzSeq1(a byte) bool    { return a < 0x80 }
func zzSeq2(a, b byte) bool { return zzAnd(zzB(a, 0xC2, 0xDF), zzCont(b)) }
func zzSeq3(a, b, c byte) bool {
	return zzAnd(zzCont(c), zzOr(
		zzOr(zzAnd(a == 0xE0, zzB(b, 0xA0, 0xBF)), zzAnd(zzB(a, 0xE1, 0xEC), zzCont(b))),
		zzOr(zzAnd(a == 0xED, zzB(b, 0x80, 0x9F)), zzAnd(zzB(a, 0xEE, 0xEF), zzCont(b)))))
}
func zzSeq4(a, b, c, d byte) bool {
	return zzAnd(zzAnd(zzCont(c), zzCont(d)), zzOr(
		zzAnd(a == 0xF0, zzB(b, 0x90, 0xBF)),
		zzOr(zzAnd(zzB(a, 0xF1, 0xF3), zzCont(b)), zzAnd(a == 0xF4, zzB(b, 0x80, 0x8F)))))
}

// zzValidUTF8 reports whether s is a concatenation of well-formed sequences.
// Straight-line dynamic programme over the (concrete) length: no forks.
func zzValidUTF8(s string) bool {
	n := len(s)
	ok := make([]bool, n+1)
	ok[0] = true
	for i := 0; i < n; i++ {
		ok[i+1] = zzOr(ok[i+1], zzAnd(ok[i], zzSeq1(s[i])))
		if i+2 <= n {
			ok[i+2] = zzOr(ok[i+2], zzAnd(ok[i], zzSeq2(s[i], s[i+1])))
		}
		if i+3 <= n {
			ok[i+3] = zzOr(ok[i+3], zzAnd(ok[i], zzSeq3(s[i], s[i+1], s[i+2])))
		}
		if i+4 <= n {
			ok[i+4] = zzOr(ok[i+4], zzAnd(ok[i], zzSeq4(s[i], s[i+1], s[i+2], s[i+3])))
		}
	}
	return ok[n]
}

// zzNoControls: every byte is >= 0x20 and != 0x7f. Non-forking.
func zzNoControls(s string) bool {
	r := true
	for i := 0; i < len(s); i++ {
		r = zzAnd(r, zzAnd(s[i] >= 0x20, s[i] != 0x7f))
	}
	return r
}

// zzEncodeRune is a reference UTF-8 encoder (forks on the size class only).
func zzEncodeRune(r rune) string {
	switch {
	case r < 0x80:
		return string([]byte{byte(r)})
	case r < 0x800:
		return string([]byte{0xC0 | byte(r>>6), 0x80 | byte(r)&0x3F})
	case r < 0x10000:
		return string([]byte{0xE0 | byte(r>>12), 0x80 | byte(r>>6)&0x3F, 0x80 | byte(r)&0x3F})
	}
	return string([]byte{0xF0 | byte(r>>18), 0x80 | byte(r>>12)&0x3F, 0x80 | byte(r>>6)&0x3F, 0x80 | byte(r)&0x3F})
}

func zzHexVal(c byte) (int, bool) {
	switch {
	case '0' <= c && c <= '9':
		return int(c - '0'), true
	case 'a' <= c && c <= 'f':
		return int(c-'a') + 10, true
	case 'A' <= c && c <= 'F':
		return int(c-'A') + 10, true
	}
	return 0, false
}

// Reference decoder for the text between the quotation marks of a string or
// bytes literal, written from doc/spec.md "String literals"/"String escapes"
// plus the Bazel Starlark spec for \u, \U and bytes literals (string literals:
// octal/hex escapes only up to 0x7F; \u/\U denote the UTF-8 encoding of a
// Unicode scalar value).
// zzRefDecode decodes the text between the quotation marks.
func zzRefDecode(in string, raw, isByte bool) (out []byte, ok bool) {
	i := 0
	for i < len(in) {
		c := in[i]
		if c == '\r' { // line ending CR or CRLF denotes LF
			out = append(out, '\n')
			i++
			if i < len(in) && in[i] == '\n' {
				i++
			}
			continue
		}
		if c != '\\' || raw {
			out = append(out, c)
			i++
			continue
		}
		if i+1 >= len(in) {
			return nil, false
		}
		e := in[i+1]
		i += 2
		switch {
		case e == '\n':
		case e == 'a':
			out = append(out, 7)
		case e == 'b':
			out = append(out, 8)
		case e == 't':
			out = append(out, 9)
		case e == 'n':
			out = append(out, 10)
		case e == 'v':
			out = append(out, 11)
		case e == 'f':
			out = append(out, 12)
		case e == 'r':
			out = append(out, 13)
		case e == '\\' || e == '\'' || e == '"':
			out = append(out, e)
		case '0' <= e && e <= '7':
			n := int(e - '0')
			for d := 0; d < 2 && i < len(in) && '0' <= in[i] && in[i] <= '7'; d++ {
				n = n*8 + int(in[i]-'0')
				i++
			}
			if n > 255 || !isByte && n > 127 {
				return nil, false
			}
			out = append(out, byte(n))
		case e == 'x' || e == 'u' || e == 'U':
			nd := 2
			if e == 'u' {
				nd = 4
			} else if e == 'U' {
				nd = 8
			}
			if i+nd > len(in) {
				return nil, false
			}
			n := 0
			for d := 0; d < nd; d++ {
				h, hok := zzHexVal(in[i+d])
				if !hok {
					return nil, false
				}
				n = n<<4 | h
			}
			i += nd
			if e == 'x' {
				if !isByte && n > 127 {
					return nil, false
				}
				out = append(out, byte(n))
			} else {
				if n > 0x10FFFF || 0xD800 <= n && n <= 0xDFFF {
					return nil, false
				}
				out = append(out, zzEncodeRune(rune(n))...)
			}
		default:
			return nil, false
		}
	}
	return out, true
}

// zzIsUnicodeLetter is the spec's notion "Unicode letter" (category L), taken
// from the standard library table.
func zzIsUnicodeLetter(r rune) bool { return unicode.IsLetter(r) }
