//go:build verif

package compile

// C05 H05.2: the lazily decoded position table of a shared Funcode. The table is
// produced by the real encoder from symbolic positions; then Position is called
// twice. The first call may write fn.lnt only inside lntOnce.Do (the engine keeps
// stores made under sync.Once.Do out of the write log); the second call writes
// nothing at all into the Funcode and returns the same answer.
//
// Native replay: built with the race detector (line below); Position runs solo
// and then on two goroutines over a fresh, never-decoded Funcode.
//
//verif:race

import (
	"sync"

	"go.starlark.net/syntax"
)

var zzC05File = "g.star"

func zzC05Funcode(k int) (*Funcode, []uint32) {
	fline, fcol := zzI32("fline"), zzI32("fcol")
	fn := &Funcode{Pos: syntax.MakePosition(&zzC05File, fline, fcol), Name: "g"}
	fc := &fcomp{fn: fn}
	b := &block{index: 0, addr: 0}
	var pcs []uint32
	pl, pc := fline, fcol
	for i := 0; i < k; i++ {
		line, col := zzI32("line"+string(rune('0'+i))), zzI32("col"+string(rune('0'+i)))
		zzAssume(line != 0)
		dl := int64(line) - int64(pl)
		dc := int64(col) - int64(pc)
		zzAssume(zzAnd(dl >= -16, dl <= 15)) // one row per instruction
		zzAssume(zzAnd(dc >= -32, dc <= 31))
		b.insns = append(b.insns, insn{op: NOP}) // an unpositioned gap
		pcs = append(pcs, uint32(len(b.insns)))
		b.insns = append(b.insns, insn{op: NOP, line: line, col: col})
		pl, pc = line, col
	}
	b.insns = append(b.insns, insn{op: NOP})
	fc.generate([]*block{b}, uint32(len(b.insns)))
	return fn, pcs
}

//verif:unwind 40
func zzH05_positionOnce() {
	k := zzParam("k", 2, 3)
	fn, pcs := zzC05Funcode(k)
	q := pcs[zzChoice("q", len(pcs))]

	// first call: decodes
	zzWriteLogStart()
	p1 := fn.Position(q)
	zzWriteLogStop()
	zzAssert(zzWritesInto(fn) == 0, "C05.position.first_call_writes_only_under_once")
	// no cell initialised under the Once is read before this caller has passed lntOnce.Do
	// (such a read would race with a concurrent first caller that is still decoding)
	zzAssert(zzRacyReads(fn) == 0, "C05.position.no_read_before_once")
	decoded := len(fn.lnt)
	zzAssert(decoded == k, "C05.position.decoded")
	var first *pclinecol
	if decoded > 0 {
		first = &fn.lnt[0]
	}
	// the decoding went through lntOnce: the Once is spent now
	ran := false
	fn.lntOnce.Do(func() { ran = true })
	zzAssert(!ran, "C05.position.once_spent")

	// second call: pure read
	zzWriteLogStart()
	p2 := fn.Position(q)
	zzWriteLogStop()
	zzAssert(zzWritesInto(fn) == 0, "C05.position.second_call_writes_nothing")
	same := len(fn.lnt) == decoded && (decoded == 0 || &fn.lnt[0] == first)
	zzAssert(same, "C05.position.table_not_rebuilt")
	zzAssert(zzAnd(p1.Line == p2.Line, p1.Col == p2.Col), "C05.position.same_answer")
	zzObserve("line", p1.Line)
	zzObserve("col", p1.Col)

	if !zzSymbolic() {
		// concurrent first use of a fresh Funcode with the same table
		fresh := &Funcode{Pos: fn.Pos, Name: "g", pclinetab: fn.pclinetab}
		var wg sync.WaitGroup
		var r [2]syntax.Position
		for i := 0; i < 2; i++ {
			wg.Add(1)
			go func(i int) {
				defer wg.Done()
				r[i] = fresh.Position(q)
			}(i)
		}
		wg.Wait()
		zzAssert(r[0].Line == p1.Line && r[1].Line == p1.Line && r[0].Col == p1.Col && r[1].Col == p1.Col, "C05.position.same_answer")
	}
	zzReach("end")
}
