//go:build verif

package compile

// zzDecodeRef is the VM's operand decoder (interp.go, CallInternal): 7-bit
// little-endian groups, continuation bit 0x80, written here as the reference.
func zzDecodeRef(code []byte, pc int) (arg uint32, next int) {
	for s := uint(0); ; s += 7 {
		b := code[pc]
		pc++
		arg |= uint32(b&0x7f) << s
		if b < 0x80 {
			break
		}
	}
	return arg, pc
}

// zzArgLenRef: number of 7-bit groups needed for x, closed form (no loop).
func zzArgLenRef(x uint32) int {
	return zzIteInt(x < 1<<7, 1, zzIteInt(x < 1<<14, 2, zzIteInt(x < 1<<21, 3, zzIteInt(x < 1<<28, 4, 5))))
}

// zzH01_varint (H01.2): for every uint32 x, addUint32(nil,x,0) has argLen(x)
// bytes (and that is the closed form), decodes back to x with the VM's decoder
// and consumes exactly the encoding; the padded form (min=4, as used for jump
// operands) has length max(4, argLen(x)), decodes to x, and everything after
// the operand up to the end is NOP, so that the VM continues at the next real
// instruction. The same with a non-empty prefix (encoding is position independent).
//
//verif:unwind 16
func zzH01_varint() {
	x := zzU32("x")
	n := argLen(x)
	zzObserve("argLen", n)
	zzAssert(n == zzArgLenRef(x), "C01.varint.arglen_closed_form")

	enc := addUint32(nil, x, 0)
	zzAssert(len(enc) == n, "C01.varint.len_eq_arglen")
	got, next := zzDecodeRef(enc, 0)
	zzAssert(got == x, "C01.varint.roundtrip")
	zzAssert(next == len(enc), "C01.varint.consumed")

	// padded (jump operand form), after an opcode byte
	pre := []byte{byte(CJMP)}
	pad := addUint32(pre, x, 4)
	want := n
	if want < 4 {
		want = 4
	}
	zzAssert(len(pad) == 1+want, "C01.varint.padded_len")
	got2, next2 := zzDecodeRef(pad, 1)
	zzAssert(got2 == x, "C01.varint.padded_roundtrip")
	zzAssert(next2 == 1+n, "C01.varint.padded_consumed")
	// the VM then executes code[next2:...]; all of it up to the end must be NOP
	// (an operand-less opcode), so pc arrives exactly at len(pad).
	zzAssert(NOP < OpcodeArgMin, "C01.varint.nop_has_no_operand")
	for i := next2; i < len(pad); i++ {
		zzAssert(pad[i] == byte(NOP), "C01.varint.padding_is_nop")
	}
	// the prefix is untouched
	zzAssert(pad[0] == byte(CJMP), "C01.varint.prefix_kept")
	zzReach("end")
}

// zzH01_varint_last: the last byte of an encoding has no continuation bit and all
// preceding bytes have it (so the decoder stops exactly there), and the encoding
// is minimal: the last group is non-zero unless x < 0x80.
//
//verif:unwind 16
func zzH01_varint_last() {
	x := zzU32("x")
	enc := addUint32(nil, x, 0)
	for i := 0; i < len(enc)-1; i++ {
		zzAssert(enc[i] >= 0x80, "C01.varint.cont_bit")
	}
	last := enc[len(enc)-1]
	zzAssert(last < 0x80, "C01.varint.last_no_cont")
	zzAssert(zzOr(len(enc) == 1, last != 0), "C01.varint.minimal")
	zzReach("end")
}

// ---- H01.1 (compiler half): the static stack-effect table ----

// zzStackRef is the effect of one instruction on the depth of the operand stack, written
// from the stack pictures documented next to the opcode declarations ("x y EXCH y x").
// ITERJMP: 0 on the exhausted (jump) edge; the +1 of the fall-through edge is accounted
// for separately by the block layout code (isiterjmp).
func zzStackRef(op Opcode, arg uint32) int {
	switch op {
	case NOP, EXCH, UPLUS, UMINUS, TILDE, ITERPOP, NOT, JMP, ITERJMP, MAKEFUNC, ATTR:
		return 0
	case DUP, NONE, TRUE, FALSE, MANDATORY, MAKEDICT, CONSTANT, LOCAL, FREE, FREECELL, LOCALCELL, GLOBAL, PREDECLARED, UNIVERSAL:
		return +1
	case DUP2:
		return +2
	case POP, LT, GT, GE, LE, EQL, NEQ, PLUS, MINUS, STAR, SLASH, SLASHSLASH, PERCENT, AMP, PIPE, CIRCUMFLEX, LTLT, GTGT, IN,
		ITERPUSH, RETURN, INDEX, INPLACE_ADD, INPLACE_PIPE, CJMP, LOAD, SETLOCAL, SETGLOBAL, SETLOCALCELL:
		return -1
	case APPEND, SETFIELD:
		return -2
	case SETINDEX, SETDICT, SETDICTUNIQ, SLICE:
		return -3
	case MAKETUPLE, MAKELIST:
		return 1 - int(arg)
	case UNPACK:
		return int(arg) - 1
	case CALL:
		return -(int(arg>>8) + 2*int(arg&0xff))
	case CALL_VAR, CALL_KW:
		return -(int(arg>>8) + 2*int(arg&0xff)) - 1
	case CALL_VAR_KW:
		return -(int(arg>>8) + 2*int(arg&0xff)) - 2
	}
	panic("zzStackRef: unknown opcode")
}

// zzH01_stackeffect: for every opcode and every operand value the compiler can emit
// (element counts < 2^24; CALL: at most 255 positional and 255 named arguments),
// insn.stackeffect() equals the documented effect.
func zzH01_stackeffect() {
	op := Opcode(zzChoice("op", int(OpcodeMax)+1))
	arg := zzU32("arg")
	zzAssume(arg < 1<<24)
	in := insn{op: op, arg: arg}
	se := in.stackeffect()
	zzObserve("se", se)
	zzAssert(se == zzStackRef(op, arg), "C01.stackeffect.table")
	// every opcode has a name (the tables are indexed by opcode; a missing entry is silently 0/"")
	zzAssert(opcodeNames[op] != "", "C01.stackeffect.named")
	zzReach("end")
}
