//go:build verif

package compile

import (
	"bytes"
	"math"
	"math/big"

	"go.starlark.net/syntax"
)

// zzSmall returns a fresh symbolic int in [0, 63]: its zig-zag varint is one
// byte, so the codec does not fork on it.
func zzSmall(name string) int {
	x := zzInt(name)
	zzAssume(zzAnd(x >= 0, x < 64))
	return x
}

// zzSymBinding: name of n symbolic bytes, symbolic line and column.
func zzSymBinding(name string, n int) Binding {
	return Binding{
		Name: zzString(name+"_name", n),
		Pos:  zzPos17(int32(zzSmall(name+"_line")), int32(zzSmall(name+"_col"))),
	}
}

// zzSymFuncode builds a Funcode whose every scalar is its own symbol.
// nl, nc, nf, ncode, ntab: lengths of Locals, Cells, FreeVars, Code, pclinetab.
// namelen/doclen: lengths of Name and Doc.
func zzSymFuncode(id string, nl, nc, nf, ncode, ntab, namelen, doclen int, symBools bool) *Funcode {
	b := zzSymBinding(id, namelen)
	fn := &Funcode{
		Pos:             b.Pos,
		Name:            b.Name,
		Doc:             zzString(id+"_doc", doclen),
		Code:            zzBytes(id+"_code", ncode),
		MaxStack:        zzSmall(id + "_maxstack"),
		NumParams:       zzSmall(id + "_nparams"),
		NumKwonlyParams: zzSmall(id + "_nkwonly"),
	}
	if symBools {
		fn.HasVarargs = zzBool(id + "_varargs")
		fn.HasKwargs = zzBool(id + "_kwargs")
	} else {
		fn.HasVarargs = true
		fn.HasKwargs = false
	}
	for i := 0; i < ntab; i++ {
		x := zzU16(id + "_tab" + string(rune('0'+i)))
		zzAssume(x < 64)
		fn.pclinetab = append(fn.pclinetab, x)
	}
	for i := 0; i < nl; i++ {
		fn.Locals = append(fn.Locals, zzSymBinding(id+"_local"+string(rune('0'+i)), 1+i))
	}
	for i := 0; i < nc; i++ {
		fn.Cells = append(fn.Cells, zzSmall(id+"_cell"+string(rune('0'+i))))
	}
	for i := 0; i < nf; i++ {
		fn.FreeVars = append(fn.FreeVars, zzSymBinding(id+"_free"+string(rune('0'+i)), 2-i))
	}
	return fn
}

func zzEqPos(a, b syntax.Position) bool {
	return zzAnd(zzAnd(a.Line == b.Line, a.Col == b.Col), a.Filename() == b.Filename())
}

func zzEqBinding(a, b Binding) bool { return zzAnd(a.Name == b.Name, zzEqPos(a.Pos, b.Pos)) }

func zzEqBindings(a, b []Binding) bool {
	if len(a) != len(b) {
		return false
	}
	r := true
	for i := range a {
		r = zzAnd(r, zzEqBinding(a[i], b[i]))
	}
	return r
}

// zzCheckFuncode asserts field-for-field equality of a decoded Funcode.
func zzCheckFuncode(got, want *Funcode, prog *Program) {
	zzAssert(got.Prog == prog, "C17.rt.func.prog")
	zzAssert(zzEqPos(got.Pos, want.Pos), "C17.rt.func.pos")
	zzAssert(got.Name == want.Name, "C17.rt.func.name")
	zzAssert(got.Doc == want.Doc, "C17.rt.func.doc")
	zzAssert(bytes.Equal(got.Code, want.Code), "C17.rt.func.code")
	ok := len(got.pclinetab) == len(want.pclinetab)
	if ok {
		for i := range want.pclinetab {
			ok = zzAnd(ok, got.pclinetab[i] == want.pclinetab[i])
		}
	}
	zzAssert(ok, "C17.rt.func.pclinetab")
	zzAssert(zzEqBindings(got.Locals, want.Locals), "C17.rt.func.locals")
	ok = len(got.Cells) == len(want.Cells)
	if ok {
		for i := range want.Cells {
			ok = zzAnd(ok, got.Cells[i] == want.Cells[i])
		}
	}
	zzAssert(ok, "C17.rt.func.cells")
	zzAssert(zzEqBindings(got.FreeVars, want.FreeVars), "C17.rt.func.freevars")
	zzAssert(got.MaxStack == want.MaxStack, "C17.rt.func.maxstack")
	zzAssert(got.NumParams == want.NumParams, "C17.rt.func.numparams")
	zzAssert(got.NumKwonlyParams == want.NumKwonlyParams, "C17.rt.func.numkwonly")
	zzAssert(got.HasVarargs == want.HasVarargs, "C17.rt.func.hasvarargs")
	zzAssert(got.HasKwargs == want.HasKwargs, "C17.rt.func.haskwargs")
}

// zzH17_roundtrip (H17.1): a Program with toplevel + 2 nested Funcodes of
// different table shapes, 2 loads, 2 names, 2 globals, one constant of each of
// the five kinds (plus a negative big int); every scalar field is a distinct
// symbolic value in [0,63], every string has 0..2 symbolic bytes (Code up to 4),
// the three has*/Recursion flags selected by `flags` are symbolic booleans.
// DecodeProgram(Encode(p)) is field-for-field equal to p, back pointers are set,
// the re-encoding is byte-identical, and one extra trailing byte in either
// section is rejected.
//
//verif:maxpaths 600
func zzH17_roundtrip() {
	// which function carries symbolic booleans (each symbolic bool forks in b2i)
	flags := -1 // thorough: all seven flags symbolic at once (128 paths)
	if zzParam("allflags", 0, 1) == 0 {
		flags = zzChoice("flags", 3)
	}
	top := zzSymFuncode("top", 0, 0, 1, 2, 1, 2, 0, flags == 0 || flags < 0)
	f0 := zzSymFuncode("f0", 2, 1, 0, 4, 3, 1, 2, flags == 1 || flags < 0)
	f1 := zzSymFuncode("f1", 1, 2, 2, 1, 0, 2, 1, flags == 2 || flags < 0)
	bigPos, _ := new(big.Int).SetString("1180591620717411303424", 10) // 2^70
	bigNeg, _ := new(big.Int).SetString("-36893488147419103233", 10)  // -(2^65+1)
	ci := int64(zzSmall("const_int"))
	cfbits := zzU64("const_float_bits")
	zzAssume(cfbits < 128) // one-byte uvarint (full width: zzH17_wide / zzH17_codec_float)
	cs := zzString("const_str", 2)
	cb := Bytes(zzString("const_bytes", 1))
	p := &Program{
		Loads:     []Binding{zzSymBinding("load0", 2), zzSymBinding("load1", 1)},
		Names:     []string{zzString("name0", 1), zzString("name1", 2)},
		Constants: []any{cs, cb, ci, math.Float64frombits(cfbits), bigPos, bigNeg, ""},
		Functions: []*Funcode{f0, f1},
		Globals:   []Binding{zzSymBinding("glob0", 1), zzSymBinding("glob1", 0)},
		Toplevel:  top,
		Recursion: zzBool("recursion"),
	}
	top.Prog, f0.Prog, f1.Prog = p, p, p

	enc := p.Encode()
	zzObserve("enclen", len(enc))
	q, err := DecodeProgram(enc)
	zzAssert(err == nil, "C17.rt.decodes")
	if err != nil {
		return
	}
	zzAssert(zzEqBindings(q.Loads, p.Loads), "C17.rt.loads")
	ok := len(q.Names) == len(p.Names)
	if ok {
		for i := range p.Names {
			ok = zzAnd(ok, q.Names[i] == p.Names[i])
		}
	}
	zzAssert(ok, "C17.rt.names")
	zzAssert(len(q.Constants) == len(p.Constants), "C17.rt.consts.len")
	if len(q.Constants) == len(p.Constants) {
		s0, ok0 := q.Constants[0].(string)
		zzAssert(zzAnd(ok0, s0 == cs), "C17.rt.consts.string")
		b1, ok1 := q.Constants[1].(Bytes)
		zzAssert(zzAnd(ok1, b1 == cb), "C17.rt.consts.bytes")
		i2, ok2 := q.Constants[2].(int64)
		zzAssert(zzAnd(ok2, i2 == ci), "C17.rt.consts.int")
		f3, ok3 := q.Constants[3].(float64)
		zzAssert(zzAnd(ok3, math.Float64bits(f3) == cfbits), "C17.rt.consts.float")
		b4, ok4 := q.Constants[4].(*big.Int)
		zzAssert(ok4 && b4 != nil && b4.Cmp(bigPos) == 0, "C17.rt.consts.bigint")
		b5, ok5 := q.Constants[5].(*big.Int)
		zzAssert(ok5 && b5 != nil && b5.Cmp(bigNeg) == 0, "C17.rt.consts.bigneg")
		s6, ok6 := q.Constants[6].(string)
		zzAssert(ok6 && s6 == "", "C17.rt.consts.empty")
	}
	zzAssert(zzEqBindings(q.Globals, p.Globals), "C17.rt.globals")
	zzAssert(q.Recursion == p.Recursion, "C17.rt.recursion")
	zzAssert(q.Toplevel != nil, "C17.rt.toplevel")
	zzCheckFuncode(q.Toplevel, top, q)
	zzAssert(len(q.Functions) == 2, "C17.rt.funcs.len")
	if len(q.Functions) == 2 {
		zzCheckFuncode(q.Functions[0], f0, q)
		zzCheckFuncode(q.Functions[1], f1, q)
	}

	enc2 := q.Encode()
	zzAssert(bytes.Equal(enc, enc2), "C17.rt.reencode")

	// unconsumed data is an error: one more byte at the end of the string
	// section, or one more byte at the end of the program section.
	_, err = DecodeProgram(append(append([]byte(nil), enc...), 'x'))
	zzAssert(err != nil, "C17.rt.trailing.strings")
	off := int(enc[4]) | int(enc[5])<<8 | int(enc[6])<<16 | int(enc[7])<<24
	longer := append([]byte(nil), enc[:off]...)
	longer = append(longer, 0)
	longer = append(longer, enc[off:]...)
	off++
	longer[4], longer[5], longer[6], longer[7] = byte(off), byte(off>>8), byte(off>>16), byte(off>>24)
	_, err = DecodeProgram(longer)
	zzAssert(err != nil, "C17.rt.trailing.program")
	zzReach("end")
}
