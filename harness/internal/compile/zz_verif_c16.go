//go:build verif

package compile

import "go.starlark.net/syntax"

var zzFile = "f.star"

// zzH16_lnt: position table round trip. k positioned instructions, each
// preceded by a gap of unpositioned NOPs; function position and every
// (line, col) symbolic. generate() encodes, Position() decodes.
//
//verif:unwind 40
func zzH16_lnt() {
	k := zzParam("k", 2, 2)
	rows := zzParam("rows", 2, 2) // continuation rows needed per instruction (bound on deltas)
	fline, fcol := zzI32("fline"), zzI32("fcol")
	fn := &Funcode{Pos: syntax.MakePosition(&zzFile, fline, fcol), Name: "f"}
	fc := &fcomp{fn: fn}
	b := &block{index: 0, addr: 0}
	gaps := []int{0, 1, 15, 16}
	type want struct {
		pc        uint32
		line, col int32
	}
	var wants []want
	pl, pc := fline, fcol
	var ppc uint32
	for i := 0; i < k; i++ {
		gap := gaps[zzChoice("gap"+string(rune('0'+i)), len(gaps))]
		for j := 0; j < gap; j++ {
			b.insns = append(b.insns, insn{op: NOP})
		}
		line, col := zzI32("line"+string(rune('0'+i))), zzI32("col"+string(rune('0'+i)))
		zzAssume(line != 0) // line 0 means "no position" by definition
		// bound: at most `rows` rows per instruction
		dl := int64(line) - int64(pl)
		dc := int64(col) - int64(pc)
		zzAssume(zzAnd(dl >= int64(-16*rows), dl <= int64(15*rows)))
		zzAssume(zzAnd(dc >= int64(-32*rows), dc <= int64(31*rows)))
		at := uint32(len(b.insns))
		zzAssume(int(at-ppc) <= 15*rows)
		b.insns = append(b.insns, insn{op: NOP, line: line, col: col})
		wants = append(wants, want{at, line, col})
		pl, pc, ppc = line, col, at
	}
	// trailing unpositioned instruction
	b.insns = append(b.insns, insn{op: NOP})
	fc.generate([]*block{b}, uint32(len(b.insns)))
	zzObserve("ntab", len(fn.pclinetab))
	for i, w := range wants {
		p := fn.Position(w.pc)
		zzAssert(zzAnd(p.Line == w.line, p.Col == w.col), "C16.lnt.exact")
		// the following unpositioned pc maps to the same position
		q := fn.Position(w.pc + 1)
		if i+1 < len(wants) && wants[i+1].pc == w.pc+1 {
			continue
		}
		zzAssert(zzAnd(q.Line == w.line, q.Col == w.col), "C16.lnt.preceding")
	}
	zzReach("end")
}

// zzH16_search: Position's binary search over a decoded table with symbolic,
// strictly increasing pcs returns the last entry whose pc <= query.
func zzH16_search() {
	n := zzParam("entries", 4, 6)
	fn := &Funcode{Pos: syntax.MakePosition(&zzFile, 1, 1), Name: "f"}
	fn.lntOnce.Do(func() {})
	var prev uint32
	for i := 0; i < n; i++ {
		pc := zzU32("pc" + string(rune('0'+i)))
		if i > 0 {
			zzAssume(pc > prev)
		}
		fn.lnt = append(fn.lnt, pclinecol{pc: pc, line: int32(100 + i), col: int32(i)})
		prev = pc
	}
	q := zzU32("q")
	p := fn.Position(q)
	// reference: last entry with pc <= q, else the first entry
	want := int32(100)
	for i := 0; i < n; i++ {
		want = zzIteI32(fn.lnt[i].pc <= q, int32(100+i), want)
	}
	zzObserve("line", p.Line)
	zzAssert(p.Line == want, "C16.search.last_le")
	zzReach("end")
}
