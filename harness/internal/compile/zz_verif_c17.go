//go:build verif

package compile

import (
	"bytes"
	"math"

	"go.starlark.net/syntax"
)

// ---------------------------------------------------------------------------
// C17: compiled programs survive serialization unchanged.
//
// H17.2 (zzH17_codec_*, zzH17_wide, zzH17_header*): every scalar codec at full
// width through the real encoding/binary varint code, and header rejection.
// H17.1 (zzH17_roundtrip): a Program of fixed shape in which every scalar field
// is its own symbolic value; DecodeProgram(Encode(p)) is field-for-field equal
// to p and re-encoding reproduces the bytes.
// ---------------------------------------------------------------------------

// zzH17_codec_int64: d.int64(e.int64(x)) == x for every int64, all bytes consumed,
// encoding length is the zig-zag varint length (1..10).
func zzH17_codec_int64() {
	x := zzI64("x")
	var e encoder
	e.int64(x)
	d := decoder{p: e.p}
	y := d.int64()
	zzObserve("n", len(e.p))
	zzAssert(y == x, "C17.codec.int64.roundtrip")
	zzAssert(len(d.p) == 0, "C17.codec.int64.consumed")
	// independent length: zig-zag magnitude needs ceil(bits/7) bytes
	ux := uint64(x) << 1
	if x < 0 {
		ux = ^ux
	}
	n := 1
	for v := ux >> 7; v != 0; v >>= 7 {
		n++
	}
	zzAssert(len(e.p) == n, "C17.codec.int64.length")
	zzAssert(len(e.s) == 0, "C17.codec.int64.nostrings")
	zzReach("end")
}

// zzH17_codec_uint64: d.uint64(e.uint64(x)) == x for every uint64 (float bits).
func zzH17_codec_uint64() {
	x := zzU64("x")
	var e encoder
	e.uint64(x)
	d := decoder{p: e.p}
	y := d.uint64()
	zzObserve("n", len(e.p))
	zzAssert(y == x, "C17.codec.uint64.roundtrip")
	zzAssert(len(d.p) == 0, "C17.codec.uint64.consumed")
	zzReach("end")
}

// zzH17_codec_int: e.int/d.int for every int, followed by a second value so that
// a wrong consumed length is visible.
func zzH17_codec_int() {
	x := zzInt("x")
	y := zzInt("y")
	zzAssume(zzAnd(y >= 0, y < 64))
	var e encoder
	e.int(x)
	e.int(y)
	d := decoder{p: e.p}
	x1 := d.int()
	y1 := d.int()
	zzAssert(x1 == x, "C17.codec.int.roundtrip")
	zzAssert(y1 == y, "C17.codec.int.next")
	zzAssert(len(d.p) == 0, "C17.codec.int.consumed")
	zzReach("end")
}

// zzH17_codec_float: a float64 constant travels as its bit pattern: every bit
// pattern (NaN payloads, -0, denormals) is reproduced exactly.
func zzH17_codec_float() {
	bits := zzU64("bits")
	f := math.Float64frombits(bits)
	var e encoder
	e.uint64(math.Float64bits(f))
	d := decoder{p: e.p}
	g := math.Float64frombits(d.uint64())
	zzAssert(math.Float64bits(g) == bits, "C17.codec.float.bits")
	zzReach("end")
}

// zzH17_codec_strlen: e.string / d.string and e.bytes / d.bytes at boundary
// lengths of the length varint (zig-zag: 63/64 one/two bytes, 8191/8192 two/three),
// first and last byte symbolic, followed by a second string to expose a wrong split.
func zzH17_codec_strlen() {
	lens := []int{0, 1, 2, 63, 64, 127, 128, 8191, 8192, 16383}
	n := lens[zzChoice("len", len(lens))]
	asBytes := zzChoice("kind", 2) == 1
	body := make([]byte, n)
	for i := range body {
		body[i] = byte('a' + i%26)
	}
	if n > 0 {
		body[0] = zzU8("first")
		body[n-1] = zzU8("last")
	}
	tail := zzString("tail", 2)
	var e encoder
	if asBytes {
		e.bytes(body)
	} else {
		e.string(string(body))
	}
	e.string(tail)
	d := decoder{p: e.p, s: e.s}
	var got []byte
	if asBytes {
		got = d.bytes()
	} else {
		got = []byte(d.string())
	}
	t := d.string()
	zzObserve("n", len(got))
	zzAssert(len(got) == n, "C17.codec.str.len")
	if len(got) == n && n > 0 {
		zzAssert(zzAnd(got[0] == body[0], got[n-1] == body[n-1]), "C17.codec.str.ends")
		if n > 2 {
			zzAssert(got[n/2] == body[n/2], "C17.codec.str.mid")
		}
	}
	zzAssert(t == tail, "C17.codec.str.next")
	zzAssert(len(d.p)+len(d.s) == 0, "C17.codec.str.consumed")
	zzReach("end")
}

var zzFile17 = "m.star"

func zzPos17(line, col int32) syntax.Position { return syntax.MakePosition(&zzFile17, line, col) }

// zzMinimalProgram: the smallest program the codec accepts, with one entry in
// every per-function table so that each wide field has a slot.
func zzMinimalProgram() *Program {
	top := &Funcode{
		Pos: zzPos17(1, 1), Name: "<toplevel>", Doc: "d",
		Code:      []byte{byte(NOP)},
		pclinetab: []uint16{7},
		Locals:    []Binding{{Name: "l", Pos: zzPos17(2, 3)}},
		Cells:     []int{0},
		FreeVars:  []Binding{{Name: "v", Pos: zzPos17(4, 5)}},
		MaxStack:  1, NumParams: 1, NumKwonlyParams: 0,
	}
	p := &Program{
		Loads:     []Binding{{Name: "ld", Pos: zzPos17(6, 7)}},
		Names:     []string{"n"},
		Constants: []any{int64(1), float64(1.5)},
		Globals:   []Binding{{Name: "g", Pos: zzPos17(8, 9)}},
		Toplevel:  top,
	}
	top.Prog = p
	return p
}

// zzH17_wide: each scalar slot of the real Program/Funcode codec in turn holds a
// full-width symbolic value (int64 constant, float bits, uint16 pclinetab entry,
// int32 line/col of function/local/freevar/load/global positions, int Cells
// entry, MaxStack/NumParams/NumKwonlyParams) and is reproduced exactly by
// DecodeProgram(Encode(p)); the re-encoding is byte-identical.
//
//verif:maxpaths 4000
func zzH17_wide() {
	p := zzMinimalProgram()
	top := p.Toplevel
	which := zzChoice("slot", 17)
	var check func(q *Program) bool
	switch which {
	case 0:
		x := zzI64("x")
		p.Constants[0] = x
		check = func(q *Program) bool { y, ok := q.Constants[0].(int64); return zzAnd(ok, y == x) }
	case 1:
		bits := zzU64("x")
		p.Constants[1] = math.Float64frombits(bits)
		check = func(q *Program) bool {
			y, ok := q.Constants[1].(float64)
			return zzAnd(ok, math.Float64bits(y) == bits)
		}
	case 2:
		x := zzU16("x")
		top.pclinetab[0] = x
		check = func(q *Program) bool { return q.Toplevel.pclinetab[0] == x }
	case 3:
		x := zzI32("x")
		top.Pos.Line = x
		check = func(q *Program) bool { return q.Toplevel.Pos.Line == x }
	case 4:
		x := zzI32("x")
		top.Pos.Col = x
		check = func(q *Program) bool { return q.Toplevel.Pos.Col == x }
	case 5:
		x := zzI32("x")
		top.Locals[0].Pos.Line = x
		check = func(q *Program) bool { return q.Toplevel.Locals[0].Pos.Line == x }
	case 6:
		x := zzI32("x")
		top.Locals[0].Pos.Col = x
		check = func(q *Program) bool { return q.Toplevel.Locals[0].Pos.Col == x }
	case 7:
		x := zzI32("x")
		top.FreeVars[0].Pos.Line = x
		check = func(q *Program) bool { return q.Toplevel.FreeVars[0].Pos.Line == x }
	case 8:
		x := zzI32("x")
		top.FreeVars[0].Pos.Col = x
		check = func(q *Program) bool { return q.Toplevel.FreeVars[0].Pos.Col == x }
	case 9:
		x := zzI32("x")
		p.Loads[0].Pos.Line = x
		check = func(q *Program) bool { return q.Loads[0].Pos.Line == x }
	case 10:
		x := zzI32("x")
		p.Loads[0].Pos.Col = x
		check = func(q *Program) bool { return q.Loads[0].Pos.Col == x }
	case 11:
		x := zzI32("x")
		p.Globals[0].Pos.Line = x
		check = func(q *Program) bool { return q.Globals[0].Pos.Line == x }
	case 12:
		x := zzI32("x")
		p.Globals[0].Pos.Col = x
		check = func(q *Program) bool { return q.Globals[0].Pos.Col == x }
	case 13:
		x := zzInt("x")
		top.Cells[0] = x
		check = func(q *Program) bool { return q.Toplevel.Cells[0] == x }
	case 14:
		x := zzInt("x")
		top.MaxStack = x
		check = func(q *Program) bool { return q.Toplevel.MaxStack == x }
	case 15:
		x := zzInt("x")
		top.NumParams = x
		check = func(q *Program) bool { return q.Toplevel.NumParams == x }
	case 16:
		x := zzInt("x")
		top.NumKwonlyParams = x
		check = func(q *Program) bool { return q.Toplevel.NumKwonlyParams == x }
	}
	enc := p.Encode()
	q, err := DecodeProgram(enc)
	zzObserve("enclen", len(enc))
	zzAssert(err == nil, "C17.wide.decodes")
	if err != nil {
		return
	}
	zzAssert(check(q), "C17.wide.value")
	enc2 := q.Encode()
	zzAssert(bytes.Equal(enc, enc2), "C17.wide.reencode")
	zzReach("end")
}

// zzH17_header_magic: DecodeProgram accepts iff the four magic bytes are "!sky".
// Modes 0..3: one unconstrained symbolic byte at that position; mode 4: all four
// bytes symbolic within printable ASCII without '"' and '\\' (the error path
// formats the bytes with %q, whose escaping forks on every other byte class).
func zzH17_header_magic() {
	enc := zzMinimalProgram().Encode()
	mode := zzChoice("mode", 5)
	m := []byte("!sky")
	if mode < 4 {
		m[mode] = zzU8("b")
	} else {
		m = zzBytes("magic", 4)
		for _, b := range m {
			zzAssume(zzAnd(zzAnd(b >= 0x20, b < 0x7f), zzAnd(b != '"', b != '\\')))
		}
	}
	copy(enc[:4], m)
	q, err := DecodeProgram(enc)
	good := zzAnd(zzAnd(m[0] == '!', m[1] == 's'), zzAnd(m[2] == 'k', m[3] == 'y'))
	zzObserve("ok", err == nil)
	zzAssert((err == nil) == good, "C17.header.magic")
	zzAssert((q != nil) == (err == nil), "C17.header.magic.result")
	zzReach("end")
}

// zzH17_header_version: with a symbolic first version byte the program is
// accepted iff that byte is the one-byte varint of Version.
func zzH17_header_version() {
	enc := zzMinimalProgram().Encode()
	v := zzU8("v")
	enc[8] = v
	q, err := DecodeProgram(enc)
	zzObserve("ok", err == nil)
	zzAssert((err == nil) == (v == byte(Version<<1)), "C17.header.version")
	zzAssert((q != nil) == (err == nil), "C17.header.version.result")
	zzReach("end")
}

// zzH17_header_short: inputs shorter than the fixed header, and a symbolic
// string-section offset, never panic: DecodeProgram returns an error or a program.
//
//verif:concretize 256
//verif:maxpaths 4000
func zzH17_header_short() {
	enc := zzMinimalProgram().Encode()
	mode := zzChoice("mode", 2)
	var data []byte
	if mode == 0 {
		n := zzChoice("n", 9) // 0..8 bytes of a valid prefix, symbolic tail byte
		data = append([]byte(nil), enc[:n]...)
		if n > 0 {
			data[n-1] = zzU8("last")
		}
	} else {
		data = append([]byte(nil), enc...)
		off := zzU32("off")
		data[4], data[5], data[6], data[7] = byte(off), byte(off>>8), byte(off>>16), byte(off>>24)
		zzAssume(off < uint32(len(data)+8)) // in-range offsets and a few beyond the end
	}
	var q *Program
	var err error
	panicked := zzCatch(func() { q, err = DecodeProgram(data) })
	zzAssert(!panicked, "C17.header.short.nopanic")
	zzAssert((q != nil) != (err != nil), "C17.header.short.result")
	zzObserve("ok", err == nil)
	zzReach("end")
}
