#!/usr/bin/env python3
"""Regenerates MANIFEST.json from the table below (kept in one place so it stays valid)."""
import json, os
BASE = json.load(open('/root/.vp/BASELINE.json'))
LEVEL_TEXT = ("bounded symbolic model checking of the real code: the relevant starlark-go functions are executed from their go/ssa form "
  "by the symgo engine with inputs as SMT variables; every assertion is decided by z3 for all inputs satisfying the path condition, "
  "within the bounds recorded in the evidence file; counterexamples are replayed natively before being reported; nothing is claimed outside the bounds")
NOTE = ("trusted: go/ssa construction, the engine's SSA interpretation (cross-checked per run by natively replaying sampled solver models: "
  "traces_validated_against_impl), z3 4.8.12 verdicts, and the environment stubs listed in DESIGN.md 2.5; bounds are per harness (see evidence.coverage.harnesses[].bounds)")
CHECKS = {
 # id: (design_ref, technique, extra note)
 "C10": ("DESIGN.md 5/C10", "SMT-decided symbolic execution of Int/range kernels from go/ssa", ""),
 "C16": ("DESIGN.md 5/C16", "SMT-decided symbolic execution of the position-table encoder/decoder from go/ssa", ""),
}
NA = {}
props = [json.loads(l)['id'] for l in open('properties.jsonl')]
for p in props:
    if p not in CHECKS and p not in NA:
        NA[p] = "check not built yet in this session (solver-based harness pending; see DESIGN.md section 5)"
m = {
 "version": 1,
 "setup_cmd": "./setup.sh",
 "hooks": {
  "guard": "verif",
  "enable": "no hook commits in /repo: harness files (//go:build verif) are injected through a go/packages Overlay for the symbolic engine and through `go test -overlay -tags verif` for native replays",
  "baseline_off_cmd": BASE["cmd"],
  "source_commits": [],
  "add_only": True,
 },
 "engines": [{"name": "symgo", "path": "engine", "serves_properties": sorted(CHECKS), "kind_free_text": "symbolic executor for go/ssa (fork of x/tools ssa/interp with SMT terms) + z3"}],
 "checks": [],
 "not_applicable": [{"property_id": p, "reason": NA[p]} for p in sorted(NA)],
 "notes": "All checks use one technique: bounded symbolic execution of the real code from go/ssa with z3 deciding every assertion. See DESIGN.md.",
}
for p in sorted(CHECKS):
    ref, tech, extra = CHECKS[p]
    m["checks"].append({
     "property_id": p,
     "quick_cmd": f"./check {p} quick",
     "thorough_cmd": f"./check {p} thorough",
     "evidence_file": f"evidence/{p}.json",
     "replay_cmd_template": "./check replay {path}",
     "engine": "symgo",
     "level_claimed": {"category": "model_checking", "text": LEVEL_TEXT, "design_ref": ref},
     "level_note": NOTE + (" " + extra if extra else ""),
     "technique": tech,
    })
json.dump(m, open('MANIFEST.json', 'w'), indent=1)
print("wrote MANIFEST.json with", len(m["checks"]), "checks,", len(m["not_applicable"]), "not applicable")
