#!/usr/bin/env python3
"""Regenerates MANIFEST.json from the table below (kept in one place so it stays valid)."""
import json, os
BASE = json.load(open('/root/.vp/BASELINE.json'))
LEVEL_TEXT = ("bounded symbolic model checking of the real code: the relevant starlark-go functions are executed from their go/ssa form "
  "by the symgo engine with inputs as SMT variables; every assertion is decided by z3 for all inputs satisfying the path condition, "
  "within the bounds recorded in the evidence file; counterexamples are replayed natively before being reported; nothing is claimed outside the bounds")
NOTE = ("each property is claimed only within the bounds recorded in its evidence file (coverage.harnesses[].bounds) and the 'outside the claim' list of its DESIGN.md section; trusted: go/ssa construction, the engine's SSA interpretation (cross-checked per run by natively replaying sampled solver models: "
  "traces_validated_against_impl), z3 4.8.12 verdicts, and the environment stubs listed in DESIGN.md 2.5; bounds are per harness (see evidence.coverage.harnesses[].bounds)")
CHECKS = {
 # id: (design_ref, technique, extra note)
 "C01": ("DESIGN.md 5/C01", "SMT-decided symbolic execution (go/ssa) of resolver+compiler+VM against a reference tree-walking evaluator on a bounded family of program skeletons with symbolic leaves; varint/stack-effect kernels at full width", "the universal quantifier over programs is bounded by the 76 skeletons + operator templates listed in the evidence"),
 "C02": ("DESIGN.md 5/C02", "SMT-decided symbolic execution of every built-in/method call over a pool of symbolic argument values, of parse+resolve+compile+run on symbolic source bytes, and of cyclic value graphs; panics and stack overflows are observable outcomes", "sources <= 3 symbolic bytes; <= 2 (3) arguments; allocations > 2^24 elements pruned"),
 "C03": ("DESIGN.md 5/C03", "SMT-decided symbolic execution with every Go map range order explored as a nondeterministic permutation, and the maphash seed as an uninterpreted symbolic value (2-safety against a hash-blind model)", "cross-process/concurrent runs replaced by seed- and map-order-independence"),
 "C04": ("DESIGN.md 5/C04", "SMT-decided symbolic execution of every mutator with symbolic frozen flag/iterator count/contents, of Freeze over symbolic object graphs, and of derived-value aliasing", ""),
 "C05": ("DESIGN.md 5/C05", "SMT-decided symbolic execution with a write-set/read-set log: no non-atomic store (and no pre-Once load) into cells reachable from frozen values or a shared Funcode; native replays run under the race detector", "sufficient condition (write-set non-interference) instead of interleavings"),
 "C06": ("DESIGN.md 5/C06", "SMT-decided symbolic execution of compiled iterating constructs and iterating built-ins under symbolic fault schedules (error/panic/cancel/step limit at every point)", ""),
 "C07": ("DESIGN.md 5/C07", "SMT-decided symbolic execution of the VM with a symbolic step limit and symbolic cancellation schedules", "programs are a fixed set; initial step counts from a small set"),
 "C08": ("DESIGN.md 5/C08", "SMT-decided symbolic execution of setArgs/UnpackArgs/CALL flattening against an independent Python-3 binding reference, keyword names symbolic", ""),
 "C09": ("DESIGN.md 5/C09", "SMT-decided symbolic execution of resolve.File over symbolically constructed syntax trees under all 2^6 option vectors, and of the dynamic recursion check", ""),
 "C10": ("DESIGN.md 5/C10", "SMT-decided symbolic execution of Int/range kernels from go/ssa against 128-bit reference arithmetic, three Int representations", "one multiplicative/divisor operand is a structural choice from a constant set (symbolic x symbolic 64-bit mul/div is beyond the solver)"),
 "C11": ("DESIGN.md 5/C11", "SMT-decided symbolic execution of CompareDepth/Hash/sorted over symbolic floats (all bit patterns), ints, strings, tuples", ""),
 "C12": ("DESIGN.md 5/C12", "SMT-decided symbolic execution of the hashtable with symbolic hash values (every hash function / collision pattern) against an association-list model over symbolic operation histories", "histories of bounded length from adversarial presets"),
 "C13": ("DESIGN.md 5/C13", "SMT-decided symbolic execution of slicing/indexing/find/split/strip/list methods against CPython-semantics references over symbolic operands", "receivers of bounded length over ASCII"),
 "C14": ("DESIGN.md 5/C14", "SMT-decided symbolic execution of the real scanner and parser on symbolic bytes / operator choices against independent maximal-munch and precedence references", ""),
 "C15": ("DESIGN.md 5/C15", "SMT-decided symbolic execution of Quote/unquote/ParseExpr round trips over symbolic byte strings; repr/eval round trip; cycle printing", "strings <= 3 bytes plus single runes"),
 "C16": ("DESIGN.md 5/C16", "SMT-decided symbolic execution of the position-table encoder/decoder and binary search with symbolic positions; failing-operation positions on compiled programs", ""),
 "C17": ("DESIGN.md 5/C17", "SMT-decided symbolic execution of Encode/DecodeProgram with every scalar field a distinct symbolic value; full-width scalar codecs; VM equivalence of decoded programs", "fixed program shape"),
 "C18": ("DESIGN.md 5/C18", "SMT-decided symbolic execution of json.decode on symbolic bytes against an RFC 8259 pushdown recogniser and reference parser; encode structure and round trip", "documents <= 5-7 bytes; no escapes/non-ASCII (encoding/json not interpretable)"),
 "C19": ("DESIGN.md 5/C19", "SMT-decided symbolic execution of Duration/Time Binary, Cmp, Hash and the real time.Time Add/Sub against exact (sec, nsec) reference arithmetic", "time window +-2^61 ns; division by 1e9 encoded relationally"),
 "C20": ("DESIGN.md 5/C20", "SMT-decided symbolic execution of the scalar conversion kernel toProto/toStarlark1/enumValueOf per protoreflect.Kind", "ONLY the typing/range half of the property: freeze/alias histories, repeated/map positions and marshal/unmarshal are outside the claim (dynamicpb/protobuf internals are not modelled)"),
}
NA = {}
props = [json.loads(l)['id'] for l in open('properties.jsonl')]
for p in props:
    if p not in CHECKS and p not in NA:
        NA[p] = "check not built yet in this session (solver-based harness pending; see DESIGN.md section 5)"
m = {
 "version": 1,
 "setup_cmd": "./setup.sh",
 "hooks": {
  "guard": "verif",
  "enable": "no hook commits in /repo: harness files (//go:build verif) are injected through a go/packages Overlay for the symbolic engine and through `go test -overlay -tags verif` for native replays",
  "baseline_off_cmd": BASE["cmd"],
  "source_commits": [],
  "add_only": True,
 },
 "engines": [{"name": "symgo", "path": "engine", "serves_properties": sorted(CHECKS), "kind_free_text": "symbolic executor for go/ssa (fork of x/tools ssa/interp with SMT terms) + z3"}],
 "checks": [],
 "not_applicable": [{"property_id": p, "reason": NA[p]} for p in sorted(NA)],
 "notes": "All checks use one technique: bounded symbolic execution of the real code from go/ssa with z3 deciding every assertion. See DESIGN.md.",
}
for p in sorted(CHECKS):
    ref, tech, extra = CHECKS[p]
    m["checks"].append({
     "property_id": p,
     "quick_cmd": f"./check {p} quick",
     "thorough_cmd": f"./check {p} thorough",
     "evidence_file": f"evidence/{p}.json",
     "replay_cmd_template": "./check replay {path}",
     "engine": "symgo",
     "level_claimed": {"category": "model_checking", "text": LEVEL_TEXT, "design_ref": ref},
     "level_note": NOTE + (" " + extra if extra else ""),
     "technique": tech,
    })
json.dump(m, open('MANIFEST.json', 'w'), indent=1)
print("wrote MANIFEST.json with", len(m["checks"]), "checks,", len(m["not_applicable"]), "not applicable")
