package interp

// Environment model: externals for std-library functions that cannot be
// interpreted (assembly, unsafe, reflection) or that are deliberately stubbed.

import (
	"fmt"
	"go/token"
	"go/types"
	"maps"
	"math"
	"strconv"
	"strings"
	"unsafe"

	"golang.org/x/tools/go/ssa"

	"verif/engine/smt"
)

func init() {
	maps.Copy(externals, map[string]externalFn{
		// ---- hashing ----
		"hash/maphash.MakeSeed": func(fr *frame, args []value) value {
			// Seed{s uint64}: a symbolic seed
			ps := fr.i.ps
			ps.nseeds++
			v := ps.ctx.Var(fmt.Sprintf("seed%d", ps.nseeds), smt.BV(64))
			return structure{sym{v, types.Uint64}}
		},
		"hash/maphash.String": extMaphash,
		"hash/maphash.Bytes":  extMaphash,

		// ---- starlark specifics ----
		"go.starlark.net/starlark.reserveAddresses": func(fr *frame, args []value) value {
			if fr.i.w.prog.MmapFails {
				return uintptr(0)
			}
			return uintptr(1 << 40)
		},

		// ---- time ----
		"time.Now": func(fr *frame, args []value) value {
			// Time{wall uint64, ext int64, loc *Location}: fixed instant, no monotonic reading
			return structure{uint64(0), int64(63000000000), (*value)(nil)}
		},
		"time.runtimeNano": func(fr *frame, args []value) value { return int64(1) },
		"time.now":         func(fr *frame, args []value) value { return tuple{int64(1700000000), int32(0), int64(1)} },

		// ---- sync ----
		"(*sync.Pool).Get": func(fr *frame, args []value) value {
			p := args[0].(*value)
			st := (*p).(structure)
			// last field is New func() any
			nf := st[len(st)-1]
			switch nf := nf.(type) {
			case *ssa.Function:
				if nf == nil {
					return iface{}
				}
			case nil:
				return iface{}
			}
			return call(fr.i, fr, token.NoPos, nf, nil)
		},
		"(*sync.Pool).Put": func(fr *frame, args []value) value { return nil },
		"sync.runtime_registerPoolCleanup": func(fr *frame, args []value) value { return nil },
		"internal/sync.runtime_SemacquireMutex": func(fr *frame, args []value) value {
			fr.i.ps.abort("abort", "deadlock: mutex already held")
			return nil
		},
		"internal/sync.runtime_Semrelease": func(fr *frame, args []value) value { return nil },
		"internal/sync.throw": func(fr *frame, args []value) value {
			panic(fatalPanic{"fatal error: " + args[0].(string)})
		},
		"internal/sync.fatal": func(fr *frame, args []value) value {
			panic(fatalPanic{"fatal error: " + args[0].(string)})
		},
		"sync.fatal": func(fr *frame, args []value) value {
			panic(fatalPanic{"fatal error: " + args[0].(string)})
		},
		"sync.throw": func(fr *frame, args []value) value {
			panic(fatalPanic{"fatal error: " + args[0].(string)})
		},
		"internal/race.Enabled": nil,

		// ---- sync/atomic free functions ----
		"sync/atomic.LoadPointer":           atomicLoad,
		"sync/atomic.LoadInt32":             atomicLoad,
		"sync/atomic.LoadInt64":             atomicLoad,
		"sync/atomic.LoadUint32":            atomicLoad,
		"sync/atomic.LoadUint64":            atomicLoad,
		"sync/atomic.LoadUintptr":           atomicLoad,
		"sync/atomic.StorePointer":          atomicStore,
		"sync/atomic.StoreInt32":            atomicStore,
		"sync/atomic.StoreInt64":            atomicStore,
		"sync/atomic.StoreUint32":           atomicStore,
		"sync/atomic.StoreUint64":           atomicStore,
		"sync/atomic.StoreUintptr":          atomicStore,
		"sync/atomic.SwapPointer":           atomicSwap,
		"sync/atomic.SwapInt32":             atomicSwap,
		"sync/atomic.SwapInt64":             atomicSwap,
		"sync/atomic.SwapUint32":            atomicSwap,
		"sync/atomic.SwapUint64":            atomicSwap,
		"sync/atomic.CompareAndSwapPointer": atomicCAS,
		"sync/atomic.CompareAndSwapInt32":   atomicCAS,
		"sync/atomic.CompareAndSwapInt64":   atomicCAS,
		"sync/atomic.CompareAndSwapUint32":  atomicCAS,
		"sync/atomic.CompareAndSwapUint64":  atomicCAS,
		"sync/atomic.CompareAndSwapUintptr": atomicCAS,
		"sync/atomic.AddInt32":              atomicAdd,
		"sync/atomic.AddInt64":              atomicAdd,
		"sync/atomic.AddUint32":             atomicAdd,
		"sync/atomic.AddUint64":             atomicAdd,
		"sync/atomic.AddUintptr":            atomicAdd,

		// ---- strings.Builder (uses unsafe) ----
		"(*strings.Builder).String": func(fr *frame, args []value) value {
			return mkString(builderBuf(args[0]))
		},
		"(*strings.Builder).Len": func(fr *frame, args []value) value { return len(builderBuf(args[0])) },
		"(*strings.Builder).Cap": func(fr *frame, args []value) value { return cap(builderBuf(args[0])) },
		"(*strings.Builder).Reset": func(fr *frame, args []value) value {
			setBuilderBuf(fr, args[0], []value(nil))
			return nil
		},
		"(*strings.Builder).Grow": func(fr *frame, args []value) value {
			if fr.asInt64(args[1]) < 0 {
				panic(targetPanic{iface{types.Typ[types.String], "strings.Builder.Grow: negative count"}})
			}
			return nil
		},
		"(*strings.Builder).WriteString": func(fr *frame, args []value) value {
			b := strBytes(args[1])
			setBuilderBuf(fr, args[0], fr.appendValues(builderBuf(args[0]), b))
			return tuple{len(b), iface{}}
		},
		"(*strings.Builder).Write": func(fr *frame, args []value) value {
			b := args[1].([]value)
			setBuilderBuf(fr, args[0], fr.appendValues(builderBuf(args[0]), b))
			return tuple{len(b), iface{}}
		},
		"(*strings.Builder).WriteByte": func(fr *frame, args []value) value {
			setBuilderBuf(fr, args[0], fr.appendValues(builderBuf(args[0]), []value{args[1]}))
			return iface{}
		},
		"(*strings.Builder).WriteRune": func(fr *frame, args []value) value {
			b := strBytes(fr.encodeRune(args[1]))
			setBuilderBuf(fr, args[0], fr.appendValues(builderBuf(args[0]), b))
			return tuple{len(b), iface{}}
		},

		// ---- byte/string primitives implemented in assembly ----
		"internal/bytealg.IndexByteString": extIndexByte,
		"internal/bytealg.IndexByte":       extIndexByte,
		"internal/bytealg.CountString":     extCountByte,
		"internal/bytealg.Count":           extCountByte,
		"internal/bytealg.Equal":           extBytesEqual,
		"internal/bytealg.Compare":         extBytesCompare,
		"internal/bytealg.CompareString":   extBytesCompare,
		"internal/bytealg.Index":           extIndexNaive,
		"internal/bytealg.IndexString":     extIndexNaive,
		"internal/bytealg.MakeNoZero": func(fr *frame, args []value) value {
			n := fr.makeLen(args[0])
			s := make([]value, n)
			for i := range s {
				s[i] = uint8(0)
			}
			return s
		},
		"internal/stringslite.Index":      extStringsIndex,
		"strings.Index":                   extStringsIndex,
		"bytes.Index":                     extStringsIndex,
		"strings.IndexByte":               extIndexByte,
		"bytes.IndexByte":                 extIndexByte,
		"bytes.Equal":                     extBytesEqual,
		"bytes.Compare":                   extBytesCompare,
		"strings.Compare":                 extBytesCompare,
		"internal/stringslite.IndexByte":  extIndexByte,
		"strings.Count":                   nil,
		"strings.EqualFold":               nil,
		"strings.Replace":                 nil,
		"strings.ToLower":                 nil,
		"strconv.Atoi":                    nil,
		"strconv.Itoa":                    nil,
		"strconv.FormatFloat":             extFormatFloat,
		"strconv.ParseFloat":              extParseFloat,
		"sort.Ints":                       nil,
		"sort.Strings":                    nil,
		"sort.Float64s":                   nil,
		"fmt.Sprint":                      nil,
		"unicode/utf8.DecodeRuneInString": nil,
		"runtime.memequal": func(fr *frame, args []value) value {
			fr.i.ps.abort("abort", "unsupported: runtime.memequal")
			return nil
		},

		// ---- math ----
		"math.Float64bits":     extFloat64bits,
		"math.Float64frombits": extFloat64frombits,
		"math.Float32bits":     extFloat32bits,
		"math.Float32frombits": extFloat32frombits,
		"math.Abs":             extFpUn(smt.OFpAbs, math.Abs),
		"math.Floor":           extFpUn(smt.OFpRoundRTN, math.Floor),
		"math.Ceil":            extFpUn(smt.OFpRoundRTP, math.Ceil),
		"math.Trunc":           extFpUn(smt.OFpRoundRTZ, math.Trunc),
		"math.IsNaN": func(fr *frame, args []value) value {
			if s, ok := args[0].(sym); ok {
				return mkval(s.t.C.FpPred(smt.OFpIsNaN, s.t), types.Bool)
			}
			return math.IsNaN(args[0].(float64))
		},
		"math.IsInf": func(fr *frame, args []value) value {
			sign := int(fr.asInt64(args[1]))
			if s, ok := args[0].(sym); ok {
				c := s.t.C
				inf := c.FpPred(smt.OFpIsInf, s.t)
				neg := c.FpPred(smt.OFpIsNeg, s.t)
				switch {
				case sign > 0:
					return mkval(c.And(inf, c.Not(neg)), types.Bool)
				case sign < 0:
					return mkval(c.And(inf, neg), types.Bool)
				}
				return mkval(inf, types.Bool)
			}
			return math.IsInf(args[0].(float64), sign)
		},
		"math.Inf":  func(fr *frame, args []value) value { return math.Inf(int(fr.asInt64(args[0]))) },
		"math.NaN":  func(fr *frame, args []value) value { return math.NaN() },
		"math.Sqrt": extOpaqueF1("sqrt", math.Sqrt),
		"math.Exp":  extOpaqueF1("exp", math.Exp),
		"math.Log":  extOpaqueF1("log", math.Log),
		"math.Mod":  extOpaqueF2("fmod", math.Mod),
		"math.Pow":  extOpaqueF2("pow", math.Pow),
		"math.Min":  nil,
		"math.Ldexp": nil,
		"math.Copysign": nil,
		"math.archFloor": nil, "math.archCeil": nil, "math.archTrunc": nil,

		// ---- os / runtime / debug ----
		"os.Getenv":           func(fr *frame, args []value) value { return "" },
		"os.LookupEnv":        func(fr *frame, args []value) value { return tuple{"", false} },
		"runtime.GC":          func(fr *frame, args []value) value { return nil },
		"runtime.Gosched":     func(fr *frame, args []value) value { return nil },
		"runtime.KeepAlive":   func(fr *frame, args []value) value { return nil },
		"runtime.SetFinalizer": func(fr *frame, args []value) value { return nil },
		"runtime/debug.PrintStack": func(fr *frame, args []value) value { return nil },
		"runtime/debug.Stack":      func(fr *frame, args []value) value { return []value{} },
		"log.Printf":  func(fr *frame, args []value) value { return nil },
		"log.Println": func(fr *frame, args []value) value { return nil },
		"log.Print":   func(fr *frame, args []value) value { return nil },
		"log.Panicf": func(fr *frame, args []value) value {
			panic(targetPanic{iface{types.Typ[types.String], formatf(fr, args[0], args[1].([]value))}})
		},
		"log.Panic": func(fr *frame, args []value) value {
			panic(targetPanic{iface{types.Typ[types.String], sprint(fr, args[0].([]value), false)}})
		},
		"log.Fatalf": func(fr *frame, args []value) value {
			panic(fatalPanic{"log.Fatalf: " + fmt.Sprint(formatf(fr, args[0], args[1].([]value)))})
		},
		"log.Fatal": func(fr *frame, args []value) value {
			panic(fatalPanic{"log.Fatal"})
		},

		// ---- fmt ----
		"fmt.Sprintf": func(fr *frame, args []value) value { return formatf(fr, args[0], args[1].([]value)) },
		"fmt.Sprintln": func(fr *frame, args []value) value {
			return symStringBinop(token.ADD, sprint(fr, args[0].([]value), true), "\n")
		},
		"fmt.Errorf":  extErrorf,
		"fmt.Fprintf": func(fr *frame, args []value) value { return fwrite(fr, args[0], formatf(fr, args[1], args[2].([]value))) },
		"fmt.Fprint":  func(fr *frame, args []value) value { return fwrite(fr, args[0], sprint(fr, args[1].([]value), false)) },
		"fmt.Fprintln": func(fr *frame, args []value) value {
			return fwrite(fr, args[0], symStringBinop(token.ADD, sprint(fr, args[1].([]value), true), "\n"))
		},
		"fmt.Printf":  func(fr *frame, args []value) value { return tuple{0, iface{}} },
		"fmt.Println": func(fr *frame, args []value) value { return tuple{0, iface{}} },
		"fmt.Print":   func(fr *frame, args []value) value { return tuple{0, iface{}} },
	})
	externals["fmt.Sprint"] = func(fr *frame, args []value) value { return sprint(fr, args[0].([]value), false) }
	for k, v := range externals {
		if v == nil {
			delete(externals, k)
		}
	}
}

func extMaphash(fr *frame, args []value) value {
	ps := fr.i.ps
	seed := args[0].(structure)[0]
	var bs []value
	if b, ok := args[1].([]value); ok {
		bs = b
	} else {
		bs = strBytes(args[1])
	}
	c := ps.ctx
	// A seed made during package initialisation (starlark's `var seed = maphash.MakeSeed()`)
	// is a variable of the init path's term context; every path has its own context, so
	// re-intern the variable by name here (otherwise it is never declared to the solver).
	if sv, ok := seed.(sym); ok && sv.t.Op == smt.OVar && sv.t.C != c {
		seed = sym{c.Var(sv.t.Name, sv.t.Sort), sv.k}
	}
	// Uninterpreted function of (seed, length, bytes): one function symbol per length.
	targs := []*smt.Term{termOf(c, seed)}
	for _, b := range bs {
		targs = append(targs, termOf(c, b))
	}
	return mkval(c.App(fmt.Sprintf("maphash_%d", len(bs)), smt.BV(64), targs...), types.Uint64)
}

func atomicLoad(fr *frame, args []value) value {
	fr.i.ps.syncEvent("atomic.Load")
	return *fr.ptr(args[0])
}

func atomicStore(fr *frame, args []value) value {
	fr.i.ps.syncEvent("atomic.Store")
	fr.atomicWrite(fr.ptr(args[0]), args[1])
	return nil
}

func atomicSwap(fr *frame, args []value) value {
	fr.i.ps.syncEvent("atomic.Swap")
	p := fr.ptr(args[0])
	old := *p
	fr.atomicWrite(p, args[1])
	return old
}

func atomicCAS(fr *frame, args []value) value {
	fr.i.ps.syncEvent("atomic.CAS")
	p := fr.ptr(args[0])
	var eq value
	if up, ok := (*p).(unsafe.Pointer); ok {
		eq = equals(types.Typ[types.UnsafePointer], up, args[1])
	} else {
		eq = binop(token.EQL, types.Typ[kindOf(*p)], *p, args[1])
	}
	if fr.truth(eq) {
		fr.atomicWrite(p, args[2])
		return true
	}
	return false
}

func atomicAdd(fr *frame, args []value) value {
	fr.i.ps.syncEvent("atomic.Add")
	p := fr.ptr(args[0])
	nv := binop(token.ADD, nil, *p, args[1])
	fr.atomicWrite(p, nv)
	return nv
}

// atomicWrite stores without entering the non-atomic write log.
func (fr *frame) atomicWrite(p *value, v value) {
	ps := fr.i.ps
	ps.undo = append(ps.undo, undoRec{addr: p, old: *p})
	*p = v
}

func (ps *pathState) syncEvent(s string) {
	if ps.logWrites {
		ps.syncEvents = append(ps.syncEvents, s)
	}
}

// strings.Builder{addr *Builder; buf []byte}
func builderBuf(b value) []value {
	st := (*b.(*value)).(structure)
	buf, _ := st[1].([]value)
	return buf
}

func setBuilderBuf(fr *frame, b value, buf []value) {
	st := (*b.(*value)).(structure)
	fr.storeRaw(&st[1], buf)
}

func bytesOf(v value) []value {
	if b, ok := v.([]value); ok {
		return b
	}
	return strBytes(v)
}

func extIndexByte(fr *frame, args []value) value {
	s := bytesOf(args[0])
	for i, b := range s {
		if fr.truth(binop(token.EQL, types.Typ[types.Uint8], b, args[1])) {
			return i
		}
	}
	return -1
}

func extCountByte(fr *frame, args []value) value {
	s := bytesOf(args[0])
	n := 0
	for _, b := range s {
		if fr.truth(binop(token.EQL, types.Typ[types.Uint8], b, args[1])) {
			n++
		}
	}
	return n
}

func bytesEqualValue(a, b []value) value {
	if len(a) != len(b) {
		return false
	}
	var r value = true
	for i := range a {
		r = vAnd(r, binop(token.EQL, types.Typ[types.Uint8], a[i], b[i]))
		if r == false {
			return false
		}
	}
	return r
}

func extBytesEqual(fr *frame, args []value) value {
	return bytesEqualValue(bytesOf(args[0]), bytesOf(args[1]))
}

func extBytesCompare(fr *frame, args []value) value {
	a, b := mkString(bytesOf(args[0])), mkString(bytesOf(args[1]))
	if fr.truth(binop(token.EQL, types.Typ[types.String], a, b)) {
		return 0
	}
	if fr.truth(binop(token.LSS, types.Typ[types.String], a, b)) {
		return -1
	}
	return 1
}

func extIndexNaive(fr *frame, args []value) value {
	s, sep := bytesOf(args[0]), bytesOf(args[1])
	for i := 0; i+len(sep) <= len(s); i++ {
		if fr.truth(bytesEqualValue(s[i:i+len(sep)], sep)) {
			return i
		}
	}
	return -1
}

func extStringsIndex(fr *frame, args []value) value { return extIndexNaive(fr, args) }

func extFloat64bits(fr *frame, args []value) value {
	if s, ok := args[0].(sym); ok {
		c := s.t.C
		if s.t.Op == smt.OFpOfBV {
			return mkval(s.t.Args[0], types.Uint64)
		}
		ps := fr.i.ps
		b := ps.fresh("fb", smt.BV(64))
		ps.assume(c.Eq(c.FpOfBV(smt.FP64, b), s.t))
		return sym{b, types.Uint64}
	}
	return math.Float64bits(args[0].(float64))
}

func extFloat64frombits(fr *frame, args []value) value {
	if s, ok := args[0].(sym); ok {
		return mkval(s.t.C.FpOfBV(smt.FP64, s.t), types.Float64)
	}
	return math.Float64frombits(args[0].(uint64))
}

func extFloat32bits(fr *frame, args []value) value {
	if s, ok := args[0].(sym); ok {
		c := s.t.C
		if s.t.Op == smt.OFpOfBV {
			return mkval(s.t.Args[0], types.Uint32)
		}
		ps := fr.i.ps
		b := ps.fresh("fb", smt.BV(32))
		ps.assume(c.Eq(c.FpOfBV(smt.FP32, b), s.t))
		return sym{b, types.Uint32}
	}
	return math.Float32bits(args[0].(float32))
}

func extFloat32frombits(fr *frame, args []value) value {
	if s, ok := args[0].(sym); ok {
		return mkval(s.t.C.FpOfBV(smt.FP32, s.t), types.Float32)
	}
	return math.Float32frombits(args[0].(uint32))
}

func extFpUn(op smt.Op, f func(float64) float64) externalFn {
	return func(fr *frame, args []value) value {
		if s, ok := args[0].(sym); ok {
			return mkval(s.t.C.FpUn(op, s.t), types.Float64)
		}
		return f(args[0].(float64))
	}
}

// opaque functions: exact on concrete arguments, uninterpreted on symbolic ones.
func extOpaqueF1(name string, f func(float64) float64) externalFn {
	return func(fr *frame, args []value) value {
		if s, ok := args[0].(sym); ok {
			fr.i.ps.res.Assumes["opaque math."+name+" (uninterpreted on symbolic arguments)"] = true
			return mkval(s.t.C.App("opaque_"+name, smt.FP64, s.t), types.Float64)
		}
		return f(args[0].(float64))
	}
}

func extOpaqueF2(name string, f func(float64, float64) float64) externalFn {
	return func(fr *frame, args []value) value {
		if isSym(args[0]) || isSym(args[1]) {
			c := ctxOf(args[0], args[1])
			fr.i.ps.res.Assumes["opaque math."+name+" (uninterpreted on symbolic arguments)"] = true
			return mkval(c.App("opaque_"+name, smt.FP64, termOf(c, args[0]), termOf(c, args[1])), types.Float64)
		}
		return f(args[0].(float64), args[1].(float64))
	}
}

func extFormatFloat(fr *frame, args []value) value {
	if isSym(args[0]) {
		fr.i.ps.res.Assumes["strconv.FormatFloat opaque on symbolic floats"] = true
		return "<symfloat>"
	}
	return strconv.FormatFloat(args[0].(float64), byte(fr.asInt64(args[1])), int(fr.asInt64(args[2])), int(fr.asInt64(args[3])))
}

func extParseFloat(fr *frame, args []value) value {
	s, ok := args[0].(string)
	if !ok {
		return extParseFloatSym(fr, args) // ext_parsefloat.go
	}
	f, err := strconv.ParseFloat(s, int(fr.asInt64(args[1])))
	if err != nil {
		return tuple{f, fr.newError("strconv.ParseFloat: parsing " + strconv.Quote(s) + ": " + errTail(err))}
	}
	return tuple{f, iface{}}
}

func errTail(err error) string {
	s := err.Error()
	if i := strings.LastIndex(s, ": "); i >= 0 {
		return s[i+2:]
	}
	return s
}

// newError builds an *errors.errorString value.
func (fr *frame) newError(msg value) value {
	pkg := fr.i.prog.ImportedPackage("errors")
	if pkg == nil {
		fr.i.ps.abort("abort", "errors package not in program")
	}
	t := pkg.Type("errorString").Type()
	var cell value = structure{msg}
	return iface{t: types.NewPointer(t), v: &cell}
}
