package interp

// Environment model for google.golang.org/protobuf/reflect/protoreflect.Value
// (value_unsafe.go), whose seven primitive functions reinterpret interface
// headers and string/slice headers through unsafe.Pointer. Everything else in
// protoreflect (value_union.go: ValueOfBool/Int32/..., Bool(), Int(), Uint(),
// Float(), String(), Bytes(), Enum(), Interface()) is ordinary Go over the
// (typ, ptr, num) triple and is interpreted.
//
//	typeOf(t any)          a raw address that identifies t's dynamic type
//	valueOfString/Bytes    ptr = pointer to a cell holding the string / slice, num = its length
//	valueOfIface(v any)    typ = typeOf(v), ptr = pointer to a cell holding v's data
//	getString/getBytes     the content of the cell
//	getIface               the interface value (type recovered from the raw address)
//
// Also: go.starlark.net/lib/proto.detrandDisable (a linkname into protobuf
// internals that only switches off output randomisation) is a no-op.

import (
	"go/types"
	"maps"
	"sync"
	"unsafe"
)

var (
	protoTypeMu  sync.Mutex
	protoTypeIDs = map[string]uintptr{}
	protoTypes   = map[uintptr]types.Type{}
)

func protoTypeAddr(t types.Type) value {
	if t == nil {
		return unsafe.Pointer(nil)
	}
	protoTypeMu.Lock()
	defer protoTypeMu.Unlock()
	key := t.String()
	if key == "[]byte" { // alias spelling of []uint8
		key = "[]uint8"
	}
	id, ok := protoTypeIDs[key]
	if !ok {
		id = 0x7e0000000000 + uintptr(len(protoTypeIDs)+1)*64
		protoTypeIDs[key] = id
		protoTypes[id] = t
	}
	return rawaddr{id}
}

func init() {
	const pr = "google.golang.org/protobuf/reflect/protoreflect."
	// Value{DoNotCompare [0]func(), typ, ptr unsafe.Pointer, num uint64}
	mkValue := func(typ, ptr, num value) value { return structure{array{}, typ, ptr, num} }
	maps.Copy(externals, map[string]externalFn{
		"go.starlark.net/lib/proto.detrandDisable": func(fr *frame, args []value) value { return nil },
		pr + "typeOf": func(fr *frame, args []value) value {
			return protoTypeAddr(args[0].(iface).t)
		},
		pr + "valueOfString": func(fr *frame, args []value) value {
			var cell value = args[0]
			typ := protoTypeAddr(types.Typ[types.String])
			return mkValue(typ, unsafe.Pointer(&cell), uint64(len(strBytes(args[0]))))
		},
		pr + "valueOfBytes": func(fr *frame, args []value) value {
			var cell value = args[0]
			typ := protoTypeAddr(types.NewSlice(types.Typ[types.Uint8]))
			return mkValue(typ, unsafe.Pointer(&cell), uint64(len(args[0].([]value))))
		},
		pr + "valueOfIface": func(fr *frame, args []value) value {
			itf := args[0].(iface)
			var cell value = itf.v
			return mkValue(protoTypeAddr(itf.t), unsafe.Pointer(&cell), uint64(0))
		},
		"(" + pr + "Value).getString": func(fr *frame, args []value) value {
			st := args[0].(structure)
			p, ok := st[2].(unsafe.Pointer)
			if !ok || p == nil {
				return ""
			}
			return *(*value)(p)
		},
		"(" + pr + "Value).getBytes": func(fr *frame, args []value) value {
			st := args[0].(structure)
			p, ok := st[2].(unsafe.Pointer)
			if !ok || p == nil {
				return []value(nil)
			}
			return *(*value)(p)
		},
		"(" + pr + "Value).getIface": func(fr *frame, args []value) value {
			st := args[0].(structure)
			ra, ok := st[1].(rawaddr)
			if !ok {
				return iface{}
			}
			id, _ := ra.a.(uintptr)
			protoTypeMu.Lock()
			t := protoTypes[id]
			protoTypeMu.Unlock()
			if t == nil {
				fr.i.ps.abort("abort", "protoreflect.Value.getIface: unknown type address")
			}
			p, _ := st[2].(unsafe.Pointer)
			if p == nil {
				return iface{t: t}
			}
			return iface{t: t, v: *(*value)(p)}
		},
	})
}
