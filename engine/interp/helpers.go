package interp

import (
	"fmt"
	"go/token"
	"go/types"
	"math"
	"unicode/utf8"

	"golang.org/x/tools/go/ssa"

	"verif/engine/smt"
)

var typeparams = struct {
	MustDeref func(types.Type) types.Type
}{MustDeref: typeparams۰MustDeref}

// rawaddr is an unsafe.Pointer made from an integer that is not the address of a live object.
type rawaddr struct{ a value }

// symptr is &base[idx] for a symbolic index into a slice/array of scalars.
type symptr struct {
	base []value
	idx  *smt.Term // BV64, constrained 0 <= idx < len(base)
	k    types.BasicKind
}

func (sp symptr) load(fr *frame) value {
	c := sp.idx.C
	// ite chain from the end
	res := termOf(c, sp.base[len(sp.base)-1])
	for i := len(sp.base) - 2; i >= 0; i-- {
		res = c.Ite(c.Eq(sp.idx, c.BVC(64, uint64(i))), termOf(c, sp.base[i]), res)
	}
	return mkval(res, sp.k)
}

func (sp symptr) store(fr *frame, v value) {
	c := sp.idx.C
	tv := termOf(c, v)
	for i := range sp.base {
		old := termOf(c, sp.base[i])
		nv := c.Ite(c.Eq(sp.idx, c.BVC(64, uint64(i))), tv, old)
		fr.storeRaw(&sp.base[i], mkval(nv, sp.k))
	}
}

func isScalarType(t types.Type) (types.BasicKind, bool) {
	b, ok := t.Underlying().(*types.Basic)
	if !ok {
		return 0, false
	}
	if b.Info()&(types.IsInteger|types.IsBoolean|types.IsFloat) == 0 {
		return 0, false
	}
	return kindOfType(t), true
}

// truth decides a boolean value, forking if symbolic.
func (fr *frame) truth(v value) bool {
	switch v := v.(type) {
	case bool:
		return v
	case sym:
		return fr.i.ps.branch(v.t)
	}
	panic(fmt.Sprintf("truth: not a bool: %T", v))
}

// asInt64 returns the concrete value of an integer, concretising by forking.
func (fr *frame) asInt64(x value) int64 {
	if s, ok := x.(sym); ok {
		v := fr.i.ps.concretize(s.t)
		cv, _ := concreteOf(s.t.C.BVC(kwidth(s.k), v), s.k)
		return asInt64(cv)
	}
	return asInt64(x)
}

func (fr *frame) concretizeValue(x value) value {
	if s, ok := x.(sym); ok {
		if kfloat(s.k) {
			fr.i.ps.abort("abort", "cannot concretise a float")
		}
		if s.k == types.Bool {
			return fr.truth(x)
		}
		v := fr.i.ps.concretize(s.t)
		cv, _ := concreteOf(s.t.C.BVC(kwidth(s.k), v), s.k)
		return cv
	}
	return x
}

// makeLen validates a make() length for elements of elemSize bytes.
// Lengths the Go runtime rejects (negative, or more than about 2^47 bytes) panic
// like makeslice does; legal but huge lengths (> 2^24 elements) are outside the
// engine's bound (and outside the properties: "memory exhaustion by a single huge
// allocation") and prune the path with a note.
func (fr *frame) makeLen(x value) int { return fr.makeLenSized(x, 8) }

func (fr *frame) makeLenSized(x value, elemSize int64) int {
	if elemSize < 1 {
		elemSize = 1
	}
	maxElems := int64(1<<47) / elemSize
	const engineCap = 1 << 24
	note := "allocations of more than 2^24 elements are outside the bound (paths pruned)"
	if s, ok := x.(sym); ok {
		c := s.t.C
		t := c.Resize(s.t, 64, ksigned(s.k))
		if fr.truth(mkval(c.SLt(t, c.BVC(64, 0)), types.Bool)) {
			panic("runtime error: makeslice: len out of range")
		}
		if fr.truth(mkval(c.SLt(c.BVC(64, engineCap), t), types.Bool)) {
			if fr.truth(mkval(c.SLt(c.BVC(64, uint64(maxElems)), t), types.Bool)) {
				panic("runtime error: makeslice: len out of range")
			}
			fr.i.ps.res.Assumes[note] = true
			fr.i.ps.abort("assume", note)
		}
	}
	n := fr.asInt64(x)
	if n < 0 || n > maxElems {
		panic("runtime error: makeslice: len out of range")
	}
	if n > engineCap {
		fr.i.ps.res.Assumes[note] = true
		fr.i.ps.abort("assume", note)
	}
	return int(n)
}

// ptr returns a concrete pointer, concretising a symbolic element pointer.
func (fr *frame) ptr(v value) *value {
	switch v := v.(type) {
	case *value:
		return v
	case symptr:
		i := fr.i.ps.concretize(v.idx)
		return &v.base[i]
	}
	panic(fmt.Sprintf("ptr: unexpected %T", v))
}

func (fr *frame) logStore(addr *value) {
	ps := fr.i.ps
	if ps == nil {
		return
	}
	ps.undo = append(ps.undo, undoRec{addr: addr, old: *addr})
	if ps.logWrites && ps.inOnce == 0 {
		ps.writes = append(ps.writes, addr)
	}
	if ps.logWrites && ps.inOnce > 0 {
		if ps.onceWrites == nil {
			ps.onceWrites = map[*value]*value{}
		}
		ps.onceWrites[addr] = ps.onceStack[len(ps.onceStack)-1]
	}
}

func (fr *frame) storeRaw(addr *value, v value) {
	fr.logStore(addr)
	*addr = v
}

// store stores value v of type T into *addr.
func (fr *frame) store(T types.Type, addr *value, v value) {
	switch T := T.Underlying().(type) {
	case *types.Struct:
		lhs := (*addr).(structure)
		rhs := v.(structure)
		for i := range lhs {
			fr.store(T.Field(i).Type(), &lhs[i], rhs[i])
		}
	case *types.Array:
		lhs := (*addr).(array)
		rhs := v.(array)
		for i := range lhs {
			fr.store(T.Elem(), &lhs[i], rhs[i])
		}
	default:
		fr.logStore(addr)
		*addr = v
	}
}

func (fr *frame) appendValues(dst, src []value) []value {
	return fr.appendValuesT(dst, src, nil)
}

// appendValuesT appends; elem (may be nil = byte) is the element type used to zero the slack.
func (fr *frame) appendValuesT(dst, src []value, elem types.Type) []value {
	if len(src) == 0 {
		return dst
	}
	n := len(dst)
	if n+len(src) <= cap(dst) {
		res := dst[:n+len(src)]
		for i, v := range src {
			fr.storeRaw(&res[n+i], v)
		}
		return res
	}
	// grow: mimic Go's doubling so that capacity-dependent aliasing is plausible
	nc := 2 * cap(dst)
	if nc < n+len(src) {
		nc = n + len(src)
	}
	res := make([]value, n+len(src), nc)
	copy(res, dst)
	copy(res[n:], src)
	slack := res[n+len(src) : nc]
	for i := range slack {
		if elem == nil {
			slack[i] = uint8(0)
		} else {
			slack[i] = zero(elem)
		}
	}
	return res
}

func (fr *frame) regSlice(sl []value) {
	ps := fr.i.ps
	if ps.sliceAt == nil {
		ps.sliceAt = map[*value][]value{}
	}
	ps.sliceAt[&sl[0]] = sl[:cap(sl)]
}

func (fr *frame) sliceFromElemPtr(p *value, n int) []value {
	ps := fr.i.ps
	if sl, ok := ps.sliceAt[p]; ok {
		if n > len(sl) {
			panic("runtime error: unsafe.Slice/String: len out of range")
		}
		return sl[:n:n]
	}
	if n == 1 {
		// pointer to a single cell: alias it through a one-element view is impossible; copy
		return []value{*p}
	}
	ps.abort("abort", "unsupported: unsafe.Slice/String on an unregistered element pointer")
	return nil
}

func (fr *frame) addrOfPtr(p *value) value {
	if p == nil {
		return uintptr(0)
	}
	ps := fr.i.ps
	if a, ok := ps.addrOf[p]; ok {
		return a
	}
	a := ps.nextAddr
	ps.nextAddr += 64
	ps.addrOf[p] = a
	ps.ptrAt[a] = p
	return a
}

func (fr *frame) ptrFromAddr(a value) value {
	if ca, ok := a.(uintptr); ok {
		if ca == 0 {
			return (*value)(nil)
		}
		if p := fr.i.ps.ptrAt[ca]; p != nil {
			return p
		}
	}
	fr.i.ps.abort("abort", "unsupported: dereferencing an integer-derived pointer")
	return nil
}

func (fr *frame) targetFunc(pkg, name string) *ssa.Function {
	p := fr.i.prog.ImportedPackage(pkg)
	if p == nil {
		fr.i.ps.abort("abort", "package not in program: "+pkg)
	}
	f := p.Func(name)
	if f == nil {
		fr.i.ps.abort("abort", "function not in program: "+pkg+"."+name)
	}
	return f
}

// decodeRune decodes the first rune of s (string or symString).
func (fr *frame) decodeRune(s value) (value, int) {
	if cs, ok := s.(string); ok {
		r, n := utf8.DecodeRuneInString(cs)
		return r, n
	}
	f := fr.targetFunc("unicode/utf8", "DecodeRuneInString")
	res := callSSA(fr.i, fr, token.NoPos, f, []value{s}, nil).(tuple)
	return res[0], int(fr.asInt64(res[1]))
}

// encodeRune returns string(r).
func (fr *frame) encodeRune(r value) value {
	if cr, ok := r.(int32); ok {
		return string(cr)
	}
	f := fr.targetFunc("unicode/utf8", "AppendRune")
	res := callSSA(fr.i, fr, token.NoPos, f, []value{[]value(nil), r}, nil)
	return mkString(res.([]value))
}

// clampRune maps an integer of any kind to a rune value, with out-of-range
// values becoming U+FFFD (string(int) conversion semantics).
func (fr *frame) clampRune(x value, t *types.Basic) value {
	if s, ok := x.(sym); ok {
		c := s.t.C
		w := c.Resize(s.t, 64, ksigned(s.k))
		inr := c.And(c.SLe(c.BVC(64, 0), w), c.SLe(w, c.BVC(64, 0x10FFFF)))
		r := c.Ite(inr, w, c.BVC(64, 0xFFFD))
		return mkval(c.Resize(r, kwidth(s.k), false), s.k)
	}
	var v int64
	if t.Info()&types.IsUnsigned != 0 {
		u := asUint64(x)
		if u > 0x10FFFF {
			v = 0xFFFD
		} else {
			v = int64(u)
		}
	} else {
		v = asInt64(x)
		if v < 0 || v > 0x10FFFF {
			v = 0xFFFD
		}
	}
	// return in the same dynamic type as x
	c := smt.NewCtx()
	cv, _ := concreteOf(c.BVC(kwidth(kindOf(x)), uint64(v)), kindOf(x))
	return cv
}

// symIndexAddr returns &base[idx] for symbolic idx with bounds check.
func (fr *frame) symIndexAddr(base []value, idx sym, instr *ssa.IndexAddr) value {
	c := idx.t.C
	w := c.Resize(idx.t, 64, ksigned(idx.k))
	inr := c.And(c.SLe(c.BVC(64, 0), w), c.SLt(w, c.BVC(64, uint64(len(base)))))
	if !fr.truth(mkval(inr, types.Bool)) {
		panic(fmt.Sprintf("runtime error: index out of range [symbolic] with length %d", len(base)))
	}
	var et types.Type
	switch t := instr.X.Type().Underlying().(type) {
	case *types.Slice:
		et = t.Elem()
	case *types.Pointer:
		et = t.Elem().Underlying().(*types.Array).Elem()
	}
	if k, ok := isScalarType(et); ok && len(base) <= 1024 {
		if len(base) == 1 {
			return &base[0]
		}
		return symptr{base: base, idx: w, k: k}
	}
	i := fr.i.ps.concretize(w)
	return &base[i]
}

// symIndex returns x[idx] for array or string x and symbolic idx.
func (fr *frame) symIndex(x value, idx sym) value {
	var elems []value
	var k types.BasicKind = types.Uint8
	scalar := true
	switch x := x.(type) {
	case array:
		elems = x
		if len(x) > 0 {
			switch x[0].(type) {
			case sym:
				k = x[0].(sym).k
			case structure, array, iface, *value, []value, string, symString, *gmap, *closure, *ssa.Function:
				scalar = false
			default:
				k = kindOf(x[0])
			}
		}
	case string, symString:
		elems = strBytes(x)
	default:
		panic(fmt.Sprintf("unexpected x type in Index: %T", x))
	}
	c := idx.t.C
	w := c.Resize(idx.t, 64, ksigned(idx.k))
	inr := c.And(c.SLe(c.BVC(64, 0), w), c.SLt(w, c.BVC(64, uint64(len(elems)))))
	if !fr.truth(mkval(inr, types.Bool)) {
		panic(fmt.Sprintf("runtime error: index out of range [symbolic] with length %d", len(elems)))
	}
	if !scalar || len(elems) > 1024 {
		i := fr.i.ps.concretize(w)
		return elems[i]
	}
	return symptr{base: elems, idx: w, k: k}.load(fr)
}

// fmtObs renders an observed concrete value canonically (the native harness
// runtime uses the same format).
func fmtObs(v value) string {
	switch v := v.(type) {
	case bool:
		return fmt.Sprint(v)
	case int, int8, int16, int32, int64:
		return fmt.Sprintf("%d", asInt64(v))
	case uint, uint8, uint16, uint32, uint64, uintptr:
		return fmt.Sprintf("%d", asUint64(v))
	case float64:
		return fmt.Sprintf("f%#x", math.Float64bits(v))
	case float32:
		return fmt.Sprintf("f%#x", math.Float32bits(v))
	case string:
		return fmt.Sprintf("%q", v)
	case nil:
		return "nil"
	}
	return fmt.Sprintf("<%T>", v)
}

// logLoad records the cells read by a load of type T (only while the write log is on).
func (fr *frame) logLoad(T types.Type, addr *value) {
	ps := fr.i.ps
	if ps == nil || !ps.logWrites || addr == nil {
		return
	}
	switch T := T.Underlying().(type) {
	case *types.Struct:
		if v, ok := (*addr).(structure); ok {
			for i := range v {
				fr.logLoad(T.Field(i).Type(), &v[i])
			}
		}
	case *types.Array:
		if v, ok := (*addr).(array); ok {
			for i := range v {
				fr.logLoad(T.Elem(), &v[i])
			}
		}
	default:
		ps.accSeq++
		var o *value
		if n := len(ps.onceStack); n > 0 {
			o = ps.onceStack[n-1]
		}
		ps.reads = append(ps.reads, readRec{addr, ps.accSeq, o})
	}
}
