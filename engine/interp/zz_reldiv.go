package interp

// Opt-in relational encoding of integer division/remainder by a constant.
//
// After a harness calls zzRelDiv(true), `x / c` and `x % c` with symbolic x and
// a concrete constant c (|c| >= 3, not a power of two) are not emitted as
// bvsdiv/bvsrem/bvudiv/bvurem (whose divider circuit makes equivalence queries
// against multiplications by c intractable at 64 bits) but through two
// uninterpreted function symbols per constant magnitude m = |c|,
//
//	qu = divq_m(a), ru = divr_m(a)      a = |x| as an unsigned w-bit number
//
// constrained, at each application, by the defining property of division
//
//	a == qu*m + ru,  ru <u m,  qu <=u (2^w-1)/m,  qu*m <=u a   (no wrap-around)
//
// which has exactly one solution (qu, ru) for every a (the true quotient and
// remainder), so adding the constraints to the path condition neither prunes nor
// adds behaviours: the encoding is exact. Signed (Go: truncated) division is
// q = ±qu (negative iff x and c have different signs), r = ±ru (sign of x) in
// two's complement, which is also what SMT-LIB defines bvsdiv/bvsrem to be and
// agrees with Go for x = MinInt. Using function applications rather than fresh
// variables gives equal dividends equal quotients by congruence.
// (File name sorts after zz.go so that zzExternals exists when init runs.)

import (
	"fmt"
	"go/token"
	"go/types"
	"math/bits"

	"verif/engine/smt"
)

type relDivKey struct {
	a *smt.Term
	m uint64
}

type relDivQR struct{ q, r *smt.Term }

func init() {
	// zzSameF64(a, b): a and b are the same float64 value (a == b, or both NaN).
	// Decided syntactically (concrete true) when both are the identical term, so
	// that mirror-form checks of float results never send fp.div to the solver.
	zzExternals["zzSameF64"] = func(fr *frame, args []value) value {
		sa, aok := args[0].(sym)
		sb, bok := args[1].(sym)
		if aok && bok && sa.t == sb.t {
			return true
		}
		if !aok && !bok {
			x, y := args[0].(float64), args[1].(float64)
			return x == y || (x != x && y != y)
		}
		c := ctxOf(args[0], args[1])
		ta, tb := termOf(c, args[0]), termOf(c, args[1])
		return mkval(c.Or(c.FpCmp(smt.OFpEq, ta, tb), c.And(c.FpPred(smt.OFpIsNaN, ta), c.FpPred(smt.OFpIsNaN, tb))), types.Bool)
	}
	zzExternals["zzRelDivMode"] = func(fr *frame, args []value) value {
		// 0 off; 1 signed relation x == q*c + r directly; 2 via magnitudes; 3 both (linked)
		fr.i.ps.params["!reldiv"] = int(fr.asInt64(args[0]))
		fr.i.ps.res.Assumes["integer division by constants encoded relationally (exact)"] = true
		return nil
	}
	zzExternals["zzRelDiv"] = func(fr *frame, args []value) value {
		ps := fr.i.ps
		if args[0].(bool) {
			ps.params["!reldiv"] = 3
			ps.res.Assumes["integer division by constants encoded relationally (|x| == q*|c| + r, r < |c|; exact)"] = true
		} else {
			ps.params["!reldiv"] = 0
		}
		return nil
	}
}

// relDivConst returns the value of x op y (op is QUO or REM) in relational
// form when the encoding is enabled and applicable.
func relDivConst(fr *frame, op token.Token, x, y value) (value, bool) {
	ps := fr.i.ps
	if ps == nil || ps.params["!reldiv"] == 0 {
		return nil, false
	}
	mode := ps.params["!reldiv"]
	sx, ok := x.(sym)
	if !ok || isSym(y) || kfloat(sx.k) {
		return nil, false
	}
	switch y.(type) {
	case int, int8, int16, int32, int64, uint, uint8, uint16, uint32, uint64, uintptr:
	default:
		return nil, false
	}
	k := sx.k
	w := kwidth(k)
	c := sx.t.C
	cv := termOf(c, y)
	if cv.Op != smt.OConst {
		return nil, false
	}
	sg := ksigned(k)
	yv := cv.Val // w-bit pattern
	mag := yv
	yneg := false
	if sg {
		s := int64(yv<<uint(64-w)) >> uint(64-w)
		if s < 0 {
			yneg = true
			mag = uint64(-s)
		}
	}
	if mag < 3 || bits.OnesCount64(mag) == 1 {
		return nil, false
	}
	zero := c.BVC(w, 0)
	a := sx.t
	xneg := c.False()
	if sg {
		xneg = c.SLt(sx.t, zero)
		// |−u| and |u| are the same unsigned number for every u (also the minimum):
		// take the magnitude of the un-negated term so that x and −x share it.
		u := sx.t
		for u.Op == smt.OBvNeg {
			u = u.Args[0]
		}
		a = c.Ite(c.SLt(u, zero), c.BvNeg(u), u)
	}
	if ps.relDiv == nil {
		ps.relDiv = map[relDivKey]relDivQR{}
	}
	key := relDivKey{a, mag}
	qr, ok := ps.relDiv[key]
	if !ok && !(sg && mode == 1) {
		sfx := fmt.Sprintf("%d_%d", w, mag)
		q := c.App("divq_"+sfx, smt.BV(w), a)
		r := c.App("divr_"+sfx, smt.BV(w), a)
		m := c.BVC(w, mag)
		var all uint64 = ^uint64(0)
		if w < 64 {
			all = uint64(1)<<uint(w) - 1
		}
		qm := c.BvMul(q, m)
		ps.assume(c.Eq(a, c.BvAdd(qm, r)))
		ps.assume(c.ULt(r, m))
		ps.assume(c.ULe(q, c.BVC(w, all/mag)))
		ps.assume(c.ULe(qm, a))
		qr = relDivQR{q, r}
		ps.relDiv[key] = qr
	}
	if sg && mode != 2 {
		return relDivSigned(ps, op, sx, cv, mag, yneg, qr, mode), true
	}
	if op == token.QUO {
		q := qr.q
		if sg {
			qneg := xneg
			if yneg {
				qneg = c.Not(xneg)
			}
			q = c.Ite(qneg, c.BvNeg(q), q)
		}
		return mkval(q, k), true
	}
	r := qr.r
	if sg {
		r = c.Ite(xneg, c.BvNeg(r), r)
	}
	return mkval(r, k), true
}

// relDivSigned: q = sdivq_c(x), r = sdivr_c(x) with x == q*c + r, |r| < |c|,
// r has the sign of x or is 0, |q| <= (2^(w-1)-1)/|c| (unique solution: truncated
// division). In mode 3 additionally linked to the magnitude form.
func relDivSigned(ps *pathState, op token.Token, sx sym, cv *smt.Term, mag uint64, yneg bool, mq relDivQR, mode int) value {
	c := sx.t.C
	k := sx.k
	w := kwidth(k)
	if ps.relDivS == nil {
		ps.relDivS = map[relDivKey]relDivQR{}
	}
	key := relDivKey{sx.t, cv.Val}
	qr, ok := ps.relDivS[key]
	if !ok {
		sfx := fmt.Sprintf("%d_%d", w, cv.Val)
		q := c.App("sdivq_"+sfx, smt.BV(w), sx.t)
		r := c.App("sdivr_"+sfx, smt.BV(w), sx.t)
		zero := c.BVC(w, 0)
		m := c.BVC(w, mag)
		lim := c.BVC(w, (uint64(1)<<uint(w-1)-1)/mag)
		ps.assume(c.Eq(sx.t, c.BvAdd(c.BvMul(q, cv), r)))
		ps.assume(c.SLt(r, m))
		ps.assume(c.SLt(c.BvNeg(m), r))
		ps.assume(c.SLe(q, lim))
		ps.assume(c.SLe(c.BvNeg(lim), q))
		ps.assume(c.Implies(c.SLe(zero, sx.t), c.SLe(zero, r)))
		ps.assume(c.Implies(c.SLe(sx.t, zero), c.SLe(r, zero)))
		if mode == 3 {
			xneg := c.SLt(sx.t, zero)
			qneg := xneg
			if yneg {
				qneg = c.Not(xneg)
			}
			ps.assume(c.Eq(q, c.Ite(qneg, c.BvNeg(mq.q), mq.q)))
			ps.assume(c.Eq(r, c.Ite(xneg, c.BvNeg(mq.r), mq.r)))
		}
		qr = relDivQR{q, r}
		ps.relDivS[key] = qr
	}
	if op == token.QUO {
		return mkval(qr.q, k)
	}
	return mkval(qr.r, k)
}
