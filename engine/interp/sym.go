package interp

// Symbolic scalar values and symbolic-byte strings.

import (
	"fmt"
	"go/token"
	"go/types"
	"math"
	"unsafe"

	"verif/engine/smt"
)

// sym is a scalar whose value is an SMT term. k is the Go basic kind:
// Bool (Bool-sorted term), an integer kind (BV of that width), Float64/Float32 (FP sort).
type sym struct {
	t *smt.Term
	k types.BasicKind
}

// symString is a string of concrete length whose bytes may be symbolic
// (each element is a uint8 or a sym of kind Uint8).
type symString []value

func isSym(v value) bool {
	switch v.(type) {
	case sym, symString:
		return true
	}
	return false
}

func kwidth(k types.BasicKind) int {
	switch k {
	case types.Int8, types.Uint8:
		return 8
	case types.Int16, types.Uint16:
		return 16
	case types.Int32, types.Uint32, types.Float32:
		return 32
	case types.Int, types.Int64, types.Uint, types.Uint64, types.Uintptr, types.Float64:
		return 64
	case types.Bool:
		return 1
	}
	panic(fmt.Sprintf("kwidth: unexpected kind %v", k))
}

func ksigned(k types.BasicKind) bool {
	switch k {
	case types.Int, types.Int8, types.Int16, types.Int32, types.Int64:
		return true
	}
	return false
}

func kfloat(k types.BasicKind) bool { return k == types.Float64 || k == types.Float32 }

func kindOfType(t types.Type) types.BasicKind {
	b, ok := t.Underlying().(*types.Basic)
	if !ok {
		panic(fmt.Sprintf("kindOfType: not basic: %v", t))
	}
	k := b.Kind()
	switch k {
	case types.UntypedBool:
		return types.Bool
	case types.UntypedInt:
		return types.Int
	case types.UntypedRune:
		return types.Int32
	case types.UntypedFloat:
		return types.Float64
	}
	return k
}

// kindOf returns the basic kind of a concrete or symbolic scalar.
func kindOf(v value) types.BasicKind {
	switch v := v.(type) {
	case sym:
		return v.k
	case bool:
		return types.Bool
	case int:
		return types.Int
	case int8:
		return types.Int8
	case int16:
		return types.Int16
	case int32:
		return types.Int32
	case int64:
		return types.Int64
	case uint:
		return types.Uint
	case uint8:
		return types.Uint8
	case uint16:
		return types.Uint16
	case uint32:
		return types.Uint32
	case uint64:
		return types.Uint64
	case uintptr:
		return types.Uintptr
	case float32:
		return types.Float32
	case float64:
		return types.Float64
	}
	panic(fmt.Sprintf("kindOf: not a scalar: %T", v))
}

func fpSort(k types.BasicKind) smt.Sort {
	if k == types.Float32 {
		return smt.FP32
	}
	return smt.FP64
}

// termOf converts a scalar (concrete or symbolic) to a term in ctx c.
func termOf(c *smt.Ctx, v value) *smt.Term {
	switch v := v.(type) {
	case sym:
		return v.t
	case bool:
		return c.BoolC(v)
	case int:
		return c.BVC(64, uint64(v))
	case int8:
		return c.BVC(8, uint64(v))
	case int16:
		return c.BVC(16, uint64(v))
	case int32:
		return c.BVC(32, uint64(v))
	case int64:
		return c.BVC(64, uint64(v))
	case uint:
		return c.BVC(64, uint64(v))
	case uint8:
		return c.BVC(8, uint64(v))
	case uint16:
		return c.BVC(16, uint64(v))
	case uint32:
		return c.BVC(32, uint64(v))
	case uint64:
		return c.BVC(64, v)
	case uintptr:
		return c.BVC(64, uint64(v))
	case float32:
		return c.FpConst(smt.FP32, uint64(math.Float32bits(v)))
	case float64:
		return c.FpConst(smt.FP64, math.Float64bits(v))
	}
	panic(fmt.Sprintf("termOf: not a scalar: %T", v))
}

// concreteOf turns a constant term back into a Go-typed value of kind k.
func concreteOf(t *smt.Term, k types.BasicKind) (value, bool) {
	switch t.Op {
	case smt.OConst:
		v := t.Val
		switch k {
		case types.Bool:
			return v == 1, true
		case types.Int:
			return int(v), true
		case types.Int8:
			return int8(v), true
		case types.Int16:
			return int16(v), true
		case types.Int32:
			return int32(v), true
		case types.Int64:
			return int64(v), true
		case types.Uint:
			return uint(v), true
		case types.Uint8:
			return uint8(v), true
		case types.Uint16:
			return uint16(v), true
		case types.Uint32:
			return uint32(v), true
		case types.Uint64:
			return uint64(v), true
		case types.Uintptr:
			return uintptr(v), true
		}
	case smt.OFpConst:
		switch k {
		case types.Float64:
			return math.Float64frombits(t.Val), true
		case types.Float32:
			return math.Float32frombits(uint32(t.Val)), true
		}
	}
	return nil, false
}

// mkval wraps a term as a value of kind k, concretising constants.
func mkval(t *smt.Term, k types.BasicKind) value {
	if v, ok := concreteOf(t, k); ok {
		return v
	}
	return sym{t, k}
}

func ctxOf(vs ...value) *smt.Ctx {
	for _, v := range vs {
		switch v := v.(type) {
		case sym:
			return v.t.C
		case symString:
			for _, b := range v {
				if s, ok := b.(sym); ok {
					return s.t.C
				}
			}
		}
	}
	panic("ctxOf: no symbolic operand")
}

// shiftAmount converts shift count y (any integer kind) to a term of width w,
// saturating at w.
func shiftAmount(c *smt.Ctx, y value, w int) *smt.Term {
	ty := termOf(c, y)
	yw := ty.Sort.W
	if yw == w {
		return ty
	}
	if yw < w {
		return c.ZeroExt(w-yw, ty)
	}
	// yw > w: saturate
	big := c.ULe(c.BVC(yw, uint64(w)), ty)
	return c.Ite(big, c.BVC(w, uint64(w)), c.Extract(w-1, 0, ty))
}

func symBinop(op token.Token, x, y value) value {
	if _, ok := x.(symString); ok {
		return symStringBinop(op, x, y)
	}
	if _, ok := y.(symString); ok {
		return symStringBinop(op, x, y)
	}
	if _, ok := x.(string); ok {
		return symStringBinop(op, x, y)
	}
	c := ctxOf(x, y)
	k := kindOf(x)
	tx := termOf(c, x)
	if op == token.SHL || op == token.SHR {
		w := kwidth(k)
		sh := shiftAmount(c, y, w)
		switch {
		case op == token.SHL:
			return mkval(c.BvShl(tx, sh), k)
		case ksigned(k):
			return mkval(c.BvAShr(tx, sh), k)
		default:
			return mkval(c.BvLShr(tx, sh), k)
		}
	}
	ty := termOf(c, y)
	if k == types.Bool {
		switch op {
		case token.EQL:
			return mkval(c.Eq(tx, ty), types.Bool)
		case token.NEQ:
			return mkval(c.Not(c.Eq(tx, ty)), types.Bool)
		}
		panic(fmt.Sprintf("symBinop: bad bool op %v", op))
	}
	if kfloat(k) {
		switch op {
		case token.ADD:
			return mkval(c.FpBin(smt.OFpAdd, tx, ty), k)
		case token.SUB:
			return mkval(c.FpBin(smt.OFpSub, tx, ty), k)
		case token.MUL:
			return mkval(c.FpBin(smt.OFpMul, tx, ty), k)
		case token.QUO:
			return mkval(c.FpBin(smt.OFpDiv, tx, ty), k)
		case token.LSS:
			return mkval(c.FpCmp(smt.OFpLt, tx, ty), types.Bool)
		case token.LEQ:
			return mkval(c.FpCmp(smt.OFpLe, tx, ty), types.Bool)
		case token.GTR:
			return mkval(c.FpCmp(smt.OFpLt, ty, tx), types.Bool)
		case token.GEQ:
			return mkval(c.FpCmp(smt.OFpLe, ty, tx), types.Bool)
		case token.EQL:
			return mkval(c.FpCmp(smt.OFpEq, tx, ty), types.Bool)
		case token.NEQ:
			return mkval(c.Not(c.FpCmp(smt.OFpEq, tx, ty)), types.Bool)
		}
		panic(fmt.Sprintf("symBinop: bad float op %v", op))
	}
	sg := ksigned(k)
	switch op {
	case token.ADD:
		return mkval(c.BvAdd(tx, ty), k)
	case token.SUB:
		return mkval(c.BvSub(tx, ty), k)
	case token.MUL:
		return mkval(c.BvMul(tx, ty), k)
	case token.QUO:
		if sg {
			return mkval(c.BvSDiv(tx, ty), k)
		}
		return mkval(c.BvUDiv(tx, ty), k)
	case token.REM:
		if sg {
			return mkval(c.BvSRem(tx, ty), k)
		}
		return mkval(c.BvURem(tx, ty), k)
	case token.AND:
		return mkval(c.BvAnd(tx, ty), k)
	case token.OR:
		return mkval(c.BvOr(tx, ty), k)
	case token.XOR:
		return mkval(c.BvXor(tx, ty), k)
	case token.AND_NOT:
		return mkval(c.BvAnd(tx, c.BvNot(ty)), k)
	case token.EQL:
		return mkval(c.Eq(tx, ty), types.Bool)
	case token.NEQ:
		return mkval(c.Not(c.Eq(tx, ty)), types.Bool)
	case token.LSS:
		if sg {
			return mkval(c.SLt(tx, ty), types.Bool)
		}
		return mkval(c.ULt(tx, ty), types.Bool)
	case token.LEQ:
		if sg {
			return mkval(c.SLe(tx, ty), types.Bool)
		}
		return mkval(c.ULe(tx, ty), types.Bool)
	case token.GTR:
		if sg {
			return mkval(c.SLt(ty, tx), types.Bool)
		}
		return mkval(c.ULt(ty, tx), types.Bool)
	case token.GEQ:
		if sg {
			return mkval(c.SLe(ty, tx), types.Bool)
		}
		return mkval(c.ULe(ty, tx), types.Bool)
	}
	panic(fmt.Sprintf("symBinop: bad op %v", op))
}

func symUnop(op token.Token, x sym) value {
	c := x.t.C
	switch op {
	case token.NOT:
		return mkval(c.Not(x.t), types.Bool)
	case token.SUB:
		if kfloat(x.k) {
			return mkval(c.FpUn(smt.OFpNeg, x.t), x.k)
		}
		return mkval(c.BvNeg(x.t), x.k)
	case token.XOR:
		return mkval(c.BvNot(x.t), x.k)
	}
	panic(fmt.Sprintf("symUnop: bad op %v", op))
}

// symConvScalar converts symbolic scalar x to basic kind dst.
func symConvScalar(dst types.BasicKind, x sym) value {
	c := x.t.C
	src := x.k
	if src == dst {
		return x
	}
	switch {
	case !kfloat(src) && !kfloat(dst):
		return mkval(c.Resize(x.t, kwidth(dst), ksigned(src)), dst)
	case !kfloat(src) && kfloat(dst):
		return mkval(c.FpFromBV(fpSort(dst), x.t, ksigned(src)), dst)
	case kfloat(src) && kfloat(dst):
		return mkval(c.FpToFp(fpSort(dst), x.t), dst)
	default: // float -> int. amd64 semantics: out-of-range yields the "integer indefinite" value.
		w := kwidth(dst)
		cw := w
		if cw < 32 {
			cw = 32
		}
		f := x.t
		if src == types.Float32 {
			f = c.FpToFp(smt.FP64, f)
		}
		if ksigned(dst) || cw < 64 {
			// convert through a signed cw-bit (or 64-bit for uint32) integer
			if !ksigned(dst) && cw == 32 {
				cw = 64
			}
			lo := c.FpConst(smt.FP64, math.Float64bits(-math.Ldexp(1, cw-1)))
			hi := c.FpConst(smt.FP64, math.Float64bits(math.Ldexp(1, cw-1)))
			tr := c.FpUn(smt.OFpRoundRTZ, f)
			inr := c.And(c.FpCmp(smt.OFpLe, lo, tr), c.FpCmp(smt.OFpLt, tr, hi))
			conv := c.FpToBV(cw, f, true)
			indef := c.BVC(cw, uint64(1)<<uint(cw-1))
			r := c.Ite(inr, conv, indef)
			return mkval(c.Resize(r, w, true), dst)
		}
		// uint64/uint/uintptr: Go on amd64: if f < 2^63 use signed conversion, else subtract 2^63.
		two63 := c.FpConst(smt.FP64, math.Float64bits(math.Ldexp(1, 63)))
		small := c.FpCmp(smt.OFpLt, f, two63)
		lo := c.FpConst(smt.FP64, math.Float64bits(-math.Ldexp(1, 63)))
		tr := c.FpUn(smt.OFpRoundRTZ, f)
		inr := c.And(c.FpCmp(smt.OFpLe, lo, tr), c.FpCmp(smt.OFpLt, tr, two63))
		indef := c.BVC(64, uint64(1)<<63)
		a := c.Ite(inr, c.FpToBV(64, f, true), indef)
		f2 := c.FpBin(smt.OFpSub, f, two63)
		tr2 := c.FpUn(smt.OFpRoundRTZ, f2)
		inr2 := c.And(c.FpCmp(smt.OFpLe, lo, tr2), c.FpCmp(smt.OFpLt, tr2, two63))
		b := c.BvXor(c.Ite(inr2, c.FpToBV(64, f2, true), indef), indef)
		return mkval(c.Ite(small, a, b), dst)
	}
}

// symEq returns the (possibly symbolic) boolean x == y for scalars/strings.
func symEq(x, y value) value {
	return symBinop(token.EQL, x, y)
}

// ---- strings ----

func strBytes(v value) []value {
	switch v := v.(type) {
	case string:
		b := make([]value, len(v))
		for i := 0; i < len(v); i++ {
			b[i] = v[i]
		}
		return b
	case symString:
		return []value(v)
	}
	panic(fmt.Sprintf("strBytes: not a string: %T", v))
}

// mkString builds a string value from bytes, concrete if all bytes are.
func mkString(b []value) value {
	conc := make([]byte, len(b))
	for i, x := range b {
		c, ok := x.(uint8)
		if !ok {
			cp := make(symString, len(b))
			copy(cp, b)
			return cp
		}
		conc[i] = c
	}
	return string(conc)
}

func strLen(v value) int {
	switch v := v.(type) {
	case string:
		return len(v)
	case symString:
		return len(v)
	}
	panic(fmt.Sprintf("strLen: not a string: %T", v))
}

func isString(v value) bool {
	switch v.(type) {
	case string, symString:
		return true
	}
	return false
}

func symStringBinop(op token.Token, x, y value) value {
	bx, by := strBytes(x), strBytes(y)
	if op == token.ADD {
		r := make([]value, 0, len(bx)+len(by))
		r = append(r, bx...)
		r = append(r, by...)
		return mkString(r)
	}
	c := ctxOf(x, y)
	switch op {
	case token.EQL, token.NEQ:
		var eq *smt.Term
		if len(bx) != len(by) {
			eq = c.False()
		} else {
			eq = c.True()
			for i := range bx {
				eq = c.And(eq, c.Eq(termOf(c, bx[i]), termOf(c, by[i])))
			}
		}
		if op == token.NEQ {
			eq = c.Not(eq)
		}
		return mkval(eq, types.Bool)
	case token.LSS, token.LEQ, token.GTR, token.GEQ:
		if op == token.GTR || op == token.GEQ {
			bx, by = by, bx
		}
		// lt/le(bx, by) lexicographic, built from the end
		n := len(bx)
		if len(by) < n {
			n = len(by)
		}
		var tail *smt.Term
		if op == token.LSS || op == token.GTR {
			tail = c.BoolC(len(bx) < len(by))
		} else {
			tail = c.BoolC(len(bx) <= len(by))
		}
		for i := n - 1; i >= 0; i-- {
			a, b := termOf(c, bx[i]), termOf(c, by[i])
			tail = c.Ite(c.Eq(a, b), tail, c.ULt(a, b))
		}
		return mkval(tail, types.Bool)
	}
	panic(fmt.Sprintf("symStringBinop: bad op %v", op))
}

var _ = unsafe.Pointer(nil)
