package interp

// sort.Slice / sort.SliceStable: the real ones go through internal/reflectlite
// (Swapper, ValueOf), which the engine does not model. Modelled as a stable
// insertion sort that calls the target's less closure (forking on symbolic
// comparisons). For slices without equal elements the result equals that of
// any correct sort; with equal elements sort.Slice's order is unspecified and
// the stable order is one of the permitted outcomes.

import (
	"go/token"
)

func init() {
	externals["sort.Slice"] = extSortSlice
	externals["sort.SliceStable"] = extSortSlice
}

func extSortSlice(fr *frame, args []value) value {
	itf, ok := args[0].(iface)
	if !ok {
		fr.i.ps.abort("abort", "sort.Slice: unexpected argument representation")
	}
	x, ok := itf.v.([]value)
	if !ok {
		fr.i.ps.abort("abort", "sort.Slice: argument is not a slice")
	}
	less := args[1]
	for i := 1; i < len(x); i++ {
		for j := i; j > 0; j-- {
			if !fr.truth(call(fr.i, fr, token.NoPos, less, []value{j, j - 1})) {
				break
			}
			a, b := x[j], x[j-1]
			fr.storeRaw(&x[j], b)
			fr.storeRaw(&x[j-1], a)
		}
	}
	return nil
}
