package interp

// Decimal rendering of symbolic integers is opaque: strconv.FormatInt/Itoa/FormatUint/
// AppendInt and (*big.Int).Text/String/Append on a symbolic value return the placeholder
// "<symint>" (digit strings of symbolic numbers are outside every claim: the real code
// divides repeatedly by powers of ten, which costs minutes of solver time per path).
// Concrete arguments run the real code.

import "maps"

const symIntText = "<symint>"

func init() {
	maps.Copy(externals, map[string]externalFn{
		"strconv.FormatInt": func(fr *frame, args []value) value {
			if isSym(args[0]) && !fr.i.ps.exactItoa {
				fr.i.ps.res.Assumes["decimal rendering of symbolic integers is opaque (placeholder text)"] = true
				return symIntText
			}
			return execBody(fr, args)
		},
		"strconv.FormatUint": func(fr *frame, args []value) value {
			if isSym(args[0]) && !fr.i.ps.exactItoa {
				fr.i.ps.res.Assumes["decimal rendering of symbolic integers is opaque (placeholder text)"] = true
				return symIntText
			}
			return execBody(fr, args)
		},
		"strconv.Itoa": func(fr *frame, args []value) value {
			if isSym(args[0]) && !fr.i.ps.exactItoa {
				fr.i.ps.res.Assumes["decimal rendering of symbolic integers is opaque (placeholder text)"] = true
				return symIntText
			}
			return execBody(fr, args)
		},
		"strconv.AppendInt": func(fr *frame, args []value) value {
			if isSym(args[1]) && !fr.i.ps.exactItoa {
				fr.i.ps.res.Assumes["decimal rendering of symbolic integers is opaque (placeholder text)"] = true
				return fr.appendValues(args[0].([]value), strBytes(symIntText))
			}
			return execBody(fr, args)
		},
		"(*math/big.Int).Text":   extBigText,
		"(*math/big.Int).String": extBigText,
	})
}

func extBigText(fr *frame, args []value) value {
	p, ok := args[0].(*value)
	if ok && p != nil {
		neg, limbs := bigParts(args[0])
		if (isSym(neg) || anySym(limbs...)) && !fr.i.ps.exactItoa {
			fr.i.ps.res.Assumes["decimal rendering of symbolic integers is opaque (placeholder text)"] = true
			return symIntText
		}
	}
	return execBody(fr, args)
}
