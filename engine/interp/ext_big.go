package interp

// math/bits intrinsics and a contract model of (*big.Int).QuoRem for symbolic
// single-limb operands (concrete operands run the real pure-Go math/big).

import (
	"go/types"
	"maps"

	"verif/engine/smt"
)

func init() {
	maps.Copy(externals, map[string]externalFn{
		"math/bits.Mul64": extMul64,
		"math/bits.Mul":   extMul64,
		"math/bits.Add64": extAdd64,
		"math/bits.Add":   extAdd64,
		"math/bits.Sub64": extSub64,
		"math/bits.Sub":   extSub64,
		"(*math/big.Int).QuoRem": extBigQuoRem,
	})
}

func anySym(args ...value) bool {
	for _, a := range args {
		if isSym(a) {
			return true
		}
	}
	return false
}

func kindLike(v value) types.BasicKind {
	if isSym(v) {
		return v.(sym).k
	}
	return kindOf(v)
}

func extMul64(fr *frame, args []value) value {
	if !anySym(args...) {
		return execBody(fr, args)
	}
	c := ctxOf(args...)
	k := kindLike(args[0])
	x, y := c.ZeroExt(64, termOf(c, args[0])), c.ZeroExt(64, termOf(c, args[1]))
	p := c.BvMul(x, y)
	return tuple{mkval(c.Extract(127, 64, p), k), mkval(c.Extract(63, 0, p), k)}
}

func extAdd64(fr *frame, args []value) value {
	if !anySym(args...) {
		return execBody(fr, args)
	}
	c := ctxOf(args...)
	k := kindLike(args[0])
	x, y, ci := c.ZeroExt(1, termOf(c, args[0])), c.ZeroExt(1, termOf(c, args[1])), c.ZeroExt(1, termOf(c, args[2]))
	s := c.BvAdd(c.BvAdd(x, y), ci)
	return tuple{mkval(c.Extract(63, 0, s), k), mkval(c.ZeroExt(63, c.Extract(64, 64, s)), k)}
}

func extSub64(fr *frame, args []value) value {
	if !anySym(args...) {
		return execBody(fr, args)
	}
	c := ctxOf(args...)
	k := kindLike(args[0])
	x, y, bi := c.ZeroExt(1, termOf(c, args[0])), c.ZeroExt(1, termOf(c, args[1])), c.ZeroExt(1, termOf(c, args[2]))
	d := c.BvSub(c.BvSub(x, y), bi)
	return tuple{mkval(c.Extract(63, 0, d), k), mkval(c.ZeroExt(63, c.Extract(64, 64, d)), k)}
}

// bigParts reads a *big.Int value: (neg, limbs).
func bigParts(p value) (value, []value) {
	st := (*p.(*value)).(structure)
	limbs, _ := st[1].([]value)
	return st[0], limbs
}

func extBigQuoRem(fr *frame, args []value) value {
	// func (z *Int) QuoRem(x, y, r *Int) (*Int, *Int)
	xneg, xl := bigParts(args[1])
	yneg, yl := bigParts(args[2])
	if !anySym(xneg, yneg) && !anySym(xl...) && !anySym(yl...) {
		return execBody(fr, args)
	}
	ps := fr.i.ps
	if len(xl) > 1 || len(yl) > 1 {
		ps.abort("abort", "outside bound: big.Int.QuoRem model handles symbolic operands of at most one limb")
	}
	ps.res.Assumes["math/big QuoRem on symbolic single-limb operands is modelled by its contract (truncated division via bvudiv/bvurem)"] = true
	if len(yl) == 0 {
		panic(targetPanic{iface{types.Typ[types.String], "division by zero"}})
	}
	c := ps.ctx
	wk := kindLike(yl[0])
	var mx *smt.Term
	if len(xl) == 0 {
		mx = c.BVC(64, 0)
	} else {
		mx = termOf(c, xl[0])
	}
	my := termOf(c, yl[0])
	q, r := c.BvUDiv(mx, my), c.BvURem(mx, my)
	setBig := func(dst value, mag *smt.Term, neg value) {
		st := (*dst.(*value)).(structure)
		if fr.truth(mkval(c.Eq(mag, c.BVC(64, 0)), types.Bool)) {
			fr.storeRaw(&st[1], []value(nil))
			fr.storeRaw(&st[0], false)
			return
		}
		fr.storeRaw(&st[1], []value{mkval(mag, wk)})
		fr.storeRaw(&st[0], neg)
	}
	qneg := vNot(equals(types.Typ[types.Bool], xneg, yneg))
	setBig(args[0], q, qneg)
	setBig(args[3], r, xneg)
	return tuple{args[0], args[3]}
}
