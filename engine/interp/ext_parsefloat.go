package interp

// strconv.ParseFloat on symbolic text (used by lib/json decode, C18).
//
// Accept/reject is decided by the target's own scanner: the real
// internal/strconv.special and internal/strconv.readFloat are executed
// symbolically on the text (pure byte scanning), then the two remaining
// conditions of ParseFloat are modelled exactly:
//   - the whole text was consumed (n == len(s));
//   - no overflow: mantissa * 10^exp < 2^1024 - 2^970 (the round-to-nearest-even
//     threshold of float64), decided on the symbolic (mantissa, exp) pair.
// The returned value is opaque: a fresh finite float64 with the scanned sign
// (exactly +-0 when the mantissa is zero). Hexadecimal, truncated (> 19 digit)
// mantissas and inf/nan spellings abort the path as unsupported.

import (
	"go/token"
	"go/types"
	"math"
	"math/big"

	"verif/engine/smt"
)

func extParseFloatSym(fr *frame, args []value) value {
	ps := fr.i.ps
	if fr.asInt64(args[1]) != 64 {
		ps.abort("abort", "unsupported: strconv.ParseFloat(bitSize != 64) on symbolic text")
	}
	s := args[0]
	ps.res.Assumes["strconv.ParseFloat on symbolic text: real scanner (special, readFloat) + exact range test; value opaque"] = true
	pkg := "internal/strconv"
	if fr.i.prog.ImportedPackage(pkg) == nil || fr.i.prog.ImportedPackage(pkg).Func("readFloat") == nil {
		pkg = "strconv" // older toolchains
	}
	syntaxErr := func() value {
		return tuple{float64(0), fr.newError("strconv.ParseFloat: parsing <symbolic>: invalid syntax")}
	}
	sp := callSSA(fr.i, fr, token.NoPos, fr.targetFunc(pkg, "special"), []value{s}, nil).(tuple)
	if fr.truth(sp[2]) {
		ps.abort("abort", "unsupported: strconv.ParseFloat inf/nan spelling in symbolic text")
	}
	r := callSSA(fr.i, fr, token.NoPos, fr.targetFunc(pkg, "readFloat"), []value{s}, nil).(tuple)
	mant, exp, neg, trunc, hex, n, ok := r[0], r[1], r[2], r[3], r[4], r[5], r[6]
	if !fr.truth(ok) {
		return syntaxErr()
	}
	if fr.asInt64(n) != int64(strLen(s)) {
		return syntaxErr()
	}
	if fr.truth(hex) {
		ps.abort("abort", "unsupported: strconv.ParseFloat hexadecimal symbolic text")
	}
	if fr.truth(trunc) {
		ps.abort("abort", "unsupported: strconv.ParseFloat symbolic mantissa longer than 19 digits")
	}
	negative := fr.truth(neg)
	if fr.truth(binop(token.EQL, types.Typ[types.Uint64], mant, uint64(0))) {
		if negative {
			return tuple{math.Copysign(0, -1), iface{}}
		}
		return tuple{float64(0), iface{}}
	}
	overflow := false
	if !fr.truth(binop(token.LEQ, types.Typ[types.Int], exp, int(288))) {
		// mantissa < 2^64 < 1.9e19, so exp <= 288 cannot reach 1.79e308
		if fr.truth(binop(token.GEQ, types.Typ[types.Int], exp, int(309))) {
			overflow = true
		} else {
			e := fr.asInt64(exp) // 289..308
			// threshold T = 2^1024 - 2^970; overflow iff mant * 10^e >= T iff mant >= ceil(T / 10^e)
			T := new(big.Int).Lsh(big.NewInt(1), 1024)
			T.Sub(T, new(big.Int).Lsh(big.NewInt(1), 970))
			p := new(big.Int).Exp(big.NewInt(10), big.NewInt(e), nil)
			q, m := new(big.Int).QuoRem(T, p, new(big.Int))
			if m.Sign() != 0 {
				q.Add(q, big.NewInt(1))
			}
			if !q.IsUint64() {
				overflow = false
			} else {
				overflow = fr.truth(binop(token.GEQ, types.Typ[types.Uint64], mant, q.Uint64()))
			}
		}
	}
	if overflow {
		inf := math.Inf(1)
		if negative {
			inf = math.Inf(-1)
		}
		return tuple{inf, fr.newError("strconv.ParseFloat: parsing <symbolic>: value out of range")}
	}
	c := ps.ctx
	b := ps.fresh("pf", smt.BV(64))
	ft := c.FpOfBV(smt.FP64, b)
	ps.assume(c.Not(c.FpPred(smt.OFpIsNaN, ft)))
	ps.assume(c.Not(c.FpPred(smt.OFpIsInf, ft)))
	ps.assume(c.Eq(c.FpPred(smt.OFpIsNeg, ft), c.BoolC(negative)))
	return tuple{mkval(ft, types.Float64), iface{}}
}
