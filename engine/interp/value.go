// Copyright 2013 The Go Authors. All rights reserved.
// Use of this source code is governed by a BSD-style
// license that can be found in the LICENSE file.

package interp

// Values
//
// All interpreter values are "boxed" in the empty interface, value.
// The range of possible dynamic types within value are:
//
// - bool
// - numbers (all built-in int/float/complex types are distinguished)
// - string
// - map[value]value --- maps for which  usesBuiltinMap(keyType)
//   *hashmap        --- maps for which !usesBuiltinMap(keyType)
// - chan value
// - []value --- slices
// - iface --- interfaces.
// - structure --- structs.  Fields are ordered and accessed by numeric indices.
// - array --- arrays.
// - *value --- pointers.  Careful: *value is a distinct type from *array etc.
// - *ssa.Function \
//   *ssa.Builtin   } --- functions.  A nil 'func' is always of type *ssa.Function.
//   *closure      /
// - tuple --- as returned by Return, Next, "value,ok" modes, etc.
// - iter --- iterators from 'range' over map or string.
// - bad --- a poison pill for locals that have gone out of scope.
// - rtype -- the interpreter's concrete implementation of reflect.Type
// - **deferred -- the address of a frame's defer stack for a Defer._Stack.
//
// Note that nil is not on this list.
//
// Pay close attention to whether or not the dynamic type is a pointer.
// The compiler cannot help you since value is an empty interface.

import (
	"bytes"
	"fmt"
	"go/types"
	"unsafe"

	"golang.org/x/tools/go/ssa"
)

type value any

type tuple []value

type array []value

type iface struct {
	t types.Type // never an "untyped" type
	v value
}

type structure []value

// For map, array, *array, slice, string or channel.
type iter interface {
	// next returns a Tuple (key, value, ok).
	// key and value are unaliased, e.g. copies of the sequence element.
	next() tuple
}

type closure struct {
	Fn  *ssa.Function
	Env []value
}

type bad struct{}

type rtype struct {
	t types.Type
}

// Equivalence relation (results may be symbolic).

// vAnd returns the conjunction of two boolean values (bool or sym).
func vAnd(a, b value) value {
	if ab, ok := a.(bool); ok {
		if !ab {
			return false
		}
		return b
	}
	if bb, ok := b.(bool); ok {
		if !bb {
			return false
		}
		return a
	}
	c := ctxOf(a, b)
	return mkval(c.And(termOf(c, a), termOf(c, b)), types.Bool)
}

func vOr(a, b value) value {
	return vNot(vAnd(vNot(a), vNot(b)))
}

func vNot(a value) value {
	if ab, ok := a.(bool); ok {
		return !ab
	}
	s := a.(sym)
	return mkval(s.t.C.Not(s.t), types.Bool)
}

// nil-tolerant variant of types.Identical.
func sameType(x, y types.Type) bool {
	if x == nil {
		return y == nil
	}
	return y != nil && types.Identical(x, y)
}

func ptrAddrValue(v value) (value, bool) {
	switch v := v.(type) {
	case rawaddr:
		return v.a, true
	}
	return nil, false
}

// equals returns x == y according to Go's equivalence relation for type t,
// as a bool or a symbolic bool.
func equals(t types.Type, x, y value) value {
	if isSym(x) || isSym(y) {
		if _, ok := x.(symptr); !ok {
			return symEq(x, y)
		}
	}
	switch x := x.(type) {
	case bool:
		return x == y.(bool)
	case int:
		return x == y.(int)
	case int8:
		return x == y.(int8)
	case int16:
		return x == y.(int16)
	case int32:
		return x == y.(int32)
	case int64:
		return x == y.(int64)
	case uint:
		return x == y.(uint)
	case uint8:
		return x == y.(uint8)
	case uint16:
		return x == y.(uint16)
	case uint32:
		return x == y.(uint32)
	case uint64:
		return x == y.(uint64)
	case uintptr:
		return x == y.(uintptr)
	case float32:
		return x == y.(float32)
	case float64:
		return x == y.(float64)
	case complex64:
		return x == y.(complex64)
	case complex128:
		return x == y.(complex128)
	case string:
		return x == y.(string)
	case *value:
		return x == y.(*value)
	case unsafe.Pointer:
		switch y := y.(type) {
		case unsafe.Pointer:
			return x == y
		case rawaddr:
			return false // a raw address never equals a live object pointer in this model unless mapped
		}
	case rawaddr:
		switch y := y.(type) {
		case rawaddr:
			return equals(types.Typ[types.Uintptr], x.a, y.a)
		case unsafe.Pointer:
			return false
		}
	case chan value:
		return x == y.(chan value)
	case structure:
		y := y.(structure)
		tStruct := t.Underlying().(*types.Struct)
		var r value = true
		for i, n := 0, tStruct.NumFields(); i < n; i++ {
			if f := tStruct.Field(i); f.Name() != "_" {
				r = vAnd(r, equals(f.Type(), x[i], y[i]))
				if r == false {
					return false
				}
			}
		}
		return r
	case array:
		y := y.(array)
		tElt := t.Underlying().(*types.Array).Elem()
		var r value = true
		for i, xi := range x {
			r = vAnd(r, equals(tElt, xi, y[i]))
			if r == false {
				return false
			}
		}
		return r
	case iface:
		y := y.(iface)
		if !sameType(x.t, y.t) {
			return false
		}
		if x.t == nil {
			return true
		}
		return equals(x.t, x.v, y.v)
	case rtype:
		return types.Identical(x.t, y.(rtype).t)
	}

	// Since map, func and slice don't support comparison, this
	// case is only reachable if one of x or y is literally nil
	// (handled in eqnil) or via interface{} values.
	panic(fmt.Sprintf("comparing uncomparable type %s", t))
}

// reflect.Value struct values don't have a fixed shape, since the
// payload can be a scalar or an aggregate depending on the instance.
// So store (and load) can't simply use recursion over the shape of the
// rhs value, or the lhs, to copy the value; we need the static type
// information.  (We can't make reflect.Value a new basic data type
// because its "structness" is exposed to Go programs.)

// load returns the value of type T in *addr.
func load(T types.Type, addr *value) value {
	switch T := T.Underlying().(type) {
	case *types.Struct:
		v := (*addr).(structure)
		a := make(structure, len(v))
		for i := range a {
			a[i] = load(T.Field(i).Type(), &v[i])
		}
		return a
	case *types.Array:
		v := (*addr).(array)
		a := make(array, len(v))
		for i := range a {
			a[i] = load(T.Elem(), &v[i])
		}
		return a
	default:
		return *addr
	}
}

// store stores value v of type T into *addr.
func store(T types.Type, addr *value, v value) {
	switch T := T.Underlying().(type) {
	case *types.Struct:
		lhs := (*addr).(structure)
		rhs := v.(structure)
		for i := range lhs {
			store(T.Field(i).Type(), &lhs[i], rhs[i])
		}
	case *types.Array:
		lhs := (*addr).(array)
		rhs := v.(array)
		for i := range lhs {
			store(T.Elem(), &lhs[i], rhs[i])
		}
	default:
		*addr = v
	}
}

// Prints in the style of built-in println.
// (More or less; in gc println is actually a compiler intrinsic and
// can distinguish println(1) from println(interface{}(1)).)
func writeValue(buf *bytes.Buffer, v value) {
	switch v := v.(type) {
	case nil, bool, int, int8, int16, int32, int64, uint, uint8, uint16, uint32, uint64, uintptr, float32, float64, complex64, complex128, string:
		fmt.Fprintf(buf, "%v", v)

	case *gmap:
		buf.WriteString("map[")
		if v != nil {
			for i, e := range v.ents {
				if i > 0 {
					buf.WriteString(" ")
				}
				writeValue(buf, e.key)
				buf.WriteString(":")
				writeValue(buf, e.val)
			}
		}
		buf.WriteString("]")

	case sym:
		fmt.Fprintf(buf, "<sym %v>", v.k)

	case symString:
		fmt.Fprintf(buf, "<symstring len %d>", len(v))

	case chan value:
		fmt.Fprintf(buf, "%v", v) // (an address)

	case *value:
		if v == nil {
			buf.WriteString("<nil>")
		} else {
			fmt.Fprintf(buf, "%p", v)
		}

	case iface:
		fmt.Fprintf(buf, "(%s, ", v.t)
		writeValue(buf, v.v)
		buf.WriteString(")")

	case structure:
		buf.WriteString("{")
		for i, e := range v {
			if i > 0 {
				buf.WriteString(" ")
			}
			writeValue(buf, e)
		}
		buf.WriteString("}")

	case array:
		buf.WriteString("[")
		for i, e := range v {
			if i > 0 {
				buf.WriteString(" ")
			}
			writeValue(buf, e)
		}
		buf.WriteString("]")

	case []value:
		buf.WriteString("[")
		for i, e := range v {
			if i > 0 {
				buf.WriteString(" ")
			}
			writeValue(buf, e)
		}
		buf.WriteString("]")

	case *ssa.Function, *ssa.Builtin, *closure:
		fmt.Fprintf(buf, "%p", v) // (an address)

	case rtype:
		buf.WriteString(v.t.String())

	case tuple:
		// Unreachable in well-formed Go programs
		buf.WriteString("(")
		for i, e := range v {
			if i > 0 {
				buf.WriteString(", ")
			}
			writeValue(buf, e)
		}
		buf.WriteString(")")

	default:
		fmt.Fprintf(buf, "<%T>", v)
	}
}

// Implements printing of Go values in the style of built-in println.
func toString(v value) string {
	var b bytes.Buffer
	writeValue(&b, v)
	return b.String()
}

// ------------------------------------------------------------------------
// Iterators

// stringIter iterates over the runes of a (possibly symbolic) string by calling
// the target program's own unicode/utf8.DecodeRuneInString.
type stringIter struct {
	fr *frame
	s  value
	i  int
}

func (it *stringIter) next() tuple {
	n := strLen(it.s)
	if it.i >= n {
		return tuple{false, nil, nil}
	}
	rest := slice(it.fr, it.s, it.i, nil, nil)
	r, sz := it.fr.decodeRune(rest)
	okv := tuple{true, it.i, r}
	it.i += sz
	return okv
}
