// Copyright 2013 The Go Authors. All rights reserved.
// Use of this source code is governed by a BSD-style
// license that can be found in the LICENSE file.

// Package ssa/interp defines an interpreter for the SSA
// representation of Go programs.
//
// This interpreter is provided as an adjunct for testing the SSA
// construction algorithm.  Its purpose is to provide a minimal
// metacircular implementation of the dynamic semantics of each SSA
// instruction.  It is not, and will never be, a production-quality Go
// interpreter.
//
// The following is a partial list of Go features that are currently
// unsupported or incomplete in the interpreter.
//
// * Unsafe operations, including all uses of unsafe.Pointer, are
// impossible to support given the "boxed" value representation we
// have chosen.
//
// * The reflect package is only partially implemented.
//
// * The "testing" package is no longer supported because it
// depends on low-level details that change too often.
//
// * "sync/atomic" operations are not atomic due to the "boxed" value
// representation: it is not possible to read, modify and write an
// interface value atomically. As a consequence, Mutexes are currently
// broken.
//
// * recover is only partially implemented.  Also, the interpreter
// makes no attempt to distinguish target panics from interpreter
// crashes.
//
// * the sizes of the int, uint and uintptr types in the target
// program are assumed to be the same as those of the interpreter
// itself.
//
// * all values occupy space, even those of types defined by the spec
// to have zero size, e.g. struct{}.  This can cause asymptotic
// performance degradation.
//
// * os.Exit is implemented using panic, causing deferred functions to
// run.
package interp // import "golang.org/x/tools/go/ssa/interp"

import (
	"fmt"
	"go/token"
	"go/types"
	"log"
	"os"
	"runtime"
	"runtime/debug"
	"slices"
	_ "unsafe"

	"golang.org/x/tools/go/ssa"
)

type continuation int

const (
	kNext continuation = iota
	kReturn
	kJump
)

// Mode is a bitmask of options affecting the interpreter.
type Mode uint

const (
	DisableRecover Mode = 1 << iota // Disable recover() in target programs; show interpreter crash instead.
	EnableTracing                   // Print a trace of all instructions as they are interpreted.
)

type methodSet map[string]*ssa.Function

// State shared between all interpreted goroutines.
type interpreter struct {
	osArgs             []value                // the value of os.Args
	prog               *ssa.Program           // the SSA program
	globals            map[*ssa.Global]*value // addresses of global variables (immutable)
	mode               Mode                   // interpreter options
	reflectPackage     *ssa.Package           // the fake reflect package
	errorMethods       methodSet              // the method set of reflect.error, which implements the error interface.
	rtypeMethods       methodSet              // the method set of rtype, which implements the reflect.Type interface.
	runtimeErrorString types.Type             // the runtime.errorString type (iff "runtime" is present)
	sizes              types.Sizes            // the effective type-sizing function
	goroutines         int32                  // atomically updated
	methodCache        map[methodKey]*ssa.Function
	ifaceCache         map[ifaceKey]string
	ps                 *pathState             // state of the path being explored
	w                  *Worker
}

type deferred struct {
	fn    value
	args  []value
	instr *ssa.Defer
	tail  *deferred
}

type frame struct {
	i                *interpreter
	caller           *frame
	fn               *ssa.Function
	block, prevBlock *ssa.BasicBlock
	env              map[ssa.Value]value // dynamic values of SSA variables
	locals           []value
	defers           *deferred
	result           value
	symBranches      map[ssa.Instruction]int
	cur              ssa.Instruction
	depth            int
	panicking        bool
	panic            any
	phitemps         []value // temporaries for parallel phi assignment
}

func (fr *frame) get(key ssa.Value) value {
	switch key := key.(type) {
	case nil:
		// Hack; simplifies handling of optional attributes
		// such as ssa.Slice.{Low,High}.
		return nil
	case *ssa.Function, *ssa.Builtin:
		return key
	case *ssa.Const:
		return constValue(key)
	case *ssa.Global:
		if r, ok := fr.i.globals[key]; ok {
			return r
		}
	}
	if r, ok := fr.env[key]; ok {
		return r
	}
	panic(fmt.Sprintf("get: no value for %T: %v", key, key.Name()))
}

// runDefer runs a deferred call d.
// It always returns normally, but may set or clear fr.panic.
func (fr *frame) runDefer(d *deferred) {
	if fr.i.mode&EnableTracing != 0 {
		fmt.Fprintf(os.Stderr, "%s: invoking deferred function call\n",
			fr.i.prog.Fset.Position(d.instr.Pos()))
	}
	var ok bool
	defer func() {
		if !ok {
			// Deferred call created a new state of panic.
			fr.panicking = true
			fr.panic = recover()
		}
	}()
	call(fr.i, fr, d.instr.Pos(), d.fn, d.args)
	ok = true
}

// runDefers executes fr's deferred function calls in LIFO order.
//
// On entry, fr.panicking indicates a state of panic; if
// true, fr.panic contains the panic value.
//
// On completion, if a deferred call started a panic, or if no
// deferred call recovered from a previous state of panic, then
// runDefers itself panics after the last deferred call has run.
//
// If there was no initial state of panic, or it was recovered from,
// runDefers returns normally.
func (fr *frame) runDefers() {
	for d := fr.defers; d != nil; d = d.tail {
		fr.runDefer(d)
	}
	fr.defers = nil
	if fr.panicking {
		panic(fr.panic) // new panic, or still panicking
	}
}

// lookupMethod returns the method set for type typ, which may be one
// of the interpreter's fake types.
func lookupMethod(i *interpreter, typ types.Type, meth *types.Func) *ssa.Function {
	switch typ {
	case rtypeType:
		return i.rtypeMethods[meth.Id()]
	case errorType:
		return i.errorMethods[meth.Id()]
	}
	// per-interpreter cache: ssa.Program.LookupMethod takes a program-wide mutex, which
	// serialises the workers
	k := methodKey{typ, meth}
	if f, ok := i.methodCache[k]; ok {
		return f
	}
	f := i.prog.LookupMethod(typ, meth.Pkg(), meth.Name())
	if i.methodCache == nil {
		i.methodCache = map[methodKey]*ssa.Function{}
	}
	i.methodCache[k] = f
	return f
}

type methodKey struct {
	t types.Type
	m *types.Func
}

type ifaceKey struct {
	itype *types.Interface
	dyn   types.Type
}

// visitInstr interprets a single ssa.Instruction within the activation
// record frame.  It returns a continuation value indicating where to
// read the next instruction from.
func visitInstr(fr *frame, instr ssa.Instruction) continuation {
	ps := fr.i.ps
	ps.instrs++
	if ps.instrs > ps.lim.MaxInstrs {
		ps.abort("unwind", "instruction budget exhausted")
	}
	switch instr := instr.(type) {
	case *ssa.DebugRef:
		// no-op

	case *ssa.UnOp:
		fr.env[instr] = unop(fr, instr, fr.get(instr.X))

	case *ssa.BinOp:
		x, y := fr.get(instr.X), fr.get(instr.Y)
		switch instr.Op {
		case token.QUO, token.REM:
			if sy, ok := y.(sym); ok && !kfloat(sy.k) {
				c := sy.t.C
				if fr.truth(mkval(c.Eq(sy.t, c.BVC(kwidth(sy.k), 0)), types.Bool)) {
					panic("runtime error: integer divide by zero")
				}
			}
			if v, ok := relDivConst(fr, instr.Op, x, y); ok { // opt-in, see zz_reldiv.go
				fr.env[instr] = v
				return kNext
			}
		case token.SHL, token.SHR:
			if sy, ok := y.(sym); ok && ksigned(sy.k) {
				c := sy.t.C
				if fr.truth(mkval(c.SLt(sy.t, c.BVC(kwidth(sy.k), 0)), types.Bool)) {
					panic("runtime error: negative shift amount")
				}
			}
		}
		if ps.ovfWatch && (instr.Op == token.ADD || instr.Op == token.SUB || instr.Op == token.MUL) {
			ps.watchOverflow(fr, instr.Op, x, y)
		}
		fr.env[instr] = binop(instr.Op, instr.X.Type(), x, y)

	case *ssa.Call:
		fn, args := prepareCall(fr, &instr.Call)
		fr.env[instr] = call(fr.i, fr, instr.Pos(), fn, args)

	case *ssa.ChangeInterface:
		fr.env[instr] = fr.get(instr.X)

	case *ssa.ChangeType:
		fr.env[instr] = fr.get(instr.X) // (can't fail)

	case *ssa.Convert:
		if ps.ovfWatch {
			ps.watchTruncation(fr, instr.Type(), fr.get(instr.X))
		}
		fr.env[instr] = conv(fr, instr.Type(), instr.X.Type(), fr.get(instr.X))

	case *ssa.SliceToArrayPointer:
		fr.env[instr] = sliceToArrayPointer(instr.Type(), instr.X.Type(), fr.get(instr.X))

	case *ssa.MakeInterface:
		fr.env[instr] = iface{t: instr.X.Type(), v: fr.get(instr.X)}

	case *ssa.Extract:
		fr.env[instr] = fr.get(instr.Tuple).(tuple)[instr.Index]

	case *ssa.Slice:
		x := fr.get(instr.X)
		if sp, ok := x.(symptr); ok {
			x = fr.ptr(sp)
		}
		fr.env[instr] = slice(fr, x, fr.get(instr.Low), fr.get(instr.High), fr.get(instr.Max))

	case *ssa.Return:
		switch len(instr.Results) {
		case 0:
		case 1:
			fr.result = fr.get(instr.Results[0])
		default:
			var res []value
			for _, r := range instr.Results {
				res = append(res, fr.get(r))
			}
			fr.result = tuple(res)
		}
		fr.block = nil
		return kReturn

	case *ssa.RunDefers:
		fr.runDefers()

	case *ssa.Panic:
		panic(targetPanic{fr.get(instr.X)})

	case *ssa.Send:
		ps.abort("abort", "unsupported: channel send")

	case *ssa.Store:
		addr := fr.get(instr.Addr)
		if sp, ok := addr.(symptr); ok {
			sp.store(fr, fr.get(instr.Val))
		} else {
			fr.store(typeparams.MustDeref(instr.Addr.Type()), addr.(*value), fr.get(instr.Val))
		}

	case *ssa.If:
		succ := 1
		cond := fr.get(instr.Cond)
		var taken bool
		if sc, ok := cond.(sym); ok {
			if fr.symBranches == nil {
				fr.symBranches = make(map[ssa.Instruction]int)
			}
			fr.symBranches[instr]++
			if fr.symBranches[instr] > ps.lim.Unwind {
				ps.abort("unwind", fmt.Sprintf("unwinding bound %d exceeded at %s", ps.lim.Unwind, fr.i.prog.Fset.Position(instr.Pos())))
			}
			taken = ps.branch(sc.t)
		} else {
			taken = cond.(bool)
		}
		if taken {
			succ = 0
		}
		fr.prevBlock, fr.block = fr.block, fr.block.Succs[succ]
		return kJump

	case *ssa.Jump:
		fr.prevBlock, fr.block = fr.block, fr.block.Succs[0]
		return kJump

	case *ssa.Defer:
		fn, args := prepareCall(fr, &instr.Call)
		defers := &fr.defers
		if into := fr.get(instr.DeferStack); into != nil {
			defers = into.(**deferred)
		}
		*defers = &deferred{
			fn:    fn,
			args:  args,
			instr: instr,
			tail:  *defers,
		}

	case *ssa.Go:
		ps.abort("abort", "unsupported: go statement")

	case *ssa.MakeChan:
		fr.env[instr] = make(chan value, fr.asInt64(fr.get(instr.Size)))

	case *ssa.Alloc:
		var addr *value
		if instr.Heap {
			// new
			addr = new(value)
			fr.env[instr] = addr
		} else {
			// local
			addr = fr.env[instr].(*value)
		}
		*addr = zero(typeparams.MustDeref(instr.Type()))

	case *ssa.MakeSlice:
		esz := fr.i.sizes.Sizeof(instr.Type().Underlying().(*types.Slice).Elem())
		n := fr.makeLenSized(fr.get(instr.Len), esz)
		cp := n
		if instr.Cap != instr.Len {
			cp = fr.makeLenSized(fr.get(instr.Cap), esz)
			if n > cp {
				panic("runtime error: makeslice: cap out of range")
			}
		}
		slice := make([]value, cp)
		tElt := instr.Type().Underlying().(*types.Slice).Elem()
		for i := range slice {
			slice[i] = zero(tElt)
		}
		fr.env[instr] = slice[:n]

	case *ssa.MakeMap:
		fr.env[instr] = makeMap(instr.Type().Underlying().(*types.Map).Key(), 0)

	case *ssa.Range:
		fr.env[instr] = rangeIter(fr, fr.get(instr.X))

	case *ssa.Next:
		fr.env[instr] = fr.get(instr.Iter).(iter).next()

	case *ssa.FieldAddr:
		fr.env[instr] = &(*fr.ptr(fr.get(instr.X))).(structure)[instr.Field]

	case *ssa.Field:
		fr.env[instr] = fr.get(instr.X).(structure)[instr.Field]

	case *ssa.IndexAddr:
		x := fr.get(instr.X)
		idx := fr.get(instr.Index)
		var base []value
		switch x := x.(type) {
		case []value:
			base = x
		case *value: // *array
			base = (*x).(array)
		case symptr:
			base = (*fr.ptr(x)).(array)
		default:
			panic(fmt.Sprintf("unexpected x type in IndexAddr: %T", x))
		}
		if si, ok := idx.(sym); ok {
			fr.env[instr] = fr.symIndexAddr(base, si, instr)
		} else {
			fr.env[instr] = &base[asInt64(idx)]
		}

	case *ssa.Index:
		x := fr.get(instr.X)
		idx := fr.get(instr.Index)
		if si, ok := idx.(sym); ok {
			fr.env[instr] = fr.symIndex(x, si)
			break
		}
		switch x := x.(type) {
		case array:
			fr.env[instr] = x[asInt64(idx)]
		case string:
			fr.env[instr] = x[asInt64(idx)]
		case symString:
			fr.env[instr] = x[asInt64(idx)]
		default:
			panic(fmt.Sprintf("unexpected x type in Index: %T", x))
		}

	case *ssa.Lookup:
		fr.env[instr] = lookup(fr, instr, fr.get(instr.X), fr.get(instr.Index))

	case *ssa.MapUpdate:
		m := fr.get(instr.Map)
		key := fr.get(instr.Key)
		v := fr.get(instr.Value)
		switch m := m.(type) {
		case *gmap:
			m.insert(fr, key, v)
		default:
			panic(fmt.Sprintf("illegal map type: %T", m))
		}

	case *ssa.TypeAssert:
		fr.env[instr] = typeAssert(fr.i, instr, fr.get(instr.X).(iface))

	case *ssa.MakeClosure:
		var bindings []value
		for _, binding := range instr.Bindings {
			bindings = append(bindings, fr.get(binding))
		}
		fr.env[instr] = &closure{instr.Fn.(*ssa.Function), bindings}

	case *ssa.Phi:
		log.Fatal("unreachable") // phis are processed at block entry

	case *ssa.Select:
		ps.abort("abort", "unsupported: select")

	default:
		panic(fmt.Sprintf("unexpected instruction: %T", instr))
	}

	return kNext
}

// prepareCall determines the function value and argument values for a
// function call in a Call, Go or Defer instruction, performing
// interface method lookup if needed.
func prepareCall(fr *frame, call *ssa.CallCommon) (fn value, args []value) {
	v := fr.get(call.Value)
	if call.Method == nil {
		// Function call.
		fn = v
	} else {
		// Interface method invocation.
		recv := v.(iface)
		if recv.t == nil {
			panic("method invoked on nil interface")
		}
		if f := lookupMethod(fr.i, recv.t, call.Method); f == nil {
			// Unreachable in well-typed programs.
			panic(fmt.Sprintf("method set for dynamic type %v does not contain %s", recv.t, call.Method))
		} else {
			fn = f
		}
		args = append(args, recv.v)
	}
	for _, arg := range call.Args {
		args = append(args, fr.get(arg))
	}
	return
}

// call interprets a call to a function (function, builtin or closure)
// fn with arguments args, returning its result.
// callpos is the position of the callsite.
func call(i *interpreter, caller *frame, callpos token.Pos, fn value, args []value) value {
	switch fn := fn.(type) {
	case *ssa.Function:
		if fn == nil {
			panic("call of nil function") // nil of func type
		}
		return callSSA(i, caller, callpos, fn, args, nil)
	case *closure:
		return callSSA(i, caller, callpos, fn.Fn, args, fn.Env)
	case *ssa.Builtin:
		return callBuiltin(caller, fn, args)
	}
	panic(fmt.Sprintf("cannot call %T", fn))
}

func loc(fset *token.FileSet, pos token.Pos) string {
	if pos == token.NoPos {
		return ""
	}
	return " at " + fset.Position(pos).String()
}

// callSSA interprets a call to function fn with arguments args,
// and lexical environment env, returning its result.
// callpos is the position of the callsite.
func callSSA(i *interpreter, caller *frame, callpos token.Pos, fn *ssa.Function, args []value, env []value) value {
	if i.mode&EnableTracing != 0 {
		fset := fn.Prog.Fset
		fmt.Fprintf(os.Stderr, "Entering %s%s.\n", fn, loc(fset, fn.Pos()))
		suffix := ""
		if caller != nil {
			suffix = ", resuming " + caller.fn.String() + loc(fset, callpos)
		}
		defer fmt.Fprintf(os.Stderr, "Leaving %s%s.\n", fn, suffix)
	}
	fr := &frame{
		i:      i,
		caller: caller, // for panic/recover
		fn:     fn,
	}
	if caller != nil {
		fr.depth = caller.depth + 1
		if fr.depth > i.ps.lim.MaxDepth {
			panic(fatalPanic{"stack overflow (call depth exceeds " + fmt.Sprint(i.ps.lim.MaxDepth) + ")"})
		}
	}
	if fn.Parent() == nil {
		if ext := i.w.prog.extFor(fn); ext != nil {
			if i.mode&EnableTracing != 0 {
				fmt.Fprintln(os.Stderr, "\t(external)")
			}
			return ext(fr, args)
		}
	}
	return execSSA(i, fr, fn, args, env)
}

// execBody runs the real SSA body of fr.fn (used by externals that only
// intercept symbolic arguments and otherwise defer to the real code).
func execBody(fr *frame, args []value) value {
	return execSSA(fr.i, fr, fr.fn, args, nil)
}

func execSSA(i *interpreter, fr *frame, fn *ssa.Function, args []value, env []value) value {
	if fn.Blocks == nil {
		i.ps.abort("abort", "no code for function: "+fn.String())
	}
	if i.ps.res != nil && fn.Pkg != nil && i.w.prog.isTarget(fn.Pkg) {
		i.ps.res.Funcs[fn.String()] = true
	}

	// generic function body?
	if fn.TypeParams().Len() > 0 && len(fn.TypeArgs()) == 0 {
		panic("interp requires ssa.BuilderMode to include InstantiateGenerics to execute generics")
	}

	fr.env = make(map[ssa.Value]value)
	fr.block = fn.Blocks[0]
	fr.locals = make([]value, len(fn.Locals))
	for i, l := range fn.Locals {
		fr.locals[i] = zero(typeparams.MustDeref(l.Type()))
		fr.env[l] = &fr.locals[i]
	}
	for i, p := range fn.Params {
		fr.env[p] = args[i]
	}
	for i, fv := range fn.FreeVars {
		fr.env[fv] = env[i]
	}
	for fr.block != nil {
		runFrame(fr)
	}
	return fr.result
}

// runFrame executes SSA instructions starting at fr.block and
// continuing until a return, a panic, or a recovered panic.
func runFrame(fr *frame) {
	defer func() {
		if fr.block == nil {
			return // normal return
		}
		if fr.i.mode&DisableRecover != 0 {
			return // let interpreter crash
		}
		fr.panicking = true
		fr.panic = recover()
		switch fr.panic.(type) {
		case abortPath, fatalPanic:
			// not observable by the target program: no deferred calls run
			panic(fr.panic)
		}
		if isEnginePanic(fr.panic) {
			where := fr.fn.String()
			if fr.cur != nil {
				where += " at " + fr.i.prog.Fset.Position(fr.cur.Pos()).String() + " instr " + fr.cur.String()
			}
			chain := ""
			for f, n := fr.caller, 0; f != nil && n < 12; f, n = f.caller, n+1 {
				chain += " <- " + f.fn.String()
			}
			panic(abortPath{"abort", "engine: " + panicMessage(fr.panic) + " in " + where + chain + "\n" + string(debug.Stack())})
		}
		if fr.i.mode&EnableTracing != 0 {
			fmt.Fprintf(os.Stderr, "Panicking: %T %v.\n", fr.panic, fr.panic)
		}
		fr.runDefers()
		fr.block = fr.fn.Recover
	}()

	for {
		if fr.i.mode&EnableTracing != 0 {
			fmt.Fprintf(os.Stderr, ".%s:\n", fr.block)
		}

		nonPhis := executePhis(fr)
		for _, instr := range nonPhis {
			if fr.i.mode&EnableTracing != 0 {
				if v, ok := instr.(ssa.Value); ok {
					fmt.Fprintln(os.Stderr, "\t", v.Name(), "=", instr)
				} else {
					fmt.Fprintln(os.Stderr, "\t", instr)
				}
			}
			fr.cur = instr
			if visitInstr(fr, instr) == kReturn {
				return
			}
			// Inv: kNext (continue) or kJump (last instr)
		}
	}
}

// executePhis executes the phi-nodes at the start of the current
// block and returns the non-phi instructions.
func executePhis(fr *frame) []ssa.Instruction {
	firstNonPhi := -1
	for i, instr := range fr.block.Instrs {
		if _, ok := instr.(*ssa.Phi); !ok {
			firstNonPhi = i
			break
		}
	}
	// Inv: 0 <= firstNonPhi; every block contains a non-phi.

	nonPhis := fr.block.Instrs[firstNonPhi:]
	if firstNonPhi > 0 {
		phis := fr.block.Instrs[:firstNonPhi]
		predIndex := slices.Index(fr.block.Preds, fr.prevBlock)
		fr.phitemps = fr.phitemps[:0]
		for _, phi := range phis {
			phi := phi.(*ssa.Phi)
			fr.phitemps = append(fr.phitemps, fr.get(phi.Edges[predIndex]))
		}
		for i, phi := range phis {
			fr.env[phi.(*ssa.Phi)] = fr.phitemps[i]
		}
	}
	return nonPhis
}

// panicMessage renders a Go-level panic value raised while interpreting.
func panicMessage(p any) string {
	switch p := p.(type) {
	case targetPanic:
		return "panic: " + toString(p.v)
	case runtime.Error:
		return "runtime error: " + p.Error()
	case string:
		return p
	case error:
		return p.Error()
	}
	return fmt.Sprintf("%T %v", p, p)
}

// doRecover implements the recover() built-in.
func doRecover(caller *frame) value {
	// recover() must be exactly one level beneath the deferred
	// function (two levels beneath the panicking function) to
	// have any effect.  Thus we ignore both "defer recover()" and
	// "defer f() -> g() -> recover()".
	if caller.i.mode&DisableRecover == 0 &&
		caller != nil && !caller.panicking &&
		caller.caller != nil && caller.caller.panicking {
		p := caller.caller.panic
		switch p.(type) {
		case abortPath, fatalPanic:
			return iface{}
		}
		caller.caller.panicking = false
		caller.caller.panic = nil

		switch p := p.(type) {
		case targetPanic:
			// The target program explicitly called panic().
			return p.v
		case runtime.Error:
			// The interpreter encountered a runtime error.
			return iface{caller.i.runtimeErrorString, p.Error()}
		case string:
			// The interpreter explicitly called panic().
			return iface{caller.i.runtimeErrorString, p}
		default:
			panic(fmt.Sprintf("unexpected panic type %T in target call to recover()", p))
		}
	}
	return iface{}
}
