package interp

// deepSym reports whether v contains a symbolic scalar or symbolic string,
// following structs, arrays, slices, interfaces and pointers up to the given depth.
// Used by the fmt model: a starlark.Int with symbolic payload is rendered as
// "<sym>" instead of running math/big's Text / strconv.FormatInt on symbolic
// digits (which forks once per digit value and is never what an assertion may
// depend on; see HARNESS_GUIDE rule 5).
func deepSym(v value, depth int) bool {
	if depth < 0 {
		return false
	}
	switch x := v.(type) {
	case sym, symString:
		return true
	case structure:
		for _, e := range x {
			if deepSym(e, depth-1) {
				return true
			}
		}
	case array:
		for _, e := range x {
			if deepSym(e, depth-1) {
				return true
			}
		}
	case []value:
		for _, e := range x {
			if deepSym(e, depth-1) {
				return true
			}
		}
	case iface:
		return deepSym(x.v, depth-1)
	case *value:
		if x != nil {
			return deepSym(*x, depth-1)
		}
	}
	return false
}
