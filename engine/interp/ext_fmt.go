package interp

// A small model of package fmt: enough of Sprintf/Errorf/Fprintf for error
// messages and value printing. Symbolic scalars are rendered as placeholders
// (message *text* involving symbolic numbers is outside every claim).

import (
	"fmt"
	"go/token"
	"go/types"
	"strconv"
	"strings"

	"golang.org/x/tools/go/ssa"
)

func (fr *frame) callMethod(recv iface, name string, args ...value) (value, bool) {
	if recv.t == nil {
		return nil, false
	}
	mset := fr.i.prog.MethodSets.MethodSet(recv.t)
	for i := 0; i < mset.Len(); i++ {
		sel := mset.At(i)
		if sel.Obj().Name() == name {
			fn := fr.i.prog.MethodValue(sel)
			if fn == nil {
				return nil, false
			}
			return call(fr.i, fr, token.NoPos, fn, append([]value{recv.v}, args...)), true
		}
	}
	return nil, false
}

func hasMethod(prog *ssa.Program, t types.Type, name string, nparams int, result string) bool {
	if t == nil {
		return false
	}
	mset := prog.MethodSets.MethodSet(t)
	for i := 0; i < mset.Len(); i++ {
		sel := mset.At(i)
		if sel.Obj().Name() == name {
			sig := sel.Type().(*types.Signature)
			if sig.Params().Len() == nparams && sig.Results().Len() == 1 && sig.Results().At(0).Type().String() == result {
				return true
			}
		}
	}
	return false
}

// fmtOperand renders one operand for the given verb. Returns a string value (string or symString).
func (fr *frame) fmtOperand(verb byte, flags string, arg value) value {
	itf, ok := arg.(iface)
	if !ok {
		itf = iface{t: nil, v: arg}
	}
	if itf.t == nil && ok {
		if verb == 'T' {
			return "<nil>"
		}
		return "<nil>"
	}
	if verb == 'T' {
		return itf.t.String()
	}
	prog := fr.i.prog
	// a symbolic starlark.Int prints as a placeholder (see ext_fmt_symint.go)
	if itf.t != nil && hasMethod(prog, itf.t, "BigInt", 0, "*math/big.Int") && deepHasSym(itf.v, 6) {
		return "<sym>"
	}
	// a big-integer value (starlark.Int) with symbolic payload prints as <sym>
	if itf.t != nil && hasMethod(prog, itf.t, "BigInt", 0, "*math/big.Int") && deepSym(itf.v, 8) {
		return "<sym>"
	}
	// error and Stringer take precedence for %s %v %q
	if verb == 's' || verb == 'v' || verb == 'q' {
		if itf.t != nil {
			if hasMethod(prog, itf.t, "Error", 0, "string") {
				if p, ok := itf.v.(*value); ok && p == nil {
					return "<nil>"
				}
				r, _ := fr.callMethod(itf, "Error")
				return fr.quoteIf(verb, r)
			}
			if hasMethod(prog, itf.t, "String", 0, "string") {
				if p, ok := itf.v.(*value); ok && p == nil {
					if _, isPtr := itf.t.Underlying().(*types.Pointer); isPtr {
						return "<nil>"
					}
				}
				r, _ := fr.callMethod(itf, "String")
				return fr.quoteIf(verb, r)
			}
		}
	}
	// fmt.Formatter with a BigInt method (starlark.Int): render through math/big's Text
	if itf.t != nil && hasMethod(prog, itf.t, "BigInt", 0, "*math/big.Int") {
		base := 0
		switch verb {
		case 'd', 'v', 's':
			base = 10
		case 'x', 'X':
			base = 16
		case 'o':
			base = 8
		case 'b':
			base = 2
		}
		if base != 0 {
			bi, _ := fr.callMethod(itf, "BigInt")
			bt := types.NewPointer(fr.i.prog.ImportedPackage("math/big").Type("Int").Type())
			r, ok := fr.callMethod(iface{t: bt, v: bi}, "Text", base)
			if ok {
				if cs, isStr := r.(string); isStr && verb == 'X' {
					return strings.ToUpper(cs)
				}
				return r
			}
		}
	}
	v := itf.v
	switch x := v.(type) {
	case string:
		switch verb {
		case 'q':
			return strconv.Quote(x)
		case 'x':
			return fmt.Sprintf("%x", x)
		}
		return x
	case symString:
		if verb == 'q' {
			return fr.quoteIf('q', x)
		}
		return x
	case sym:
		return "<sym>"
	case bool:
		return strconv.FormatBool(x)
	case int, int8, int16, int32, int64:
		n := asInt64(x)
		switch verb {
		case 'd', 'v', 's':
			return fmt.Sprintf("%"+flags+"d", n)
		case 'x', 'X', 'o', 'b':
			return fmt.Sprintf("%"+flags+string(verb), n)
		case 'c':
			return string(rune(n))
		case 'q':
			return strconv.QuoteRune(rune(n))
		case 'U':
			return fmt.Sprintf("%"+flags+"U", n)
		}
		return fmt.Sprintf("%d", n)
	case uint, uint8, uint16, uint32, uint64, uintptr:
		n := asUint64(x)
		switch verb {
		case 'd', 'v', 's':
			return fmt.Sprintf("%"+flags+"d", n)
		case 'x', 'X', 'o', 'b':
			return fmt.Sprintf("%"+flags+string(verb), n)
		case 'c':
			return string(rune(n))
		case 'q':
			return strconv.QuoteRune(rune(n))
		case 'U':
			return fmt.Sprintf("%"+flags+"U", n)
		}
		return fmt.Sprintf("%d", n)
	case float64:
		switch verb {
		case 'v':
			return fmt.Sprintf("%v", x)
		case 'g', 'e', 'f', 'G', 'E':
			return fmt.Sprintf("%"+flags+string(verb), x)
		}
		return fmt.Sprintf("%v", x)
	case float32:
		return fmt.Sprintf("%v", x)
	case []value:
		// []byte with %s / %q / %x
		if itf.t != nil {
			if sl, ok := itf.t.Underlying().(*types.Slice); ok {
				if b, ok := sl.Elem().Underlying().(*types.Basic); ok && b.Kind() == types.Uint8 {
					s := mkString(x)
					if verb == 's' || verb == 'q' {
						return fr.quoteIf(verb, s)
					}
				}
			}
		}
		var parts []value
		parts = append(parts, "[")
		for i, e := range x {
			if i > 0 {
				parts = append(parts, " ")
			}
			var et types.Type
			if itf.t != nil {
				if sl, ok := itf.t.Underlying().(*types.Slice); ok {
					et = sl.Elem()
				}
			}
			if ei, ok := e.(iface); ok {
				parts = append(parts, fr.fmtOperand(verb, flags, ei))
			} else {
				parts = append(parts, fr.fmtOperand(verb, flags, iface{t: et, v: e}))
			}
		}
		parts = append(parts, "]")
		return concatStrs(parts)
	case *value:
		if x == nil {
			return "<nil>"
		}
		return "0xc000000000"
	case nil:
		return "<nil>"
	}
	return "<" + fmt.Sprintf("%T", v) + ">"
}

func concatStrs(parts []value) value {
	var r value = ""
	for _, p := range parts {
		r = symStringBinop(token.ADD, r, p)
	}
	return r
}

func (fr *frame) quoteIf(verb byte, s value) value {
	if verb != 'q' {
		return s
	}
	if cs, ok := s.(string); ok {
		return strconv.Quote(cs)
	}
	// symbolic: run the target's strconv.Quote
	f := fr.targetFunc("strconv", "Quote")
	return callSSA(fr.i, fr, token.NoPos, f, []value{s}, nil)
}

// formatf models fmt.Sprintf.
func formatf(fr *frame, format value, args []value) value {
	f, ok := format.(string)
	if !ok {
		fr.i.ps.abort("abort", "unsupported: symbolic format string")
	}
	var parts []value
	argi := 0
	i := 0
	for i < len(f) {
		j := strings.IndexByte(f[i:], '%')
		if j < 0 {
			parts = append(parts, f[i:])
			break
		}
		parts = append(parts, f[i:i+j])
		i += j + 1
		if i >= len(f) {
			parts = append(parts, "%!(NOVERB)")
			break
		}
		// flags, width, precision
		start := i
		for i < len(f) && strings.IndexByte("+-# 0123456789.*", f[i]) >= 0 {
			if f[i] == '*' {
				argi++ // width from args: ignored
			}
			i++
		}
		flags := strings.ReplaceAll(f[start:i], "*", "")
		if i >= len(f) {
			parts = append(parts, "%!(NOVERB)")
			break
		}
		verb := f[i]
		i++
		if verb == '%' {
			parts = append(parts, "%")
			continue
		}
		if argi >= len(args) {
			parts = append(parts, "%!"+string(verb)+"(MISSING)")
			continue
		}
		arg := args[argi]
		argi++
		if verb == 'w' {
			verb = 'v'
		}
		s := fr.fmtOperand(verb, flags, arg)
		// width for strings (only concrete, simple cases)
		if cs, ok := s.(string); ok && flags != "" && (verb == 's' || verb == 'v' || verb == 'q') {
			if w, err := strconv.Atoi(strings.TrimLeft(flags, "-")); err == nil {
				if strings.HasPrefix(flags, "-") {
					s = fmt.Sprintf("%-*s", w, cs)
				} else {
					s = fmt.Sprintf("%*s", w, cs)
				}
			}
		}
		parts = append(parts, s)
	}
	if argi < len(args) {
		parts = append(parts, "%!(EXTRA)")
	}
	return concatStrs(parts)
}

// sprint models fmt.Sprint (spaces between operands when neither is a string) / Sprintln (always).
func sprint(fr *frame, args []value, ln bool) value {
	var parts []value
	prevStr := false
	for i, a := range args {
		isStr := false
		if itf, ok := a.(iface); ok {
			isStr = isString(itf.v) && itf.t != nil && itf.t.Underlying() == types.Typ[types.String]
		}
		if i > 0 && (ln || (!isStr && !prevStr)) {
			parts = append(parts, " ")
		}
		parts = append(parts, fr.fmtOperand('v', "", a))
		prevStr = isStr
	}
	return concatStrs(parts)
}

// fwrite writes s to the io.Writer w by calling its Write method.
func fwrite(fr *frame, w value, s value) value {
	itf := w.(iface)
	// os.Stderr / os.Stdout are not initialised in the engine (package os init is skipped):
	// writes to an *os.File are discarded
	if itf.t != nil && itf.t.String() == "*os.File" {
		return tuple{strLen(s), iface{}}
	}
	b := strBytes(s)
	buf := make([]value, len(b))
	copy(buf, b)
	r, ok := fr.callMethod(itf, "Write", buf)
	if !ok {
		fr.i.ps.abort("abort", "fmt.Fprint*: writer has no Write method")
	}
	return r
}

// errorfOperands: in fmt.Errorf, an operand of a named string type that has a
// String method (starlark.String, Bytes: String() = syntax.Quote) and whose
// bytes are symbolic is rendered as its raw text instead of running the
// quoting code on symbolic bytes (forks per byte class; message text only).
func errorfOperands(fr *frame, vs []value) []value {
	var out []value
	for i, a := range vs {
		itf, ok := a.(iface)
		if !ok || itf.t == nil {
			continue
		}
		ss, isSym := itf.v.(symString)
		if !isSym {
			continue
		}
		if b, isBasic := itf.t.Underlying().(*types.Basic); !isBasic || b.Kind() != types.String {
			continue
		}
		if !hasMethod(fr.i.prog, itf.t, "String", 0, "string") {
			continue
		}
		if out == nil {
			out = append([]value(nil), vs...)
		}
		out[i] = iface{t: types.Typ[types.String], v: ss}
		if fr.i.ps != nil && fr.i.ps.res != nil {
			fr.i.ps.res.Assumes["fmt.Errorf: symbolic starlark String/Bytes operand printed unquoted (message text only)"] = true
		}
	}
	if out == nil {
		return vs
	}
	return out
}

func extErrorf(fr *frame, args []value) value {
	f, _ := args[0].(string)
	msg := formatf(fr, args[0], errorfOperands(fr, args[1].([]value)))
	if i := strings.Index(f, "%w"); i >= 0 {
		// find the operand matching the first %w
		n := 0
		for j := 0; j < i; j++ {
			if f[j] == '%' {
				if j+1 < len(f) && f[j+1] == '%' {
					j++
					continue
				}
				n++
			}
		}
		vs := args[1].([]value)
		if n < len(vs) {
			if e, ok := vs[n].(iface); ok && e.t != nil {
				pkg := fr.i.prog.ImportedPackage("fmt")
				if pkg != nil && pkg.Type("wrapError") != nil {
					t := pkg.Type("wrapError").Type()
					var cell value = structure{msg, e}
					return iface{t: types.NewPointer(t), v: &cell}
				}
			}
		}
	}
	return fr.newError(msg)
}
