package interp

// Exported helpers for the driver.

import (
	"go/ast"
	"sort"
	"strconv"
	"strings"

	"golang.org/x/tools/go/ssa"

	"verif/engine/smt"
)

// Harness describes one harness function and its directives.
type Harness struct {
	Name     string
	Fn       *ssa.Function
	Pkg      string
	Unwind   int
	Concretize int
	MaxDecisions int
	MaxPaths int
	MaxDepth int
	TimeoutMs int
	ThoroughOnly bool
	QuickOnly bool
	Configs  []string
	FreshSolver bool
	ConfigsQuick []string
	Doc      string
}

// Harnesses lists the zzH* functions of the target packages whose name has the given prefix.
func (p *Program) Harnesses(prefix string) []*Harness {
	var hs []*Harness
	for path, pkg := range p.Pkgs {
		if !p.isTarget(pkg) {
			continue
		}
		for name, m := range pkg.Members {
			fn, ok := m.(*ssa.Function)
			if !ok || !strings.HasPrefix(name, prefix) {
				continue
			}
			if fn.Signature.Params().Len() != 0 || fn.Signature.Results().Len() != 0 {
				continue
			}
			h := &Harness{Name: name, Fn: fn, Pkg: path}
			if fd, ok := fn.Syntax().(*ast.FuncDecl); ok && fd.Doc != nil {
				for _, c := range fd.Doc.List {
					t := strings.TrimSpace(strings.TrimPrefix(c.Text, "//"))
					if !strings.HasPrefix(t, "verif:") {
						if h.Doc == "" && t != "" {
							h.Doc = t
						}
						continue
					}
					f := strings.Fields(strings.TrimPrefix(t, "verif:"))
					if len(f) == 0 {
						continue
					}
					arg := 0
					if len(f) > 1 {
						arg, _ = strconv.Atoi(f[1])
					}
					switch f[0] {
					case "unwind":
						h.Unwind = arg
					case "concretize":
						h.Concretize = arg
					case "decisions":
						h.MaxDecisions = arg
					case "maxpaths":
						h.MaxPaths = arg
					case "depth":
						h.MaxDepth = arg
					case "timeout":
						h.TimeoutMs = arg
					case "thorough":
						h.ThoroughOnly = true
					case "quickonly":
						h.QuickOnly = true
					case "config":
						h.Configs = f[1:]
					case "configq":
						h.ConfigsQuick = f[1:]
					case "solver":
						h.FreshSolver = len(f) > 1 && f[1] == "fresh"
					}
				}
			}
			hs = append(hs, h)
		}
	}
	sort.Slice(hs, func(i, j int) bool { return hs[i].Name < hs[j].Name })
	return hs
}

// EnableCross starts a second solver used to re-decide discharged assertions.
func (w *Worker) EnableCross(kind string, timeoutMs int) {
	w.Cross = smt.NewSolver(kind, timeoutMs, 0)
}

func (w *Worker) CrossStats() (checked, disagree int) { return w.CrossChecked, w.CrossDisagree }

func (w *Worker) Fallbacks() int { return w.Sol.NFallback }

func (w *Worker) BytesSent() int64 { return w.Sol.BytesSent }

func (w *Worker) SolverStats() (sat, unsat, unknown, errors int, secs float64, lastErr string) {
	s := w.Sol
	return s.NSat, s.NUnsat, s.NUnknown, s.NErrors, s.SolverTime.Seconds(), s.LastError
}
