package interp

// Program loading, per-worker interpreter instances, and path execution.

import (
	"fmt"
	"go/token"
	"go/types"
	"os"
	"runtime"
	"runtime/debug"
	"strings"
	"sync"

	"golang.org/x/tools/go/packages"
	"golang.org/x/tools/go/ssa"
	"golang.org/x/tools/go/ssa/ssautil"

	"verif/engine/smt"
)

// LoadConfig describes how to load the target program.
type LoadConfig struct {
	Dir       string            // module root (/repo)
	Patterns  []string          // package patterns
	Overlay   map[string][]byte // virtual files
	GOARCH    string            // "" = host
	Tags      []string
	Env       []string
	TargetMod string // import path prefix of the code under test ("go.starlark.net")
}

type Program struct {
	Prog      *ssa.Program
	Pkgs      map[string]*ssa.Package // by import path
	Sizes     types.Sizes
	TargetMod string
	extCache  sync.Map // *ssa.Function -> externalFn (or nil marker)
	Config    string   // label, e.g. "generic" or "posix64"
	MmapFails bool     // configuration: reserveAddresses returns 0
}

type noExt struct{}

func Load(cfg LoadConfig) (*Program, error) {
	env := append(os.Environ(), cfg.Env...)
	if cfg.GOARCH != "" {
		env = append(env, "GOARCH="+cfg.GOARCH)
	}
	var flags []string
	if len(cfg.Tags) > 0 {
		flags = append(flags, "-tags="+strings.Join(cfg.Tags, ","))
	}
	pcfg := &packages.Config{
		Mode:       packages.LoadAllSyntax,
		Dir:        cfg.Dir,
		Env:        env,
		Overlay:    cfg.Overlay,
		BuildFlags: flags,
	}
	initial, err := packages.Load(pcfg, cfg.Patterns...)
	if err != nil {
		return nil, err
	}
	var errs []string
	packages.Visit(initial, nil, func(p *packages.Package) {
		for _, e := range p.Errors {
			errs = append(errs, e.Error())
		}
	})
	if len(errs) > 0 {
		if len(errs) > 20 {
			errs = errs[:20]
		}
		return nil, fmt.Errorf("package load errors:\n%s", strings.Join(errs, "\n"))
	}
	prog, _ := ssautil.AllPackages(initial, ssa.InstantiateGenerics)
	prog.Build()
	p := &Program{Prog: prog, Pkgs: map[string]*ssa.Package{}, TargetMod: cfg.TargetMod}
	for _, pkg := range prog.AllPackages() {
		p.Pkgs[pkg.Pkg.Path()] = pkg
	}
	arch := cfg.GOARCH
	if arch == "" {
		arch = runtime.GOARCH
	}
	p.Sizes = types.SizesFor("gc", arch)
	return p, nil
}

func (p *Program) isTarget(pkg *ssa.Package) bool {
	path := pkg.Pkg.Path()
	return path == p.TargetMod || strings.HasPrefix(path, p.TargetMod+"/")
}

// initAllowed reports whether the package initializer of path is interpreted.
func (p *Program) initAllowed(path string) bool {
	if path == p.TargetMod || strings.HasPrefix(path, p.TargetMod+"/") {
		return true
	}
	switch path {
	case "strconv", "strings", "sort", "slices", "cmp", "iter", "math", "math/bits", "bytes",
		"encoding/binary", "unicode", "unicode/utf8", "unicode/utf16", "math/big", "internal/strconv",
		"internal/stringslite", "internal/byteorder",
		"google.golang.org/protobuf/reflect/protoreflect": // package vars = type ids (ext_proto.go)
		return true
	}
	return false
}

func (p *Program) extFor(fn *ssa.Function) externalFn {
	if v, ok := p.extCache.Load(fn); ok {
		if e, ok := v.(externalFn); ok {
			return e
		}
		return nil
	}
	e := p.resolveExt(fn)
	if e == nil {
		p.extCache.Store(fn, noExt{})
	} else {
		p.extCache.Store(fn, e)
	}
	return e
}

func (p *Program) resolveExt(fn *ssa.Function) externalFn {
	name := fn.String()
	if fn.Pkg != nil && fn.Name() == "init" && fn.Synthetic != "" {
		if !p.initAllowed(fn.Pkg.Pkg.Path()) {
			return func(fr *frame, args []value) value { return nil }
		}
		return nil
	}
	if fn.Pkg != nil && strings.HasPrefix(fn.Name(), "zz") && p.isTarget(fn.Pkg) && fn.Signature.Recv() == nil {
		if e := zzExternals[fn.Name()]; e != nil {
			return e
		}
	}
	if e := externals[name]; e != nil {
		return e
	}
	// generic instantiations: match on the origin's name
	if o := fn.Origin(); o != nil {
		if e := externals[o.String()]; e != nil {
			return e
		}
	}
	return nil
}

// Worker owns one interpreter instance (globals initialised) and one solver.
type Worker struct {
	prog *Program
	i    *interpreter
	Sol  *smt.Solver
	Cross *smt.Solver // optional second solver re-deciding every discharged assertion
	CrossDisagree int
	CrossChecked int
	InitErr string
}

func NewWorker(p *Program, solverKind string, timeoutMs, seed int) *Worker {
	w := &Worker{prog: p}
	i := &interpreter{
		prog:       p.Prog,
		globals:    make(map[*ssa.Global]*value),
		sizes:      p.Sizes,
		goroutines: 1,
		w:          w,
	}
	w.i = i
	if rt := p.Prog.ImportedPackage("runtime"); rt != nil {
		i.runtimeErrorString = rt.Type("errorString").Object().Type()
	}
	initReflect(i)
	for _, pkg := range p.Prog.AllPackages() {
		for _, m := range pkg.Members {
			if g, ok := m.(*ssa.Global); ok {
				cell := zero(typeparams۰MustDeref(g.Type()))
				i.globals[g] = &cell
			}
		}
	}
	w.Sol = smt.NewSolver(solverKind, timeoutMs, seed)
	if os.Getenv("SYMGO_SLOWLOG") != "" {
		w.Sol.SlowLog = os.Stderr
	}
	if p := os.Getenv("SYMGO_TRANSCRIPT"); p != "" {
		if f, err := os.OpenFile(p, os.O_CREATE|os.O_WRONLY|os.O_APPEND, 0o644); err == nil {
			w.Sol.Log = f
		}
	}
	// run initializers of the target packages (which pull in their imports)
	ps := w.newPathState(nil, DefaultLimits(), false)
	ps.lim.MaxInstrs = 2_000_000_000
	i.ps = ps
	func() {
		defer func() {
			if r := recover(); r != nil {
				w.InitErr = fmt.Sprintf("init: %s\n%s", panicMessage(r), debug.Stack())
				if ap, ok := r.(abortPath); ok {
					w.InitErr = "init: " + ap.status + ": " + ap.reason
				}
			}
		}()
		var names []string
		for path := range p.Pkgs {
			names = append(names, path)
		}
		sortStrings(names)
		for _, path := range names {
			pkg := p.Pkgs[path]
			if p.isTarget(pkg) {
				if f := pkg.Func("init"); f != nil {
					call(i, nil, token.NoPos, f, nil)
				}
			}
		}
	}()
	i.ps = nil
	return w
}

func (w *Worker) Close() {
	w.Sol.Close()
	if w.Cross != nil {
		w.Cross.Close()
	}
}

func (w *Worker) newPathState(prefix []Decision, lim Limits, sample bool) *pathState {
	ctx := smt.NewCtx()
	ps := &pathState{
		w: w, ctx: ctx, sol: w.Sol, prefix: prefix, lim: lim, sample: sample,
		addrOf: map[*value]uintptr{}, ptrAt: map[uintptr]*value{}, nextAddr: 0xc000100000,
		params: map[string]int{},
	}
	ctx.Owner = ps
	ps.res = &PathResult{Reached: map[string]int{}, Checked: map[string]int{}, Funcs: map[string]bool{}, Params: ps.params, Assumes: map[string]bool{}}
	w.Sol.TimeoutMs = lim.QueryTimeoutMs
	w.Sol.AlwaysFresh = lim.FreshSolver
	w.Sol.Begin(ctx)
	return ps
}

// RunPath executes harness fn along the given decision prefix.
func (w *Worker) RunPath(fn *ssa.Function, prefix []Decision, lim Limits, sample bool, tier int) (res *PathResult) {
	ps := w.newPathState(prefix, lim, sample)
	ps.params["!tier"] = tier
	w.i.ps = ps
	res = ps.res
	defer func() {
		r := recover()
		// undo all writes so that globals are pristine for the next path
		for k := len(ps.undo) - 1; k >= 0; k-- {
			u := ps.undo[k]
			if u.m != nil {
				u.m.restore(u.ents)
			} else {
				*u.addr = u.old
			}
		}
		res.Trace = ps.trace
		res.Instrs = ps.instrs
		res.Decisions = len(ps.trace)
		w.i.ps = nil
		if r == nil {
			return
		}
		switch p := r.(type) {
		case abortPath:
			res.Status, res.Reason = p.status, p.reason
		case fatalPanic:
			res.Status, res.Reason = "fatal", p.msg
		default:
			msg := panicMessage(r)
			if isEnginePanic(r) {
				res.Status, res.Reason = "abort", "engine: "+msg+"\n"+string(debug.Stack())
			} else {
				res.Status, res.Reason = "panic", msg
			}
		}
		if res.Status == "panic" || res.Status == "fatal" {
			func() {
				defer func() { recover() }()
				if rr, m := ps.modelFor(); rr == smt.Sat {
					ps.fail(fn.Name()+"."+res.Status, m, false, res.Reason)
				}
			}()
		}
	}()
	call(w.i, nil, token.NoPos, fn, nil)
	res.Status = "ok"
	if ps.pos < len(ps.prefix) {
		res.Status, res.Reason = "abort", "replay divergence: prefix not consumed"
		return
	}
	if sample {
		ps.finishSample()
	}
	return res
}

// isEnginePanic distinguishes interpreter failures from modelled target panics.
func isEnginePanic(p any) bool {
	switch p := p.(type) {
	case targetPanic:
		return false
	case *runtime.TypeAssertionError:
		return true
	case runtime.Error:
		m := p.Error()
		if strings.Contains(m, "interface conversion") && strings.Contains(m, "interp.") {
			return true
		}
		return false
	case string:
		for _, pre := range []string{"runtime error:", "interface conversion:", "method invoked on nil interface",
			"call of nil function", "value method ", "assignment to entry in nil map", "array length is greater",
			"comparing uncomparable", "negative shift amount"} {
			if strings.HasPrefix(p, pre) {
				return false
			}
		}
		return true
	}
	return true
}

func sortStrings(a []string) {
	for i := 1; i < len(a); i++ {
		for j := i; j > 0 && a[j] < a[j-1]; j-- {
			a[j], a[j-1] = a[j-1], a[j]
		}
	}
}

func typeparams۰MustDeref(t types.Type) types.Type {
	if p, ok := t.Underlying().(*types.Pointer); ok {
		return p.Elem()
	}
	panic(fmt.Sprintf("MustDeref: not a pointer: %v", t))
}
