package interp

// gmap: an insertion-ordered map used for every Go map in the target program.
// Keys may be symbolic; lookups then compare against each entry and fork.
// Iteration order is deterministic (insertion order) unless the path state asks
// for a nondeterministic permutation (used to check map-order independence).

import (
	"go/types"
)

type gent struct {
	key value
	val value
}

type gmap struct {
	kt   types.Type
	ents []*gent
	idx  map[value]*gent // fast path for concrete basic keys; nil if unusable
}

func usesBuiltinMap(t types.Type) bool {
	switch t := t.(type) {
	case *types.Basic:
		return t.Kind() != types.UnsafePointer
	case *types.Chan, *types.Pointer:
		return true
	case *types.Named, *types.Alias:
		return usesBuiltinMap(t.Underlying())
	}
	return false
}

func makeMap(kt types.Type, reserve int64) value {
	m := &gmap{kt: kt}
	if usesBuiltinMap(kt) {
		m.idx = make(map[value]*gent)
	}
	return m
}

func hashableConcrete(k value) bool {
	switch k.(type) {
	case sym, symString, symptr:
		return false
	}
	return true
}

// find returns the entry for key k. fr may fork on symbolic comparisons.
func (m *gmap) find(fr *frame, k value) *gent {
	if m == nil {
		return nil
	}
	if m.idx != nil && hashableConcrete(k) {
		return m.idx[k]
	}
	for _, e := range m.ents {
		if fr.truth(equals(m.kt, e.key, k)) {
			return e
		}
	}
	return nil
}

func (m *gmap) saveUndo(fr *frame) {
	if fr == nil || fr.i.ps == nil {
		return
	}
	ps := fr.i.ps
	saved := make([]gent, len(m.ents))
	for i, e := range m.ents {
		saved[i] = *e
	}
	ps.undo = append(ps.undo, undoRec{m: m, ents: saved})
	if ps.logWrites && ps.inOnce == 0 {
		// Go-map mutations (insert/delete/clear) enter the write log too (zzWritesInto)
		ps.mapWrites = append(ps.mapWrites, m)
	}
}

func (m *gmap) restore(saved []gent) {
	m.ents = m.ents[:0]
	if m.idx != nil || usesBuiltinMap(m.kt) {
		m.idx = make(map[value]*gent)
	}
	for i := range saved {
		e := &gent{saved[i].key, saved[i].val}
		m.ents = append(m.ents, e)
		if m.idx != nil {
			if hashableConcrete(e.key) {
				m.idx[e.key] = e
			} else {
				m.idx = nil
			}
		}
	}
}

func (m *gmap) insert(fr *frame, k, v value) {
	if m == nil {
		panic("assignment to entry in nil map")
	}
	m.saveUndo(fr)
	if e := m.find(fr, k); e != nil {
		e.val = v
		return
	}
	e := &gent{k, v}
	m.ents = append(m.ents, e)
	if m.idx != nil {
		if hashableConcrete(k) {
			m.idx[k] = e
		} else {
			m.idx = nil
		}
	}
}

func (m *gmap) delete(fr *frame, k value) {
	if m == nil {
		return
	}
	e := m.find(fr, k)
	if e == nil {
		return
	}
	m.saveUndo(fr)
	for i, x := range m.ents {
		if x == e {
			m.ents = append(m.ents[:i:i], m.ents[i+1:]...)
			break
		}
	}
	if m.idx != nil {
		delete(m.idx, e.key)
	}
}

func (m *gmap) len() int {
	if m == nil {
		return 0
	}
	return len(m.ents)
}

type gmapIter struct {
	ents []*gent
	i    int
}

func (it *gmapIter) next() tuple {
	if it.i >= len(it.ents) {
		return tuple{false, nil, nil}
	}
	e := it.ents[it.i]
	it.i++
	return tuple{true, e.key, e.val}
}

func (m *gmap) iterate(fr *frame) iter {
	if m == nil {
		return &gmapIter{}
	}
	ents := append([]*gent(nil), m.ents...)
	if fr != nil && fr.i.ps != nil && fr.i.ps.mapNondet && len(ents) > 1 {
		// nondeterministic permutation: selection by successive choices
		ps := fr.i.ps
		perm := make([]*gent, 0, len(ents))
		rest := ents
		for len(rest) > 1 {
			j := ps.choice(len(rest))
			perm = append(perm, rest[j])
			rest = append(append([]*gent(nil), rest[:j]...), rest[j+1:]...)
		}
		perm = append(perm, rest[0])
		ents = perm
	}
	return &gmapIter{ents: ents}
}
