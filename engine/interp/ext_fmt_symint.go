package interp

// fmt model: a starlark.Int (any type with a BigInt() *big.Int method) whose
// representation contains symbolic words is rendered as "<sym>" instead of
// running Int.String -> big.Int.Text / strconv.FormatInt symbolically (decimal
// conversion of a symbolic number forks per digit and produces bvudiv chains
// that time the solver out). Message text involving symbolic numbers is
// outside every claim (see ext_fmt.go), so this only removes cost.

// deepHasSym reports whether v contains a symbolic scalar within depth levels
// of structure fields, pointees and slice elements.
func deepHasSym(v value, depth int) bool {
	if depth < 0 {
		return false
	}
	switch x := v.(type) {
	case sym, symString:
		return true
	case iface:
		return deepHasSym(x.v, depth-1)
	case *value:
		if x != nil {
			return deepHasSym(*x, depth-1)
		}
	case structure:
		for _, f := range x {
			if deepHasSym(f, depth-1) {
				return true
			}
		}
	case array:
		for _, f := range x {
			if deepHasSym(f, depth-1) {
				return true
			}
		}
	case []value:
		for _, f := range x {
			if deepHasSym(f, depth-1) {
				return true
			}
		}
	}
	return false
}
