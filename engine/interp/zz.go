package interp

// Engine side of the harness API (the zz* functions declared in zz_verif_rt.go).

import (
	"fmt"
	"go/token"
	"go/types"
	"strings"

	"verif/engine/smt"
)

var zzExternals map[string]externalFn

func cleanName(s string) string {
	var sb strings.Builder
	for _, r := range s {
		switch {
		case r >= 'a' && r <= 'z', r >= 'A' && r <= 'Z', r >= '0' && r <= '9', r == '_', r == '.':
			sb.WriteRune(r)
		default:
			sb.WriteByte('_')
		}
	}
	return sb.String()
}

func zzName(fr *frame, v value) string {
	s, ok := v.(string)
	if !ok {
		fr.i.ps.abort("abort", "zz: name argument must be a concrete string")
	}
	return cleanName(s)
}

func zzScalar(k types.BasicKind) externalFn {
	return func(fr *frame, args []value) value {
		ps := fr.i.ps
		name := zzName(fr, args[0])
		if kfloat(k) {
			b := ps.ctx.Var(name, smt.BV(kwidth(k)))
			return sym{ps.ctx.FpOfBV(fpSort(k), b), k}
		}
		if k == types.Bool {
			return sym{ps.ctx.Var(name, smt.Bool), k}
		}
		return sym{ps.ctx.Var(name, smt.BV(kwidth(k))), k}
	}
}

func zzBytesOf(fr *frame, args []value) []value {
	ps := fr.i.ps
	name := zzName(fr, args[0])
	n := int(fr.asInt64(args[1]))
	b := make([]value, n)
	for i := range b {
		b[i] = sym{ps.ctx.Var(fmt.Sprintf("%s_%d", name, i), smt.BV(8)), types.Uint8}
	}
	return b
}

func init() {
	zzExternals = map[string]externalFn{
		"zzU64":  zzScalar(types.Uint64),
		"zzI64":  zzScalar(types.Int64),
		"zzU32":  zzScalar(types.Uint32),
		"zzI32":  zzScalar(types.Int32),
		"zzU16":  zzScalar(types.Uint16),
		"zzI16":  zzScalar(types.Int16),
		"zzU8":   zzScalar(types.Uint8),
		"zzI8":   zzScalar(types.Int8),
		"zzInt":  zzScalar(types.Int),
		"zzUint": zzScalar(types.Uint),
		"zzBool": zzScalar(types.Bool),
		"zzF64":  zzScalar(types.Float64),
		"zzF32":  zzScalar(types.Float32),
		"zzBytes": func(fr *frame, args []value) value {
			b := zzBytesOf(fr, args)
			if len(b) == 0 {
				return []value{}
			}
			return b
		},
		"zzString": func(fr *frame, args []value) value {
			return mkString(zzBytesOf(fr, args))
		},
		"zzChoice": func(fr *frame, args []value) value {
			ps := fr.i.ps
			name := zzName(fr, args[0])
			n := int(fr.asInt64(args[1]))
			v := ps.choice(n)
			if ps.choices == nil {
				ps.choices = map[string]uint64{}
			}
			ps.choices[name] = uint64(v)
			return v
		},
		"zzAssume": func(fr *frame, args []value) value {
			fr.i.ps.assumeValue(args[0])
			return nil
		},
		"zzAssert": func(fr *frame, args []value) value {
			fr.i.ps.assert(args[0], zzName(fr, args[1]), nil)
			return nil
		},
		"zzAssertExcept": func(fr *frame, args []value) value {
			fr.i.ps.assert(args[0], zzName(fr, args[1]), args[2])
			return nil
		},
		"zzReach": func(fr *frame, args []value) value {
			fr.i.ps.res.Reached["reach:"+zzName(fr, args[0])]++
			return nil
		},
		"zzObserve": func(fr *frame, args []value) value {
			ps := fr.i.ps
			v := args[1]
			if itf, ok := v.(iface); ok {
				v = itf.v
			}
			if bs, ok := v.([]value); ok {
				v = mkString(bs)
			}
			ps.obs = append(ps.obs, obsRec{zzName(fr, args[0]), v})
			return nil
		},
		"zzCatch": func(fr *frame, args []value) (res value) {
			ps := fr.i.ps
			defer func() {
				if r := recover(); r != nil {
					switch r.(type) {
					case abortPath, fatalPanic:
						panic(r)
					}
					if isEnginePanic(r) {
						panic(r)
					}
					ps.lastPanic = panicMessage(r)
					res = true
				}
			}()
			call(fr.i, fr, token.NoPos, args[0], nil)
			return false
		},
		"zzPanicMsg": func(fr *frame, args []value) value {
			return fr.i.ps.lastPanic
		},
		"zzFatal": func(fr *frame, args []value) (res value) {
			ps := fr.i.ps
			defer func() {
				if r := recover(); r != nil {
					if fp, ok := r.(fatalPanic); ok {
						ps.lastPanic = fp.msg
						res = true
						return
					}
					panic(r)
				}
			}()
			call(fr.i, fr, token.NoPos, args[1], nil)
			return false
		},
		"zzAnd": func(fr *frame, args []value) value { return vAnd(args[0], args[1]) },
		"zzOr":  func(fr *frame, args []value) value { return vOr(args[0], args[1]) },
		"zzNot": func(fr *frame, args []value) value { return vNot(args[0]) },
		"zzImplies": func(fr *frame, args []value) value {
			return vOr(vNot(args[0]), args[1])
		},
		"zzIteI64": zzIte, "zzIteU64": zzIte, "zzIteInt": zzIte, "zzIteU32": zzIte, "zzIteI32": zzIte, "zzIteU8": zzIte, "zzIteBool": zzIte,
		"zzParam": func(fr *frame, args []value) value {
			ps := fr.i.ps
			name := zzName(fr, args[0])
			q, t := int(fr.asInt64(args[1])), int(fr.asInt64(args[2]))
			v := q
			if ps.params["!tier"] == 1 {
				v = t
			}
			ps.params[name] = v
			return v
		},
		"zzMapOrderNondet": func(fr *frame, args []value) value {
			fr.i.ps.mapNondet = args[0].(bool)
			return nil
		},
		"zzOverflowWatch": func(fr *frame, args []value) value {
			ps := fr.i.ps
			ps.ovfWatch = args[0].(bool)
			if ps.ovfWatch {
				ps.ovf, ps.trunc = nil, nil
			}
			return nil
		},
		"zzOverflowed": func(fr *frame, args []value) value {
			ps := fr.i.ps
			if ps.ovf == nil {
				return false
			}
			return mkval(ps.ovf, types.Bool)
		},
		"zzTruncated": func(fr *frame, args []value) value {
			ps := fr.i.ps
			if ps.trunc == nil {
				return false
			}
			return mkval(ps.trunc, types.Bool)
		},
		"zzExactItoa": func(fr *frame, args []value) value {
			fr.i.ps.exactItoa = args[0].(bool)
			return nil
		},
		"zzSymbolic": func(fr *frame, args []value) value { return true },
		"zzNote": func(fr *frame, args []value) value {
			fr.i.ps.res.Assumes[args[0].(string)] = true
			return nil
		},
		"zzIsSym": func(fr *frame, args []value) value {
			v := args[0]
			if itf, ok := v.(iface); ok {
				v = itf.v
			}
			return isSym(v)
		},
		"zzWriteLogStart": func(fr *frame, args []value) value {
			ps := fr.i.ps
			ps.logWrites = true
			ps.writes = ps.writes[:0]
			ps.reads = ps.reads[:0]
			ps.onceWrites = nil
			ps.oncePass = nil
			ps.mapWrites = ps.mapWrites[:0]
			return nil
		},
		"zzWriteLogStop": func(fr *frame, args []value) value {
			fr.i.ps.logWrites = false
			return nil
		},
		"zzWritesInto": zzWritesInto,
		"zzRacyReads":  zzRacyReads,
		"zzSyncEvents": func(fr *frame, args []value) value {
			return strings.Join(fr.i.ps.syncEvents, ",")
		},
	}
}

func zzIte(fr *frame, args []value) value {
	switch c := args[0].(type) {
	case bool:
		if c {
			return args[1]
		}
		return args[2]
	case sym:
		ctx := c.t.C
		k := kindOf(args[1])
		return mkval(ctx.Ite(c.t, termOf(ctx, args[1]), termOf(ctx, args[2])), k)
	}
	panic("zzIte: bad condition")
}

// zzWritesInto(roots ...any) int: number of logged writes whose address lies in
// a cell reachable from roots (structure fields, array/slice elements, map values, pointees).
func reachableCells(roots []value) map[*value]bool {
	cells, _ := reachable(roots)
	return cells
}

// zzWritesInto(roots ...any) int: number of logged writes whose address lies in
// a cell (or Go map) reachable from roots.
func zzWritesInto(fr *frame, args []value) value {
	ps := fr.i.ps
	cells, seenMaps := reachable(args[0].([]value))
	n := 0
	for _, w := range ps.writes {
		if cells[w] {
			n++
		}
	}
	for _, m := range ps.mapWrites {
		if seenMaps[m] {
			n++
		}
	}
	return n
}

func reachable(roots []value) (map[*value]bool, map[*gmap]bool) {
	cells := map[*value]bool{}
	seenMaps := map[*gmap]bool{}
	var visitCell func(p *value)
	var visitVal func(v value)
	visitVal = func(v value) {
		switch v := v.(type) {
		case *value:
			if v != nil {
				visitCell(v)
			}
		case structure:
			for i := range v {
				visitCell(&v[i])
			}
		case array:
			for i := range v {
				visitCell(&v[i])
			}
		case []value:
			full := v[:cap(v)]
			for i := range full {
				visitCell(&full[i])
			}
		case iface:
			visitVal(v.v)
		case *gmap:
			if v != nil && !seenMaps[v] {
				seenMaps[v] = true
				for _, e := range v.ents {
					visitVal(e.key)
					visitVal(e.val)
				}
			}
		case *closure:
			if v != nil {
				for _, b := range v.Env {
					visitVal(b)
				}
			}
		case tuple:
			for _, x := range v {
				visitVal(x)
			}
		}
	}
	visitCell = func(p *value) {
		if cells[p] {
			return
		}
		cells[p] = true
		visitVal(*p)
	}
	for _, r := range roots {
		visitVal(r)
	}
	return cells, seenMaps
}

// zzRacyReads(roots ...any) int: number of logged non-atomic loads of cells reachable from
// roots that are written inside a sync.Once.Do, where the load happened outside that Once
// and before the loading thread had returned from that Once's Do (such a load is not
// ordered after the initialisation by the Go memory model: a data race with a concurrent
// first caller).
func zzRacyReads(fr *frame, args []value) value {
	ps := fr.i.ps
	cells := reachableCells(args[0].([]value))
	n := 0
	for _, r := range ps.reads {
		if !cells[r.addr] {
			continue
		}
		o, ok := ps.onceWrites[r.addr]
		if !ok || r.once == o {
			continue
		}
		if pass, ok := ps.oncePass[o]; ok && r.seq > pass {
			continue
		}
		n++
	}
	return n
}
