package interp

// Path state: decisions, path condition, solver queries, assertions.

import (
	"fmt"
	"go/token"
	"go/types"
	"sort"
	"strings"
	"time"

	"verif/engine/smt"
)

// Decision is one recorded nondeterministic step of a path.
//
//	K='b': symbolic branch, V = 1 (true) or 0 (false)
//	K='c': concretisation candidate V, T = whether term==V was taken
//	K='n': nondet choice among N alternatives, V = chosen
type Decision struct {
	K byte   `json:"k"`
	V uint64 `json:"v"`
	T bool   `json:"t,omitempty"`
}

// abortPath ends the current path; not recoverable by the target program.
type abortPath struct {
	status string // "assume", "unwind", "abort"
	reason string
}

// fatalPanic models an unrecoverable Go runtime failure (stack overflow, huge allocation).
type fatalPanic struct{ msg string }

type Failure struct {
	ID       string            `json:"assert"`
	Model    map[string]uint64 `json:"model"`
	Msg      string            `json:"msg,omitempty"`
	Known    bool              `json:"known,omitempty"` // inside a declared known-finding region
	Trace    []Decision        `json:"decisions,omitempty"`
	Observed map[string]string `json:"predicted,omitempty"`
}

type Limits struct {
	Unwind       int   // max symbolic decisions per If-site per frame activation
	MaxDecisions int   // max symbolic decisions per path
	MaxInstrs    int64 // per path
	MaxConcretize int  // values per concretisation
	MaxDepth     int   // call depth => fatal "stack overflow"
	QueryTimeoutMs int
	FreshSolver  bool
}

func DefaultLimits() Limits {
	return Limits{Unwind: 64, MaxDecisions: 4000, MaxInstrs: 200_000_000, MaxConcretize: 64, MaxDepth: 3000, QueryTimeoutMs: 60000}
}

type PathResult struct {
	Trace     []Decision
	Status    string // ok | assume | unwind | abort | panic | fatal
	Reason    string
	Failures  []Failure
	Alts      [][]Decision
	Reached   map[string]int // zzReach / assertion ids reached
	Checked   map[string]int // assertion ids decided (unsat or concrete true)
	Instrs    int64
	Decisions int
	Model     map[string]uint64 // model of the final path condition (when sampled)
	Observed  map[string]string // predicted observation values under Model
	Unknowns  int
	Funcs     map[string]bool
	Params    map[string]int
	Assumes   map[string]bool
}

type obsRec struct {
	name string
	v    value
}

type pathState struct {
	w       *Worker
	ctx     *smt.Ctx
	sol     *smt.Solver
	prefix  []Decision
	pos     int
	trace   []Decision
	lim     Limits
	res     *PathResult
	instrs  int64
	depth   int
	obs     []obsRec
	sample  bool
	nfresh  int
	params  map[string]int
	mapNondet bool
	// fake addresses for pointer<->uintptr round trips
	addrOf  map[*value]uintptr
	ptrAt   map[uintptr]*value
	nextAddr uintptr
	// write log
	undo     []undoRec
	logWrites bool
	writes   []*value
	lastPanic string
	exactItoa bool
	ovfWatch bool
	ovf      *smt.Term
	trunc    *smt.Term
	models   []cachedModel
	lits     map[*smt.Term]bool
	litHits  int
	cacheHits int
	nseeds   int
	choices  map[string]uint64
	sliceAt  map[*value][]value
	mapWrites []*gmap
	onceStack []*value
	oncePass  map[*value]int
	onceWrites map[*value]*value
	reads     []readRec
	accSeq    int
	inOnce    int // > 0 while inside sync.Once.Do (stores there are excluded from the write log)
	syncEvents []string
	relDiv, relDivS map[relDivKey]relDivQR // zz_reldiv.go
}

type undoRec struct {
	addr *value
	old  value
	m    *gmap
	ents []gent
}

func (ps *pathState) abort(status, reason string) {
	panic(abortPath{status, reason})
}

func (ps *pathState) fresh(prefix string, s smt.Sort) *smt.Term {
	ps.nfresh++
	return ps.ctx.Var(fmt.Sprintf("!%s%d", prefix, ps.nfresh), s)
}

// assume adds t to the path condition.
func (ps *pathState) assume(t *smt.Term) {
	if t.IsTrue() {
		return
	}
	ps.sol.Assert(t)
	ps.noteLiteral(t, true)
	// keep only cached models that still satisfy the path condition
	k := 0
	for _, m := range ps.models {
		if v, ok := smt.Eval(t, m.vals, m.memo); ok && v == 1 {
			ps.models[k] = m
			k++
		}
	}
	ps.models = ps.models[:k]
}

// noteLiteral records syntactic facts implied by the path condition.
func (ps *pathState) noteLiteral(t *smt.Term, val bool) {
	if ps.lits == nil {
		ps.lits = map[*smt.Term]bool{}
	}
	ps.lits[t] = val
	switch t.Op {
	case smt.ONot:
		ps.noteLiteral(t.Args[0], !val)
	case smt.OAnd:
		if val {
			ps.noteLiteral(t.Args[0], true)
			ps.noteLiteral(t.Args[1], true)
		}
	case smt.OOr:
		if !val {
			ps.noteLiteral(t.Args[0], false)
			ps.noteLiteral(t.Args[1], false)
		}
	}
}

type cachedModel struct {
	vals map[string]uint64
	memo smt.EvalMemo
}

func (ps *pathState) addModel(m map[string]uint64) {
	if m == nil {
		return
	}
	if len(ps.models) >= 6 {
		ps.models = ps.models[1:]
	}
	ps.models = append(ps.models, cachedModel{m, smt.NewEvalMemo()})
}

// holdsInSomeModel reports whether a cached model of the pc satisfies t.
func (ps *pathState) holdsInSomeModel(t *smt.Term) bool {
	for i := len(ps.models) - 1; i >= 0; i-- {
		m := ps.models[i]
		if v, ok := smt.Eval(t, m.vals, m.memo); ok && v == 1 {
			ps.cacheHits++
			return true
		}
	}
	return false
}

// check decides pc ∧ extra, consulting and feeding the model cache.
func (ps *pathState) check(extra ...*smt.Term) smt.Result {
	if len(extra) == 1 {
		if v, ok := ps.lits[extra[0]]; ok && !v {
			ps.litHits++
			return smt.Unsat
		}
	}
	if len(extra) == 1 && ps.holdsInSomeModel(extra[0]) {
		return smt.Sat
	}
	if len(extra) == 0 && len(ps.models) > 0 {
		ps.cacheHits++
		return smt.Sat
	}
	r, m := ps.sol.Check(extra, ps.ctx.Vars)
	if r == smt.Unknown {
		ps.res.Unknowns++
	}
	if r == smt.Sat {
		// the model satisfies pc (and extra); valid for the cache as a model of pc
		ps.addModel(m)
	}
	return r
}

func (ps *pathState) record(d Decision) {
	ps.trace = append(ps.trace, d)
	if len(ps.trace) > ps.lim.MaxDecisions {
		ps.abort("unwind", "decision budget exhausted")
	}
}

func (ps *pathState) altWith(d Decision) {
	alt := make([]Decision, len(ps.trace)+1)
	copy(alt, ps.trace)
	alt[len(ps.trace)] = d
	ps.res.Alts = append(ps.res.Alts, alt)
}

// branch decides a symbolic condition, forking when both sides are feasible.
func (ps *pathState) branch(cond *smt.Term) bool {
	if cond.IsConst() {
		return cond.Val == 1
	}
	c := ps.ctx
	if ps.pos < len(ps.prefix) {
		d := ps.prefix[ps.pos]
		ps.pos++
		if d.K != 'b' {
			ps.abort("abort", fmt.Sprintf("replay divergence: expected branch, prefix has %c", d.K))
		}
		ps.record(d)
		if d.V == 1 {
			ps.assume(cond)
			return true
		}
		ps.assume(c.Not(cond))
		return false
	}
	rt := ps.check(cond)
	if rt == smt.Unsat {
		ps.record(Decision{K: 'b', V: 0})
		ps.assume(c.Not(cond))
		return false
	}
	rf := ps.check(c.Not(cond))
	if rf == smt.Unsat {
		ps.record(Decision{K: 'b', V: 1})
		ps.assume(cond)
		return true
	}
	// both feasible (or unknown): take true, queue false
	ps.altWith(Decision{K: 'b', V: 0})
	ps.record(Decision{K: 'b', V: 1})
	ps.assume(cond)
	return true
}

// concretize forks over the feasible values of bit-vector term t.
func (ps *pathState) concretize(t *smt.Term) uint64 {
	if t.IsConst() {
		return t.Val
	}
	c := ps.ctx
	w := t.Sort.W
	if w > 64 {
		ps.abort("abort", "concretize: term wider than 64 bits")
	}
	for n := 0; ; n++ {
		if n > ps.lim.MaxConcretize {
			ps.abort("unwind", fmt.Sprintf("concretisation of a %d-bit term exceeds %d values", w, ps.lim.MaxConcretize))
		}
		var d Decision
		if ps.pos < len(ps.prefix) {
			d = ps.prefix[ps.pos]
			ps.pos++
			if d.K != 'c' {
				ps.abort("abort", fmt.Sprintf("replay divergence: expected concretize, prefix has %c", d.K))
			}
		} else {
			// ask for a model value
			var cand uint64
			got := false
			for i := len(ps.models) - 1; i >= 0 && !got; i-- {
				if v, ok := smt.Eval(t, ps.models[i].vals, ps.models[i].memo); ok {
					cand, got = v, true
					ps.cacheHits++
				}
			}
			if !got {
				v := ps.fresh("cz", t.Sort)
				ps.assume(c.Eq(v, t))
				r, m := ps.sol.Check(nil, ps.ctx.Vars)
				if r != smt.Sat {
					ps.res.Unknowns++
					ps.abort("abort", "concretize: solver gave "+r.String())
				}
				ps.addModel(m)
				cand = m[v.Name]
			}
			d = Decision{K: 'c', V: cand, T: true}
			if ps.check(c.Not(c.Eq(t, c.BVC(w, cand)))) != smt.Unsat {
				ps.altWith(Decision{K: 'c', V: cand, T: false})
			}
		}
		ps.record(d)
		eq := c.Eq(t, c.BVC(w, d.V))
		if d.T {
			ps.assume(eq)
			return d.V
		}
		ps.assume(c.Not(eq))
	}
}

// choice returns a nondeterministic value in [0,n).
func (ps *pathState) choice(n int) int {
	if n <= 1 {
		return 0
	}
	if ps.pos < len(ps.prefix) {
		d := ps.prefix[ps.pos]
		ps.pos++
		if d.K != 'n' {
			ps.abort("abort", fmt.Sprintf("replay divergence: expected choice, prefix has %c", d.K))
		}
		ps.record(d)
		return int(d.V)
	}
	for i := 1; i < n; i++ {
		ps.altWith(Decision{K: 'n', V: uint64(i)})
	}
	ps.record(Decision{K: 'n', V: 0})
	return 0
}

func (ps *pathState) inputVars() []*smt.Term {
	var vs []*smt.Term
	for _, v := range ps.ctx.Vars {
		if !strings.HasPrefix(v.Name, "!") {
			vs = append(vs, v)
		}
	}
	return vs
}

// modelFor returns input values satisfying pc ∧ extras.
func (ps *pathState) modelFor(extras ...*smt.Term) (smt.Result, map[string]uint64) {
	r, all := ps.sol.Check(extras, ps.ctx.Vars)
	if r == smt.Unsat && ps.w.Cross != nil {
		// diff a second solver on every discharged assertion query
		ps.w.CrossChecked++
		if r2 := ps.w.Cross.DecideFresh(ps.ctx, ps.sol.Asserted(), extras); r2 == smt.Sat {
			ps.w.CrossDisagree++
			r = smt.Unknown
		}
	}
	if r == smt.Unknown {
		ps.res.Unknowns++
	}
	var m map[string]uint64
	if r == smt.Sat {
		ps.addModel(all)
		m = map[string]uint64{}
		for _, v := range ps.inputVars() {
			m[v.Name] = all[v.Name]
		}
	}
	return r, m
}

func (ps *pathState) fail(id string, m map[string]uint64, known bool, msg string) {
	if m == nil {
		m = map[string]uint64{}
	}
	for k, v := range ps.choices {
		m[k] = v
	}
	f := Failure{ID: id, Model: m, Known: known, Msg: msg}
	f.Trace = append([]Decision(nil), ps.trace...)
	// choices are part of the model under their names
	ps.res.Failures = append(ps.res.Failures, f)
}

// assert checks that cond holds on every input reaching this point.
// region (may be nil) delimits a declared known-finding region.
func (ps *pathState) assert(cond value, id string, region value) {
	ps.res.Reached[id]++
	c := ps.ctx
	var ct *smt.Term
	switch cv := cond.(type) {
	case bool:
		ct = c.BoolC(cv)
	case sym:
		ct = cv.t
	default:
		ps.abort("abort", fmt.Sprintf("zzAssert: condition is %T", cond))
	}
	if ct.IsTrue() {
		ps.res.Checked[id]++
		return
	}
	neg := c.Not(ct)
	var rt *smt.Term
	if region != nil {
		switch rv := region.(type) {
		case bool:
			rt = c.BoolC(rv)
		case sym:
			rt = rv.t
		}
	}
	if rt == nil {
		r, m := ps.modelFor(neg)
		switch r {
		case smt.Sat:
			ps.fail(id, m, false, "")
		case smt.Unsat:
			ps.res.Checked[id]++
		default:
			ps.res.Reached["!unknown:"+id]++
		}
	} else {
		r, m := ps.modelFor(neg, c.Not(rt))
		switch r {
		case smt.Sat:
			ps.fail(id, m, false, "outside the known-finding region")
		case smt.Unsat:
			ps.res.Checked[id]++
		default:
			ps.res.Reached["!unknown:"+id]++
		}
		r2, m2 := ps.modelFor(neg, rt)
		if r2 == smt.Sat {
			ps.fail(id, m2, true, "")
		}
	}
	// continue under the assumption that the assertion holds
	endStatus := "assume"
	if rt != nil {
		endStatus = "known" // the path ends inside a declared known-finding region
	}
	if ct.IsFalse() {
		ps.abort(endStatus, "assertion "+id+" is false on this whole path")
	}
	ps.assume(ct)
	if ps.check() == smt.Unsat {
		ps.abort(endStatus, "assertion "+id+" fails on this whole path")
	}
}

func (ps *pathState) assumeValue(cond value) {
	switch cv := cond.(type) {
	case bool:
		if !cv {
			ps.abort("assume", "")
		}
	case sym:
		if !ps.branchAssume(cv.t) {
			ps.abort("assume", "")
		}
	default:
		ps.abort("abort", fmt.Sprintf("zzAssume: condition is %T", cond))
	}
}

// branchAssume adds t to the pc without forking; returns false if infeasible.
func (ps *pathState) branchAssume(t *smt.Term) bool {
	if t.IsConst() {
		return t.Val == 1
	}
	if ps.pos < len(ps.prefix) {
		// feasibility was established when the prefix was first explored
		ps.assume(t)
		return true
	}
	ps.assume(t)
	return ps.check() != smt.Unsat
}

// finishSample computes a model of the final pc and the predicted observations.
func (ps *pathState) finishSample() {
	c := ps.ctx
	type ov struct {
		name string
		bytes []*smt.Term
		conc string
		kind types.BasicKind
		isStr bool
	}
	var want []*smt.Term
	var ovs []ov
	for _, o := range ps.obs {
		switch v := o.v.(type) {
		case sym:
			var t *smt.Term
			if kfloat(v.k) {
				// observe the IEEE bits
				b := ps.fresh("ob", smt.BV(kwidth(v.k)))
				ps.assume(c.Eq(c.FpOfBV(fpSort(v.k), b), v.t))
				t = b
			} else {
				b := ps.fresh("ob", v.t.Sort)
				ps.assume(c.Eq(b, v.t))
				t = b
			}
			want = append(want, t)
			ovs = append(ovs, ov{name: o.name, bytes: []*smt.Term{t}, kind: v.k})
		case symString:
			var bs []*smt.Term
			for _, x := range v {
				b := ps.fresh("ob", smt.BV(8))
				ps.assume(c.Eq(b, termOf(c, x)))
				bs = append(bs, b)
				want = append(want, b)
			}
			ovs = append(ovs, ov{name: o.name, bytes: bs, isStr: true})
		default:
			ovs = append(ovs, ov{name: o.name, conc: fmtObs(o.v)})
		}
	}
	want = append(want, ps.inputVars()...)
	r, m := ps.sol.Check(nil, want)
	if r != smt.Sat {
		if r == smt.Unknown {
			ps.res.Unknowns++
		}
		return
	}
	ps.res.Model = map[string]uint64{}
	for _, v := range ps.inputVars() {
		ps.res.Model[v.Name] = m[v.Name]
	}
	for k, v := range ps.choices {
		ps.res.Model[k] = v
	}
	ps.res.Observed = map[string]string{}
	for _, o := range ovs {
		switch {
		case o.bytes == nil:
			ps.res.Observed[o.name] = o.conc
		case o.isStr:
			bs := make([]byte, len(o.bytes))
			for i, b := range o.bytes {
				bs[i] = byte(m[b.Name])
			}
			ps.res.Observed[o.name] = fmt.Sprintf("%q", string(bs))
		default:
			t := c.BVC(o.bytes[0].Sort.W, m[o.bytes[0].Name])
			if o.kind == types.Bool {
				ps.res.Observed[o.name] = fmt.Sprint(m[o.bytes[0].Name] == 1)
			} else if kfloat(o.kind) {
				ps.res.Observed[o.name] = fmt.Sprintf("f%#x", m[o.bytes[0].Name])
			} else {
				cv, _ := concreteOf(t, o.kind)
				ps.res.Observed[o.name] = fmtObs(cv)
			}
		}
	}
}

func sortedKeys(m map[string]int) []string {
	var ks []string
	for k := range m {
		ks = append(ks, k)
	}
	sort.Strings(ks)
	return ks
}

var _ = time.Now

// watchOverflow accumulates the condition under which a signed integer
// operation executed by the code under test wraps around.
func (ps *pathState) watchOverflow(fr *frame, op token.Token, x, y value) {
	if fr.fn.Pkg == nil || !ps.w.prog.isTarget(fr.fn.Pkg) || (strings.HasPrefix(fr.fn.Name(), "zz") && !strings.HasPrefix(fr.fn.Name(), "zzProbe")) {
		return
	}
	switch x.(type) {
	case sym, int, int8, int16, int32, int64:
	default:
		return // not a signed integer operation
	}
	k := kindOf(x)
	if !ksigned(k) {
		return
	}
	c := ps.ctx
	tx, ty := termOf(c, x), termOf(c, y)
	w := kwidth(k)
	zero := c.BVC(w, 0)
	var cond *smt.Term
	switch op {
	case token.ADD:
		r := c.BvAdd(tx, ty)
		sameSign := c.Eq(c.SLt(tx, zero), c.SLt(ty, zero))
		cond = c.And(sameSign, c.Not(c.Eq(c.SLt(r, zero), c.SLt(tx, zero))))
	case token.SUB:
		r := c.BvSub(tx, ty)
		diffSign := c.Not(c.Eq(c.SLt(tx, zero), c.SLt(ty, zero)))
		cond = c.And(diffSign, c.Not(c.Eq(c.SLt(r, zero), c.SLt(tx, zero))))
	case token.MUL:
		cond = c.SMulOverflows(tx, ty)
	}
	if ps.ovf == nil {
		ps.ovf = cond
	} else {
		ps.ovf = c.Or(ps.ovf, cond)
	}
}

// watchTruncation accumulates the condition under which an integer conversion loses value.
func (ps *pathState) watchTruncation(fr *frame, dst types.Type, x value) {
	if fr.fn.Pkg == nil || !ps.w.prog.isTarget(fr.fn.Pkg) || (strings.HasPrefix(fr.fn.Name(), "zz") && !strings.HasPrefix(fr.fn.Name(), "zzProbe")) {
		return
	}
	sx, ok := x.(sym)
	if !ok || kfloat(sx.k) || sx.k == types.Bool {
		return
	}
	b, ok := dst.Underlying().(*types.Basic)
	if !ok || b.Info()&types.IsInteger == 0 {
		return
	}
	dk := kindOfType(dst)
	dw, sw := kwidth(dk), kwidth(sx.k)
	if dw >= sw && ksigned(dk) == ksigned(sx.k) {
		return
	}
	c := ps.ctx
	// value preserved iff converting back (with the destination's signedness) yields the original
	// and the sign interpretation agrees
	r := c.Resize(sx.t, dw, ksigned(sx.k))
	back := c.Resize(r, sw, ksigned(dk))
	cond := c.Not(c.Eq(back, sx.t))
	if dw >= sw && ksigned(dk) != ksigned(sx.k) {
		// same or wider width, sign change: loses value iff negative (signed->unsigned) or top bit set (unsigned->signed same width)
		cond = c.SLt(sx.t, c.BVC(sw, 0))
		if dw > sw && !ksigned(sx.k) {
			return
		}
	}
	if ps.trunc == nil {
		ps.trunc = cond
	} else {
		ps.trunc = c.Or(ps.trunc, cond)
	}
}

// readRec is a logged non-atomic load (only while the write log is on).
type readRec struct {
	addr *value
	seq  int
	once *value // innermost active sync.Once, or nil
}
