package interp

// Exact, non-forking models of table-driven rune predicates. The real
// functions binary-search range tables (one fork per probe on a symbolic
// rune); here the predicate is one term: a disjunction of the maximal ranges on
// which the host's real function is true, computed once from the real function
// itself. Concrete arguments call the real function.

import (
	"go/types"
	"maps"
	"strconv"
	"sync"
	"unicode"

	"verif/engine/smt"
)

type runeRange struct{ lo, hi uint32 }

func runeRangesOf(f func(rune) bool) []runeRange {
	var rs []runeRange
	in := false
	var lo uint32
	for r := uint32(0); r <= unicode.MaxRune+1; r++ {
		ok := r <= unicode.MaxRune && f(rune(r))
		if ok && !in {
			in, lo = true, r
		} else if !ok && in {
			in = false
			rs = append(rs, runeRange{lo, r - 1})
		}
	}
	return rs
}

func extRunePred(name string, f func(rune) bool) externalFn {
	var once sync.Once
	var ranges []runeRange
	return func(fr *frame, args []value) value {
		s, ok := args[0].(sym)
		if !ok {
			return f(args[0].(int32))
		}
		once.Do(func() { ranges = runeRangesOf(f) })
		c := s.t.C
		// rune is int32; compare unsigned so that negatives fall outside every range
		var build func(rs []runeRange) *smt.Term
		build = func(rs []runeRange) *smt.Term {
			if len(rs) == 1 {
				if rs[0].lo == rs[0].hi {
					return c.Eq(s.t, c.BVC(32, uint64(rs[0].lo)))
				}
				return c.And(c.ULe(c.BVC(32, uint64(rs[0].lo)), s.t), c.ULe(s.t, c.BVC(32, uint64(rs[0].hi))))
			}
			m := len(rs) / 2
			// guard each half by its span so the solver can prune quickly
			return c.Or(build(rs[:m]), build(rs[m:]))
		}
		fr.i.ps.res.Assumes[name+" modelled as the range set of the host's real function (non-forking)"] = true
		return mkval(build(ranges), types.Bool)
	}
}

func init() {
	maps.Copy(externals, map[string]externalFn{
		"strconv.IsPrint":  extRunePred("strconv.IsPrint", strconv.IsPrint),
		"unicode.IsLetter": extRunePred("unicode.IsLetter", unicode.IsLetter),
		// Clone copies through unsafe.String; strings are immutable values here.
		"internal/stringslite.Clone": func(fr *frame, args []value) value { return args[0] },
		"strings.Clone":              func(fr *frame, args []value) value { return args[0] },
	})
}
