package interp

// go.starlark.net/internal/spell.Nearest is used only to decorate error
// messages ("did you mean ...?"). On symbolic text its Levenshtein loops fork
// once per byte comparison, which multiplies paths without influencing any
// value other than message text. Model: with fully concrete arguments the
// (copied) real algorithm runs; if the word or any candidate has symbolic bytes
// the result is "" (no suggestion) and the assumption is recorded.

import (
	"maps"
	"strings"
	"unicode"
)

func spellNearest(x string, candidates []string) string {
	fold := func(s string) string {
		return strings.Map(func(r rune) rune {
			if r == '_' {
				return -1
			}
			return unicode.ToLower(r)
		}, s)
	}
	x = fold(x)
	var best string
	bestD := (len(x) + 1) / 2
	for _, c := range candidates {
		d := spellLevenshtein(x, fold(c), bestD)
		if d < bestD {
			bestD = d
			best = c
		}
	}
	return best
}

func spellLevenshtein(x, y string, max int) int {
	if len(x) > len(y) {
		x, y = y, x
	}
	for i := 0; i < len(x); i++ {
		if x[i] != y[i] {
			x = x[i:]
			y = y[i:]
			break
		}
	}
	if x == "" {
		return len(y)
	}
	d := len(x) - len(y)
	if d < 0 {
		d = -d
	}
	if d > max {
		return d
	}
	row := make([]int, len(y)+1)
	for i := range row {
		row[i] = i
	}
	for i := 1; i <= len(x); i++ {
		row[0] = i
		best := i
		prev := i - 1
		for j := 1; j <= len(y); j++ {
			a := prev
			if x[i-1] != y[j-1] {
				a++
			}
			b := 1 + row[j-1]
			c := 1 + row[j]
			k := a
			if b < k {
				k = b
			}
			if c < k {
				k = c
			}
			prev, row[j] = row[j], k
			if k < best {
				best = k
			}
		}
		if best > max {
			return best
		}
	}
	return row[len(y)]
}

func ext۰spell۰Nearest(fr *frame, args []value) value {
	x, ok := args[0].(string)
	cands, _ := args[1].([]value)
	var cs []string
	if ok {
		for _, c := range cands {
			s, isStr := c.(string)
			if !isStr {
				ok = false
				break
			}
			cs = append(cs, s)
		}
	}
	if !ok {
		if fr.i.ps != nil && fr.i.ps.res != nil {
			fr.i.ps.res.Assumes["spell.Nearest on symbolic text modelled as \"\" (affects error message text only)"] = true
		}
		return ""
	}
	return spellNearest(x, cs)
}

func init() {
	maps.Copy(externals, map[string]externalFn{
		"go.starlark.net/internal/spell.Nearest": ext۰spell۰Nearest,
	})
}
