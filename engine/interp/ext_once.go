package interp

// sync.Once.Do runs its real body, but the non-atomic stores performed while it
// is active (the guarded initialisation) stay out of the write log consulted by
// zzWritesInto: the Go memory model orders them before every later Do return.
// A "once.Do" event is recorded in the synchronisation log (zzSyncEvents).

func init() {
	externals["(*sync.Once).Do"] = func(fr *frame, args []value) value {
		ps := fr.i.ps
		ps.syncEvent("once.Do")
		ps.inOnce++
		o, _ := args[0].(*value)
		ps.onceStack = append(ps.onceStack, o)
		defer func() {
			ps.inOnce--
			ps.onceStack = ps.onceStack[:len(ps.onceStack)-1]
			if ps.oncePass == nil {
				ps.oncePass = map[*value]int{}
			}
			if _, ok := ps.oncePass[o]; !ok {
				ps.accSeq++
				ps.oncePass[o] = ps.accSeq
			}
		}()
		return execBody(fr, args)
	}
}
