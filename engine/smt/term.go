// Package smt is a small hash-consed term DAG with constant folding and an
// SMT-LIB2 printer, used by the symbolic interpreter.
package smt

import (
	"fmt"
	"math"
	"math/bits"
	"strconv"
	"strings"
)

type SortKind uint8

const (
	SBool SortKind = iota
	SBV
	SFP64
	SFP32
)

type Sort struct {
	K SortKind
	W int // bit width for SBV
}

var (
	Bool  = Sort{K: SBool}
	FP64  = Sort{K: SFP64}
	FP32  = Sort{K: SFP32}
)

func BV(w int) Sort { return Sort{K: SBV, W: w} }

func (s Sort) String() string {
	switch s.K {
	case SBool:
		return "Bool"
	case SBV:
		return fmt.Sprintf("(_ BitVec %d)", s.W)
	case SFP64:
		return "(_ FloatingPoint 11 53)"
	case SFP32:
		return "(_ FloatingPoint 8 24)"
	}
	return "?"
}

type Op uint8

const (
	OConst Op = iota // bool or bv constant (W<=64)
	OVar
	ONot
	OAnd
	OOr
	OXor // bool xor
	OImplies
	OIte
	OEq
	// bit-vector
	OBvNot
	OBvNeg
	OBvAnd
	OBvOr
	OBvXor
	OBvAdd
	OBvSub
	OBvMul
	OBvUDiv
	OBvURem
	OBvSDiv
	OBvSRem
	OBvShl
	OBvLShr
	OBvAShr
	OBvULt
	OBvULe
	OBvSLt
	OBvSLe
	OConcat
	OExtract // P1=hi P2=lo
	OZeroExt // P1=extra bits
	OSignExt // P1=extra bits
	// floating point
	OFpOfBV    // ((_ to_fp e s) bv)  reinterpret bits
	OFpAdd     // RNE
	OFpSub
	OFpMul
	OFpDiv
	OFpNeg
	OFpAbs
	OFpLt
	OFpLe
	OFpEq // fp.eq (IEEE ==)
	OFpIsNaN
	OFpIsInf
	OFpIsZero
	OFpIsNeg
	OFpFromSBV // ((_ to_fp e s) RNE bv) signed int -> fp
	OFpFromUBV // ((_ to_fp_unsigned e s) RNE bv)
	OFpToSBV   // ((_ fp.to_sbv w) RTZ x)  P1=w
	OFpToUBV   // P1=w
	OFpToFp    // fp -> fp of other precision (RNE)
	OFpRoundRTZ // fp.roundToIntegral RTZ
	OFpRoundRTN // floor
	OFpRoundRTP // ceil
	OFpConst   // literal given by bits in Val
	OApp       // uninterpreted function application: Name, Args
	OBvSMulNoOvfl // z3: signed multiplication does not overflow
	OBvSMulNoUdfl // z3: signed multiplication does not underflow
)

type Term struct {
	Op   Op
	Sort Sort
	Args []*Term
	Val  uint64
	Name string
	P1   int
	P2   int
	ID   int
	C    *Ctx
}

// Ctx hash-conses terms. Not safe for concurrent use.
type Ctx struct {
	tab   map[string]*Term
	next  int
	Vars  []*Term            // declared variables in creation order
	varBy map[string]*Term
	Funs  map[string]string // uninterpreted function declarations: name -> decl line
	FunOrder []string
	Owner any // back-pointer for the interpreter's path state
	linMemo map[*Term]*linForm
}

func NewCtx() *Ctx {
	return &Ctx{tab: map[string]*Term{}, varBy: map[string]*Term{}, Funs: map[string]string{}, linMemo: map[*Term]*linForm{}}
}

func (c *Ctx) mk(op Op, s Sort, val uint64, name string, p1, p2 int, args ...*Term) *Term {
	var sb strings.Builder
	sb.WriteString(strconv.Itoa(int(op)))
	sb.WriteByte(':')
	sb.WriteString(strconv.Itoa(int(s.K)))
	sb.WriteByte(',')
	sb.WriteString(strconv.Itoa(s.W))
	sb.WriteByte(':')
	sb.WriteString(strconv.FormatUint(val, 16))
	sb.WriteByte(':')
	sb.WriteString(name)
	sb.WriteByte(':')
	sb.WriteString(strconv.Itoa(p1))
	sb.WriteByte(',')
	sb.WriteString(strconv.Itoa(p2))
	for _, a := range args {
		sb.WriteByte(' ')
		sb.WriteString(strconv.Itoa(a.ID))
	}
	k := sb.String()
	if t, ok := c.tab[k]; ok {
		return t
	}
	c.next++
	t := &Term{Op: op, Sort: s, Args: args, Val: val, Name: name, P1: p1, P2: p2, ID: c.next, C: c}
	c.tab[k] = t
	return t
}

func mask(w int) uint64 {
	if w >= 64 {
		return ^uint64(0)
	}
	return (uint64(1) << uint(w)) - 1
}

func (t *Term) IsConst() bool { return t.Op == OConst }
func (t *Term) IsTrue() bool  { return t.Op == OConst && t.Sort.K == SBool && t.Val == 1 }
func (t *Term) IsFalse() bool { return t.Op == OConst && t.Sort.K == SBool && t.Val == 0 }

// signed value of a constant
func (t *Term) sval() int64 {
	w := t.Sort.W
	if w >= 64 {
		return int64(t.Val)
	}
	sh := uint(64 - w)
	return int64(t.Val<<sh) >> sh
}

func (c *Ctx) True() *Term  { return c.mk(OConst, Bool, 1, "", 0, 0) }
func (c *Ctx) False() *Term { return c.mk(OConst, Bool, 0, "", 0, 0) }
func (c *Ctx) BoolC(b bool) *Term {
	if b {
		return c.True()
	}
	return c.False()
}

func (c *Ctx) BVC(w int, v uint64) *Term {
	if w > 64 {
		// build by zero-extension of the 64-bit constant
		return c.ZeroExt(w-64, c.BVC(64, v))
	}
	return c.mk(OConst, BV(w), v&mask(w), "", 0, 0)
}

// BVCs makes a W-bit constant from a signed value (sign-extended for W>64).
func (c *Ctx) BVCs(w int, v int64) *Term {
	if w > 64 {
		return c.SignExt(w-64, c.BVC(64, uint64(v)))
	}
	return c.BVC(w, uint64(v))
}

func (c *Ctx) Var(name string, s Sort) *Term {
	if t, ok := c.varBy[name]; ok {
		if t.Sort != s {
			panic(fmt.Sprintf("smt: variable %s redeclared with different sort", name))
		}
		return t
	}
	t := c.mk(OVar, s, 0, name, 0, 0)
	c.varBy[name] = t
	c.Vars = append(c.Vars, t)
	return t
}

func (c *Ctx) LookupVar(name string) *Term { return c.varBy[name] }

func (c *Ctx) Not(a *Term) *Term {
	if a.IsConst() {
		return c.BoolC(a.Val == 0)
	}
	if a.Op == ONot {
		return a.Args[0]
	}
	return c.mk(ONot, Bool, 0, "", 0, 0, a)
}

func (c *Ctx) And(a, b *Term) *Term {
	if a.IsConst() {
		if a.Val == 0 {
			return a
		}
		return b
	}
	if b.IsConst() {
		if b.Val == 0 {
			return b
		}
		return a
	}
	if a == b {
		return a
	}
	return c.mk(OAnd, Bool, 0, "", 0, 0, a, b)
}

func (c *Ctx) Or(a, b *Term) *Term {
	if a.IsConst() {
		if a.Val == 1 {
			return a
		}
		return b
	}
	if b.IsConst() {
		if b.Val == 1 {
			return b
		}
		return a
	}
	if a == b {
		return a
	}
	return c.mk(OOr, Bool, 0, "", 0, 0, a, b)
}

func (c *Ctx) Implies(a, b *Term) *Term { return c.Or(c.Not(a), b) }

func (c *Ctx) Ite(cond, a, b *Term) *Term {
	if cond.IsConst() {
		if cond.Val == 1 {
			return a
		}
		return b
	}
	if a == b {
		return a
	}
	if a.Sort != b.Sort {
		panic(fmt.Sprintf("smt: ite sort mismatch %v vs %v", a.Sort, b.Sort))
	}
	if a.Sort.K == SBool {
		if a.IsConst() && b.IsConst() {
			if a.Val == 1 { // ite(c, true, false)
				return cond
			}
			return c.Not(cond)
		}
		if a.IsTrue() {
			return c.Or(cond, b)
		}
		if a.IsFalse() {
			return c.And(c.Not(cond), b)
		}
		if b.IsTrue() {
			return c.Or(c.Not(cond), a)
		}
		if b.IsFalse() {
			return c.And(cond, a)
		}
	}
	return c.mk(OIte, a.Sort, 0, "", 0, 0, cond, a, b)
}

func (c *Ctx) Eq(a, b *Term) *Term {
	if a.Sort != b.Sort {
		panic(fmt.Sprintf("smt: eq sort mismatch %v vs %v", a.Sort, b.Sort))
	}
	if a == b && a.Sort.K != SFP64 && a.Sort.K != SFP32 {
		return c.True()
	}
	if a == b {
		return c.True() // structural equality (smt '=') is reflexive even for NaN
	}
	if a.IsConst() && b.IsConst() {
		return c.BoolC(a.Val == b.Val)
	}
	if a.Sort.K == SBV && a.Sort.W <= 64 && (isLinOp(a) || isLinOp(b)) {
		d := c.linOf(a).combine(c.linOf(b), mask(a.Sort.W), a.Sort.W)
		if len(d.atoms) == 0 {
			return c.BoolC(d.k == 0)
		}
		if len(d.atoms) == 1 && d.atoms[0].coeff == 1 {
			// x + k == 0  <=>  x == -k
			return c.Eq(d.atoms[0].t, c.BVC(a.Sort.W, -d.k))
		}
	}
	if a.Sort.K == SBool {
		if a.IsConst() {
			if a.Val == 1 {
				return b
			}
			return c.Not(b)
		}
		if b.IsConst() {
			if b.Val == 1 {
				return a
			}
			return c.Not(a)
		}
	}
	// ite(c, k1, k2) == k  with constants folds to c / not c / false
	if b.IsConst() && a.Op == OIte && a.Args[1].IsConst() && a.Args[2].IsConst() {
		return c.Ite(a.Args[0], c.BoolC(a.Args[1].Val == b.Val), c.BoolC(a.Args[2].Val == b.Val))
	}
	if a.IsConst() && b.Op == OIte && b.Args[1].IsConst() && b.Args[2].IsConst() {
		return c.Ite(b.Args[0], c.BoolC(b.Args[1].Val == a.Val), c.BoolC(b.Args[2].Val == a.Val))
	}
	if a.ID > b.ID {
		a, b = b, a
	}
	return c.mk(OEq, Bool, 0, "", 0, 0, a, b)
}

func (c *Ctx) BvNot(a *Term) *Term {
	if a.IsConst() {
		return c.BVC(a.Sort.W, ^a.Val)
	}
	if a.Op == OBvNot {
		return a.Args[0]
	}
	return c.mk(OBvNot, a.Sort, 0, "", 0, 0, a)
}

func (c *Ctx) BvNeg(a *Term) *Term {
	if a.IsConst() {
		return c.BVC(a.Sort.W, -a.Val)
	}
	if a.Sort.W <= 64 {
		return c.linBuild(c.linOf(a).scale(mask(a.Sort.W), a.Sort.W), a.Sort.W)
	}
	return c.mk(OBvNeg, a.Sort, 0, "", 0, 0, a)
}

func (c *Ctx) bin(op Op, a, b *Term) *Term {
	if a.Sort != b.Sort {
		panic(fmt.Sprintf("smt: binop %d sort mismatch %v vs %v", op, a.Sort, b.Sort))
	}
	w := a.Sort.W
	if w <= 64 && !(a.IsConst() && b.IsConst()) {
		switch op {
		case OBvAdd:
			return c.linBuild(c.linOf(a).combine(c.linOf(b), 1, w), w)
		case OBvSub:
			return c.linBuild(c.linOf(a).combine(c.linOf(b), mask(w), w), w)
		case OBvMul:
			if a.IsConst() {
				return c.linBuild(c.linOf(b).scale(a.Val, w), w)
			}
			if b.IsConst() {
				return c.linBuild(c.linOf(a).scale(b.Val, w), w)
			}
		}
	}
	if a.IsConst() && b.IsConst() && w <= 64 {
		x, y := a.Val, b.Val
		sx, sy := a.sval(), b.sval()
		switch op {
		case OBvAnd:
			return c.BVC(w, x&y)
		case OBvOr:
			return c.BVC(w, x|y)
		case OBvXor:
			return c.BVC(w, x^y)
		case OBvAdd:
			return c.BVC(w, x+y)
		case OBvSub:
			return c.BVC(w, x-y)
		case OBvMul:
			return c.BVC(w, x*y)
		case OBvUDiv:
			if y == 0 {
				return c.BVC(w, mask(w))
			}
			return c.BVC(w, x/y)
		case OBvURem:
			if y == 0 {
				return c.BVC(w, x)
			}
			return c.BVC(w, x%y)
		case OBvSDiv:
			if sy == 0 {
				if sx >= 0 {
					return c.BVC(w, mask(w))
				}
				return c.BVC(w, 1)
			}
			if sy == -1 {
				return c.BVC(w, uint64(-sx))
			}
			return c.BVC(w, uint64(sx/sy))
		case OBvSRem:
			if sy == 0 {
				return c.BVC(w, x)
			}
			if sy == -1 {
				return c.BVC(w, 0)
			}
			return c.BVC(w, uint64(sx%sy))
		case OBvShl:
			if y >= uint64(w) {
				return c.BVC(w, 0)
			}
			return c.BVC(w, x<<y)
		case OBvLShr:
			if y >= uint64(w) {
				return c.BVC(w, 0)
			}
			return c.BVC(w, x>>y)
		case OBvAShr:
			if y >= uint64(w) {
				if sx < 0 {
					return c.BVC(w, mask(w))
				}
				return c.BVC(w, 0)
			}
			return c.BVC(w, uint64(sx>>y))
		}
	}
	// identities
	switch op {
	case OBvAdd, OBvOr, OBvXor:
		if a.IsConst() && a.Val == 0 {
			return b
		}
		if b.IsConst() && b.Val == 0 {
			return a
		}
		if op == OBvOr && a == b {
			return a
		}
		if op == OBvXor && a == b && w <= 64 {
			return c.BVC(w, 0)
		}
	case OBvSub:
		if b.IsConst() && b.Val == 0 {
			return a
		}
		if a == b && w <= 64 {
			return c.BVC(w, 0)
		}
	case OBvAnd:
		if a.IsConst() && a.Val == 0 {
			return a
		}
		if b.IsConst() && b.Val == 0 {
			return b
		}
		if w <= 64 {
			if a.IsConst() && a.Val == mask(w) {
				return b
			}
			if b.IsConst() && b.Val == mask(w) {
				return a
			}
		}
		if a == b {
			return a
		}
	case OBvMul:
		if a.IsConst() && a.Val == 1 {
			return b
		}
		if b.IsConst() && b.Val == 1 {
			return a
		}
		if (a.IsConst() && a.Val == 0) || (b.IsConst() && b.Val == 0) {
			if w <= 64 {
				return c.BVC(w, 0)
			}
		}
	case OBvShl, OBvLShr, OBvAShr:
		if b.IsConst() && b.Val == 0 {
			return a
		}
	case OBvUDiv, OBvSDiv:
		if b.IsConst() && b.Val == 1 {
			return a
		}
	}
	// commutative normalisation
	switch op {
	case OBvAnd, OBvOr, OBvXor, OBvAdd, OBvMul:
		if a.ID > b.ID {
			a, b = b, a
		}
	}
	return c.mk(op, a.Sort, 0, "", 0, 0, a, b)
}

func (c *Ctx) BvAnd(a, b *Term) *Term  { return c.bin(OBvAnd, a, b) }
func (c *Ctx) BvOr(a, b *Term) *Term   { return c.bin(OBvOr, a, b) }
func (c *Ctx) BvXor(a, b *Term) *Term  { return c.bin(OBvXor, a, b) }
func (c *Ctx) BvAdd(a, b *Term) *Term  { return c.bin(OBvAdd, a, b) }
func (c *Ctx) BvSub(a, b *Term) *Term  { return c.bin(OBvSub, a, b) }
func (c *Ctx) BvMul(a, b *Term) *Term  { return c.bin(OBvMul, a, b) }
func (c *Ctx) BvUDiv(a, b *Term) *Term { return c.bin(OBvUDiv, a, b) }
func (c *Ctx) BvURem(a, b *Term) *Term { return c.bin(OBvURem, a, b) }
func (c *Ctx) BvSDiv(a, b *Term) *Term { return c.bin(OBvSDiv, a, b) }
func (c *Ctx) BvSRem(a, b *Term) *Term { return c.bin(OBvSRem, a, b) }
func (c *Ctx) BvShl(a, b *Term) *Term  { return c.bin(OBvShl, a, b) }
func (c *Ctx) BvLShr(a, b *Term) *Term { return c.bin(OBvLShr, a, b) }
func (c *Ctx) BvAShr(a, b *Term) *Term { return c.bin(OBvAShr, a, b) }

func (c *Ctx) cmp(op Op, a, b *Term) *Term {
	if a.Sort != b.Sort {
		panic(fmt.Sprintf("smt: cmp sort mismatch %v vs %v", a.Sort, b.Sort))
	}
	if a.IsConst() && b.IsConst() && a.Sort.W <= 64 {
		switch op {
		case OBvULt:
			return c.BoolC(a.Val < b.Val)
		case OBvULe:
			return c.BoolC(a.Val <= b.Val)
		case OBvSLt:
			return c.BoolC(a.sval() < b.sval())
		case OBvSLe:
			return c.BoolC(a.sval() <= b.sval())
		}
	}
	if a == b {
		return c.BoolC(op == OBvULe || op == OBvSLe)
	}
	return c.mk(op, Bool, 0, "", 0, 0, a, b)
}

func (c *Ctx) ULt(a, b *Term) *Term { return c.cmp(OBvULt, a, b) }
func (c *Ctx) ULe(a, b *Term) *Term { return c.cmp(OBvULe, a, b) }
func (c *Ctx) SLt(a, b *Term) *Term { return c.cmp(OBvSLt, a, b) }
func (c *Ctx) SLe(a, b *Term) *Term { return c.cmp(OBvSLe, a, b) }

func (c *Ctx) Concat(hi, lo *Term) *Term {
	w := hi.Sort.W + lo.Sort.W
	if hi.IsConst() && lo.IsConst() && w <= 64 {
		return c.BVC(w, hi.Val<<uint(lo.Sort.W)|lo.Val)
	}
	return c.mk(OConcat, BV(w), 0, "", 0, 0, hi, lo)
}

func (c *Ctx) Extract(hi, lo int, a *Term) *Term {
	w := hi - lo + 1
	if lo == 0 && w == a.Sort.W {
		return a
	}
	if a.IsConst() {
		return c.BVC(w, a.Val>>uint(lo))
	}
	switch a.Op {
	case OZeroExt, OSignExt:
		inner := a.Args[0]
		if hi < inner.Sort.W {
			return c.Extract(hi, lo, inner)
		}
		if a.Op == OZeroExt && lo >= inner.Sort.W && w <= 64 {
			return c.BVC(w, 0)
		}
	case OConcat:
		lw := a.Args[1].Sort.W
		if hi < lw {
			return c.Extract(hi, lo, a.Args[1])
		}
		if lo >= lw {
			return c.Extract(hi-lw, lo-lw, a.Args[0])
		}
	case OExtract:
		return c.Extract(hi+a.P2, lo+a.P2, a.Args[0])
	}
	return c.mk(OExtract, BV(w), 0, "", hi, lo, a)
}

func (c *Ctx) ZeroExt(n int, a *Term) *Term {
	if n == 0 {
		return a
	}
	w := a.Sort.W + n
	if a.IsConst() && w <= 64 {
		return c.BVC(w, a.Val)
	}
	if a.Op == OZeroExt {
		return c.ZeroExt(n+a.P1, a.Args[0])
	}
	return c.mk(OZeroExt, BV(w), 0, "", n, 0, a)
}

func (c *Ctx) SignExt(n int, a *Term) *Term {
	if n == 0 {
		return a
	}
	w := a.Sort.W + n
	if a.IsConst() && w <= 64 {
		return c.BVC(w, uint64(a.sval()))
	}
	if a.Op == OSignExt {
		return c.SignExt(n+a.P1, a.Args[0])
	}
	if a.Op == OZeroExt {
		return c.ZeroExt(n+a.P1, a.Args[0])
	}
	return c.mk(OSignExt, BV(w), 0, "", n, 0, a)
}

// Resize converts a to width w, sign- or zero-extending, or truncating.
func (c *Ctx) Resize(a *Term, w int, signed bool) *Term {
	aw := a.Sort.W
	switch {
	case w == aw:
		return a
	case w < aw:
		return c.Extract(w-1, 0, a)
	case signed:
		return c.SignExt(w-aw, a)
	default:
		return c.ZeroExt(w-aw, a)
	}
}

// Floating point.

func fpSortBits(s Sort) int {
	if s.K == SFP32 {
		return 32
	}
	return 64
}

func (c *Ctx) FpConst(s Sort, bits uint64) *Term {
	return c.mk(OFpConst, s, bits, "", 0, 0)
}

func (c *Ctx) FpOfBV(s Sort, a *Term) *Term {
	if a.IsConst() {
		return c.FpConst(s, a.Val)
	}
	return c.mk(OFpOfBV, s, 0, "", 0, 0, a)
}

func f64(t *Term) float64 { return math.Float64frombits(t.Val) }
func f32(t *Term) float32 { return math.Float32frombits(uint32(t.Val)) }

func (c *Ctx) fpc(s Sort, v float64) *Term {
	if s.K == SFP32 {
		return c.FpConst(s, uint64(math.Float32bits(float32(v))))
	}
	return c.FpConst(s, math.Float64bits(v))
}

func fval(t *Term) float64 {
	if t.Sort.K == SFP32 {
		return float64(f32(t))
	}
	return f64(t)
}

func (c *Ctx) FpBin(op Op, a, b *Term) *Term {
	if a.Op == OFpConst && b.Op == OFpConst {
		x, y := fval(a), fval(b)
		if a.Sort.K == SFP32 {
			x32, y32 := f32(a), f32(b)
			var r float32
			switch op {
			case OFpAdd:
				r = x32 + y32
			case OFpSub:
				r = x32 - y32
			case OFpMul:
				r = x32 * y32
			case OFpDiv:
				r = x32 / y32
			}
			return c.FpConst(a.Sort, uint64(math.Float32bits(r)))
		}
		switch op {
		case OFpAdd:
			return c.fpc(a.Sort, x+y)
		case OFpSub:
			return c.fpc(a.Sort, x-y)
		case OFpMul:
			return c.fpc(a.Sort, x*y)
		case OFpDiv:
			return c.fpc(a.Sort, x/y)
		}
	}
	return c.mk(op, a.Sort, 0, "", 0, 0, a, b)
}

func (c *Ctx) FpCmp(op Op, a, b *Term) *Term {
	if a.Op == OFpConst && b.Op == OFpConst {
		x, y := fval(a), fval(b)
		switch op {
		case OFpLt:
			return c.BoolC(x < y)
		case OFpLe:
			return c.BoolC(x <= y)
		case OFpEq:
			return c.BoolC(x == y)
		}
	}
	return c.mk(op, Bool, 0, "", 0, 0, a, b)
}

func (c *Ctx) FpUn(op Op, a *Term) *Term {
	if a.Op == OFpConst {
		x := fval(a)
		switch op {
		case OFpNeg:
			if a.Sort.K == SFP32 {
				return c.FpConst(a.Sort, a.Val^(1<<31))
			}
			return c.FpConst(a.Sort, a.Val^(1<<63))
		case OFpAbs:
			if a.Sort.K == SFP32 {
				return c.FpConst(a.Sort, a.Val&^(1<<31))
			}
			return c.FpConst(a.Sort, a.Val&^(1<<63))
		case OFpRoundRTZ:
			return c.fpc(a.Sort, math.Trunc(x))
		case OFpRoundRTN:
			return c.fpc(a.Sort, math.Floor(x))
		case OFpRoundRTP:
			return c.fpc(a.Sort, math.Ceil(x))
		}
	}
	return c.mk(op, a.Sort, 0, "", 0, 0, a)
}

func (c *Ctx) FpPred(op Op, a *Term) *Term {
	if a.Op == OFpConst {
		x := fval(a)
		switch op {
		case OFpIsNaN:
			return c.BoolC(x != x)
		case OFpIsInf:
			return c.BoolC(math.IsInf(x, 0))
		case OFpIsZero:
			return c.BoolC(x == 0)
		case OFpIsNeg:
			return c.BoolC(math.Signbit(x) && x == x)
		}
	}
	return c.mk(op, Bool, 0, "", 0, 0, a)
}

func (c *Ctx) FpFromBV(s Sort, a *Term, signed bool) *Term {
	if a.IsConst() {
		if signed {
			return c.fpc(s, float64(a.sval()))
		}
		return c.fpc(s, float64(a.Val))
	}
	if signed {
		return c.mk(OFpFromSBV, s, 0, "", 0, 0, a)
	}
	return c.mk(OFpFromUBV, s, 0, "", 0, 0, a)
}

// FpToBV converts with truncation toward zero; result unspecified when out of range
// (matches neither Go nor hardware reliably; callers must guard).
func (c *Ctx) FpToBV(w int, a *Term, signed bool) *Term {
	if signed {
		return c.mk(OFpToSBV, BV(w), 0, "", w, 0, a)
	}
	return c.mk(OFpToUBV, BV(w), 0, "", w, 0, a)
}

func (c *Ctx) FpToFp(s Sort, a *Term) *Term {
	if a.Sort == s {
		return a
	}
	if a.Op == OFpConst {
		return c.fpc(s, fval(a))
	}
	return c.mk(OFpToFp, s, 0, "", 0, 0, a)
}

// SMulOverflows is true iff the signed product of a and b is not representable in their width.
func (c *Ctx) SMulOverflows(a, b *Term) *Term {
	if a.IsConst() && b.IsConst() && a.Sort.W <= 64 {
		hi, lo := bits.Mul64(uint64(abs64(a.sval())), uint64(abs64(b.sval())))
		neg := (a.sval() < 0) != (b.sval() < 0)
		w := uint(a.Sort.W)
		var ovf bool
		if hi != 0 {
			ovf = true
		} else if neg {
			ovf = lo > uint64(1)<<(w-1)
		} else {
			ovf = lo > uint64(1)<<(w-1)-1
		}
		return c.BoolC(ovf)
	}
	ok := c.And(c.mk(OBvSMulNoOvfl, Bool, 0, "", 0, 0, a, b), c.mk(OBvSMulNoUdfl, Bool, 0, "", 0, 0, a, b))
	return c.Not(ok)
}

func abs64(x int64) int64 {
	if x < 0 {
		return -x
	}
	return x
}

// App applies an uninterpreted function (declared on first use).
func (c *Ctx) App(name string, ret Sort, args ...*Term) *Term {
	if _, ok := c.Funs[name]; !ok {
		var sb strings.Builder
		fmt.Fprintf(&sb, "(declare-fun %s (", name)
		for i, a := range args {
			if i > 0 {
				sb.WriteByte(' ')
			}
			sb.WriteString(a.Sort.String())
		}
		fmt.Fprintf(&sb, ") %s)", ret.String())
		c.Funs[name] = sb.String()
		c.FunOrder = append(c.FunOrder, name)
	}
	return c.mk(OApp, ret, 0, name, 0, 0, args...)
}

var opNames = map[Op]string{
	ONot: "not", OAnd: "and", OOr: "or", OXor: "xor", OImplies: "=>", OIte: "ite", OEq: "=",
	OBvNot: "bvnot", OBvNeg: "bvneg", OBvAnd: "bvand", OBvOr: "bvor", OBvXor: "bvxor",
	OBvAdd: "bvadd", OBvSub: "bvsub", OBvMul: "bvmul", OBvUDiv: "bvudiv", OBvURem: "bvurem",
	OBvSDiv: "bvsdiv", OBvSRem: "bvsrem", OBvShl: "bvshl", OBvLShr: "bvlshr", OBvAShr: "bvashr",
	OBvULt: "bvult", OBvULe: "bvule", OBvSLt: "bvslt", OBvSLe: "bvsle", OConcat: "concat",
	OFpAdd: "fp.add RNE", OFpSub: "fp.sub RNE", OFpMul: "fp.mul RNE", OFpDiv: "fp.div RNE",
	OFpNeg: "fp.neg", OFpAbs: "fp.abs", OFpLt: "fp.lt", OFpLe: "fp.leq", OFpEq: "fp.eq",
	OFpIsNaN: "fp.isNaN", OFpIsInf: "fp.isInfinite", OFpIsZero: "fp.isZero", OFpIsNeg: "fp.isNegative",
	OBvSMulNoOvfl: "bvsmul_noovfl", OBvSMulNoUdfl: "bvsmul_noudfl",
	OFpRoundRTZ: "fp.roundToIntegral RTZ", OFpRoundRTN: "fp.roundToIntegral RTN", OFpRoundRTP: "fp.roundToIntegral RTP",
}

func fpES(s Sort) string {
	if s.K == SFP32 {
		return "8 24"
	}
	return "11 53"
}

func constStr(t *Term) string {
	if t.Sort.K == SBool {
		if t.Val == 1 {
			return "true"
		}
		return "false"
	}
	w := t.Sort.W
	if w%4 == 0 {
		return fmt.Sprintf("#x%0*x", w/4, t.Val)
	}
	return fmt.Sprintf("#b%0*b", w, t.Val)
}

func head(t *Term) string {
	switch t.Op {
	case OExtract:
		return fmt.Sprintf("(_ extract %d %d)", t.P1, t.P2)
	case OZeroExt:
		return fmt.Sprintf("(_ zero_extend %d)", t.P1)
	case OSignExt:
		return fmt.Sprintf("(_ sign_extend %d)", t.P1)
	case OFpOfBV:
		return fmt.Sprintf("(_ to_fp %s)", fpES(t.Sort))
	case OFpFromSBV:
		return fmt.Sprintf("(_ to_fp %s) RNE", fpES(t.Sort))
	case OFpFromUBV:
		return fmt.Sprintf("(_ to_fp_unsigned %s) RNE", fpES(t.Sort))
	case OFpToSBV:
		return fmt.Sprintf("(_ fp.to_sbv %d) RTZ", t.P1)
	case OFpToUBV:
		return fmt.Sprintf("(_ fp.to_ubv %d) RTZ", t.P1)
	case OFpToFp:
		return fmt.Sprintf("(_ to_fp %s) RNE", fpES(t.Sort))
	case OApp:
		return t.Name
	}
	return opNames[t.Op]
}

// Print renders t as an SMT-LIB2 term, let-binding shared subterms.
func Print(t *Term) string {
	// count references
	refs := map[*Term]int{}
	var count func(*Term)
	count = func(x *Term) {
		refs[x]++
		if refs[x] > 1 {
			return
		}
		for _, a := range x.Args {
			count(a)
		}
	}
	count(t)
	// topological order of shared non-leaf nodes
	var order []*Term
	seen := map[*Term]bool{}
	var visit func(*Term)
	visit = func(x *Term) {
		if seen[x] {
			return
		}
		seen[x] = true
		for _, a := range x.Args {
			visit(a)
		}
		if refs[x] > 1 && len(x.Args) > 0 && x != t {
			order = append(order, x)
		}
	}
	visit(t)
	names := map[*Term]string{}
	var pr func(x *Term, sb *strings.Builder)
	pr = func(x *Term, sb *strings.Builder) {
		if n, ok := names[x]; ok {
			sb.WriteString(n)
			return
		}
		switch x.Op {
		case OConst:
			sb.WriteString(constStr(x))
			return
		case OVar:
			sb.WriteString(x.Name)
			return
		case OFpConst:
			if x.Sort.K == SFP32 {
				fmt.Fprintf(sb, "((_ to_fp 8 24) #x%08x)", x.Val)
			} else {
				fmt.Fprintf(sb, "((_ to_fp 11 53) #x%016x)", x.Val)
			}
			return
		}
		if x.Op == OApp && len(x.Args) == 0 {
			sb.WriteString(x.Name)
			return
		}
		sb.WriteByte('(')
		sb.WriteString(head(x))
		for _, a := range x.Args {
			sb.WriteByte(' ')
			pr(a, sb)
		}
		sb.WriteByte(')')
	}
	var out strings.Builder
	for i, x := range order {
		var sb strings.Builder
		pr(x, &sb)
		n := fmt.Sprintf("?l%d", i)
		fmt.Fprintf(&out, "(let ((%s %s)) ", n, sb.String())
		names[x] = n
	}
	pr(t, &out)
	for range order {
		out.WriteByte(')')
	}
	return out.String()
}

// Size returns the number of distinct nodes in t.
func Size(t *Term) int {
	seen := map[*Term]bool{}
	var visit func(*Term)
	visit = func(x *Term) {
		if seen[x] {
			return
		}
		seen[x] = true
		for _, a := range x.Args {
			visit(a)
		}
	}
	visit(t)
	return len(seen)
}

var _ = bits.Len

// ---- linear normal form for bvadd/bvsub/bvneg/bvmul-by-constant (width <= 64) ----

type linAtom struct {
	t     *Term
	coeff uint64
}

type linForm struct {
	atoms []linAtom // sorted by term ID, coeff != 0
	k     uint64
}

func isLinOp(t *Term) bool {
	switch t.Op {
	case OBvAdd, OBvSub, OBvNeg:
		return true
	case OBvMul:
		return t.Args[0].IsConst() || t.Args[1].IsConst()
	}
	return false
}

func (c *Ctx) linOf(t *Term) *linForm {
	if t.IsConst() {
		return &linForm{k: t.Val}
	}
	if !isLinOp(t) {
		return &linForm{atoms: []linAtom{{t, 1}}}
	}
	if l, ok := c.linMemo[t]; ok {
		return l
	}
	w := t.Sort.W
	var l *linForm
	switch t.Op {
	case OBvAdd:
		l = c.linOf(t.Args[0]).combine(c.linOf(t.Args[1]), 1, w)
	case OBvSub:
		l = c.linOf(t.Args[0]).combine(c.linOf(t.Args[1]), mask(w), w)
	case OBvNeg:
		l = c.linOf(t.Args[0]).scale(mask(w), w)
	case OBvMul:
		if t.Args[0].IsConst() {
			l = c.linOf(t.Args[1]).scale(t.Args[0].Val, w)
		} else {
			l = c.linOf(t.Args[0]).scale(t.Args[1].Val, w)
		}
	}
	c.linMemo[t] = l
	return l
}

// combine returns a + f*b (mod 2^w).
func (a *linForm) combine(b *linForm, f uint64, w int) *linForm {
	m := mask(w)
	r := &linForm{k: (a.k + f*b.k) & m}
	i, j := 0, 0
	for i < len(a.atoms) || j < len(b.atoms) {
		switch {
		case j >= len(b.atoms) || (i < len(a.atoms) && a.atoms[i].t.ID < b.atoms[j].t.ID):
			r.atoms = append(r.atoms, a.atoms[i])
			i++
		case i >= len(a.atoms) || b.atoms[j].t.ID < a.atoms[i].t.ID:
			if cf := (f * b.atoms[j].coeff) & m; cf != 0 {
				r.atoms = append(r.atoms, linAtom{b.atoms[j].t, cf})
			}
			j++
		default:
			if cf := (a.atoms[i].coeff + f*b.atoms[j].coeff) & m; cf != 0 {
				r.atoms = append(r.atoms, linAtom{a.atoms[i].t, cf})
			}
			i++
			j++
		}
	}
	return r
}

func (a *linForm) scale(f uint64, w int) *linForm {
	m := mask(w)
	r := &linForm{k: (a.k * f) & m}
	for _, at := range a.atoms {
		if cf := (at.coeff * f) & m; cf != 0 {
			r.atoms = append(r.atoms, linAtom{at.t, cf})
		}
	}
	return r
}

// linBuild rebuilds a canonical term from a linear form.
func (c *Ctx) linBuild(l *linForm, w int) *Term {
	m := mask(w)
	var acc *Term
	s := BV(w)
	// positive (coeff != -1) atoms first, then subtractions
	for _, at := range l.atoms {
		if at.coeff == m {
			continue
		}
		var x *Term
		if at.coeff == 1 {
			x = at.t
		} else {
			x = c.mk(OBvMul, s, 0, "", 0, 0, c.BVC(w, at.coeff), at.t)
		}
		if acc == nil {
			acc = x
		} else {
			acc = c.mk(OBvAdd, s, 0, "", 0, 0, acc, x)
		}
	}
	if l.k != 0 {
		kc := c.BVC(w, l.k)
		if acc == nil {
			acc = kc
		} else {
			acc = c.mk(OBvAdd, s, 0, "", 0, 0, acc, kc)
		}
	}
	for _, at := range l.atoms {
		if at.coeff != m {
			continue
		}
		if acc == nil {
			acc = c.mk(OBvNeg, s, 0, "", 0, 0, at.t)
		} else {
			acc = c.mk(OBvSub, s, 0, "", 0, 0, acc, at.t)
		}
	}
	if acc == nil {
		return c.BVC(w, 0)
	}
	if _, ok := c.linMemo[acc]; !ok && isLinOp(acc) {
		c.linMemo[acc] = l
	}
	return acc
}
