package smt

import (
	"math/rand"
	"testing"
)

// Random expression trees: the simplified term must evaluate like the unsimplified semantics.
func TestLinearNormalFormPreservesValue(t *testing.T) {
	rng := rand.New(rand.NewSource(1))
	for iter := 0; iter < 3000; iter++ {
		c := NewCtx()
		w := []int{8, 32, 64}[rng.Intn(3)]
		vars := []*Term{c.Var("a", BV(w)), c.Var("b", BV(w)), c.Var("d", BV(w))}
		model := map[string]uint64{"a": rng.Uint64() & mask(w), "b": rng.Uint64() & mask(w), "d": rng.Uint64() & mask(w)}
		var gen func(depth int) (*Term, uint64)
		gen = func(depth int) (*Term, uint64) {
			if depth == 0 || rng.Intn(4) == 0 {
				if rng.Intn(3) == 0 {
					v := rng.Uint64() & mask(w)
					if rng.Intn(2) == 0 {
						v = uint64(rng.Intn(3))
					}
					return c.BVC(w, v), v
				}
				x := vars[rng.Intn(3)]
				return x, model[x.Name]
			}
			x, xv := gen(depth - 1)
			y, yv := gen(depth - 1)
			switch rng.Intn(6) {
			case 0:
				return c.BvAdd(x, y), (xv + yv) & mask(w)
			case 1:
				return c.BvSub(x, y), (xv - yv) & mask(w)
			case 2:
				return c.BvNeg(x), (-xv) & mask(w)
			case 3:
				return c.BvMul(x, y), (xv * yv) & mask(w)
			case 4:
				return c.BvXor(x, y), xv ^ yv
			default:
				k := rng.Uint64() & mask(w)
				return c.BvMul(c.BVC(w, k), x), (k * xv) & mask(w)
			}
		}
		term, want := gen(5)
		got, ok := Eval(term, model, NewEvalMemo())
		if !ok || got != want {
			t.Fatalf("iter %d: term %s evaluates to %x (ok=%v), want %x", iter, Print(term), got, ok, want)
		}
		// equality folding
		u, uv := gen(3)
		v, vv := gen(3)
		e := c.Eq(u, v)
		ev, ok := Eval(e, model, NewEvalMemo())
		if !ok || (ev == 1) != (uv == vv) {
			t.Fatalf("iter %d: eq %s evaluates to %v, want %v", iter, Print(e), ev, uv == vv)
		}
	}
}
