package smt

import (
	"math"
	"math/bits"
)

// Eval evaluates t under a model of the variables (by name). ok is false when
// the term contains something the evaluator cannot decide (uninterpreted
// functions, terms wider than 64 bits, unspecified results).
func Eval(t *Term, model map[string]uint64, memo map[*Term]evalRes) (uint64, bool) {
	if r, ok := memo[t]; ok {
		return r.v, r.ok
	}
	v, ok := eval1(t, model, memo)
	memo[t] = evalRes{v, ok}
	return v, ok
}

type evalRes struct {
	v  uint64
	ok bool
}

type EvalMemo = map[*Term]evalRes

func NewEvalMemo() EvalMemo { return map[*Term]evalRes{} }

func sext(v uint64, w int) int64 {
	if w >= 64 {
		return int64(v)
	}
	sh := uint(64 - w)
	return int64(v<<sh) >> sh
}

func fpOf(t *Term, bitsv uint64) float64 {
	if t.Sort.K == SFP32 {
		return float64(math.Float32frombits(uint32(bitsv)))
	}
	return math.Float64frombits(bitsv)
}

func fpBits(s Sort, f float64) uint64 {
	if s.K == SFP32 {
		return uint64(math.Float32bits(float32(f)))
	}
	return math.Float64bits(f)
}

func b2u(b bool) uint64 {
	if b {
		return 1
	}
	return 0
}

func eval1(t *Term, model map[string]uint64, memo map[*Term]evalRes) (uint64, bool) {
	if t.Sort.K == SBV && t.Sort.W > 64 {
		return 0, false
	}
	switch t.Op {
	case OConst, OFpConst:
		return t.Val, true
	case OVar:
		v, ok := model[t.Name]
		return v, ok
	case OApp:
		return 0, false
	}
	var a [3]uint64
	for i, x := range t.Args {
		if x.Sort.K == SBV && x.Sort.W > 64 {
			return 0, false
		}
		// lazy evaluation for ite / and / or
		if t.Op == OIte && i > 0 {
			break
		}
		v, ok := Eval(x, model, memo)
		if !ok {
			return 0, false
		}
		if i < 3 {
			a[i] = v
		}
	}
	w := t.Sort.W
	m := mask(w)
	aw := 0
	if len(t.Args) > 0 {
		aw = t.Args[0].Sort.W
	}
	switch t.Op {
	case ONot:
		return a[0] ^ 1, true
	case OAnd:
		return a[0] & a[1], true
	case OOr:
		return a[0] | a[1], true
	case OXor:
		return a[0] ^ a[1], true
	case OImplies:
		return (a[0] ^ 1) | a[1], true
	case OIte:
		if a[0] == 1 {
			return Eval(t.Args[1], model, memo)
		}
		return Eval(t.Args[2], model, memo)
	case OEq:
		if t.Args[0].Sort.K == SFP64 || t.Args[0].Sort.K == SFP32 {
			x, y := fpOf(t.Args[0], a[0]), fpOf(t.Args[1], a[1])
			if x != x || y != y {
				return b2u(x != x && y != y), true
			}
			return b2u(a[0] == a[1]), true
		}
		return b2u(a[0] == a[1]), true
	case OBvNot:
		return ^a[0] & m, true
	case OBvNeg:
		return -a[0] & m, true
	case OBvAnd:
		return a[0] & a[1], true
	case OBvOr:
		return a[0] | a[1], true
	case OBvXor:
		return a[0] ^ a[1], true
	case OBvAdd:
		return (a[0] + a[1]) & m, true
	case OBvSub:
		return (a[0] - a[1]) & m, true
	case OBvMul:
		return (a[0] * a[1]) & m, true
	case OBvUDiv:
		if a[1] == 0 {
			return m, true
		}
		return a[0] / a[1], true
	case OBvURem:
		if a[1] == 0 {
			return a[0], true
		}
		return a[0] % a[1], true
	case OBvSDiv:
		x, y := sext(a[0], w), sext(a[1], w)
		if y == 0 {
			if x >= 0 {
				return m, true
			}
			return 1, true
		}
		if y == -1 {
			return uint64(-x) & m, true
		}
		return uint64(x/y) & m, true
	case OBvSRem:
		x, y := sext(a[0], w), sext(a[1], w)
		if y == 0 {
			return a[0], true
		}
		if y == -1 {
			return 0, true
		}
		return uint64(x%y) & m, true
	case OBvShl:
		if a[1] >= uint64(w) {
			return 0, true
		}
		return (a[0] << a[1]) & m, true
	case OBvLShr:
		if a[1] >= uint64(w) {
			return 0, true
		}
		return a[0] >> a[1], true
	case OBvAShr:
		x := sext(a[0], w)
		if a[1] >= uint64(w) {
			if x < 0 {
				return m, true
			}
			return 0, true
		}
		return uint64(x>>a[1]) & m, true
	case OBvULt:
		return b2u(a[0] < a[1]), true
	case OBvULe:
		return b2u(a[0] <= a[1]), true
	case OBvSLt:
		return b2u(sext(a[0], aw) < sext(a[1], aw)), true
	case OBvSLe:
		return b2u(sext(a[0], aw) <= sext(a[1], aw)), true
	case OConcat:
		return (a[0]<<uint(t.Args[1].Sort.W) | a[1]) & m, true
	case OExtract:
		return (a[0] >> uint(t.P2)) & m, true
	case OZeroExt:
		return a[0], true
	case OSignExt:
		return uint64(sext(a[0], aw)) & m, true
	case OBvSMulNoOvfl, OBvSMulNoUdfl:
		x, y := sext(a[0], aw), sext(a[1], aw)
		hi, lo := bits.Mul64(uint64(abs64(x)), uint64(abs64(y)))
		neg := (x < 0) != (y < 0)
		if t.Op == OBvSMulNoOvfl {
			if neg {
				return 1, true
			}
			return b2u(hi == 0 && lo <= uint64(1)<<uint(aw-1)-1), true
		}
		if !neg {
			return 1, true
		}
		return b2u(hi == 0 && lo <= uint64(1)<<uint(aw-1)), true
	case OFpOfBV:
		return a[0], true
	case OFpAdd, OFpSub, OFpMul, OFpDiv:
		if t.Sort.K == SFP32 {
			x, y := math.Float32frombits(uint32(a[0])), math.Float32frombits(uint32(a[1]))
			var r float32
			switch t.Op {
			case OFpAdd:
				r = x + y
			case OFpSub:
				r = x - y
			case OFpMul:
				r = x * y
			case OFpDiv:
				r = x / y
			}
			return uint64(math.Float32bits(r)), true
		}
		x, y := math.Float64frombits(a[0]), math.Float64frombits(a[1])
		var r float64
		switch t.Op {
		case OFpAdd:
			r = x + y
		case OFpSub:
			r = x - y
		case OFpMul:
			r = x * y
		case OFpDiv:
			r = x / y
		}
		return math.Float64bits(r), true
	case OFpNeg:
		if t.Sort.K == SFP32 {
			return a[0] ^ (1 << 31), true
		}
		return a[0] ^ (1 << 63), true
	case OFpAbs:
		if t.Sort.K == SFP32 {
			return a[0] &^ (1 << 31), true
		}
		return a[0] &^ (1 << 63), true
	case OFpLt:
		return b2u(fpOf(t.Args[0], a[0]) < fpOf(t.Args[1], a[1])), true
	case OFpLe:
		return b2u(fpOf(t.Args[0], a[0]) <= fpOf(t.Args[1], a[1])), true
	case OFpEq:
		return b2u(fpOf(t.Args[0], a[0]) == fpOf(t.Args[1], a[1])), true
	case OFpIsNaN:
		x := fpOf(t.Args[0], a[0])
		return b2u(x != x), true
	case OFpIsInf:
		return b2u(math.IsInf(fpOf(t.Args[0], a[0]), 0)), true
	case OFpIsZero:
		return b2u(fpOf(t.Args[0], a[0]) == 0), true
	case OFpIsNeg:
		x := fpOf(t.Args[0], a[0])
		return b2u(x == x && math.Signbit(x)), true
	case OFpFromSBV:
		return fpBits(t.Sort, float64(sext(a[0], aw))), true
	case OFpFromUBV:
		return fpBits(t.Sort, float64(a[0])), true
	case OFpToSBV:
		x := math.Trunc(fpOf(t.Args[0], a[0]))
		lim := math.Ldexp(1, t.P1-1)
		if x != x || x < -lim || x >= lim {
			return 0, false // unspecified
		}
		return uint64(int64(x)) & m, true
	case OFpToUBV:
		x := math.Trunc(fpOf(t.Args[0], a[0]))
		lim := math.Ldexp(1, t.P1)
		if x != x || x < 0 || x >= lim {
			return 0, false
		}
		return uint64(x) & m, true
	case OFpToFp:
		return fpBits(t.Sort, fpOf(t.Args[0], a[0])), true
	case OFpRoundRTZ:
		return fpBits(t.Sort, math.Trunc(fpOf(t.Args[0], a[0]))), true
	case OFpRoundRTN:
		return fpBits(t.Sort, math.Floor(fpOf(t.Args[0], a[0]))), true
	case OFpRoundRTP:
		return fpBits(t.Sort, math.Ceil(fpOf(t.Args[0], a[0]))), true
	}
	return 0, false
}

var _ = bits.Len
