package smt

import (
	"bufio"
	"fmt"
	"io"
	"os"
	"os/exec"
	"strconv"
	"strings"
	"time"
)

type Result int

const (
	Unsat Result = iota
	Sat
	Unknown
)

func (r Result) String() string {
	switch r {
	case Unsat:
		return "unsat"
	case Sat:
		return "sat"
	}
	return "unknown"
}

// Solver drives one long-lived SMT solver process over pipes.
type Solver struct {
	Kind      string // "z3", "z3-new", "cvc5"
	TimeoutMs int
	Seed      int

	cmd   *exec.Cmd
	in    io.WriteCloser
	out   *bufio.Reader
	ctx   *Ctx
	nvars int // number of ctx.Vars already declared
	nfuns int
	// replay log for restart after a kill
	asserted []*Term

	// statistics
	NSat, NUnsat, NUnknown, NErrors int
	SolverTime                      time.Duration
	LastError                       string
	BytesSent                       int64
	PrintTime                       time.Duration
	SlowLog                         io.Writer
	ndump                           int
	fresh                           *Solver
	NoFallback                      bool
	isFresh                         bool
	QuickMs                         int
	AlwaysFresh                     bool // decide every query non-incrementally
	NFallback                       int
	curTimeout                      int
	Log                             io.Writer // optional transcript
}

func NewSolver(kind string, timeoutMs, seed int) *Solver {
	s := &Solver{Kind: kind, TimeoutMs: timeoutMs, Seed: seed}
	return s
}

func (s *Solver) start() {
	var cmd *exec.Cmd
	switch s.Kind {
	case "z3":
		cmd = exec.Command("/usr/bin/z3", "-in", "-smt2")
	case "z3-new":
		cmd = exec.Command("z3-new", "-in", "-smt2")
	case "cvc5":
		cmd = exec.Command("cvc5", "--incremental", "--lang=smt2", "--produce-models", fmt.Sprintf("--tlimit-per=%d", s.TimeoutMs), "--fp-exp")
	default:
		panic("unknown solver kind " + s.Kind)
	}
	in, err := cmd.StdinPipe()
	if err != nil {
		panic(err)
	}
	out, err := cmd.StdoutPipe()
	if err != nil {
		panic(err)
	}
	cmd.Stderr = cmd.Stdout
	if err := cmd.Start(); err != nil {
		panic(fmt.Sprintf("cannot start solver %s: %v", s.Kind, err))
	}
	s.cmd, s.in, s.out = cmd, in, bufio.NewReaderSize(out, 1<<16)
	s.options()
}

func (s *Solver) options() {
	switch s.Kind {
	case "z3", "z3-new":
		s.send(fmt.Sprintf("(set-option :timeout %d)", s.TimeoutMs))
		s.curTimeout = s.TimeoutMs
		if s.Seed != 0 {
			s.send(fmt.Sprintf("(set-option :random-seed %d)", s.Seed))
			s.send(fmt.Sprintf("(set-option :smt.random_seed %d)", s.Seed))
			s.send(fmt.Sprintf("(set-option :sat.random_seed %d)", s.Seed))
		}
	case "cvc5":
		s.send("(set-logic ALL)")
	}
}

func (s *Solver) send(line string) {
	if s.Log != nil {
		fmt.Fprintln(s.Log, line)
	}
	s.BytesSent += int64(len(line)) + 1
	io.WriteString(s.in, line)
	io.WriteString(s.in, "\n")
}

// DumpQuery writes a standalone SMT-LIB file for (asserted ∧ extras).
func (s *Solver) DumpQuery(path string, extras []*Term) {
	var sb strings.Builder
	for _, v := range s.ctx.Vars {
		fmt.Fprintf(&sb, "(declare-const %s %s)\n", v.Name, v.Sort)
	}
	for _, n := range s.ctx.FunOrder {
		sb.WriteString(s.ctx.Funs[n] + "\n")
	}
	for _, t := range s.asserted {
		sb.WriteString("(assert " + Print(t) + ")\n")
	}
	for _, t := range extras {
		sb.WriteString("(assert " + Print(t) + ")\n")
	}
	sb.WriteString("(check-sat)\n")
	os.WriteFile(path, []byte(sb.String()), 0o644)
}

// Close terminates the solver process.
func (s *Solver) Close() {
	if s.fresh != nil {
		s.fresh.Close()
	}
	if s.cmd != nil {
		s.in.Close()
		s.cmd.Process.Kill()
		s.cmd.Wait()
		s.cmd = nil
	}
}

// Begin starts a fresh problem bound to ctx.
func (s *Solver) Begin(ctx *Ctx) {
	if s.cmd == nil {
		s.start()
	} else {
		s.send("(reset)")
		s.options()
	}
	s.ctx = ctx
	s.nvars, s.nfuns = 0, 0
	s.asserted = s.asserted[:0]
}

func (s *Solver) declareNew() {
	for ; s.nvars < len(s.ctx.Vars); s.nvars++ {
		v := s.ctx.Vars[s.nvars]
		s.send(fmt.Sprintf("(declare-const %s %s)", v.Name, v.Sort))
	}
	for ; s.nfuns < len(s.ctx.FunOrder); s.nfuns++ {
		s.send(s.ctx.Funs[s.ctx.FunOrder[s.nfuns]])
	}
}

// Assert adds t permanently (for the current problem).
func (s *Solver) Assert(t *Term) {
	if t.IsTrue() {
		return
	}
	s.declareNew()
	s.send("(assert " + Print(t) + ")")
	s.asserted = append(s.asserted, t)
}

func (s *Solver) restart() {
	s.Close()
	s.start()
	s.nvars, s.nfuns = 0, 0
	s.declareNew()
	for _, t := range s.asserted {
		s.send("(assert " + Print(t) + ")")
	}
}

type lineRes struct {
	s   string
	err error
}

// readSexp reads one complete response (a line for atoms, balanced parens otherwise).
func (s *Solver) readResp(deadline time.Duration) (string, bool) {
	ch := make(chan lineRes, 1)
	go func() {
		var sb strings.Builder
		depth := 0
		started := false
		for {
			line, err := s.out.ReadString('\n')
			if err != nil {
				ch <- lineRes{sb.String(), err}
				return
			}
			inStr := false
			for _, c := range line {
				switch {
				case c == '"':
					inStr = !inStr
				case inStr:
				case c == '(':
					depth++
				case c == ')':
					depth--
				}
			}
			sb.WriteString(line)
			if strings.TrimSpace(line) != "" {
				started = true
			}
			if started && depth <= 0 {
				ch <- lineRes{sb.String(), nil}
				return
			}
		}
	}()
	select {
	case r := <-ch:
		if r.err != nil {
			return r.s, false
		}
		return strings.TrimSpace(r.s), true
	case <-time.After(deadline):
		return "", false
	}
}

// Check decides satisfiability of (asserted ∧ extras). If want is non-nil and the
// result is Sat, the values of those variables are returned. The incremental
// process is tried first with a short timeout; if it gives up, the query is
// re-decided from scratch by a second, non-incremental process (z3's
// bit-blasting pipeline), which is usually far stronger on arithmetic.
func (s *Solver) Check(extras []*Term, want []*Term) (Result, map[string]uint64) {
	if s.fresh == nil && s.Kind != "cvc5" && !s.NoFallback {
		s.fresh = &Solver{Kind: s.Kind, TimeoutMs: s.TimeoutMs, Seed: s.Seed, NoFallback: true, isFresh: true}
	}
	if s.fresh == nil {
		return s.checkInc(extras, want, s.TimeoutMs)
	}
	quick := s.QuickMs
	if quick == 0 {
		quick = 400
	}
	if !s.AlwaysFresh {
		r, m := s.checkInc(extras, want, quick)
		if r != Unknown {
			return r, m
		}
		s.NUnknown-- // not final
	}
	s.NFallback++
	f := s.fresh
	f.TimeoutMs = s.TimeoutMs
	f.Log = s.Log
	f.Begin(s.ctx)
	f.declareNew()
	for _, t := range s.asserted {
		f.send("(assert " + Print(t) + ")")
	}
	f.asserted = append(f.asserted[:0], s.asserted...)
	t0 := time.Now()
	r, m := f.checkInc(extras, want, s.TimeoutMs)
	s.SolverTime += time.Since(t0)
	if d := time.Since(t0); s.SlowLog != nil && d > 2*time.Second {
		fmt.Fprintf(s.SlowLog, "SLOW FALLBACK QUERY %.1fs result=%v asserted=%d extras=%d\n", d.Seconds(), r, len(s.asserted), len(extras))
		if dir := os.Getenv("SYMGO_DUMPSLOW"); dir != "" {
			s.ndump++
			s.DumpQuery(fmt.Sprintf("%s/f_%d_%d_%.0fs.smt2", dir, os.Getpid(), s.ndump+1000*s.Seed, d.Seconds()), extras)
		}
		for _, e := range extras {
			p := Print(e)
			if len(p) > 1500 {
				p = p[:1500] + "..."
			}
			fmt.Fprintf(s.SlowLog, "   extra: %s\n", p)
		}
	}
	switch r {
	case Sat:
		s.NSat++
	case Unsat:
		s.NUnsat++
	default:
		s.NUnknown++
		if f.LastError != "" {
			s.LastError = f.LastError
		}
	}
	return r, m
}

func (s *Solver) checkInc(extras []*Term, want []*Term, timeoutMs int) (Result, map[string]uint64) {
	s.declareNew()
	t0 := time.Now()
	defer func() { s.SolverTime += time.Since(t0) }()
	if s.Kind != "cvc5" && timeoutMs != s.curTimeout {
		s.send(fmt.Sprintf("(set-option :timeout %d)", timeoutMs))
		s.curTimeout = timeoutMs
	}
	if s.isFresh {
		return s.checkOnce(extras, want, timeoutMs)
	}
	s.send("(push 1)")
	for _, e := range extras {
		s.send("(assert " + Print(e) + ")")
	}
	s.send("(check-sat)")
	tq := time.Now()
	defer func() {
		if d := time.Since(tq); s.SlowLog != nil && d > 2*time.Second {
			fmt.Fprintf(s.SlowLog, "SLOW QUERY %.1fs asserted=%d extras=%d\n", d.Seconds(), len(s.asserted), len(extras))
			if dir := os.Getenv("SYMGO_DUMPSLOW"); dir != "" {
				s.ndump++
				s.DumpQuery(fmt.Sprintf("%s/q_%d_%d_%.0fs.smt2", dir, os.Getpid(), s.ndump+1000*s.Seed, d.Seconds()), extras)
			}
			for _, e := range extras {
				p := Print(e)
				if len(p) > 3000 {
					p = p[:3000] + "..."
				}
				fmt.Fprintf(s.SlowLog, "   extra: %s\n", p)
			}
		}
	}()
	resp, ok := s.readResp(time.Duration(timeoutMs)*time.Millisecond + 10*time.Second)
	if !ok {
		s.NUnknown++
		s.LastError = "solver hung or died: " + resp
		s.restart()
		return Unknown, nil
	}
	var res Result
	switch {
	case resp == "sat":
		res = Sat
	case resp == "unsat":
		res = Unsat
	case strings.Contains(resp, "(error"):
		if !strings.Contains(resp, "canceled") {
			s.NErrors++
		}
		s.LastError = resp
		s.NUnknown++
		// the solver state may be inconsistent: restart
		s.restart()
		return Unknown, nil
	default:
		res = Unknown
	}
	var model map[string]uint64
	if res == Sat && len(want) > 0 {
		var sb strings.Builder
		sb.WriteString("(get-value (")
		for _, v := range want {
			sb.WriteString(v.Name)
			sb.WriteByte(' ')
		}
		sb.WriteString("))")
		s.send(sb.String())
		mresp, ok := s.readResp(20 * time.Second)
		if !ok || strings.Contains(mresp, "(error") {
			s.NErrors++
			s.LastError = "get-value: " + mresp
			s.restart()
			s.NUnknown++
			return Unknown, nil
		}
		model = parseModel(mresp)
	}
	s.send("(pop 1)")
	switch res {
	case Sat:
		s.NSat++
	case Unsat:
		s.NUnsat++
	default:
		s.NUnknown++
	}
	return res, model
}

// DecideFresh decides (asserted ∧ extras) from scratch on this (dedicated) solver process.
func (s *Solver) DecideFresh(ctx *Ctx, asserted []*Term, extras []*Term) Result {
	s.isFresh = true
	s.NoFallback = true
	s.Begin(ctx)
	s.declareNew()
	for _, t := range asserted {
		s.send("(assert " + Print(t) + ")")
	}
	t0 := time.Now()
	r, _ := s.checkOnce(extras, nil, s.TimeoutMs)
	s.SolverTime += time.Since(t0)
	switch r {
	case Sat:
		s.NSat++
	case Unsat:
		s.NUnsat++
	default:
		s.NUnknown++
	}
	return r
}

// Asserted returns the permanent assertions of the current problem.
func (s *Solver) Asserted() []*Term { return s.asserted }

// checkOnce is the non-incremental variant: the process has just been reset and
// loaded with the assertions; extras are asserted permanently, then check-sat.
func (s *Solver) checkOnce(extras []*Term, want []*Term, timeoutMs int) (Result, map[string]uint64) {
	for _, e := range extras {
		s.send("(assert " + Print(e) + ")")
	}
	s.send("(check-sat)")
	resp, ok := s.readResp(time.Duration(timeoutMs)*time.Millisecond + 10*time.Second)
	if !ok {
		s.LastError = "solver hung or died: " + resp
		s.Close()
		return Unknown, nil
	}
	switch {
	case resp == "unsat":
		return Unsat, nil
	case resp == "sat":
		if len(want) == 0 {
			return Sat, nil
		}
		var sb strings.Builder
		sb.WriteString("(get-value (")
		for _, v := range want {
			sb.WriteString(v.Name)
			sb.WriteByte(' ')
		}
		sb.WriteString("))")
		s.send(sb.String())
		mresp, ok := s.readResp(20 * time.Second)
		if !ok || strings.Contains(mresp, "(error") {
			s.LastError = "get-value: " + mresp
			s.Close()
			return Unknown, nil
		}
		return Sat, parseModel(mresp)
	case strings.Contains(resp, "(error"):
		s.NErrors++
		s.LastError = resp
		s.Close()
		return Unknown, nil
	}
	return Unknown, nil
}

// parseModel parses "((x #x01) (y true) ...)".
func parseModel(resp string) map[string]uint64 {
	m := map[string]uint64{}
	toks := tokenize(resp)
	// expect ( ( name val ) ( name val ) ... )
	for i := 0; i+3 < len(toks); i++ {
		if toks[i] == "(" && toks[i+1] != "(" && toks[i+1] != ")" && toks[i+3] == ")" {
			name, val := toks[i+1], toks[i+2]
			if v, ok := parseVal(val); ok {
				m[name] = v
			}
		}
	}
	return m
}

func parseVal(val string) (uint64, bool) {
	switch {
	case val == "true":
		return 1, true
	case val == "false":
		return 0, true
	case strings.HasPrefix(val, "#x"):
		v, err := strconv.ParseUint(val[2:], 16, 64)
		return v, err == nil
	case strings.HasPrefix(val, "#b"):
		v, err := strconv.ParseUint(val[2:], 2, 64)
		return v, err == nil
	}
	return 0, false
}

func tokenize(s string) []string {
	var toks []string
	i := 0
	for i < len(s) {
		c := s[i]
		switch {
		case c == '(' || c == ')':
			toks = append(toks, string(c))
			i++
		case c == ' ' || c == '\n' || c == '\t' || c == '\r':
			i++
		default:
			j := i
			for j < len(s) && !strings.ContainsRune("() \n\t\r", rune(s[j])) {
				j++
			}
			toks = append(toks, s[i:j])
			i = j
		}
	}
	return toks
}
