package smt

import (
	"bufio"
	"fmt"
	"io"
	"os/exec"
	"strconv"
	"strings"
	"time"
)

type Result int

const (
	Unsat Result = iota
	Sat
	Unknown
)

func (r Result) String() string {
	switch r {
	case Unsat:
		return "unsat"
	case Sat:
		return "sat"
	}
	return "unknown"
}

// Solver drives one long-lived SMT solver process over pipes.
type Solver struct {
	Kind      string // "z3", "z3-new", "cvc5"
	TimeoutMs int
	Seed      int

	cmd   *exec.Cmd
	in    io.WriteCloser
	out   *bufio.Reader
	ctx   *Ctx
	nvars int // number of ctx.Vars already declared
	nfuns int
	// replay log for restart after a kill
	asserted []*Term

	// statistics
	NSat, NUnsat, NUnknown, NErrors int
	SolverTime                      time.Duration
	LastError                       string
	Log                             io.Writer // optional transcript
}

func NewSolver(kind string, timeoutMs, seed int) *Solver {
	s := &Solver{Kind: kind, TimeoutMs: timeoutMs, Seed: seed}
	return s
}

func (s *Solver) start() {
	var cmd *exec.Cmd
	switch s.Kind {
	case "z3":
		cmd = exec.Command("/usr/bin/z3", "-in", "-smt2")
	case "z3-new":
		cmd = exec.Command("z3-new", "-in", "-smt2")
	case "cvc5":
		cmd = exec.Command("cvc5", "--incremental", "--lang=smt2", "--produce-models", fmt.Sprintf("--tlimit-per=%d", s.TimeoutMs), "--fp-exp")
	default:
		panic("unknown solver kind " + s.Kind)
	}
	in, err := cmd.StdinPipe()
	if err != nil {
		panic(err)
	}
	out, err := cmd.StdoutPipe()
	if err != nil {
		panic(err)
	}
	cmd.Stderr = cmd.Stdout
	if err := cmd.Start(); err != nil {
		panic(fmt.Sprintf("cannot start solver %s: %v", s.Kind, err))
	}
	s.cmd, s.in, s.out = cmd, in, bufio.NewReaderSize(out, 1<<16)
	s.options()
}

func (s *Solver) options() {
	switch s.Kind {
	case "z3", "z3-new":
		s.send(fmt.Sprintf("(set-option :timeout %d)", s.TimeoutMs))
		if s.Seed != 0 {
			s.send(fmt.Sprintf("(set-option :random-seed %d)", s.Seed))
			s.send(fmt.Sprintf("(set-option :smt.random_seed %d)", s.Seed))
			s.send(fmt.Sprintf("(set-option :sat.random_seed %d)", s.Seed))
		}
	case "cvc5":
		s.send("(set-logic ALL)")
	}
}

func (s *Solver) send(line string) {
	if s.Log != nil {
		fmt.Fprintln(s.Log, line)
	}
	io.WriteString(s.in, line)
	io.WriteString(s.in, "\n")
}

// Close terminates the solver process.
func (s *Solver) Close() {
	if s.cmd != nil {
		s.in.Close()
		s.cmd.Process.Kill()
		s.cmd.Wait()
		s.cmd = nil
	}
}

// Begin starts a fresh problem bound to ctx.
func (s *Solver) Begin(ctx *Ctx) {
	if s.cmd == nil {
		s.start()
	} else {
		s.send("(reset)")
		s.options()
	}
	s.ctx = ctx
	s.nvars, s.nfuns = 0, 0
	s.asserted = s.asserted[:0]
}

func (s *Solver) declareNew() {
	for ; s.nvars < len(s.ctx.Vars); s.nvars++ {
		v := s.ctx.Vars[s.nvars]
		s.send(fmt.Sprintf("(declare-const %s %s)", v.Name, v.Sort))
	}
	for ; s.nfuns < len(s.ctx.FunOrder); s.nfuns++ {
		s.send(s.ctx.Funs[s.ctx.FunOrder[s.nfuns]])
	}
}

// Assert adds t permanently (for the current problem).
func (s *Solver) Assert(t *Term) {
	if t.IsTrue() {
		return
	}
	s.declareNew()
	s.send("(assert " + Print(t) + ")")
	s.asserted = append(s.asserted, t)
}

func (s *Solver) restart() {
	s.Close()
	s.start()
	s.nvars, s.nfuns = 0, 0
	s.declareNew()
	for _, t := range s.asserted {
		s.send("(assert " + Print(t) + ")")
	}
}

type lineRes struct {
	s   string
	err error
}

// readSexp reads one complete response (a line for atoms, balanced parens otherwise).
func (s *Solver) readResp(deadline time.Duration) (string, bool) {
	ch := make(chan lineRes, 1)
	go func() {
		var sb strings.Builder
		depth := 0
		started := false
		for {
			line, err := s.out.ReadString('\n')
			if err != nil {
				ch <- lineRes{sb.String(), err}
				return
			}
			inStr := false
			for _, c := range line {
				switch {
				case c == '"':
					inStr = !inStr
				case inStr:
				case c == '(':
					depth++
				case c == ')':
					depth--
				}
			}
			sb.WriteString(line)
			if strings.TrimSpace(line) != "" {
				started = true
			}
			if started && depth <= 0 {
				ch <- lineRes{sb.String(), nil}
				return
			}
		}
	}()
	select {
	case r := <-ch:
		if r.err != nil {
			return r.s, false
		}
		return strings.TrimSpace(r.s), true
	case <-time.After(deadline):
		return "", false
	}
}

// Check decides satisfiability of (asserted ∧ extras). If want is non-nil and the
// result is Sat, the values of those variables are returned.
func (s *Solver) Check(extras []*Term, want []*Term) (Result, map[string]uint64) {
	s.declareNew()
	t0 := time.Now()
	defer func() { s.SolverTime += time.Since(t0) }()
	s.send("(push 1)")
	for _, e := range extras {
		s.send("(assert " + Print(e) + ")")
	}
	s.send("(check-sat)")
	resp, ok := s.readResp(time.Duration(s.TimeoutMs)*time.Millisecond + 10*time.Second)
	if !ok {
		s.NUnknown++
		s.LastError = "solver hung or died: " + resp
		s.restart()
		return Unknown, nil
	}
	var res Result
	switch {
	case resp == "sat":
		res = Sat
	case resp == "unsat":
		res = Unsat
	case strings.Contains(resp, "(error"):
		s.NErrors++
		s.LastError = resp
		res = Unknown
		// the solver state may be inconsistent: restart
		s.restart()
		return res, nil
	default:
		res = Unknown
	}
	var model map[string]uint64
	if res == Sat && len(want) > 0 {
		var sb strings.Builder
		sb.WriteString("(get-value (")
		for _, v := range want {
			sb.WriteString(v.Name)
			sb.WriteByte(' ')
		}
		sb.WriteString("))")
		s.send(sb.String())
		mresp, ok := s.readResp(20 * time.Second)
		if !ok || strings.Contains(mresp, "(error") {
			s.NErrors++
			s.LastError = "get-value: " + mresp
			s.restart()
			s.NUnknown++
			return Unknown, nil
		}
		model = parseModel(mresp)
	}
	s.send("(pop 1)")
	switch res {
	case Sat:
		s.NSat++
	case Unsat:
		s.NUnsat++
	default:
		s.NUnknown++
	}
	return res, model
}

// parseModel parses "((x #x01) (y true) ...)".
func parseModel(resp string) map[string]uint64 {
	m := map[string]uint64{}
	toks := tokenize(resp)
	// expect ( ( name val ) ( name val ) ... )
	for i := 0; i+3 < len(toks); i++ {
		if toks[i] == "(" && toks[i+1] != "(" && toks[i+1] != ")" && toks[i+3] == ")" {
			name, val := toks[i+1], toks[i+2]
			if v, ok := parseVal(val); ok {
				m[name] = v
			}
		}
	}
	return m
}

func parseVal(val string) (uint64, bool) {
	switch {
	case val == "true":
		return 1, true
	case val == "false":
		return 0, true
	case strings.HasPrefix(val, "#x"):
		v, err := strconv.ParseUint(val[2:], 16, 64)
		return v, err == nil
	case strings.HasPrefix(val, "#b"):
		v, err := strconv.ParseUint(val[2:], 2, 64)
		return v, err == nil
	}
	return 0, false
}

func tokenize(s string) []string {
	var toks []string
	i := 0
	for i < len(s) {
		c := s[i]
		switch {
		case c == '(' || c == ')':
			toks = append(toks, string(c))
			i++
		case c == ' ' || c == '\n' || c == '\t' || c == '\r':
			i++
		default:
			j := i
			for j < len(s) && !strings.ContainsRune("() \n\t\r", rune(s[j])) {
				j++
			}
			toks = append(toks, s[i:j])
			i = j
		}
	}
	return toks
}
