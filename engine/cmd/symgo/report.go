package main

import (
	"bufio"
	"bytes"
	"encoding/json"
	"fmt"
	"os"
	"os/exec"
	"path/filepath"
	"sort"
	"strconv"
	"strings"
	"time"

	"verif/engine/interp"
)

type nativeCase struct {
	Harness string            `json:"harness"`
	Model   map[string]uint64 `json:"model"`
	Tier    int               `json:"tier"`
	// bookkeeping (not read by the native side)
	kind     string // "sample" | "failure"
	h        *hstate
	failure  *interp.Failure
	sample   *sample
	pkg      string
	idx      int
}

type nativeOut struct {
	Harness  string            `json:"harness"`
	Failed   []string          `json:"failed"`
	InRegion map[string]bool   `json:"in_region"`
	Observed map[string]string `json:"observed"`
	Reached  []string          `json:"reached"`
	Panic    string            `json:"panic"`
	Assume   bool              `json:"assume_failed"`
	Missing  []string          `json:"missing"`
	crashed  string
	ran      bool
}

func goEnv() []string {
	env := os.Environ()
	env = append(env, "GOFLAGS=-mod=mod", "GOPROXY=off", "GOSUMDB=off", "GOTOOLCHAIN=local",
		"PATH=/opt/veriftools/go1.26.8/bin:"+os.Getenv("PATH"))
	return env
}

func scratchDir() (string, error) {
	base := os.Getenv("TMPDIR")
	if base == "" {
		base = "/var/tmp"
	}
	return os.MkdirTemp(base, "verif-scratch.")
}

// buildNative builds the test binary of pkg (relative dir) with the overlay; returns its path.
func buildNative(o *options, scratch string, overlay map[string][]byte, rel string, harnessNames []string) (string, error) {
	pkgName, err := packageName(filepath.Join(o.repo, rel))
	if err != nil {
		return "", err
	}
	var tb strings.Builder
	tb.WriteString("//go:build verif\n\npackage " + pkgName + "\n\nimport (\n\t\"os\"\n\t\"strconv\"\n\t\"testing\"\n)\n\n")
	tb.WriteString("var zzTable = map[string]func(){\n")
	for _, n := range harnessNames {
		fmt.Fprintf(&tb, "\t%q: %s,\n", n, n)
	}
	tb.WriteString("}\n\nfunc TestZZReplay(t *testing.T) {\n\tonly := -1\n\tif s := os.Getenv(\"VERIF_REPLAY_ONLY\"); s != \"\" {\n\t\tonly, _ = strconv.Atoi(s)\n\t}\n")
	tb.WriteString("\tif err := zzRunCases(zzTable, os.Getenv(\"VERIF_REPLAY_IN\"), os.Getenv(\"VERIF_REPLAY_OUT\"), only); err != nil {\n\t\tt.Fatal(err)\n\t}\n}\n")
	repl := map[string]string{}
	n := 0
	add := func(virtual string, data []byte) error {
		n++
		real := filepath.Join(scratch, fmt.Sprintf("ov%d_%s", n, filepath.Base(virtual)))
		if err := os.WriteFile(real, data, 0o644); err != nil {
			return err
		}
		repl[virtual] = real
		return nil
	}
	for v, d := range overlay {
		if err := add(v, d); err != nil {
			return "", err
		}
	}
	if err := add(filepath.Join(o.repo, rel, "zz_verif_replay_test.go"), []byte(tb.String())); err != nil {
		return "", err
	}
	ovj, _ := json.Marshal(map[string]any{"Replace": repl})
	ovPath := filepath.Join(scratch, "overlay_"+strings.ReplaceAll(rel, "/", "_")+".json")
	if err := os.WriteFile(ovPath, ovj, 0o644); err != nil {
		return "", err
	}
	bin := filepath.Join(scratch, strings.ReplaceAll(rel, "/", "_")+".test")
	buildArgs := []string{"test", "-c", "-vet=off", "-tags=verif"}
	for _, d := range overlay {
		// a harness file carrying the line "//verif:race" asks for the native replay to be
		// built with the race detector (C05: a data race kills the replay = reproduced)
		if bytes.Contains(d, []byte("\n//verif:race\n")) {
			buildArgs = append(buildArgs, "-race")
			break
		}
	}
	buildArgs = append(buildArgs, "-overlay", ovPath, "-o", bin, "./"+rel)
	cmd := exec.Command("go", buildArgs...)
	cmd.Dir = o.repo
	cmd.Env = append(goEnv(), "GOCACHE="+filepath.Join(scratch, "gocache-"+fmt.Sprint(os.Getuid())))
	// reuse the default build cache when available (faster); fall back to scratch
	cmd.Env = goEnv()
	out, err := cmd.CombinedOutput()
	if err != nil {
		return "", fmt.Errorf("native build failed: %v\n%s", err, out)
	}
	return bin, nil
}

func runNativeBatch(bin, dir, scratch string, cases []*nativeCase, only int) (map[int]*nativeOut, string) {
	in := filepath.Join(scratch, fmt.Sprintf("cases_%d.json", time.Now().UnixNano()))
	outp := in + ".out"
	data, _ := json.Marshal(cases)
	os.WriteFile(in, data, 0o644)
	cmd := exec.Command(bin, "-test.run", "^TestZZReplay$", "-test.timeout", "20m")
	cmd.Dir = dir
	cmd.Env = append(os.Environ(), "VERIF_REPLAY_IN="+in, "VERIF_REPLAY_OUT="+outp, "GORACE=halt_on_error=1")
	if only >= 0 {
		cmd.Env = append(cmd.Env, "VERIF_REPLAY_ONLY="+strconv.Itoa(only))
	}
	var stderr bytes.Buffer
	cmd.Stdout = &stderr
	cmd.Stderr = &stderr
	err := cmd.Run()
	res := map[int]*nativeOut{}
	if f, e := os.Open(outp); e == nil {
		sc := bufio.NewScanner(f)
		sc.Buffer(make([]byte, 1<<20), 1<<26)
		for sc.Scan() {
			line := sc.Text()
			sp := strings.IndexByte(line, ' ')
			if sp < 0 {
				continue
			}
			idx, e := strconv.Atoi(line[:sp])
			if e != nil {
				continue
			}
			var no nativeOut
			if json.Unmarshal([]byte(line[sp+1:]), &no) == nil {
				no.ran = true
				res[idx] = &no
			}
		}
		f.Close()
	}
	os.Remove(in)
	os.Remove(outp)
	crash := ""
	if err != nil {
		s := stderr.String()
		if len(s) > 4000 {
			s = s[:2000] + "\n...\n" + s[len(s)-2000:]
		}
		crash = s
	}
	return res, crash
}

// nativeValidate replays failures and sampled traces against the natively compiled harnesses.
func nativeValidate(o *options, all []*hstate, overlay map[string][]byte, tier int) (cases []*nativeCase, outs map[*nativeCase]*nativeOut, err error) {
	outs = map[*nativeCase]*nativeOut{}
	byPkg := map[string][]*nativeCase{}
	names := map[string]map[string]bool{}
	for _, h := range all {
		rel := strings.TrimPrefix(h.H.Pkg, "go.starlark.net/")
		if names[rel] == nil {
			names[rel] = map[string]bool{}
		}
		names[rel][h.H.Name] = true
		var keys []string
		for k := range h.Failures {
			keys = append(keys, k)
		}
		sort.Strings(keys)
		for _, k := range keys {
			fs := h.Failures[k]
			for i := range fs {
				c := &nativeCase{Harness: h.H.Name, Model: fs[i].Model, Tier: tier, kind: "failure", h: h, failure: &fs[i], pkg: rel}
				byPkg[rel] = append(byPkg[rel], c)
			}
		}
		for i := range h.Samples {
			c := &nativeCase{Harness: h.H.Name, Model: h.Samples[i].Model, Tier: tier, kind: "sample", h: h, sample: &h.Samples[i], pkg: rel}
			byPkg[rel] = append(byPkg[rel], c)
		}
	}
	if len(byPkg) == 0 {
		return nil, outs, nil
	}
	scratch, err := scratchDir()
	if err != nil {
		return nil, outs, err
	}
	defer os.RemoveAll(scratch)
	var rels []string
	for rel := range byPkg {
		rels = append(rels, rel)
	}
	sort.Strings(rels)
	for _, rel := range rels {
		cs := byPkg[rel]
		var hn []string
		for n := range names[rel] {
			hn = append(hn, n)
		}
		sort.Strings(hn)
		bin, err := buildNative(o, scratch, overlay, rel, hn)
		if err != nil {
			return nil, outs, err
		}
		for i, c := range cs {
			c.idx = i
		}
		dir := filepath.Join(o.repo, rel)
		// fatal-expecting cases run isolated
		isFatal := func(c *nativeCase) bool {
			return c.kind == "failure" && (strings.HasSuffix(c.failure.ID, ".fatal") || strings.Contains(c.failure.Msg, "fatal"))
		}
		var normal []*nativeCase
		for _, c := range cs {
			if !isFatal(c) {
				normal = append(normal, c)
			}
		}
		_ = normal
		// Strategy: first try all cases in one process; any case without a result is re-run alone.
		res, crash := runNativeBatch(bin, dir, scratch, cs, -1)
		for i, c := range cs {
			if r, ok := res[i]; ok {
				outs[c] = r
			}
		}
		for i, c := range cs {
			if _, ok := outs[c]; ok {
				continue
			}
			r1, crash1 := runNativeBatch(bin, dir, scratch, cs, i)
			if r, ok := r1[i]; ok {
				outs[c] = r
			} else {
				outs[c] = &nativeOut{Harness: c.Harness, crashed: crash1}
			}
		}
		_ = crash
		cases = append(cases, cs...)
	}
	return cases, outs, nil
}

type verdict struct {
	violations []string
	knownLines []string
	inconcl    []string
	tvOK       int
	tvBad      []string
	replays    []string
}

func writeReplay(o *options, h *hstate, f *interp.Failure, n int, tier int) string {
	dir := filepath.Join(o.verif, "out", "replay")
	os.MkdirAll(dir, 0o755)
	name := fmt.Sprintf("%s-%s-%s-%d.json", o.prop, h.H.Name, strings.ReplaceAll(f.ID, "/", "_"), n)
	path := filepath.Join(dir, name)
	doc := map[string]any{
		"property": o.prop, "harness": h.H.Name, "package": h.H.Pkg, "assert": f.ID, "model": f.Model,
		"config": h.Config, "tier": tier, "known_region": f.Known, "decisions": f.Trace, "msg": f.Msg,
	}
	b, _ := json.MarshalIndent(doc, "", " ")
	os.WriteFile(path, b, 0o644)
	return path
}

func reproduced(c *nativeCase, no *nativeOut) (bool, string) {
	f := c.failure
	if no == nil {
		return false, "no native result"
	}
	if no.crashed != "" {
		if strings.Contains(no.crashed, "stack overflow") || strings.Contains(no.crashed, "goroutine stack exceeds") ||
			strings.Contains(no.crashed, "out of memory") || strings.Contains(no.crashed, "ZZFATAL-BEGIN") {
			return true, "native process died: " + firstLine(no.crashed, "fatal error")
		}
		return true, "native process crashed: " + firstLine(no.crashed, "panic")
	}
	if strings.HasSuffix(f.ID, ".panic") {
		if no.Panic != "" {
			return true, "native panic: " + no.Panic
		}
		return false, "no native panic"
	}
	for _, id := range no.Failed {
		if id == f.ID {
			if f.Known && !no.InRegion[id] {
				return false, "native failure outside the declared region"
			}
			return true, "native assertion failed"
		}
	}
	if no.Assume {
		return false, "native run violated an assumption (model does not satisfy the path condition natively)"
	}
	if no.Panic != "" {
		return false, "native run panicked instead: " + no.Panic
	}
	return false, "native assertion held"
}

func firstLine(s, key string) string {
	for _, l := range strings.Split(s, "\n") {
		if strings.Contains(l, key) {
			return strings.TrimSpace(l)
		}
	}
	ls := strings.Split(strings.TrimSpace(s), "\n")
	if len(ls) > 0 {
		return ls[0]
	}
	return ""
}

func report(o *options, all []*hstate, known map[string]string, overlay map[string][]byte, tier int, t0 time.Time, loadSecs float64) int {
	v := &verdict{}
	var cases []*nativeCase
	outs := map[*nativeCase]*nativeOut{}
	var nerr error
	if !o.noNative {
		cases, outs, nerr = nativeValidate(o, all, overlay, tier)
		if nerr != nil {
			fmt.Fprintf(os.Stderr, "BROKEN: %v\n", nerr)
			return 2
		}
	}
	broken := []string{}
	replayN := 0
	knownSeen := map[string]bool{}
	knownBenign := 0
	for _, c := range cases {
		no := outs[c]
		switch c.kind {
		case "sample":
			ok := no != nil && no.ran && no.crashed == "" && no.Panic == "" && !no.Assume && len(no.Failed) == 0
			why := ""
			if ok {
				for k, pv := range c.sample.Observed {
					if nv, has := no.Observed[k]; !has || nv != pv {
						ok = false
						why += fmt.Sprintf("observe %s: predicted %s native %s; ", k, pv, nv)
					}
				}
			} else if no != nil {
				why = fmt.Sprintf("panic=%q assume_failed=%v failed=%v crashed=%v", no.Panic, no.Assume, no.Failed, no.crashed != "")
			}
			if ok {
				v.tvOK++
			} else {
				m, _ := json.Marshal(c.Model)
				v.tvBad = append(v.tvBad, fmt.Sprintf("%s: %s model=%s", c.Harness, why, m))
			}
		case "failure":
			f := c.failure
			replayN++
			path := writeReplay(o, c.h, f, replayN, tier)
			rep, why := reproduced(c, no)
			switch {
			case !rep && f.Known:
				// inside a declared known-finding region nothing is claimed; a model that
				// happens to behave correctly natively is not an alarm
				knownBenign++
			case !rep:
				v.inconcl = append(v.inconcl, fmt.Sprintf("INCONCLUSIVE: property=%s harness=%s assert=%s counterexample does not reproduce natively (%s) replay=%s", o.prop, c.Harness, f.ID, why, path))
			case f.Known && known[f.ID] != "":
				if !knownSeen[f.ID] {
					knownSeen[f.ID] = true
					v.knownLines = append(v.knownLines, fmt.Sprintf("KNOWN-FINDING: property=%s %s: %s (replay=%s)", o.prop, f.ID, known[f.ID], path))
				}
			default:
				extra := ""
				if f.Known {
					extra = " (declared known region is not listed in known_findings.json)"
				}
				v.violations = append(v.violations, fmt.Sprintf("VIOLATION property=%s replay=%s harness=%s assert=%s %s%s", o.prop, path, c.Harness, f.ID, why, extra))
			}
		}
	}
	if o.noNative {
		for _, h := range all {
			for k, fs := range h.Failures {
				for i := range fs {
					replayN++
					path := writeReplay(o, h, &fs[i], replayN, tier)
					fmt.Printf("UNREPLAYED-FAILURE harness=%s assert=%s known=%v replay=%s\n", h.H.Name, k, fs[i].Known, path)
				}
			}
		}
	}

	// per-harness summary + vacuity
	var states, transitions int64
	funcs := map[string]bool{}
	unwind, aborts, unknowns := 0, 0, 0
	var hsum []map[string]any
	var samples []any
	notes := map[string]bool{}
	for _, h := range all {
		states += int64(h.Paths)
		transitions += h.Instrs
		for f := range h.Funcs {
			funcs[f] = true
		}
		for n := range h.Notes {
			notes[n] = true
		}
		unwind += h.Status["unwind"]
		aborts += h.Status["abort"]
		unknowns += h.Unknowns
		okPaths := h.Status["ok"] + h.Status["known"]
		if okPaths == 0 {
			broken = append(broken, fmt.Sprintf("%s[%s]: no path completed (vacuous) statuses=%v reasons=%v", h.H.Name, h.Config, h.Status, topReasons(h.Reasons, 3)))
		}
		var reached, checked []string
		for k, n := range h.Reached {
			if strings.HasPrefix(k, "!unknown:") {
				v.inconcl = append(v.inconcl, fmt.Sprintf("INCONCLUSIVE: property=%s harness=%s assert=%s undecided on %d path(s): solver returned unknown/timeout (reduce the bound)", o.prop, h.H.Name, strings.TrimPrefix(k, "!unknown:"), n))
				continue
			}
			reached = append(reached, k)
		}
		sort.Strings(reached)
		for k := range h.Checked {
			checked = append(checked, k)
		}
		sort.Strings(checked)
		hs := map[string]any{
			"harness": h.H.Name, "config": h.Config, "doc": h.H.Doc, "paths": h.Paths, "status": h.Status, "instructions": h.Instrs,
			"decisions": h.Decisions, "assertions_reached": reached, "assertions_discharged_on_some_path": checked,
			"bounds": h.Params, "truncated": h.Truncated, "wall_s": round1(h.Wall.Seconds()), "solver_unknowns": h.Unknowns,
		}
		if len(h.Reasons) > 0 {
			hs["reasons"] = topReasons(h.Reasons, 5)
		}
		hsum = append(hsum, hs)
		if len(h.Samples) > 0 && len(samples) < 12 {
			samples = append(samples, map[string]any{"harness": h.H.Name, "config": h.Config, "input": h.Samples[0].Model, "predicted_observations": h.Samples[0].Observed, "bounds": h.Params})
		}
		line := fmt.Sprintf("  %-40s [%s] paths=%d %v instrs=%d wall=%.1fs", h.H.Name, h.Config, h.Paths, h.Status, h.Instrs, h.Wall.Seconds())
		if h.Truncated {
			line += " TRUNCATED"
		}
		fmt.Println(line)
		if o.verbose || h.Status["abort"] > 0 || h.Status["unwind"] > 0 || okPaths == 0 {
			for _, r := range topReasons(h.Reasons, 4) {
				fmt.Println("      ", r)
			}
		}
	}
	if len(samples) == 0 {
		samples = append(samples, map[string]any{"note": "no sampled trace"})
	}
	var fl []string
	for f := range funcs {
		fl = append(fl, f)
	}
	sort.Strings(fl)
	var nl []string
	for n := range notes {
		nl = append(nl, n)
	}
	sort.Strings(nl)

	for _, l := range v.knownLines {
		fmt.Println(l)
	}
	for _, l := range v.inconcl {
		fmt.Println(l)
	}
	for _, l := range v.tvBad {
		fmt.Println("TV-MISMATCH:", l)
	}
	for _, l := range v.violations {
		fmt.Println(l)
	}
	for _, b := range broken {
		fmt.Println("BROKEN-HARNESS:", b)
	}
	ws := &workerStats
	wall := time.Since(t0).Seconds()
	tierName := "quick"
	if tier == 1 {
		tierName = "thorough"
	}
	ev := map[string]any{
		"property_id": o.prop,
		"tier":        tierName,
		"seed":        o.seed,
		"level":       "model_checking",
		"coverage": map[string]any{
			"states":                        states,
			"transitions":                   transitions,
			"traces_validated_against_impl": v.tvOK,
			"traces_mismatching_impl":       len(v.tvBad),
			"samples":                       samples,
			"functions_encoded":             fl,
			"harnesses":                     hsum,
			"queries":                       map[string]int{"sat": ws.sat, "unsat": ws.unsat, "unknown": ws.unknown, "errors": ws.errors},
			"solver_s":                      round1(ws.secs),
			"queries_redecided_non_incrementally": ws.fallbacks,
			"assertion_queries_cross_checked":    ws.crossChecked,
			"cross_solver_disagreements":         ws.crossDisagree,
			"solver":                        o.solver,
			"load_and_ssa_build_s":          round1(loadSecs),
			"unwinding_failures":            unwind,
			"aborted_paths":                 aborts,
			"inconclusive":                  len(v.inconcl) + len(v.tvBad),
			"known_findings":                nonNil(v.knownLines),
			"known_region_models_benign_natively": knownBenign,
			"exhaustive":                    false,
			"explanation":                   "states = symbolic paths completed or pruned; transitions = SSA instructions interpreted; each path's assertions are decided by the SMT solver for all inputs satisfying its path condition, within the bounds listed per harness",
		},
		"assumptions": append([]string{
			"SSA semantics as implemented by the forked x/tools ssa/interp with SMT terms for scalars",
			"solver verdicts (z3 4.8.12) are trusted; unknown/timeouts are reported, never counted as success",
			"environment stubs listed in DESIGN.md section 2.5",
		}, nl...),
		"wall_s":     round1(wall),
		"violations": len(v.violations),
	}
	evdir := filepath.Join(o.verif, "evidence")
	os.MkdirAll(evdir, 0o755)
	b, _ := json.MarshalIndent(ev, "", " ")
	if o.only == "" {
		os.WriteFile(filepath.Join(evdir, o.prop+".json"), b, 0o644)
	}
	fmt.Printf("[%s] %s: paths=%d instrs=%d queries sat=%d unsat=%d unknown=%d errors=%d solver=%.1fs tv_ok=%d tv_bad=%d unwind=%d abort=%d wall=%.1fs\n",
		o.prop, tierName, states, transitions, ws.sat, ws.unsat, ws.unknown, ws.errors, ws.secs, v.tvOK, len(v.tvBad), unwind, aborts, wall)
	if ws.lastErr != "" {
		fmt.Println("  last solver error:", ws.lastErr)
	}
	if ws.crossChecked > 0 {
		fmt.Printf("  cross-checked %d discharged assertion queries with a second solver: %d disagreements\n", ws.crossChecked, ws.crossDisagree)
	}
	if ws.crossDisagree > 0 {
		fmt.Println("SOLVER-DISAGREEMENT: results are inconclusive")
	}
	if len(v.violations) > 0 {
		return 1
	}
	if len(broken) > 0 {
		return 3
	}
	return 0
}

func nonNil(a []string) []string {
	if a == nil {
		return []string{}
	}
	return a
}

func round1(f float64) float64 { return float64(int(f*10+0.5)) / 10 }

func topReasons(m map[string]int, n int) []string {
	type kv struct {
		k string
		v int
	}
	var kvs []kv
	for k, v := range m {
		kvs = append(kvs, kv{k, v})
	}
	sort.Slice(kvs, func(i, j int) bool {
		if kvs[i].v != kvs[j].v {
			return kvs[i].v > kvs[j].v
		}
		return kvs[i].k < kvs[j].k
	})
	var out []string
	for i, e := range kvs {
		if i >= n {
			break
		}
		out = append(out, fmt.Sprintf("%dx %s", e.v, e.k))
	}
	return out
}

// cmdReplay re-runs one replay file natively and reports what happened.
func cmdReplay(args []string) int {
	if len(args) < 1 {
		fmt.Fprintln(os.Stderr, "usage: symgo replay <file.json>")
		return 2
	}
	data, err := os.ReadFile(args[0])
	if err != nil {
		fmt.Fprintln(os.Stderr, err)
		return 2
	}
	var doc struct {
		Property string            `json:"property"`
		Harness  string            `json:"harness"`
		Package  string            `json:"package"`
		Assert   string            `json:"assert"`
		Model    map[string]uint64 `json:"model"`
		Tier     int               `json:"tier"`
		Known    bool              `json:"known_region"`
	}
	if err := json.Unmarshal(data, &doc); err != nil {
		fmt.Fprintln(os.Stderr, err)
		return 2
	}
	o := &options{prop: doc.Property, repo: envDefault("VERIF_REPO", "/repo"), verif: envDefault("VERIF_DIR", "/verif")}
	overlay, _, err := harnessFiles(o, doc.Property)
	if err != nil {
		fmt.Fprintln(os.Stderr, err)
		return 2
	}
	scratch, err := scratchDir()
	if err != nil {
		fmt.Fprintln(os.Stderr, err)
		return 2
	}
	defer os.RemoveAll(scratch)
	rel := strings.TrimPrefix(doc.Package, "go.starlark.net/")
	bin, err := buildNative(o, scratch, overlay, rel, []string{doc.Harness})
	if err != nil {
		fmt.Fprintln(os.Stderr, err)
		return 2
	}
	f := &interp.Failure{ID: doc.Assert, Model: doc.Model, Known: doc.Known}
	c := &nativeCase{Harness: doc.Harness, Model: doc.Model, Tier: doc.Tier, kind: "failure", failure: f}
	res, crash := runNativeBatch(bin, filepath.Join(o.repo, rel), scratch, []*nativeCase{c}, 0)
	no := res[0]
	if no == nil {
		no = &nativeOut{crashed: crash}
	}
	rep, why := reproduced(c, no)
	ob, _ := json.Marshal(no)
	fmt.Printf("replay %s: harness=%s assert=%s reproduced=%v (%s)\nnative result: %s\n", args[0], doc.Harness, doc.Assert, rep, why, ob)
	if rep {
		fmt.Printf("VIOLATION property=%s replay=%s\n", doc.Property, args[0])
		return 1
	}
	return 0
}
