// Command symgo runs the solver-based checks for one property.
package main

import (
	"encoding/json"
	"flag"
	"fmt"
	"os"
	"path/filepath"
	"regexp"
	"sort"
	"strings"
	"sync"
	"time"

	"verif/engine/interp"
)

type task struct {
	h      *hstate
	prefix []interp.Decision
}

type hstate struct {
	H        *interp.Harness
	Config   string
	mu       sync.Mutex
	Paths    int
	Status   map[string]int
	Reasons  map[string]int
	Failures map[string][]interp.Failure // by assert id (first few)
	NFail    map[string]int
	Reached  map[string]int
	Checked  map[string]int
	Instrs   int64
	Decisions int64
	Unknowns int
	Samples  []sample
	Funcs    map[string]bool
	Params   map[string]int
	Notes    map[string]bool
	Truncated bool
	scheduled int
	maxPaths  int
	Wall     time.Duration
	start    time.Time
	MaxDepthSeen int
}

type sample struct {
	Model    map[string]uint64 `json:"model"`
	Observed map[string]string `json:"predicted"`
	Trace    int               `json:"decisions"`
}

type options struct {
	prop     string
	tier     string
	repo     string
	verif    string
	workers  int
	seed     int
	only     string
	solver   string
	noNative bool
	verbose  bool
	samplesK int
	timeoutMs int
	cross     string
}

func main() {
	os.Setenv("PATH", "/opt/veriftools/go1.26.8/bin:"+os.Getenv("PATH"))
	os.Setenv("GOFLAGS", "-mod=mod")
	os.Setenv("GOPROXY", "off")
	os.Setenv("GOSUMDB", "off")
	os.Setenv("GOTOOLCHAIN", "local")
	if len(os.Args) < 2 {
		fmt.Fprintln(os.Stderr, "usage: symgo run|replay ...")
		os.Exit(2)
	}
	switch os.Args[1] {
	case "run":
		os.Exit(cmdRun(os.Args[2:]))
	case "replay":
		os.Exit(cmdReplay(os.Args[2:]))
	default:
		fmt.Fprintln(os.Stderr, "unknown command", os.Args[1])
		os.Exit(2)
	}
}

func envDefault(k, d string) string {
	if v := os.Getenv(k); v != "" {
		return v
	}
	return d
}

func cmdRun(args []string) int {
	fs := flag.NewFlagSet("run", flag.ExitOnError)
	var o options
	fs.StringVar(&o.prop, "prop", "", "property id (C01..C20)")
	fs.StringVar(&o.tier, "tier", envDefault("VERIF_TIER", "quick"), "quick|thorough")
	fs.StringVar(&o.repo, "repo", envDefault("VERIF_REPO", "/repo"), "repository root")
	fs.StringVar(&o.verif, "verif", envDefault("VERIF_DIR", "/verif"), "verif root")
	fs.IntVar(&o.workers, "workers", 16, "parallel workers")
	fs.IntVar(&o.seed, "seed", 0, "seed")
	fs.StringVar(&o.only, "only", "", "regexp selecting harness names")
	fs.StringVar(&o.solver, "solver", "z3", "z3|z3-new|cvc5")
	fs.BoolVar(&o.noNative, "no-native", false, "skip native replay/validation (development only)")
	fs.BoolVar(&o.verbose, "v", false, "verbose")
	fs.IntVar(&o.samplesK, "samples", 0, "traces validated natively per harness (default 4 quick / 16 thorough)")
	fs.IntVar(&o.timeoutMs, "timeout", 0, "solver timeout per query in ms")
	fs.StringVar(&o.cross, "cross", "", "second solver re-deciding every discharged assertion (default: z3-new in the thorough tier, none in quick; 'none' disables)")
	fs.Parse(args)
	if s := os.Getenv("VERIF_SEED"); s != "" && o.seed == 0 {
		fmt.Sscan(s, &o.seed)
	}
	if o.prop == "" {
		fmt.Fprintln(os.Stderr, "missing -prop")
		return 2
	}
	return runProperty(&o)
}

// harnessFiles returns overlay path -> content for the property, and the packages involved.
func harnessFiles(o *options, prop string) (map[string][]byte, []string, error) {
	overlay := map[string][]byte{}
	pkgset := map[string]bool{}
	root := filepath.Join(o.verif, "harness")
	lc := strings.ToLower(prop)
	err := filepath.Walk(root, func(path string, info os.FileInfo, err error) error {
		if err != nil || info.IsDir() {
			return err
		}
		base := filepath.Base(path)
		if !strings.HasSuffix(base, ".go") || !strings.HasPrefix(base, "zz_verif_") {
			return nil
		}
		if !(strings.HasPrefix(base, "zz_verif_"+lc) || strings.HasPrefix(base, "zz_verif_common")) {
			return nil
		}
		rel, _ := filepath.Rel(root, filepath.Dir(path))
		data, err := os.ReadFile(path)
		if err != nil {
			return err
		}
		overlay[filepath.Join(o.repo, rel, base)] = data
		if strings.HasPrefix(base, "zz_verif_"+lc) {
			pkgset[rel] = true
		}
		return nil
	})
	if err != nil {
		return nil, nil, err
	}
	// drop common files of packages without a property harness
	for p := range overlay {
		rel, _ := filepath.Rel(o.repo, filepath.Dir(p))
		if !pkgset[rel] {
			delete(overlay, p)
		}
	}
	tmpl, err := os.ReadFile(filepath.Join(root, "zz_verif_rt.go.tmpl"))
	if err != nil {
		return nil, nil, err
	}
	var pkgs []string
	for rel := range pkgset {
		pkgs = append(pkgs, rel)
		name, err := packageName(filepath.Join(o.repo, rel))
		if err != nil {
			return nil, nil, err
		}
		overlay[filepath.Join(o.repo, rel, "zz_verif_rt.go")] = []byte(strings.Replace(string(tmpl), "PKGNAME", name, 1))
	}
	sort.Strings(pkgs)
	return overlay, pkgs, nil
}

var pkgClause = regexp.MustCompile(`(?m)^package\s+(\w+)`)

func packageName(dir string) (string, error) {
	ents, err := os.ReadDir(dir)
	if err != nil {
		return "", err
	}
	for _, e := range ents {
		n := e.Name()
		if strings.HasSuffix(n, ".go") && !strings.HasSuffix(n, "_test.go") && !strings.HasPrefix(n, "zz_verif") {
			data, err := os.ReadFile(filepath.Join(dir, n))
			if err != nil {
				continue
			}
			if m := pkgClause.FindSubmatch(data); m != nil {
				return string(m[1]), nil
			}
		}
	}
	return "", fmt.Errorf("no package clause found in %s", dir)
}

type knownFile struct {
	Findings []struct {
		Property string `json:"property"`
		ID       string `json:"id"`
		What     string `json:"what"`
	} `json:"findings"`
	Fixed []string `json:"fixed"`
}

func loadKnown(o *options) map[string]string {
	m := map[string]string{}
	data, err := os.ReadFile(filepath.Join(o.verif, "known_findings.json"))
	if err != nil {
		return m
	}
	var kf knownFile
	if json.Unmarshal(data, &kf) != nil {
		return m
	}
	for _, f := range kf.Findings {
		m[f.ID] = f.What
	}
	return m
}

func loadProgram(o *options, cfgName string, overlay map[string][]byte, pkgs []string) (*interp.Program, error) {
	var pats []string
	for _, p := range pkgs {
		pats = append(pats, "./"+p)
	}
	lc := interp.LoadConfig{
		Dir:       o.repo,
		Patterns:  pats,
		Overlay:   overlay,
		Tags:      []string{"verif", "math_big_pure_go"},
		TargetMod: "go.starlark.net",
		Env:       []string{"GOFLAGS=-mod=mod", "GOPROXY=off", "GOSUMDB=off", "GOTOOLCHAIN=local", "PATH=/opt/veriftools/go1.26.8/bin:" + os.Getenv("PATH")},
	}
	switch cfgName {
	case "generic":
		lc.GOARCH = "riscv64"
	case "posix64", "posix64-nommap":
		lc.GOARCH = "amd64"
	}
	p, err := interp.Load(lc)
	if err != nil {
		return nil, err
	}
	p.Config = cfgName
	p.MmapFails = cfgName == "posix64-nommap"
	return p, nil
}

func runProperty(o *options) int {
	t0 := time.Now()
	tier := 0
	if o.tier == "thorough" {
		tier = 1
	}
	overlay, pkgs, err := harnessFiles(o, o.prop)
	if err != nil {
		fmt.Fprintln(os.Stderr, "error:", err)
		return 2
	}
	if len(pkgs) == 0 {
		fmt.Fprintf(os.Stderr, "no harness files for %s\n", o.prop)
		return 2
	}
	known := loadKnown(o)
	var onlyRe *regexp.Regexp
	if o.only != "" {
		onlyRe = regexp.MustCompile(o.only)
	}

	// discover harnesses with the default configuration first
	configs := []string{"generic"}
	seenCfg := map[string]bool{"generic": true}
	var all []*hstate
	var loadSecs float64
	for ci := 0; ci < len(configs); ci++ {
		cfg := configs[ci]
		tl := time.Now()
		prog, err := loadProgram(o, cfg, overlay, pkgs)
		if err != nil {
			fmt.Fprintf(os.Stderr, "BROKEN: cannot load program (%s): %v\n", cfg, err)
			return 2
		}
		loadSecs += time.Since(tl).Seconds()
		hs := prog.Harnesses("zzH" + strings.TrimPrefix(o.prop, "C"))
		var run []*hstate
		for _, h := range hs {
			hcfgs := h.Configs
			if tier == 0 && len(h.ConfigsQuick) > 0 {
				hcfgs = h.ConfigsQuick
			}
			if len(hcfgs) == 0 {
				hcfgs = []string{"generic"}
			}
			for _, c := range hcfgs {
				if !seenCfg[c] {
					seenCfg[c] = true
					configs = append(configs, c)
				}
			}
			if !contains(hcfgs, cfg) {
				continue
			}
			if onlyRe != nil && !onlyRe.MatchString(h.Name) {
				continue
			}
			if h.ThoroughOnly && tier == 0 {
				continue
			}
			if h.QuickOnly && tier == 1 {
				continue
			}
			run = append(run, newHState(h, cfg, tier))
		}
		if len(run) > 0 {
			fmt.Printf("[%s] config %s: %d harnesses, load %.1fs\n", o.prop, cfg, len(run), time.Since(tl).Seconds())
			explore(o, prog, run, tier)
			all = append(all, run...)
		}
	}
	if len(all) == 0 {
		fmt.Fprintf(os.Stderr, "BROKEN: no harness selected for %s\n", o.prop)
		return 2
	}
	return report(o, all, known, overlay, tier, t0, loadSecs)
}

func contains(a []string, s string) bool {
	for _, x := range a {
		if x == s {
			return true
		}
	}
	return false
}

func newHState(h *interp.Harness, cfg string, tier int) *hstate {
	hs := &hstate{H: h, Config: cfg, Status: map[string]int{}, Reasons: map[string]int{}, Failures: map[string][]interp.Failure{},
		NFail: map[string]int{}, Reached: map[string]int{}, Checked: map[string]int{}, Funcs: map[string]bool{}, Params: map[string]int{}, Notes: map[string]bool{}}
	hs.maxPaths = h.MaxPaths
	if hs.maxPaths == 0 {
		hs.maxPaths = 200000
		if tier == 1 {
			hs.maxPaths = 2000000
		}
	}
	return hs
}

var workerStats struct {
	mu                               sync.Mutex
	sat, unsat, unknown, errors      int
	secs                             float64
	lastErr                          string
	crossChecked, crossDisagree, fallbacks int
}

func explore(o *options, prog *interp.Program, hs []*hstate, tier int) {
	var mu sync.Mutex
	cond := sync.NewCond(&mu)
	var stack []task
	active := 0
	for i := len(hs) - 1; i >= 0; i-- {
		stack = append(stack, task{hs[i], nil})
		hs[i].scheduled = 1
		hs[i].start = time.Now()
	}
	nw := o.workers
	sampleK := o.samplesK
	if sampleK == 0 {
		sampleK = 4
		if tier == 1 {
			sampleK = 16
		}
	}
	var wg sync.WaitGroup
	initErr := ""
	stopProgress := make(chan struct{})
	if os.Getenv("SYMGO_PROGRESS") != "0" {
		go func() {
			tk := time.NewTicker(60 * time.Second)
			defer tk.Stop()
			for {
				select {
				case <-stopProgress:
					return
				case <-tk.C:
					mu.Lock()
					q := len(stack)
					mu.Unlock()
					line := fmt.Sprintf("[progress %s] queue=%d", prog.Config, q)
					for _, h := range hs {
						h.mu.Lock()
						done := ""
						if h.Paths >= h.scheduled {
							done = fmt.Sprintf("(done %.0fs)", h.Wall.Seconds())
						}
						line += fmt.Sprintf(" %s:%d/%d%s", strings.TrimPrefix(h.H.Name, "zzH"), h.Paths, h.scheduled, done)
						h.mu.Unlock()
					}
					fmt.Println(line)
				}
			}
		}()
	}
	defer close(stopProgress)
	for wi := 0; wi < nw; wi++ {
		wg.Add(1)
		go func(wi int) {
			defer wg.Done()
			tmo := o.timeoutMs
			if tmo == 0 {
				tmo = 30000
				if tier == 1 {
					tmo = 300000
				}
			}
			w := interp.NewWorker(prog, o.solver, tmo, o.seed)
			cross := o.cross
			if cross == "" && tier == 1 {
				cross = "z3-new"
			}
			if cross != "" && cross != "none" {
				w.EnableCross(cross, tmo)
			}
			defer func() {
				s, u, k, e, secs, le := w.SolverStats()
				workerStats.mu.Lock()
				cc, cd := w.CrossStats()
				workerStats.crossChecked += cc
				workerStats.crossDisagree += cd
				workerStats.fallbacks += w.Fallbacks()
				workerStats.sat += s
				workerStats.unsat += u
				workerStats.unknown += k
				workerStats.errors += e
				workerStats.secs += secs
				if le != "" {
					workerStats.lastErr = le
				}
				workerStats.mu.Unlock()
				w.Close()
			}()
			if w.InitErr != "" {
				mu.Lock()
				initErr = w.InitErr
				mu.Unlock()
				return
			}
			for {
				mu.Lock()
				for len(stack) == 0 && active > 0 {
					cond.Wait()
				}
				if len(stack) == 0 && active == 0 {
					mu.Unlock()
					cond.Broadcast()
					return
				}
				t := stack[len(stack)-1]
				stack = stack[:len(stack)-1]
				active++
				mu.Unlock()

				h := t.h
				lim := interp.DefaultLimits()
				lim.QueryTimeoutMs = tmo
				if h.H.Unwind > 0 {
					lim.Unwind = h.H.Unwind
				}
				if h.H.Concretize > 0 {
					lim.MaxConcretize = h.H.Concretize
				}
				if h.H.MaxDecisions > 0 {
					lim.MaxDecisions = h.H.MaxDecisions
				}
				if h.H.MaxDepth > 0 {
					lim.MaxDepth = h.H.MaxDepth
				}
				if h.H.TimeoutMs > 0 {
					lim.QueryTimeoutMs = h.H.TimeoutMs
				}
				lim.FreshSolver = h.H.FreshSolver || os.Getenv("SYMGO_FRESH") != ""
				h.mu.Lock()
				wantSample := len(h.Samples) < sampleK
				h.mu.Unlock()
				tp0 := time.Now()
				res := w.RunPath(h.H.Fn, t.prefix, lim, wantSample, tier)
				if os.Getenv("SYMGO_PATHLOG") != "" {
					var ch []string
					for _, d := range res.Trace {
						if d.K == 'n' {
							ch = append(ch, fmt.Sprint(d.V))
						}
					}
					fmt.Fprintf(os.Stderr, "PATH %s %.2fs instrs=%d decisions=%d status=%s choices=%s\n", h.H.Name, time.Since(tp0).Seconds(), res.Instrs, res.Decisions, res.Status, strings.Join(ch, ","))
				}

				h.mu.Lock()
				h.Paths++
				h.Status[res.Status]++
				if res.Status != "ok" && res.Status != "assume" && res.Status != "known" {
					r := res.Reason
					if len(r) > 300 && !o.verbose {
						r = r[:300]
					}
					h.Reasons[res.Status+": "+r]++
				}
				for _, f := range res.Failures {
					h.NFail[f.ID]++
					key := f.ID
					if f.Known {
						key = f.ID + "#known"
					}
					if len(h.Failures[key]) < 3 {
						h.Failures[key] = append(h.Failures[key], f)
					}
				}
				for k, v := range res.Reached {
					h.Reached[k] += v
				}
				for k, v := range res.Checked {
					h.Checked[k] += v
				}
				for k := range res.Funcs {
					h.Funcs[k] = true
				}
				for k, v := range res.Params {
					h.Params[k] = v
				}
				for k := range res.Assumes {
					h.Notes[k] = true
				}
				h.Instrs += res.Instrs
				h.Decisions += int64(res.Decisions)
				h.Unknowns += res.Unknowns
				if res.Status == "ok" && res.Model != nil && len(h.Samples) < sampleK {
					h.Samples = append(h.Samples, sample{res.Model, res.Observed, res.Decisions})
				}
				var alts [][]interp.Decision
				for _, a := range res.Alts {
					if h.scheduled >= h.maxPaths {
						h.Truncated = true
						break
					}
					h.scheduled++
					alts = append(alts, a)
				}
				h.Wall = time.Since(h.start)
				h.mu.Unlock()

				mu.Lock()
				for _, a := range alts {
					stack = append(stack, task{h, a})
				}
				active--
				mu.Unlock()
				cond.Broadcast()
			}
		}(wi)
	}
	wg.Wait()
	if initErr != "" {
		fmt.Fprintf(os.Stderr, "BROKEN: worker initialisation failed: %s\n", initErr)
		os.Exit(2)
	}
}
