#!/bin/sh
# Development helper: runs every property's check for a tier sequentially and prints a summary.
tier="${1:-quick}"; shift
props="${@:-C01 C02 C03 C04 C05 C06 C07 C08 C09 C10 C11 C12 C13 C14 C15 C16 C17 C18 C19 C20}"
mkdir -p out/logs
for p in $props; do
  s=$(date +%s)
  timeout ${RUN_TIMEOUT:-3600} ./check $p $tier > out/logs/$p.$tier.log 2>&1; rc=$?
  e=$(date +%s)
  echo "$p $tier rc=$rc $((e-s))s $(grep -c '^VIOLATION' out/logs/$p.$tier.log) viol $(grep -c '^KNOWN-FINDING' out/logs/$p.$tier.log) known $(grep -c '^INCONCLUSIVE' out/logs/$p.$tier.log) inconcl $(grep -c '^TV-MISMATCH' out/logs/$p.$tier.log) tvbad $(grep -c 'BROKEN' out/logs/$p.$tier.log) broken | $(grep "^\[$p\] $tier" out/logs/$p.$tier.log | sed 's/.*paths=/paths=/' | cut -c1-150)"
done
